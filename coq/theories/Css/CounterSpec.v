(* Css/CounterSpec.v -- CSS Counter Styles Level 3 (sections 2, 3 and 6) as
   mathematical definitions, independent of the code and of Css/Counters.v.

   Strings are lists of code points.  Integers are unbounded (Z); `mod` and
   `/` are the mathematical (floor) ones.  A counter symbol is a string
   (images are not modelled).

   Layout
   1  the six algorithms (3.1.1 - 3.1.6) on a list of symbols and an integer;
   2  "generate a counter representation" (section 2) for a style whose
      descriptors are known: range (3.3), negative (3.2), pad (3.4);
   3  tables of @counter-style rules: `extends` (3.1.7: unknown styles and
      cycles extend decimal), `fallback` (3.6: unknown style or loop ->
      decimal), and the resulting representation of a value in a named style;
   4  markers (prefix / suffix, 3.5). *)
From Coq Require Import List ZArith NArith Bool Lia.
Import ListNotations.
Open Scope Z_scope.

Notation sstr := (list N) (only parsing).        (* a string *)
Notation sname := (list N) (only parsing).       (* a counter style name *)

Fixpoint srepeat (s : sstr) (n : nat) : sstr :=
  match n with O => [] | S k => s ++ srepeat s k end.

Definition slen {A} (l : list A) : Z := Z.of_nat (length l).

(* the i-th symbol (0 based) *)
Definition sym_at (syms : list sstr) (i : Z) : option sstr :=
  if i <? 0 then None else nth_error syms (Z.to_nat i).

(* ------------------------------------------------------------------ 1. algorithms *)

(* 3.1.1 cyclic: "the counter symbol at index ((value - 1) mod length)";
   defined over all integers *)
Definition cyclic_repr (syms : list sstr) (v : Z) : option sstr :=
  sym_at syms ((v - 1) mod slen syms).

(* 3.1.2 fixed: "the first counter symbol is the representation for the
   first symbol value, and subsequent counter values are represented by
   subsequent counter symbols.  Once the list is exhausted, further values
   cannot be represented" *)
Definition fixed_repr (first : Z) (syms : list sstr) (v : Z) : option sstr :=
  if (first <=? v) && (v <? first + slen syms) then sym_at syms (v - first) else None.

(* 3.1.3 symbolic: "cycles repeatedly through its provided symbols, doubling,
   tripling, etc. the symbols on each successive pass": with N the length,
   the chosen symbol is the one at ((value - 1) mod N), used ceil(value / N)
   times.  Defined only over strictly positive values *)
Definition symbolic_repr (syms : list sstr) (v : Z) : option sstr :=
  if v <? 1 then None
  else match sym_at syms ((v - 1) mod slen syms) with
       | Some s => Some (srepeat s (Z.to_nat ((v + slen syms - 1) / slen syms)))
       | None => None
       end.

(* value of a digit list, most significant digit first, in base L *)
Definition digits_value (L : Z) (ds : list Z) : Z :=
  fold_left (fun acc d => acc * L + d) ds 0.

(* 3.1.4 alphabetic: "interprets the list of counter symbols as digits to an
   alphabetic numbering system ... a -> 1 ... there is no digit representing
   zero": bijective numeration in base L with digits 1..L *)
Definition alphabetic_digits (L v : Z) (ds : list Z) : Prop :=
  ds <> [] /\ Forall (fun d => 1 <= d <= L) ds /\ digits_value L ds = v.

(* 3.1.5 numeric: "a place-value numbering system ... the first counter
   symbol is interpreted as the digit 0": the positional representation of
   v >= 0 in base L without leading zero (the single digit 0 for 0) *)
Definition numeric_digits (L v : Z) (ds : list Z) : Prop :=
  ds <> [] /\ Forall (fun d => 0 <= d < L) ds /\ (hd 0 ds <> 0 \/ ds = [0]) /\ digits_value L ds = v.

(* the string of a digit list: the symbols of the digits, concatenated;
   `off` is the value of the first symbol (1 for alphabetic, 0 for numeric) *)
Definition digits_string (syms : list sstr) (off : Z) (ds : list Z) : sstr :=
  concat (map (fun d => match sym_at syms (d - off) with Some s => s | None => [] end) ds).

(* 3.1.6 additive: the algorithm of the specification.  The tuples are
   ordered by strictly decreasing weight; for a non null value each tuple is
   used floor(value / weight) times (tuples of weight 0, or heavier than what
   remains, are skipped) until nothing remains.  Result: the number of times
   each tuple is used; None when something remains after the last tuple. *)
Fixpoint additive_reps (ws : list Z) (v : Z) : option (list Z) :=
  match ws with
  | [] => None
  | w :: r =>
      if (w =? 0) || (v <? w) then option_map (cons 0) (additive_reps r v)
      else
        let q := v / w in
        let v' := v - w * q in
        if v' =? 0 then Some (q :: map (fun _ => 0) r)
        else option_map (cons q) (additive_reps r v')
  end.

Fixpoint reps_string (tuples : list (Z * sstr)) (reps : list Z) : sstr :=
  match tuples, reps with
  | (_, s) :: t, q :: r => srepeat s (Z.to_nat q) ++ reps_string t r
  | _, _ => []
  end.

Definition additive_repr (tuples : list (Z * sstr)) (v : Z) : option sstr :=
  if v =? 0 then
    (* "If value is initially 0, and there is an additive tuple with a weight of 0,
       append that tuple's counter symbol to S and return S" else not representable *)
    option_map snd (find (fun t => fst t =? 0) tuples)
  else if v <? 0 then None
  else option_map (reps_string tuples) (additive_reps (map fst tuples) v).

(* ------------------------------------------------------------------ 2. generate a counter *)

Inductive ssystem :=
| SCyclic | SFixed (first : Z) | SSymbolic | SAlphabetic | SNumeric | SAdditive.

Inductive bound := NegInf | Fin (z : Z) | PosInf.
Definition ble (a b : bound) : Prop :=
  match a, b with
  | NegInf, _ | _, PosInf => True
  | Fin x, Fin y => x <= y
  | _, _ => False
  end.

(* a counter style whose descriptors are all known (after `extends` has been
   resolved and the initial values filled in) *)
Record rstyle := RStyle {
  rs_system : ssystem;
  rs_symbols : list sstr;
  rs_additive : list (Z * sstr);
  rs_negative : sstr * sstr;                      (* 3.2, initial "-" *)
  rs_prefix : sstr;                               (* 3.5, initial "" *)
  rs_suffix : sstr;                               (* 3.5, initial ". " *)
  rs_range : option (list (bound * bound));       (* 3.3, None = auto *)
  rs_pad : Z * sstr;                              (* 3.4, initial 0 "" *)
  rs_fallback : sname                             (* 3.6, initial decimal *)
}.

(* 3.3 "auto: for cyclic, numeric and fixed systems the range is negative
   infinity to positive infinity; for alphabetic and symbolic 1 to positive
   infinity; for additive 0 to positive infinity" *)
Definition auto_range (s : ssystem) : bound * bound :=
  match s with
  | SAlphabetic | SSymbolic => (Fin 1, PosInf)
  | SAdditive => (Fin 0, PosInf)
  | _ => (NegInf, PosInf)
  end.

Definition used_ranges (rs : rstyle) : list (bound * bound) :=
  match rs_range rs with Some l => l | None => [auto_range (rs_system rs)] end.

Definition in_range (rs : rstyle) (v : Z) : Prop :=
  exists r, In r (used_ranges rs) /\ ble (fst r) (Fin v) /\ ble (Fin v) (snd r).

(* 3.2 "a counter style uses a negative sign if its system is symbolic,
   alphabetic, numeric, additive" *)
Definition uses_negative_sign (s : ssystem) : bool :=
  match s with SSymbolic | SAlphabetic | SNumeric | SAdditive => true | _ => false end.

(* the initial representation of w by the algorithm of the style:
   `Some s`, or `None` when the algorithm cannot represent w *)
Definition initial_repr (rs : rstyle) (w : Z) (o : option sstr) : Prop :=
  match rs_system rs with
  | SCyclic => o = cyclic_repr (rs_symbols rs) w
  | SFixed first => o = fixed_repr first (rs_symbols rs) w
  | SSymbolic => o = symbolic_repr (rs_symbols rs) w
  | SAlphabetic =>
      if w <? 1 then o = None
      else exists ds, alphabetic_digits (slen (rs_symbols rs)) w ds /\
                      o = Some (digits_string (rs_symbols rs) 1 ds)
  | SNumeric =>
      exists ds, numeric_digits (slen (rs_symbols rs)) w ds /\
                 o = Some (digits_string (rs_symbols rs) 0 ds)
  | SAdditive => o = additive_repr (rs_additive rs) w
  end.

(* section 2, steps 3-5: absolute value when negative and the style uses a
   negative sign; pad (3.4: "if the representation, plus the negative sign if
   any, is shorter than the pad length, pad symbols are prepended"); wrap in
   the negative sign *)
Definition signed (rs : rstyle) (v : Z) : bool := (v <? 0) && uses_negative_sign (rs_system rs).

Definition finish (rs : rstyle) (v : Z) (initial : sstr) : sstr :=
  let '(np, nsf) := rs_negative rs in
  let '(padn, pads) := rs_pad rs in
  let len := slen initial + (if signed rs v then slen np + slen nsf else 0) in
  let padded := srepeat pads (Z.to_nat (padn - len)) ++ initial in
  if signed rs v then np ++ padded ++ nsf else padded.

(* the representation of v in the style alone: None = "use the fallback"
   (value outside the range, or not representable by the algorithm) *)
Definition style_repr (rs : rstyle) (v : Z) (o : option sstr) : Prop :=
  (~ in_range rs v /\ o = None) \/
  (in_range rs v /\
   exists io, initial_repr rs (if signed rs v then - v else v) io /\
              o = option_map (finish rs v) io).

(* ------------------------------------------------------------------ 3. tables of rules *)

Inductive srule_system := RSys (s : ssystem) | RExtends (target : sname).

(* an @counter-style rule: descriptors are optional *)
Record sdef := SDef {
  sd_system : srule_system;
  sd_symbols : list sstr;
  sd_additive : list (Z * sstr);
  sd_negative : option (sstr * sstr);
  sd_prefix : option sstr;
  sd_suffix : option sstr;
  sd_range : option (option (list (bound * bound)));   (* Some None = "range: auto" *)
  sd_pad : option (Z * sstr);
  sd_fallback : option sname
}.

Definition stable := sname -> option sdef.

Definition n_decimal : sname := [100;101;99;105;109;97;108]%N.

Definition dflt {A} (o : option A) (d : A) : A := match o with Some a => a | None => d end.

(* a rule that does not extend: missing descriptors take their initial value *)
Definition complete (s : ssystem) (d : sdef) : rstyle :=
  RStyle s (sd_symbols d) (sd_additive d)
         (dflt (sd_negative d) ([45]%N, []))
         (dflt (sd_prefix d) [])
         (dflt (sd_suffix d) [46;32]%N)
         (dflt (sd_range d) None)
         (dflt (sd_pad d) (0, []))
         (dflt (sd_fallback d) n_decimal).

(* 3.1.7 "extends: use the algorithm of another counter style, but alter other
   aspects": descriptors of the rule when specified, those of the extended
   style otherwise; the algorithm (system, symbols) of the extended style *)
Definition inherit (d : sdef) (r : rstyle) : rstyle :=
  RStyle (rs_system r) (rs_symbols r) (rs_additive r)
         (dflt (sd_negative d) (rs_negative r))
         (dflt (sd_prefix d) (rs_prefix r))
         (dflt (sd_suffix d) (rs_suffix r))
         (dflt (sd_range d) (rs_range r))
         (dflt (sd_pad d) (rs_pad r))
         (dflt (sd_fallback d) (rs_fallback r)).

(* the style a rule extends, if any *)
Definition ext_target (T : stable) (n : sname) : option sname :=
  match T n with
  | Some d => match sd_system d with RExtends m => Some m | RSys _ => None end
  | None => None
  end.

Fixpoint ext_iter (T : stable) (k : nat) (n : sname) : option sname :=
  match k with
  | O => Some n
  | S k' => match ext_target T n with Some m => ext_iter T k' m | None => None end
  end.

(* "If one or more @counter-style rules form a cycle with their extends values" *)
Definition in_extends_cycle (T : stable) (n : sname) : Prop :=
  exists k, ext_iter T (S k) n = Some n.

(* "If the specified counter style name isn't the name of any defined counter
   style, it must be treated as if it was extending the decimal counter style.
   If one or more @counter-style rules form a cycle with their extends values,
   all of the counter styles participating in the cycle must be treated as if
   they were extending the decimal counter style instead." *)
Inductive resolved (T : stable) : sname -> rstyle -> Prop :=
| res_base : forall n d s, T n = Some d -> sd_system d = RSys s -> resolved T n (complete s d)
| res_extends : forall n d m r,
    T n = Some d -> sd_system d = RExtends m ->
    T m <> None -> ~ in_extends_cycle T n ->
    resolved T m r -> resolved T n (inherit d r)
| res_decimal : forall n d m r,
    T n = Some d -> sd_system d = RExtends m ->
    (T m = None \/ in_extends_cycle T n) ->
    resolved T n_decimal r -> resolved T n (inherit d r).

(* section 2 step 2 and 3.6: "generate a counter representation using the
   counter style's fallback style"; "if the value of the fallback descriptor
   isn't the name of any defined counter style, the used value of the
   fallback descriptor is decimal instead.  Similarly, while following
   fallbacks [...] if a loop in the specified fallbacks is detected, the
   decimal style must be used instead."

   `fallback_chain T n k m`: m is the k-th style tried when rendering in n. *)
Inductive fallback_chain (T : stable) (n : sname) : nat -> sname -> Prop :=
| fc_start : fallback_chain T n O n
| fc_next : forall k m r, fallback_chain T n k m -> resolved T m r ->
                          fallback_chain T n (S k) (rs_fallback r).

(* the representation of v in decimal (the last resort) *)
Definition decimal_repr (T : stable) (v : Z) (s : sstr) : Prop :=
  exists r, resolved T n_decimal r /\ style_repr r v (Some s).

(* the m-th style of the chain is defined and cannot represent v *)
Definition chain_fails (T : stable) (n : sname) (v : Z) (k : nat) : Prop :=
  exists m r, fallback_chain T n k m /\ resolved T m r /\ style_repr r v None.

(* the counter representation of v in the style named n *)
Definition counter_repr (T : stable) (n : sname) (v : Z) (s : sstr) : Prop :=
  (* some style of the chain represents v, all the previous ones are defined and fail *)
  (exists k m r, (forall j, (j < k)%nat -> chain_fails T n v j) /\
                 fallback_chain T n k m /\ resolved T m r /\ style_repr r v (Some s)) \/
  (* the chain reaches an unknown style (section 2 step 1) *)
  (exists k m, (forall j, (j < k)%nat -> chain_fails T n v j) /\
               fallback_chain T n k m /\ T m = None /\ decimal_repr T v s) \/
  (* no style of the chain represents v: the chain loops (the table is finite) *)
  ((forall k, chain_fails T n v k) /\ decimal_repr T v s).

(* ------------------------------------------------------------------ 4. markers *)

(* 3.5 / css-lists-3: marker string = prefix + representation + suffix, with
   the prefix and suffix of the named style even when a fallback style
   produces the representation; an unknown style is decimal *)
Definition marker_repr (T : stable) (n : sname) (v : Z) (s : sstr) : Prop :=
  (exists r body, resolved T n r /\ counter_repr T n v body /\ s = rs_prefix r ++ body ++ rs_suffix r) \/
  (T n = None /\ exists r body, resolved T n_decimal r /\ counter_repr T n_decimal v body /\
                                s = rs_prefix r ++ body ++ rs_suffix r).
