(* Css/CounterScopesSpec.v -- nesting of counters (CSS 2.1 section 12.4.1,
   CSS Lists 3 section 4 "Automatic numbering with counters") as a
   specification independent of the bookkeeping of build.go.

   The instances of counters visible at a point of the document are kept as
   the instance tree projected on the path to the current element: one FRAME
   per open element depth, innermost first; a frame holds the instances
   created at that depth (by the children processed so far of the open
   element), i.e. the instances whose scope is "the following siblings and
   their descendants".

   * counter-reset: "instantiates a new counter on the element": in the
     innermost frame; "if the innermost counter of that name was created by a
     previous sibling (or by the element itself), it is replaced": the entry
     of the frame is overwritten.
   * counter-set / counter-increment: "act on the innermost counter of the
     given name"; "if there is not currently a counter of the given name on
     the element, the element instantiates a new counter of the given name
     with a starting value of 0 before setting or incrementing".
   * the scope of the instances created by the children of an element ends
     with the element: leaving an element drops its frame.
   * counters(name, sep) lists "all the counters of that name in scope,
     from outermost to innermost"; counter(name) is the innermost one; a name
     without instance gives 0.
   * values are clamped to the int32 range ("UAs may have implementation
     specific limits [...] the value must be clamped"). *)
From Verif Require Import Css.Counters Css.CounterScopes.
From Coq Require Import List ZArith NArith Bool.
Import ListNotations.
Open Scope Z_scope.

Definition frame := list (str * Z).
Definition frames := list frame.          (* innermost first *)

Fixpoint assoc (fr : frame) (n : str) : option Z :=
  match fr with
  | [] => None
  | (k, v) :: r => if str_eqb k n then Some v else assoc r n
  end.

Fixpoint frame_set (fr : frame) (n : str) (v : Z) : frame :=
  match fr with
  | [] => [(n, v)]
  | (k, v') :: r => if str_eqb k n then (k, v) :: r else (k, v') :: frame_set r n v
  end.

(* all the instances of n in scope, outermost first *)
Fixpoint instances (fs : frames) (n : str) : list Z :=
  match fs with
  | [] => []
  | fr :: outer => instances outer n ++ match assoc fr n with Some v => [v] | None => [] end
  end.

Definition clamp (v : Z) : Z := Z.max (- 2 ^ 31) (Z.min (2 ^ 31 - 1) v).

(* counter-reset *)
Definition s_reset (fs : frames) (ci : cint) : frames :=
  let 'CI n v := ci in
  match fs with
  | [] => []
  | fr :: outer => frame_set fr n (clamp v) :: outer
  end.

(* update the innermost instance of n, if there is one *)
Fixpoint modify_inner (f : Z -> Z) (fs : frames) (n : str) : option frames :=
  match fs with
  | [] => None
  | fr :: outer =>
      match assoc fr n with
      | Some old => Some (frame_set fr n (f old) :: outer)
      | None => option_map (cons fr) (modify_inner f outer n)
      end
  end.

Definition s_modify (f : Z -> Z) (fs : frames) (n : str) : frames :=
  match modify_inner f fs n with
  | Some fs' => fs'
  | None => match fs with
            | [] => []
            | fr :: outer => frame_set fr n (f 0) :: outer     (* instantiated with 0, then modified *)
            end
  end.

Definition s_set (fs : frames) (ci : cint) : frames :=
  let 'CI n v := ci in s_modify (fun _ => clamp v) fs n.
Definition s_increment (fs : frames) (ci : cint) : frames :=
  let 'CI n v := ci in s_modify (fun old => clamp (old + clamp v)) fs n.

(* the counter-* properties of an element or pseudo-element, in the order
   reset, set, increment; list items increment list-item by 1 unless
   counter-increment is specified *)
Definition s_update (fs : frames) (p : cprops) : frames :=
  let fs := fold_left s_reset (cp_reset p) fs in
  let fs := fold_left s_set (cp_set p) fs in
  let incr := if cp_incr_auto p then (if cp_list_item p then [CI s_list_item 1] else []) else cp_incr p in
  fold_left s_increment incr fs.

(* content: counter() / counters() evaluated on the instances in scope *)
Definition s_content (c : table) (fs : frames) (items : list citem) : res str :=
  fold_res (fun acc it =>
    match it with
    | CString s => Ok (acc ++ s)
    | CCounter n sid =>
        if sid_name_is_none sid then Ok acc
        else
          let v := match instances fs n with [] => 0 | l => last l 0 end in
          let* s := RenderValueStyle c v sid in Ok (acc ++ s)
    | CCounters n sep sid =>
        if sid_name_is_none sid then Ok acc
        else
          let vs := match instances fs n with [] => [0] | l => l end in
          let* ss := map_res (fun v => RenderValueStyle c v sid) vs in
          Ok (acc ++ join sep ss)
    end) items [].

Definition s_marker (c : table) (fs : frames) (mk : marker) : res (list oitem) :=
  match mk with
  | MkNone => Ok []
  | MkNormal sid =>
      let v := match instances fs s_list_item with [] => 0 | l => last l 0 end in
      let* s := RenderMarker c sid v in Ok [OMarker s]
  | MkContent items => let* s := s_content c fs items in Ok [OMarker s]
  end.

Definition s_pseudo (c : table) (mkout : str -> oitem) (fs : frames) (p : option pseudo)
  : res (frames * list oitem) :=
  match p with
  | None => Ok (fs, [])
  | Some (Pseudo props mk content) =>
      (* a pseudo-element is a child-like node of its element (::before first,
         ::after last): its counter properties act in the frame of the
         element's children; a list-item pseudo-element increments list-item
         implicitly like any list item (s_update) and its ::marker is
         generated from the counters as they are AFTER its own updates *)
      let fs' := s_update fs props in
      let* m := (if cp_list_item props then s_marker c fs' mk else Ok []) in
      let* s := s_content c fs' content in
      Ok (fs', m ++ [mkout s])
  end.

(* an element: its own counter properties act at the level of its siblings;
   then a new frame is opened for its ::before, children and ::after *)
Fixpoint s_element (c : table) (e : elem) (fs : frames) : res (frames * list oitem) :=
  let 'Elem skip props mk before after children := e in
  if skip then Ok (fs, [])          (* an element that generates no box does not touch counters *)
  else
    let fs := [] :: s_update fs props in
    let* m := (if cp_list_item props then s_marker c fs mk else Ok []) in
    let* (fs, b) := s_pseudo c OBefore fs before in
    let* (fs, kids) :=
      (fix go (l : list elem) (fs : frames) : res (frames * list oitem) :=
         match l with
         | [] => Ok (fs, [])
         | ch :: r =>
             let* (fs, o1) := s_element c ch fs in
             let* (fs, o2) := go r fs in
             Ok (fs, o1 ++ o2)
         end) children fs in
    let* (fs, a) := s_pseudo c OAfter fs after in
    Ok (tl fs, m ++ b ++ kids ++ a).

(* the document: the footnote counter exists at the root level *)
Definition s_init : frames := [[(s_footnote, 0)]].

Definition s_build (c : table) (root : elem) : res (list oitem) :=
  let* (_, out) := s_element c root s_init in Ok out.
