(* Css/SelRoundtripGeneral2.v -- general round trip, part 2: integers and An+B. *)
From Verif Require Import Css.Sel Css.SelParse Css.SelPrint Css.SelRoundtrip Css.SelRoundtripGeneral.
From Coq Require Import ZArith NArith Lia List Bool Arith ZifyBool ZifyNat ZifyN.
Import ListNotations.

Fixpoint pow2 (f : nat) : N := match f with O => 1%N | S f' => (2 * pow2 f')%N end.
Lemma pos_lt_pow2 p : (Npos p < pow2 (Pos.size_nat p))%N.
Proof. induction p as [p IH|p IH|]; cbn [Pos.size_nat pow2]; lia. Qed.
Lemma n_lt_pow2 n : (n < pow2 (N.size_nat n))%N.
Proof. destruct n as [|p]; [cbn; lia|apply pos_lt_pow2]. Qed.

Lemma parse_dec_snoc ds d : parse_dec (ds ++ [d]) = (parse_dec ds * 10 + Z.of_N (d - 48))%Z.
Proof. unfold parse_dec. rewrite fold_left_app. reflexivity. Qed.

Lemma dec_digits_S f n acc : dec_digits (S f) n acc =
  let acc' := (48 + N.modulo n 10)%N :: acc in if (n <? 10)%N then acc' else dec_digits f (N.div n 10) acc'.
Proof. reflexivity. Qed.
Lemma dec_digits_spec : forall f n acc, (n < pow2 f)%N ->
  exists ds, dec_digits (S f) n acc = ds ++ acc /\ forallb digit ds = true /\ ds <> [] /\
             parse_dec ds = Z.of_N n.
Proof.
  induction f as [|f IH]; intros n acc Hn.
  - cbn [pow2] in Hn. assert (n = 0%N) by lia. subst n. exists [48%N]. cbn. repeat split; congruence.
  - rewrite dec_digits_S. cbv zeta. destruct (N.ltb_spec n 10) as [Hlt|Hge].
    + exists [(48 + n mod 10)%N]. rewrite N.mod_small by lia. cbn [app forallb]. repeat split; try congruence.
      * unfold digit. lia.
      * unfold parse_dec. cbn [fold_left]. lia.
    + pose proof (N.div_mod n 10 ltac:(lia)) as E. pose proof (N.mod_lt n 10 ltac:(lia)) as M.
      destruct (IH (n / 10)%N ((48 + n mod 10)%N :: acc)) as [ds [E1 [D1 [N1 V1]]]].
      { cbn [pow2] in Hn. lia. }
      exists (ds ++ [(48 + n mod 10)%N]). rewrite E1, <- app_assoc. repeat split.
      * rewrite forallb_app, D1. cbn [forallb]. unfold digit. lia.
      * destruct ds; discriminate.
      * rewrite parse_dec_snoc, V1. lia.
Qed.

Lemma n_to_dec_spec n : forallb digit (n_to_dec n) = true /\ n_to_dec n <> [] /\
  parse_dec (n_to_dec n) = Z.of_N n.
Proof.
  unfold n_to_dec. destruct (dec_digits_spec (N.size_nat n) n [] (n_lt_pow2 n)) as [ds [E [D [Ne V]]]].
  rewrite E, app_nil_r. auto.
Qed.

Definition no_digit (suf : str) : bool := match suf with [] => true | c :: _ => negb (digit c) end.

Section Num.
Variable s : str.
Local Notation len := (length s).

Lemma digit_run_all : forall ds n i suf, skipn i s = ds ++ suf -> forallb digit ds = true ->
  no_digit suf = true -> length ds <= n -> digit_run s n i = i + length ds.
Proof.
  induction ds as [|d ds IH]; intros n i suf H D Sf Hn.
  - cbn in *. destruct n; [cbn; lia|]. cbn [digit_run]. destruct suf as [|c r].
    + rewrite (peek_nil _ _ _ H). lia.
    + rewrite (peek_rest _ _ _ _ _ H). cbn in Sf. destruct (digit c); [discriminate|]. lia.
  - destruct n; [simpl in Hn; lia|]. cbn [app] in H. cbn [forallb] in D. apply andb_prop in D as [D1 D2].
    cbn [digit_run]. rewrite (peek_rest _ _ _ _ _ H), D1.
    rewrite (IH n (S i) suf); [simpl; lia|exact (rest_S _ _ _ _ H)|assumption|assumption|simpl in Hn; lia].
Qed.

Lemma parse_integer_digits i ds suf : skipn i s = ds ++ suf -> forallb digit ds = true -> ds <> [] ->
  no_digit suf = true -> (parse_dec ds <= 9223372036854775807)%Z ->
  parse_integer s i = Ok (POk (parse_dec ds) (i + length ds)).
Proof.
  intros H D Ne Sf B. pose proof (rest_bound _ _ _ _ H) as Lb.
  assert (Hi : i <= len). { destruct ds as [|d ds]; [congruence|]. pose proof (rest_lt _ _ _ _ H). lia. }
  unfold parse_integer. rewrite (digit_run_all ds len i suf H D Sf Lb).
  replace (i + length ds =? i) with false by (destruct ds; [congruence|simpl; lia]).
  rewrite (slice_rest _ _ _ _ _ Hi H). cbn [bind].
  replace (parse_dec ds <=? 9223372036854775807)%Z with true by lia. reflexivity.
Qed.
Lemma skip_ws_id i c r : skipn i s = c :: r -> is_space c = false -> (c =? 47)%N = false ->
  skip_ws s i = i.
Proof.
  intros H Hs Hc. unfold skip_ws. cbn [skip_ws_loop]. rewrite (peek_rest _ _ _ _ _ H), Hs.
  unfold peek_is at 1. rewrite (peek_rest _ _ _ _ _ H). rewrite N.eqb_sym, Hc. reflexivity.
Qed.
Lemma skip_ws_nil i : skipn i s = [] -> skip_ws s i = i.
Proof.
  intros H. unfold skip_ws. cbn [skip_ws_loop]. rewrite (peek_nil _ _ _ H).
  unfold peek_is at 1. rewrite (peek_nil _ _ _ H). reflexivity.
Qed.
Lemma digit_nospace d : digit d = true -> is_space d = false /\ (d =? 47)%N = false /\
  (d =? 45)%N = false /\ (d =? 43)%N = false.
Proof. unfold digit, is_space. lia. Qed.

Lemma nth_read_n_print a i b r :
  skipn i s = (if (b <? 0)%Z then 45%N else 43%N) :: n_to_dec (Z.abs_N b) ++ 41%N :: r ->
  int_ok b = true ->
  nth_read_n s a i = Ok (POk (a, b) (i + S (length (n_to_dec (Z.abs_N b))))).
Proof.
  intros H Hb. destruct (n_to_dec_spec (Z.abs_N b)) as [D [Ne V]].
  pose proof (rest_S _ _ _ _ H) as H1. unfold int_ok in Hb.
  assert (PI : parse_integer s (S i) = Ok (POk (parse_dec (n_to_dec (Z.abs_N b))) (S i + length (n_to_dec (Z.abs_N b))))).
  { apply parse_integer_digits with (suf := 41%N :: r); auto. lia. }
  assert (SW : skip_ws s (S i) = S i).
  { destruct (n_to_dec (Z.abs_N b)) as [|d B]; [congruence|]. cbn [forallb] in D. apply andb_prop in D as [D1 _].
    destruct (digit_nospace d D1) as [A1 [A2 _]]. exact (skip_ws_id _ _ _ H1 A1 A2). }
  unfold nth_read_n. destruct (b <? 0)%Z eqn:Eb.
  - rewrite (skip_ws_id _ _ _ H) by reflexivity. rewrite (leb_rest _ _ _ _ H), (at_rest _ _ _ _ _ H). cbn [bind].
    change (45 =? 43)%N with false. change (45 =? 45)%N with true. cbv iota.
    rewrite SW, PI. cbn [bindP]. rewrite V, N2Z.inj_abs_N. f_equal. f_equal; [f_equal; lia | lia].
  - rewrite (skip_ws_id _ _ _ H) by reflexivity. rewrite (leb_rest _ _ _ _ H), (at_rest _ _ _ _ _ H). cbn [bind].
    change (43 =? 43)%N with true. cbv iota.
    rewrite SW, PI. cbn [bindP]. rewrite V, N2Z.inj_abs_N. f_equal. f_equal; [f_equal; lia | lia].
Qed.
Lemma nth_signed_a_digits neg i n r : skipn i s = n_to_dec n ++ 110%N :: r ->
  (Z.of_N n <= 9223372036854775807)%Z ->
  nth_signed_a s neg i =
  nth_read_n s (if neg then (- Z.of_N n)%Z else Z.of_N n) (S (i + length (n_to_dec n))).
Proof.
  intros H Hn. destruct (n_to_dec_spec n) as [D [Ne V]].
  assert (PI : parse_integer s i = Ok (POk (Z.of_N n) (i + length (n_to_dec n)))).
  { rewrite <- V. apply parse_integer_digits with (suf := 110%N :: r); auto. rewrite V. lia. }
  pose proof (rest_app _ _ _ _ H) as H2.
  destruct (n_to_dec n) as [|d B] eqn:E; [congruence|]. cbn [forallb] in D. apply andb_prop in D as [D1 _].
  cbn [app] in H. unfold nth_signed_a. rewrite (leb_rest _ _ _ _ H), (at_rest _ _ _ _ _ H). cbn [bind].
  rewrite D1, PI. cbn [bindP]. unfold nth_read_a.
  rewrite (leb_rest _ _ _ _ H2), (at_rest _ _ _ _ _ H2). cbn [bind]. reflexivity.
Qed.

Definition nth_text (a b : Z) : str :=
  z_to_dec a ++ [110%N] ++ (if (b <? 0)%Z then z_to_dec b else 43%N :: z_to_dec b).
Lemma z_to_dec_eq z : z_to_dec z = (if (z <? 0)%Z then [45%N] else []) ++ n_to_dec (Z.abs_N z).
Proof. destruct z; reflexivity. Qed.
Lemma nth_text_eq a b : nth_text a b =
  (if (a <? 0)%Z then [45%N] else []) ++ n_to_dec (Z.abs_N a) ++
  110%N :: (if (b <? 0)%Z then 45%N else 43%N) :: n_to_dec (Z.abs_N b).
Proof.
  unfold nth_text. rewrite (z_to_dec_eq a), (z_to_dec_eq b), <- app_assoc.
  destruct (b <? 0)%Z; reflexivity.
Qed.

(* parseNth reads back the An+B text written by String() *)
Lemma parse_nth_print i a b r : skipn i s = nth_text a b ++ 41%N :: r ->
  int_ok a = true -> int_ok b = true ->
  parse_nth s i = Ok (POk (a, b) (i + length (nth_text a b))).
Proof.
  intros H Ha Hb. rewrite nth_text_eq in *. unfold int_ok in Ha.
  set (A := n_to_dec (Z.abs_N a)) in *. set (bt := (if (b <? 0)%Z then 45%N else 43%N) :: n_to_dec (Z.abs_N b)) in *.
  destruct (n_to_dec_spec (Z.abs_N a)) as [D [Ne V]]. fold A in D, Ne, V.
  assert (Hbd : (Z.of_N (Z.abs_N a) <= 9223372036854775807)%Z) by (rewrite N2Z.inj_abs_N; lia).
  destruct (a <? 0)%Z eqn:Ea.
  - cbn [app] in H. pose proof (rest_S _ _ _ _ H) as H1.
    rewrite <- app_assoc in H1. cbn [app] in H1.
    unfold parse_nth. rewrite (leb_rest _ _ _ _ H), (at_rest _ _ _ _ _ H). cbn [bind].
    change (45 =? 45)%N with true. cbv iota.
    rewrite (nth_signed_a_digits true (S i) (Z.abs_N a) _ H1 Hbd). fold A.
    pose proof (rest_app _ _ _ _ H1) as H2. pose proof (rest_S _ _ _ _ H2) as H3.
    rewrite (nth_read_n_print _ _ b r) by (auto; exact H3).
    rewrite N2Z.inj_abs_N. f_equal. f_equal; [f_equal; lia|]. rewrite !app_length. cbn [length]. subst bt. cbn [length]. lia.
  - cbn [app] in H. rewrite <- app_assoc in H. cbn [app] in H.
    pose proof (rest_app _ _ _ _ H) as H2. pose proof (rest_S _ _ _ _ H2) as H3.
    assert (HA : exists d A', A = d :: A' /\ digit d = true).
    { destruct A as [|d A']; [congruence|]. cbn [forallb] in D. apply andb_prop in D as [D1 _]. eauto. }
    destruct HA as [d [A' [EA D1]]]. pose proof H as H0. rewrite EA in H0. cbn [app] in H0.
    destruct (digit_nospace d D1) as [_ [_ [N45 N43]]].
    unfold parse_nth. rewrite (leb_rest _ _ _ _ H0), (at_rest _ _ _ _ _ H0). cbn [bind].
    rewrite N45, N43, D1.
    rewrite (nth_signed_a_digits false i (Z.abs_N a) _ H Hbd). fold A.
    rewrite (nth_read_n_print _ _ b r) by (auto; exact H3).
    rewrite N2Z.inj_abs_N. f_equal. f_equal; [f_equal; lia|]. rewrite !app_length. cbn [length]. subst bt. cbn [length]. lia.
Qed.
End Num.

(* ---- the token round trips on explicit texts: prefix ++ token ++ suffix, read at |prefix| *)
Lemma skipn_pre (pre t : str) : skipn (length pre) (pre ++ t) = t.
Proof. induction pre; simpl; auto. Qed.

Theorem name_roundtrip pre x suf : x <> [] -> stops suf = true ->
  parse_name (pre ++ escape x ++ suf) (length pre) = Ok (POk x (length pre + length (escape x))).
Proof. intros Hx Hs. apply parse_name_escape with (suf := suf); auto. apply skipn_pre. Qed.

Theorem identifier_roundtrip pre x suf : x <> [] -> stops suf = true ->
  parse_identifier (pre ++ escape_identifier x ++ suf) (length pre) =
  Ok (POk x (length pre + length (escape_identifier x))).
Proof. intros Hx Hs. apply parse_identifier_escid with (suf := suf); auto. apply skipn_pre. Qed.

Theorem string_roundtrip pre x suf :
  parse_string (pre ++ 34%N :: escape_string x ++ 34%N :: suf) (length pre) =
  Ok (POk x (length pre + length (escape_string x) + 2)).
Proof. apply parse_string_escstr with (suf := suf). apply skipn_pre. Qed.

Theorem nth_roundtrip pre a b suf : int_ok a = true -> int_ok b = true ->
  parse_nth (pre ++ nth_text a b ++ 41%N :: suf) (length pre) =
  Ok (POk (a, b) (length pre + length (nth_text a b))).
Proof. intros Ha Hb. apply parse_nth_print with (r := suf); auto. apply skipn_pre. Qed.
