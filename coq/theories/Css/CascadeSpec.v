(* Css/CascadeSpec.v -- what CSS says the cascade is (property C03), written
   independently of the insertion loops of /repo:

     CSS 2.1 6.4.1 / css-cascade-4 6: among the declarations that apply to an
     element for a property, the winner is the greatest for
       1. origin and importance:
            user agent < user < author < author !important < user !important
       2. specificity; a style attribute outranks every selector
          (css-cascade-4 "style attribute"), a presentational hint ranks as an
          author rule of specificity 0 placed before the author sheets
          (HTML 15.2 / css-cascade-4 6.5)
       3. order of appearance: the last declaration in document order wins,
          where imported sheets are substituted for their @import rule and the
          declarations of nested rules stand where they are written
          (css-nesting-1, CSSNestedDeclarations).
     Declarations of rules whose selector does not match the element, of @media
     blocks whose query does not match, of @import rules that are not in the
     prologue of their sheet (css-cascade-4 2) do not apply.

   Only the syntax (decl, sel, node, body, rules, document) is shared with the
   model in Cascade.v. *)
From Verif Require Import Css.Cascade.
Open Scope N_scope.

(* ------------------------------------------------------------------ 1. origin and importance *)

Inductive level := LUA | LUser | LAuthor | LAuthorImp | LUserImp.

Definition level_index (l : level) : N :=
  match l with LUA => 0 | LUser => 1 | LAuthor => 2 | LAuthorImp => 3 | LUserImp => 4 end.

Definition level_of (o : origin) (important : bool) : level :=
  match o, important with
  | UA, _ => LUA
  | User, false => LUser
  | Author, false => LAuthor
  | Author, true => LAuthorImp
  | User, true => LUserImp
  end.

(* ------------------------------------------------------------------ 2. specificity rank *)

Inductive rank := RHint | RSel (s : spec3) | RAttr.

Definition lex_le (s o : spec3) : bool :=
  let '(a1, b1, c1) := s in
  let '(a2, b2, c2) := o in
  (a1 <? a2) || ((a1 =? a2) && ((b1 <? b2) || ((b1 =? b2) && (c1 <=? c2)))).

Definition lex_max (s o : spec3) : spec3 := if lex_le s o then o else s.

Definition rank_le (r1 r2 : rank) : bool :=
  match r1, r2 with
  | _, RAttr => true                          (* a style attribute is above everything *)
  | RAttr, _ => false
  | RHint, _ => true                          (* a hint is specificity 0 *)
  | RSel s, RHint => lex_le s (0, 0, 0)
  | RSel s1, RSel s2 => lex_le s1 s2
  end.

(* ------------------------------------------------------------------ 3. occurrences and their order *)

(* one declaration that applies to the element *)
Record occ := mkOcc { o_prop : N; o_vid : N; o_level : level; o_rank : rank }.

(* an occurrence with its position in the order of appearance *)
Definition pocc := (N * occ)%type.

(* the cascade order: strict, lexicographic on (level, rank, position) *)
Definition occ_lt (x y : pocc) : bool :=
  let lx := level_index (o_level (snd x)) in
  let ly := level_index (o_level (snd y)) in
  let rx := o_rank (snd x) in
  let ry := o_rank (snd y) in
  (lx <? ly) ||
  ((lx =? ly) && (negb (rank_le ry rx) ||
                  (rank_le rx ry && rank_le ry rx && (fst x <? fst y)))).

(* w is the declaration that wins for property p among l *)
Definition is_winner (l : list pocc) (p : N) (w : pocc) : Prop :=
  In w l /\ o_prop (snd w) = p /\
  forall x, In x l -> o_prop (snd x) = p -> x = w \/ occ_lt x w = true.

(* executable arg-max *)
Definition better (p : N) (acc : option pocc) (x : pocc) : option pocc :=
  if o_prop (snd x) =? p then
    match acc with
    | None => Some x
    | Some a => if occ_lt a x then Some x else Some a
    end
  else acc.

Definition winner (l : list pocc) (p : N) : option pocc := fold_left (better p) l None.

Fixpoint number_from {A} (i : N) (l : list A) : list (N * A) :=
  match l with
  | [] => []
  | a :: r => (i, a) :: number_from (N.succ i) r
  end.
Definition number {A} (l : list A) := number_from 0 l.

(* ------------------------------------------------------------------ which declarations apply *)

(* Selector matching with an interpretation for the nesting selector:
   `amp q` tells whether element q is matched by the parent rule. *)
Fixpoint smatch (amp : path -> bool) (s : sel) (p : path) {struct s} : bool :=
  match p with
  | [] => false
  | e :: anc =>
    match s with
    | STag n => n_tag e =? n
    | SClass n => existsb (N.eqb n) (n_classes e)
    | SId n => match n_id e with Some m => m =? n | None => false end
    | SUniv => true
    | SRoot => match anc with [] => true | _ => false end
    | SAmp => amp p
    | SAnd a b => smatch amp a p && smatch amp b p
    | SDesc a b => smatch amp b p &&
        (fix up (q : path) := match q with [] => false | _ :: r => smatch amp a q || up r end) anc
    | SChild a b => smatch amp b p && smatch amp a anc
    | SIs a => smatch amp a p
    | SOr a b => smatch amp a p || smatch amp b p
    | SPseudo _ _ => false
    end
  end.

(* does selector s select the element p (pseudo = 0) / its pseudo-element
   number `pseudo` (Selectors-4 3.6: the pseudo-element is written last) *)
Definition sapplies (amp : path -> bool) (s : sel) (pseudo : N) (p : path) : bool :=
  match s with
  | SPseudo k a => (k =? pseudo) && (0 <? pseudo) && smatch amp a p
  | _ => (pseudo =? 0) && smatch amp s p
  end.

(* Selectors-4 17: specificity; `aspec` is the specificity of `&`, i.e. of the
   most specific selector in the parent's list (css-nesting-1 3.2) *)
Fixpoint sspec (aspec : spec3) (s : sel) : spec3 :=
  match s with
  | STag _ => (0, 0, 1)
  | SClass _ | SRoot => (0, 1, 0)
  | SId _ => (1, 0, 0)
  | SUniv => (0, 0, 0)
  | SAmp => aspec
  | SAnd a b | SDesc a b | SChild a b =>
      let '(a1, b1, c1) := sspec aspec a in
      let '(a2, b2, c2) := sspec aspec b in (a1 + a2, b1 + b2, c1 + c2)
  | SIs a => sspec aspec a
  | SOr a b => lex_max (sspec aspec a) (sspec aspec b)
  | SPseudo _ a => let '(a1, b1, c1) := sspec aspec a in (a1, b1, c1 + 1)
  end.

Fixpoint mentions_amp (s : sel) : bool :=
  match s with
  | SAmp => true
  | SAnd a b | SDesc a b | SChild a b | SOr a b => mentions_amp a || mentions_amp b
  | SIs a | SPseudo _ a => mentions_amp a
  | _ => false
  end.

(* css-nesting-1 3.1: a nested selector without `&` is relative to the parent:
   it stands for "& s", i.e. `&` is the leftmost compound of s *)
Fixpoint implied_amp (s : sel) : sel :=
  match s with
  | SDesc a b => SDesc (implied_amp a) b
  | SChild a b => SChild (implied_amp a) b
  | SPseudo k a => SPseudo k (implied_amp a)
  | _ => SDesc SAmp s
  end.
Definition relative (s : sel) : sel := if mentions_amp s then s else implied_amp s.

Record ctx := mkCtx { c_amp : path -> bool; c_aspec : spec3 }.

(* outside a nested rule `&` stands for :scope, which without a scoping root is
   the root element, and its specificity is zero (css-nesting-1 3.2) *)
Definition top_ctx : ctx := mkCtx (fun q => match q with [_] => true | _ => false end) (0, 0, 0).

Definition list_matches (c : ctx) (g : list sel) (pseudo : N) (p : path) : bool :=
  existsb (fun s => sapplies (c_amp c) s pseudo p) g.

(* specificity of a rule for the element: the most specific selector of the
   list among those that match (Selectors-4 17) *)
Definition list_rank (c : ctx) (g : list sel) (pseudo : N) (p : path) : spec3 :=
  fold_right (fun s acc => if sapplies (c_amp c) s pseudo p then lex_max (sspec (c_aspec c) s) acc else acc) (0, 0, 0) g.

Definition list_spec (c : ctx) (g : list sel) : spec3 :=
  fold_right (fun s acc => lex_max (sspec (c_aspec c) s) acc) (0, 0, 0) g.

(* `&` stands for the elements (not pseudo-elements) the parent list matches *)
Definition child_ctx (c : ctx) (g : list sel) : ctx :=
  mkCtx (list_matches c g 0) (list_spec c g).

(* declarations of a style rule's block that apply to p, in the order they are
   written, with the specificity of their rule *)
Fixpoint body_occs (c : ctx) (g : list sel) (b : body) (pseudo : N) (p : path) : list (decl * spec3) :=
  match b with
  | BNil => []
  | BDecl d rest =>
      (if list_matches c g pseudo p then [(d, list_rank c g pseudo p)] else []) ++ body_occs c g rest pseudo p
  | BNest pre inner rest =>
      body_occs (child_ctx c g) (map relative pre) inner pseudo p ++ body_occs c g rest pseudo p
  end.

Definition media_matches (q : list N) (device : N) : bool :=
  match q with
  | [] => true                                            (* no query = all *)
  | _ => existsb (fun m => (m =? 0) || (m =? device)) q   (* 0 = all *)
  end.

(* `prologue` = only @import rules have been seen so far in this sheet *)
Fixpoint rules_occs (device : N) (prologue : bool) (rs : rules) (pseudo : N) (p : path) : list (decl * spec3) :=
  match rs with
  | RNil => []
  | RStyle g b rest => body_occs top_ctx g b pseudo p ++ rules_occs device false rest pseudo p
  | RMedia q inner rest =>
      (if media_matches q device then rules_occs device false inner pseudo p else [])
      ++ rules_occs device false rest pseudo p
  | RImport q fetched sh rest =>
      (if prologue && fetched && media_matches q device then rules_occs device true sh pseudo p else [])
      ++ rules_occs device prologue rest pseudo p
  | ROther rest => rules_occs device false rest pseudo p
  end.

Definition sheet_occs (o : origin) (hint_sheet : bool) (device : N) (rs : rules) (pseudo : N) (p : path) : list occ :=
  map (fun ds => mkOcc (d_prop (fst ds)) (d_vid (fst ds)) (level_of o (d_imp (fst ds)))
                       (if hint_sheet then RHint else RSel (snd ds)))
      (rules_occs device true rs pseudo p).

Definition attr_occs (r : rank) (ds : list decl) : list occ :=
  map (fun d => mkOcc (d_prop d) (d_vid d) (level_of Author (d_imp d)) r) ds.

(* every declaration that applies to the element, in order of appearance.
   (Between different origins the order is irrelevant; presentational hints come
   before the author sheets; the style attribute is put last.)
   The attributes of an element concern the element, not its pseudo-elements. *)
Definition applicable (d : document) (pseudo : N) (p : path) : list occ :=
  match p with
  | [] => []
  | e :: _ =>
      sheet_occs UA false (doc_ua_device d) (doc_ua d) pseudo p
      ++ flat_map (fun u => sheet_occs User false (fst u) (snd u) pseudo p) (doc_users d)
      ++ (if doc_hints d
          then (if pseudo =? 0 then attr_occs RHint (n_hints e) else [])
               ++ sheet_occs Author true (doc_ph_device d) (doc_ph d) pseudo p
          else [])
      ++ flat_map (fun a => if media_matches (a_media a) (doc_device d)
                            then sheet_occs Author false (doc_device d) (a_rules a) pseudo p else [])
                  (doc_authors d)
      ++ (if pseudo =? 0 then attr_occs RAttr (n_style e) else [])
  end.

(* the value the cascade must produce for the element (pseudo = 0) or its
   pseudo-element *)
Definition cascaded (d : document) (pseudo : N) (p : path) (prop : N) : option N :=
  option_map (fun w => o_vid (snd w)) (winner (number (applicable d pseudo p)) prop).

(* top-level rules do not use `&`: there the code reads `&` as :root, which
   selects the same element but has specificity (0,1,0) instead of 0; the main
   theorem is stated for documents without it and refuted without the hypothesis *)
Fixpoint rules_no_top_amp (rs : rules) : bool :=
  match rs with
  | RNil => true
  | RStyle g _ rest => forallb (fun s => negb (mentions_amp s)) g && rules_no_top_amp rest
  | RMedia _ inner rest => rules_no_top_amp inner && rules_no_top_amp rest
  | RImport _ _ sh rest => rules_no_top_amp sh && rules_no_top_amp rest
  | ROther rest => rules_no_top_amp rest
  end.

Definition doc_no_top_amp (d : document) : bool :=
  rules_no_top_amp (doc_ua d) && rules_no_top_amp (doc_ph d) &&
  forallb (fun a => rules_no_top_amp (a_rules a)) (doc_authors d) &&
  forallb (fun u => rules_no_top_amp (snd u)) (doc_users d).
