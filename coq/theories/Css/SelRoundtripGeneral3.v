(* Css/SelRoundtripGeneral3.v -- general round trip, part 3: simple selectors inside a compound. *)
From Verif Require Import Css.Sel Css.SelParse Css.SelPrint Css.SelRoundtrip
  Css.SelRoundtripGeneral Css.SelRoundtripGeneral2 Css.SelProofs.
From Coq Require Import ZArith NArith Lia List Bool Arith ZifyBool ZifyNat ZifyN.
Import ListNotations.

(* what may follow a simple selector *)
Definition delim (r : str) : bool :=
  match r with [] => true
  | c :: _ => ((c =? 32) || (c =? 44) || (c =? 41) || (c =? 35) || (c =? 46) || (c =? 91) || (c =? 58))%N end.
Lemma delim_stops r : delim r = true -> stops r = true.
Proof. destruct r as [|c r]; [reflexivity|]. cbn [delim stops]. unfold name_char, name_start, digit. lia. Qed.

Section Simple.
Variable s : str.
Local Notation len := (length s).

Definition seq_finish (sels : list sel) (pe : str) (i : nat) : res (pr sel) :=
  match sels, pe with [x], [] => Ok (POk x i) | _, _ => Ok (POk (SCompound sels pe) i) end.

Lemma p_seq_loop_S f a i sels c r : skipn i s = c :: r ->
  p_seq_loop s (S f) a i sels [] =
  let add := fun ns i => p_seq_loop s f a i (sels ++ [ns]) [] in
  if (c =? 35)%N then bindP (parse_id_selector s i) add
  else if (c =? 46)%N then bindP (parse_class_selector s i) add
  else if (c =? 91)%N then bindP (parse_attribute_selector s i) add
  else if (c =? 58)%N then
    bindP (p_pseudo s f i) (fun r i => match r with
      | PSel ns => add ns i
      | PElem name => if a then p_seq_loop s f a i sels name else Ok PErr end)
  else seq_finish sels [] i.
Proof.
  intros H. cbn [p_seq_loop]. rewrite (leb_rest _ _ _ _ H), (at_rest _ _ _ _ _ H). reflexivity.
Qed.

Definition simple_step (x : sel) : Prop := forall f a i sels r,
  skipn i s = print_sel x ++ r -> delim r = true -> 3 * length (skipn i s) + 2 <= S f ->
  p_seq_loop s (S f) a i sels [] = p_seq_loop s f a (i + length (print_sel x)) (sels ++ [x]) [].

Lemma step_id x : nonempty x = true -> simple_step (SId x).
Proof.
  intros Hx f a i sels r H Hd _. cbn [print_sel app] in H.
  rewrite (p_seq_loop_S _ _ _ _ _ _ H). cbv zeta. change (35 =? 35)%N with true. cbv iota.
  unfold parse_id_selector. rewrite (leb_rest _ _ _ _ H), (at_rest _ _ _ _ _ H). cbn [bind].
  change (35 =? 35)%N with true. cbn [negb].
  rewrite (parse_name_escape s (S i) x r); [| exact (rest_S _ _ _ _ H) | apply delim_stops; exact Hd
                                            | destruct x; [discriminate|congruence]].
  cbn [bindP print_sel length]. f_equal. lia.
Qed.

Lemma step_class x : nonempty x = true -> simple_step (SClass x).
Proof.
  intros Hx f a i sels r H Hd _. cbn [print_sel app] in H.
  rewrite (p_seq_loop_S _ _ _ _ _ _ H). cbv zeta. change (46 =? 35)%N with false. change (46 =? 46)%N with true. cbv iota.
  unfold parse_class_selector. rewrite (leb_rest _ _ _ _ H), (at_rest _ _ _ _ _ H). cbn [bind].
  change (46 =? 46)%N with true. cbn [negb].
  rewrite (parse_identifier_escid s (S i) x r); [| exact (rest_S _ _ _ _ H) | apply delim_stops; exact Hd
                                            | destruct x; [discriminate|congruence]].
  cbn [bindP print_sel length]. f_equal. lia.
Qed.
(* the continuations of parseAttributeSelector, named *)
Definition attr_k2 (key : str) (op : str) (val : str) (i : nat) : res (pr sel) :=
  let i := skip_ws s i in
  if length s <=? i then Ok PErr else
  let* f := at_ s 417 i in
  let ic := N.eqb f 105 || N.eqb f 73 in
  let i := skip_ws s (if ic then S i else i) in
  if length s <=? i then Ok PErr else
  let* e := at_ s 427 i in
  if negb (N.eqb e 93) then Ok PErr else
  match op_of op with
  | Some o => Ok (POk (SAttr key val o ic) (S i))
  | None => Ok PErr
  end.
Definition attr_k1 (key : str) (i : nat) : res (pr sel) :=
  let key := to_lower key in
  let i := skip_ws s i in
  if length s <=? i then Ok PErr else
  let* c := at_ s 373 i in
  if N.eqb c 93 then Ok (POk (SAttr key [] OpExists false) (S i)) else
  if length s <=? i + 2 then Ok PErr else
  let* op2 := slice s 382 i (i + 2) in
  let* o0 := at_ s 383 i in
  let* o1 := at_ s 385 (S i) in
  let op := if N.eqb o0 61 then [61%N] else op2 in
  if negb (N.eqb o0 61) && negb (N.eqb o1 61) then Ok PErr else
  let i := skip_ws s (i + length op) in
  if length s <=? i then Ok PErr else
  if str_eqb op [35; 61]%N then Ok PErr else
  let* q := at_ s 399 i in
  bindP (if N.eqb q 39 || N.eqb q 34 then parse_string s i else parse_identifier s i) (attr_k2 key op).
Lemma parse_attr_unfold i : parse_attribute_selector s i =
  if length s <=? i then Ok PErr else
  let* c := at_ s 356 i in
  if negb (N.eqb c 91) then Ok PErr else
  bindP (parse_identifier s (skip_ws s (S i))) attr_k1.
Proof. reflexivity. Qed.

Lemma skip_ws_sp i c r : skipn i s = 32%N :: c :: r -> is_space c = false -> (c =? 47)%N = false ->
  skip_ws s i = S i.
Proof.
  intros H Hs Hc. pose proof (rest_S _ _ _ _ H) as H1. pose proof (rest_lt _ _ _ _ H1) as L.
  unfold skip_ws. destruct (length s) as [|n] eqn:E; [lia|]. cbn [skip_ws_loop].
  rewrite (peek_rest _ _ _ _ _ H). change (is_space 32) with true. cbv iota.
  rewrite (peek_rest _ _ _ _ _ H1), Hs. unfold peek_is at 1. rewrite (peek_rest _ _ _ _ _ H1).
  rewrite N.eqb_sym, Hc. reflexivity.
Qed.

Lemma attr_k2_ok key op o val (ic : bool) i r :
  skipn i s = (if ic then [32%N;105%N] else []) ++ 93%N :: r -> op_of op = Some o ->
  attr_k2 key op val i = Ok (POk (SAttr key val o ic) (i + (if ic then 3 else 1))).
Proof.
  intros H Ho. unfold attr_k2. destruct ic; cbn [app] in H.
  - pose proof (rest_S _ _ _ _ H) as H1. pose proof (rest_S _ _ _ _ H1) as H2.
    rewrite (skip_ws_sp _ _ _ H) by reflexivity.
    rewrite (leb_rest _ _ _ _ H1), (at_rest _ _ _ _ _ H1). cbn [bind].
    change ((105 =? 105)%N || (105 =? 73)%N) with true. cbv iota zeta.
    rewrite (skip_ws_id _ _ _ _ H2) by reflexivity.
    rewrite (leb_rest _ _ _ _ H2), (at_rest _ _ _ _ _ H2). cbn [bind].
    change (93 =? 93)%N with true. cbn [negb]. rewrite Ho. do 2 f_equal. lia.
  - rewrite (skip_ws_id _ _ _ _ H) by reflexivity.
    rewrite (leb_rest _ _ _ _ H), (at_rest _ _ _ _ _ H). cbn [bind].
    change ((93 =? 105)%N || (93 =? 73)%N) with false. cbv iota zeta.
    rewrite (skip_ws_id _ _ _ _ H) by reflexivity.
    rewrite (leb_rest _ _ _ _ H), (at_rest _ _ _ _ _ H). cbn [bind].
    change (93 =? 93)%N with true. cbn [negb]. rewrite Ho. do 2 f_equal. lia.
Qed.
Definition attr_tail (val : str) (ic : bool) : str :=
  34%N :: escape_string val ++ 34%N :: (if ic then [32%N;105%N] else []) ++ [93%N].
Lemma attr_tail_k2 key op o val ic i r : skipn i s = attr_tail val ic ++ r -> op_of op = Some o ->
  bindP (parse_string s i) (attr_k2 key op) = Ok (POk (SAttr key val o ic) (i + length (attr_tail val ic))).
Proof.
  intros H Ho. unfold attr_tail in *. cbn [app] in H. rewrite <- app_assoc in H. cbn [app] in H.
  rewrite <- app_assoc in H. cbn [app] in H.
  rewrite (parse_string_escstr _ _ _ _ H). cbn [bindP].
  pose proof (rest_S _ _ _ _ H) as H1. apply rest_app in H1. apply rest_S in H1.
  replace (S (S i + length (escape_string val))) with (i + length (escape_string val) + 2) in H1 by lia.
  rewrite (attr_k2_ok key op o val ic _ r H1 Ho). do 2 f_equal.
  cbn [length]. rewrite !app_length. cbn [length]. rewrite app_length. destruct ic; cbn [length]; lia.
Qed.

Lemma attr_k1_exists key i r : lowered key = true -> skipn i s = 93%N :: r ->
  attr_k1 key i = Ok (POk (SAttr key [] OpExists false) (S i)).
Proof.
  intros Hl H. unfold attr_k1. unfold lowered in Hl. apply str_eqb_eq in Hl. rewrite Hl. cbv zeta.
  rewrite (skip_ws_id _ _ _ _ H) by reflexivity.
  rewrite (leb_rest _ _ _ _ H), (at_rest _ _ _ _ _ H). reflexivity.
Qed.
Lemma attr_tail_len val ic : 3 <= length (attr_tail val ic).
Proof. unfold attr_tail. cbn [length]. rewrite app_length. cbn [length]. rewrite app_length. cbn [length]. lia. Qed.
Lemma op_shape op : op <> OpExists ->
  (str_of_op op = [61%N] /\ op = OpEq) \/
  exists o0, str_of_op op = [o0; 61%N] /\ (o0 =? 61)%N = false /\ (o0 =? 93)%N = false /\
    is_space o0 = false /\ (o0 =? 47)%N = false /\ op_of [o0; 61%N] = Some op /\ (o0 =? 35)%N = false.
Proof.
  intros H. destruct op; [congruence|left; auto|right..]; eexists; cbn [str_of_op]; repeat split.
Qed.

Lemma attr_k1_op key op val ic i r : lowered key = true -> op <> OpExists ->
  skipn i s = str_of_op op ++ attr_tail val ic ++ r ->
  attr_k1 key i = Ok (POk (SAttr key val op ic) (i + length (str_of_op op ++ attr_tail val ic))).
Proof.
  intros Hl Hop H. unfold attr_k1. unfold lowered in Hl. apply str_eqb_eq in Hl. rewrite Hl. cbv zeta.
  pose proof (rest_app _ _ _ _ H) as HT.
  assert (HQ : exists t, attr_tail val ic ++ r = 34%N :: t) by (unfold attr_tail; cbn [app]; eauto).
  destruct HQ as [t HQ].
  assert (LQ : 2 <= length t).
  { pose proof (f_equal (@length N) HQ) as LQ. rewrite app_length in LQ. pose proof (attr_tail_len val ic).
    cbn [length] in LQ. lia. }
  pose proof (rest_len s i) as RL.
  destruct (op_shape op Hop) as [[E ->] | [o0 [E [N61 [N93 [Nsp [N47 [Hof N35]]]]]]]]; rewrite E in *; cbn [app] in H.
  - rewrite HQ in H. pose proof (rest_S _ _ _ _ H) as H1.
    rewrite (skip_ws_id _ _ _ _ H) by reflexivity.
    rewrite (leb_rest _ _ _ _ H), (at_rest _ _ _ _ _ H). cbn [bind]. change (61 =? 93)%N with false. cbv iota.
    replace (length s <=? i + 2) with false by (symmetry; apply Nat.leb_gt; rewrite H in RL; cbn [length] in RL; lia).
    rewrite (slice_rest' _ _ i _ [61%N; 34%N] t) by (auto; pose proof (rest_lt _ _ _ _ H); simpl; lia).
    cbn [bind]. rewrite (at_rest _ _ _ _ _ H). cbn [bind]. rewrite (at_rest _ _ _ _ _ H1). cbn [bind].
    change (61 =? 61)%N with true. cbn [negb andb length]. cbv iota.
    cbn [length] in HT. rewrite HQ in HT.
    rewrite (skip_ws_id _ _ _ _ HT) by reflexivity. rewrite (leb_rest _ _ _ _ HT), (at_rest _ _ _ _ _ HT).
    cbn [str_eqb bind]. change ((34 =? 39)%N || (34 =? 34)%N) with true. cbv iota. rewrite <- HQ in HT.
    rewrite (attr_tail_k2 key [61%N] OpEq val ic _ r HT eq_refl). change ((61 =? 35)%N && false) with false. cbv iota. do 2 f_equal. rewrite app_length. cbn [length]. lia.
  - rewrite HQ in H. pose proof (rest_S _ _ _ _ H) as H1. pose proof (rest_S _ _ _ _ H1) as H2.
    rewrite (skip_ws_id _ _ _ _ H Nsp N47).
    rewrite (leb_rest _ _ _ _ H), (at_rest _ _ _ _ _ H). cbn [bind]. rewrite N93.
    replace (length s <=? i + 2) with false by (symmetry; apply Nat.leb_gt; rewrite H in RL; cbn [length] in RL; lia).
    rewrite (slice_rest' _ _ i _ [o0; 61%N] (34%N :: t)) by (auto; pose proof (rest_lt _ _ _ _ H); simpl; lia).
    cbn [bind]. rewrite (at_rest _ _ _ _ _ H). cbn [bind]. rewrite (at_rest _ _ _ _ _ H1). cbn [bind].
    rewrite N61. change (61 =? 61)%N with true. cbn [negb andb length]. cbv iota.
    cbn [length] in HT. rewrite HQ in HT.
    rewrite (skip_ws_id _ _ _ _ HT) by reflexivity. rewrite (leb_rest _ _ _ _ HT), (at_rest _ _ _ _ _ HT).
    cbn [str_eqb]. rewrite N35. cbn [andb bind]. change ((34 =? 39)%N || (34 =? 34)%N) with true. cbv iota.
    rewrite <- HQ in HT.
    rewrite (attr_tail_k2 key [o0; 61%N] op val ic _ r HT Hof). do 2 f_equal. rewrite app_length. cbn [length]. lia.
Qed.
Lemma print_attr_eq k v op ic : op <> OpExists ->
  print_sel (SAttr k v op ic) = 91%N :: escape_identifier k ++ str_of_op op ++ attr_tail v ic.
Proof.
  intros H. unfold attr_tail. destruct op; [congruence|..]; cbn [print_sel app];
    rewrite <- ?app_assoc; cbn [app]; rewrite <- ?app_assoc; reflexivity.
Qed.
Lemma id_start_nospace h : id_start h = true -> is_space h = false /\ (h =? 47)%N = false.
Proof. unfold id_start, name_start, is_space. lia. Qed.

Lemma step_attr k v op ic : normal false (SAttr k v op ic) = true -> simple_step (SAttr k v op ic).
Proof.
  intros Hn f a i sels r H Hd _. cbn [normal] in Hn.
  apply andb_prop in Hn as [Hn Hop]. apply andb_prop in Hn as [Hk Hl].
  assert (Hk' : k <> []) by (destruct k; [discriminate|congruence]).
  destruct (escid_head k Hk') as [h [t [Eh Hh]]]. destruct (id_start_nospace h Hh) as [Hsp H47].
  assert (OP : op = OpExists \/ op <> OpExists) by (destruct op; auto; right; congruence).
  destruct OP as [-> | Hne].
  - apply andb_prop in Hop as [Hv Hic]. destruct v; [|discriminate]. destruct ic; [discriminate|].
    cbn [print_sel str_of_op app] in H |- *.
    rewrite (p_seq_loop_S _ _ _ _ _ _ H). cbv zeta. change (91 =? 35)%N with false. change (91 =? 46)%N with false.
    change (91 =? 91)%N with true. cbv iota. rewrite parse_attr_unfold.
    rewrite (leb_rest _ _ _ _ H), (at_rest _ _ _ _ _ H). cbn [bind]. change (91 =? 91)%N with true. cbn [negb].
    pose proof (rest_S _ _ _ _ H) as H1. rewrite <- app_assoc in H1. cbn [app] in H1.
    pose proof H1 as H1'. rewrite Eh in H1'. cbn [app] in H1'.
    rewrite (skip_ws_id _ _ _ _ H1' Hsp H47).
    rewrite (parse_identifier_escid s (S i) k (93%N :: r) H1 eq_refl Hk'). cbn [bindP].
    rewrite (attr_k1_exists k _ r Hl (rest_app _ _ _ _ H1)). cbn [bindP]. f_equal.
    cbn [length]. rewrite app_length. cbn [length]. lia.
  - rewrite (print_attr_eq k v op ic Hne) in *. cbn [app] in H.
    rewrite (p_seq_loop_S _ _ _ _ _ _ H). cbv zeta. change (91 =? 35)%N with false. change (91 =? 46)%N with false.
    change (91 =? 91)%N with true. cbv iota. rewrite parse_attr_unfold.
    rewrite (leb_rest _ _ _ _ H), (at_rest _ _ _ _ _ H). cbn [bind]. change (91 =? 91)%N with true. cbn [negb].
    pose proof (rest_S _ _ _ _ H) as H1. rewrite <- !app_assoc in H1.
    pose proof H1 as H1'. rewrite Eh in H1'. cbn [app] in H1'.
    rewrite (skip_ws_id _ _ _ _ H1' Hsp H47).
    assert (Hst : stops (str_of_op op ++ attr_tail v ic ++ r) = true) by (destruct op; [congruence|reflexivity..]).
    rewrite (parse_identifier_escid s (S i) k _ H1 Hst Hk'). cbn [bindP].
    rewrite (attr_k1_op k op v ic _ r Hl Hne (rest_app _ _ _ _ H1)). cbn [bindP]. f_equal.
    cbn [length]. rewrite !app_length. lia.
Qed.
End Simple.
