(* Css/RoundTripBuild.v -- property C20, tree level: `build` (blocks and
   functions from the flat stream) commutes with the equivalence of the
   property (`norm`: comments and positions dropped, whitespace runs merged),
   and the final round-trip theorem. *)
From Coq Require Import String.
From Verif Require Import Css.Ser Css.RetokSpec Css.SerWf Css.SerProofs Css.RoundTripTok Css.RoundTripSep
  Css.RoundTripList.
From Coq Require Import List NArith Bool Lia ZifyBool ZifyN ZifyNat.
Import ListNotations.
Open Scope N_scope.

(* ------------------------------------------------------------------ norm on lists *)
Lemma norm_list_eq l :
  (fix norm_list (l : list token) : list token :=
     match l with
     | [] => []
     | TComment _ _ :: r => norm_list r
     | TWhitespace _ v :: r =>
         match norm_list r with
         | TWhitespace _ w :: r' => TWhitespace p0 (v ++ w) :: r'
         | r' => TWhitespace p0 v :: r'
         end
     | t :: r => norm_tok t :: norm_list r
     end) l = norm l.
Proof.
  induction l as [|t r IH]; [reflexivity|].
  destruct t; cbn [norm]; rewrite <- IH; reflexivity.
Qed.

Lemma norm_tok_parens p l : norm_tok (TParens p l) = TParens p0 (norm l).
Proof. cbn [norm_tok]. rewrite norm_list_eq. reflexivity. Qed.
Lemma norm_tok_square p l : norm_tok (TSquare p l) = TSquare p0 (norm l).
Proof. cbn [norm_tok]. rewrite norm_list_eq. reflexivity. Qed.
Lemma norm_tok_curly p l : norm_tok (TCurly p l) = TCurly p0 (norm l).
Proof. cbn [norm_tok]. rewrite norm_list_eq. reflexivity. Qed.
Lemma norm_tok_function p n l : norm_tok (TFunction p n l) = TFunction p0 n (norm l).
Proof. cbn [norm_tok]. rewrite norm_list_eq. reflexivity. Qed.

Definition is_ws (t : token) : bool := match t with TWhitespace _ _ => true | _ => false end.
Definition is_comment (t : token) : bool := match t with TComment _ _ => true | _ => false end.

Lemma norm_cons_plain t r : is_ws t = false -> is_comment t = false -> norm (t :: r) = norm_tok t :: norm r.
Proof. destruct t; try discriminate; reflexivity. Qed.

Lemma norm_tok_plain t : is_ws t = false -> is_comment t = false ->
  is_ws (norm_tok t) = false /\ is_comment (norm_tok t) = false.
Proof. destruct t; try discriminate; auto. Qed.

(* joining two normalised lists: a whitespace token ending the first and one
   starting the second are merged *)
Fixpoint njoin (x y : list token) : list token :=
  match x with
  | [] => y
  | c :: x' =>
      match x', c, y with
      | [], TWhitespace _ v, TWhitespace _ w :: y' => TWhitespace p0 (v ++ w) :: y'
      | _, _, _ => c :: njoin x' y
      end
  end.

Lemma njoin_nil_r x : njoin x [] = x.
Proof.
  induction x as [|c x' IH]; [reflexivity|]. cbn [njoin]. rewrite IH.
  destruct x'; [destruct c; reflexivity|reflexivity].
Qed.

Lemma njoin_cons_plain c x y : is_ws c = false -> njoin (c :: x) y = c :: njoin x y.
Proof. intros H. cbn [njoin]. destruct x; [destruct c; try discriminate; reflexivity|reflexivity]. Qed.

Lemma njoin_cons_cons c d x y : njoin (c :: d :: x) y = c :: njoin (d :: x) y.
Proof. reflexivity. Qed.

(* the head of a join *)
Definition ws_cons (v : str) (z : list token) : list token :=
  match z with
  | TWhitespace _ u :: z' => TWhitespace p0 (v ++ u) :: z'
  | _ => TWhitespace p0 v :: z
  end.

Lemma norm_ws_cons p v r : norm (TWhitespace p v :: r) = ws_cons v (norm r).
Proof. cbn [norm ws_cons]. destruct (norm r) as [|[] ?]; reflexivity. Qed.

Lemma ws_cons_njoin v x y : ws_cons v (njoin x y) = njoin (ws_cons v x) y.
Proof.
  destruct x as [|c x'].
  - cbn [njoin ws_cons]. destruct y as [|d y']; [reflexivity|]. destruct d; reflexivity.
  - destruct c; try (cbn [ws_cons]; rewrite njoin_cons_cons;
                     rewrite (njoin_cons_plain _ x' y) by reflexivity; reflexivity).
    (* c is whitespace *)
    cbn [ws_cons]. destruct x' as [|d x''].
    + cbn [njoin]. destruct y as [|e y']; [reflexivity|]. destruct e; try reflexivity.
      cbn [ws_cons]. rewrite app_assoc. reflexivity.
    + rewrite !njoin_cons_cons. reflexivity.
Qed.

Lemma norm_app a : forall b, norm (a ++ b) = njoin (norm a) (norm b).
Proof.
  induction a as [|t r IH]; intros b; [reflexivity|].
  cbn [app]. destruct t;
    try (rewrite !norm_cons_plain by reflexivity; rewrite IH;
         rewrite njoin_cons_plain; [reflexivity|];
         match goal with |- is_ws (norm_tok ?t) = false => destruct (norm_tok_plain t eq_refl eq_refl) as [H _]; exact H end).
  - (* comment *) cbn [norm]. apply IH.
  - (* whitespace *) rewrite !norm_ws_cons, IH. apply ws_cons_njoin.
Qed.

Lemma norm_app_cong_l a a' b : norm a = norm a' -> norm (a ++ b) = norm (a' ++ b).
Proof. intros H. rewrite !norm_app, H. reflexivity. Qed.
Lemma norm_app_cong_r a b b' : norm b = norm b' -> norm (a ++ b) = norm (a ++ b').
Proof. intros H. rewrite !norm_app, H. reflexivity. Qed.

(* ------------------------------------------------------------------ accumulators with equal norms build equal norms *)
Definition cur_eq (c1 c2 : list token) : Prop := norm (rev c1) = norm (rev c2).

Inductive stack_eq : list (opener * list token) -> list (opener * list token) -> Prop :=
| se_nil : stack_eq [] []
| se_cons o p1 p2 s1 s2 : cur_eq p1 p2 -> stack_eq s1 s2 -> stack_eq ((o, p1) :: s1) ((o, p2) :: s2).

Lemma cur_eq_push t1 t2 c1 c2 : norm [t1] = norm [t2] -> cur_eq c1 c2 -> cur_eq (t1 :: c1) (t2 :: c2).
Proof.
  intros Ht Hc. unfold cur_eq in *. cbn [rev]. rewrite !norm_app, Hc, Ht. reflexivity.
Qed.

Lemma norm_mk_block o l1 l2 : norm l1 = norm l2 -> norm [mk_block o l1] = norm [mk_block o l2].
Proof.
  intros H. destruct o as [c|n]; cbn [mk_block].
  - destruct (c =? 40); [|destruct (c =? 91)]; cbn [norm];
      rewrite ?norm_tok_parens, ?norm_tok_square, ?norm_tok_curly, H; reflexivity.
  - cbn [norm]. rewrite !norm_tok_function, H. reflexivity.
Qed.

Lemma close_all_eq s1 s2 : stack_eq s1 s2 -> forall c1 c2, cur_eq c1 c2 ->
  norm (close_all s1 c1) = norm (close_all s2 c2).
Proof.
  induction 1 as [|o p1 p2 s1 s2 Hp _ IH]; intros c1 c2 Hc.
  - exact Hc.
  - cbn [close_all]. apply IH. apply cur_eq_push; auto. apply norm_mk_block, Hc.
Qed.

Lemma build_eq l : forall s1 s2 c1 c2, stack_eq s1 s2 -> cur_eq c1 c2 ->
  norm (build s1 c1 l) = norm (build s2 c2 l).
Proof.
  induction l as [|x l IH]; intros s1 s2 c1 c2 Hs Hc.
  - cbn [build]. apply close_all_eq; auto.
  - destruct x as [t|c|n|c]; cbn [build].
    + apply IH; auto. apply cur_eq_push; auto.
    + apply IH; [constructor; auto|reflexivity].
    + apply IH; [constructor; auto|reflexivity].
    + destruct Hs as [|o p1 p2 s1 s2 Hp Hs].
      * apply IH; [constructor|]. apply cur_eq_push; auto.
      * destruct (c =? closer o).
        -- apply IH; auto. apply cur_eq_push; auto. apply norm_mk_block, Hc.
        -- apply IH; [constructor; auto|]. apply cur_eq_push; auto.
Qed.

(* ------------------------------------------------------------------ build and mergews *)
Lemma build_mergews l : forall st cur, norm (build st cur l) = norm (build st cur (mergews l)).
Proof.
  induction l as [|x l IH]; intros st cur; [reflexivity|].
  assert (Hst : stack_eq st st).
  { clear. induction st as [|[o p] st IH]; constructor; [reflexivity|exact IH]. }
  destruct x as [t|c|n|c].
  - destruct t; try (cbn [mergews build]; apply IH).
    (* whitespace *)
    cbn [mergews]. cbn [build]. rewrite IH.
    assert (Hplain : norm (build st (TWhitespace p v :: cur) (mergews l)) =
                     norm (build st cur (FTok (TWhitespace p0 v) :: mergews l))).
    { cbn [build]. apply build_eq; auto. apply cur_eq_push; reflexivity. }
    destruct (mergews l) as [|y l'] eqn:E; [exact Hplain|].
    destruct y as [t'| | |]; try exact Hplain.
    destruct t'; try exact Hplain.
    cbn [build]. apply build_eq; auto.
    unfold cur_eq. cbn [rev]. rewrite <- !app_assoc. apply norm_app_cong_r.
    cbn [app norm]. reflexivity.
  - cbn [mergews build]. apply IH.
  - cbn [mergews build]. apply IH.
  - cbn [mergews build]. destruct st as [|[o p] st']; [apply IH|].
    destruct (c =? closer o); apply IH.
Qed.

(* ------------------------------------------------------------------ build of a flattened tree *)
Lemma stack_eq_refl st : stack_eq st st.
Proof. induction st as [|[o p] st IH]; constructor; [reflexivity|exact IH]. Qed.

Lemma norm_single_leaf t :
  match t with TParens _ _ | TSquare _ _ | TCurly _ _ | TFunction _ _ _ | TComment _ _ => False | _ => True end ->
  norm [norm_tok t] = norm [t].
Proof. destruct t; intros H; try contradiction; reflexivity. Qed.

Lemma build_fl n : forall ts s1 c1 s2 c2 l,
  (lsize ts <= n)%nat -> stack_eq s1 s2 -> cur_eq c1 c2 ->
  norm (build s1 c1 (fl ts ++ l)) = norm (build s2 (rev ts ++ c2) l).
Proof.
  induction n as [|n IH]; intros ts s1 c1 s2 c2 l Hn Hs Hc.
  { destruct ts as [|t r]; [|rewrite lsize_cons in Hn; pose proof (tsize_pos t); lia].
    cbn [fl flat_map rev app]. apply build_eq; auto. }
  revert s1 c1 s2 c2 Hs Hc. induction ts as [|t r IHr]; intros s1 c1 s2 c2 Hs Hc.
  { cbn [fl flat_map rev app]. apply build_eq; auto. }
  rewrite lsize_cons in Hn. pose proof (tsize_pos t) as Htp.
  unfold fl. cbn [flat_map rev]. rewrite <- !app_assoc. cbn [app].
  assert (Hr : forall s1 c1 s2 c2, stack_eq s1 s2 -> cur_eq c1 c2 ->
               norm (build s1 c1 (fl r ++ l)) = norm (build s2 (rev r ++ c2) l)).
  { intros. apply IHr; auto. lia. }
  assert (Hblock : forall o args tk,
            (lsize args <= n)%nat -> norm [tk] = norm [mk_block o args] ->
            norm (build ((o, c1) :: s1) [] (fl args ++ FClose (closer o) :: fl r ++ l)) =
            norm (build s2 (rev r ++ tk :: c2) l)).
  { intros o args tk Ha Htk.
    rewrite (IH args ((o, c1) :: s1) [] ((o, c1) :: s1) [] _ Ha (stack_eq_refl _) eq_refl).
    rewrite app_nil_r. cbn [build]. rewrite N.eqb_refl. rewrite rev_involutive.
    apply Hr; auto. apply cur_eq_push; auto. }
  destruct t; cbn [fl_tok app];
    try (cbn [build]; change (rev r ++ [?t] ++ c2) with (rev r ++ t :: c2);
         apply Hr; auto; apply cur_eq_push; auto; apply norm_single_leaf; exact I).
  - (* comment *) apply Hr; auto. unfold cur_eq in *. cbn [rev]. rewrite norm_app, <- Hc.
    cbn [norm]. apply eq_sym, njoin_nil_r.
  - (* ( ) *) cbn [build]. rewrite <- app_assoc. cbn [app].
    apply (Hblock (OBlock 40) args (TParens p args)); [cbn [tsize] in Hn; unfold lsize; lia|].
    cbn [mk_block]. change (40 =? 40) with true. cbn iota. cbn [norm]. rewrite !norm_tok_parens. reflexivity.
  - cbn [build]. rewrite <- app_assoc. cbn [app].
    apply (Hblock (OBlock 91) args (TSquare p args)); [cbn [tsize] in Hn; unfold lsize; lia|].
    cbn [mk_block]. change (91 =? 40) with false. change (91 =? 91) with true. cbn iota. cbn [norm].
    rewrite !norm_tok_square. reflexivity.
  - cbn [build]. rewrite <- app_assoc. cbn [app].
    apply (Hblock (OBlock 123) args (TCurly p args)); [cbn [tsize] in Hn; unfold lsize; lia|].
    cbn [mk_block]. change (123 =? 40) with false. change (123 =? 91) with false. cbn iota. cbn [norm].
    rewrite !norm_tok_curly. reflexivity.
  - cbn [build]. rewrite <- app_assoc. cbn [app].
    apply (Hblock (OFun name) args (TFunction p name args)); [cbn [tsize] in Hn; unfold lsize; lia|].
    cbn [mk_block]. cbn [norm]. rewrite !norm_tok_function. reflexivity.
Qed.

Theorem build_fl_norm ts : norm (build [] [] (fl ts)) = norm ts.
Proof.
  rewrite <- (app_nil_r (fl ts)).
  rewrite (build_fl (lsize ts) ts [] [] [] [] [] (le_n _) se_nil eq_refl).
  rewrite app_nil_r. cbn [build close_all]. rewrite rev_involutive. reflexivity.
Qed.

(* ------------------------------------------------------------------ the serializer does not panic on well-formed lists *)
Lemma name_val_nonempty v : name_val v = true -> v <> [].
Proof. destruct v; [discriminate|discriminate]. Qed.

Lemma ser_total n : forall ts prev, (lsize ts <= n)%nat -> wf_tokens ts = true ->
  exists s, serialize_from prev ts = Ok s.
Proof.
  induction n as [|n IH]; intros ts prev Hn Hw.
  { destruct ts as [|t r]; [exists []; reflexivity|rewrite lsize_cons in Hn; pose proof (tsize_pos t); lia]. }
  destruct ts as [|t r]; [exists []; reflexivity|].
  rewrite lsize_cons in Hn. pose proof (tsize_pos t) as Htp.
  cbn [wf_tokens] in Hw. apply andb_true_iff in Hw as [Hw Hwr]. apply andb_true_iff in Hw as [Hwt _].
  destruct (IH r (Some t) ltac:(lia) Hwr) as (b & Hb).
  assert (Ha : exists a, ser_token t = Ok a).
  { assert (Hargs : forall args, (lsize args <= n)%nat -> wf_tokens args = true ->
                    exists sa, ser_list_with ser_token None args = Ok sa).
    { intros args Hl Hwa. apply (IH args None Hl Hwa). }
    destruct t; cbn [ser_token]; try (eexists; reflexivity).
    - discriminate Hwt.
    - cbn [wf_tok] in Hwt. apply serialize_identifier_ok, name_val_nonempty, Hwt.
    - cbn [wf_tok] in Hwt. destruct (serialize_identifier_ok v (name_val_nonempty v Hwt)) as (s' & ->). eexists; reflexivity.
    - cbn [wf_tok] in Hwt. apply andb_true_iff in Hwt as [Hv _]. destruct is_id; [|eexists; reflexivity].
      destruct (serialize_identifier_ok v (name_val_nonempty v Hv)) as (s' & ->). eexists; reflexivity.
    - destruct (range_end =? range_start); eexists; reflexivity.
    - cbn [wf_tok] in Hwt. apply andb_true_iff in Hwt as [_ Hu].
      pose proof (ser_dimension p repr is_int unit) as E. cbn [ser_token] in E. rewrite E.
      unfold ser_unit. destruct unit as [|c u]; [discriminate|].
      destruct (((c =? 101) || (c =? 69)) && match u with [] => true | d :: _ => (d =? 45) || is_digit d end);
        [eexists; reflexivity|].
      destruct (serialize_identifier_ok (c :: u) (name_val_nonempty _ Hu)) as (s' & ->). eexists; reflexivity.
    - rewrite wf_parens in Hwt. destruct (Hargs args ltac:(cbn [tsize] in Hn; unfold lsize; lia) Hwt) as (sa & ->).
      eexists; reflexivity.
    - rewrite wf_square in Hwt. destruct (Hargs args ltac:(cbn [tsize] in Hn; unfold lsize; lia) Hwt) as (sa & ->).
      eexists; reflexivity.
    - rewrite wf_curly in Hwt. destruct (Hargs args ltac:(cbn [tsize] in Hn; unfold lsize; lia) Hwt) as (sa & ->).
      eexists; reflexivity.
    - rewrite wf_function in Hwt. apply andb_true_iff in Hwt as [Hwt _]. apply andb_true_iff in Hwt as [Hname Hwa].
      destruct (serialize_identifier_ok name (name_val_nonempty _ Hname)) as (sn & ->).
      destruct (Hargs args ltac:(cbn [tsize] in Hn; unfold lsize; lia) Hwa) as (sa & ->).
      eexists; reflexivity. }
  destruct Ha as (a & Ha). rewrite serialize_from_cons, Ha, Hb. eexists; reflexivity.
Qed.

Theorem serialize_total ts : wf_tokens ts = true -> exists s, serialize ts = Ok s.
Proof. intros H. apply (ser_total (lsize ts) ts None (le_n _) H). Qed.

(* ------------------------------------------------------------------ the round trip, on preprocessed text *)
Definition tokenize_pre (skip : bool) (s : list N) : list token :=
  build [] [] (lex skip (S (length s)) s).

Theorem roundtrip_pre ts s :
  wf_tokens ts = true -> serialize ts = Ok s -> norm (tokenize_pre true s) = norm ts.
Proof.
  intros Hw Hs. unfold tokenize_pre.
  destruct (lex_ser (lsize ts) ts None [] [] s (le_n _) Hw I Hs lexes_nil (or_introl eq_refl))
    as (out' & L & M).
  rewrite app_nil_r in L, M.
  rewrite (lexes_lex s out' L (S (length s)) ltac:(lia)).
  rewrite build_mergews, M, <- build_mergews. apply build_fl_norm.
Qed.

(* ------------------------------------------------------------------ serialized text is not changed by preprocessing *)
Definition clean (s : list N) : bool := forallb clean_cp s.

Lemma preprocess_clean s : clean s = true -> preprocess s = s.
Proof.
  induction s as [|c r IH]; [reflexivity|]. unfold clean. cbn [forallb]. intros H.
  apply andb_true_iff in H as [Hc Hr]. unfold clean_cp in Hc. cbn [preprocess].
  assert (E0 : c =? 0 = false) by lia. assert (E13 : c =? 13 = false) by lia. assert (E12 : c =? 12 = false) by lia.
  rewrite E0, E13, E12. rewrite IH; auto.
Qed.

Lemma clean_app a b : clean (a ++ b) = clean a && clean b.
Proof. apply forallb_app. Qed.

Lemma clean_cons c s : clean (c :: s) = clean_cp c && clean s.
Proof. reflexivity. Qed.

Lemma clean_flat_map {A} (f : A -> list N) (P : A -> bool) v :
  (forall c, P c = true -> clean (f c) = true) -> forallb P v = true -> clean (flat_map f v) = true.
Proof.
  intros H. induction v as [|c v IH]; [reflexivity|]. cbn [forallb flat_map]. intros Hv.
  apply andb_true_iff in Hv as [Hc Hv]. rewrite clean_app, (H c Hc), (IH Hv). reflexivity.
Qed.

Lemma hexdig_clean h : forallb hexdig h = true -> clean h = true.
Proof.
  induction h as [|d h IH]; [reflexivity|]. cbn [forallb]. intros H. apply andb_true_iff in H as [Hd H].
  unfold clean. cbn [forallb]. fold (clean h). rewrite (IH H). unfold clean_cp. unf. lia.
Qed.

Lemma hex_upper_clean c : c < 256 -> clean (hex_upper c) = true.
Proof. intros H. apply hexdig_clean. apply hex_upper_spec. cbn. lia. Qed.

Ltac clean_ifs :=
  repeat match goal with
         | |- context [if ?b then _ else _] => let E := fresh "E" in destruct b eqn:E
         end.

Lemma name_char_clean c : negb (c =? 0) = true -> clean (name_char c) = true.
Proof.
  intros H0. unfold name_char. clean_ifs; try reflexivity;
    unfold clean; cbn [forallb]; unfold clean_cp; unf; lia.
Qed.

Lemma serialize_name_clean v : no_nul v = true -> clean (serialize_name v) = true.
Proof. apply clean_flat_map. apply name_char_clean. Qed.

Lemma ident_first_char_clean c : negb (c =? 0) = true -> clean (ident_first_char c) = true.
Proof.
  intros H0. unfold ident_first_char. clean_ifs; try reflexivity;
    try (unfold clean; cbn [forallb]; unfold clean_cp; unf; lia).
  (* digit *)
  change (92 :: hex_upper c ++ [32]) with ([92] ++ hex_upper c ++ [32]).
  rewrite !clean_app, hex_upper_clean by (unf; lia). reflexivity.
Qed.

Lemma serialize_identifier_clean v s : no_nul v = true -> serialize_identifier v = Ok s -> clean s = true.
Proof.
  intros Hv. unfold serialize_identifier. destruct v as [|c r]; [discriminate|].
  cbn [no_nul forallb] in Hv. apply andb_true_iff in Hv as [Hc Hr].
  destruct (c =? 45).
  - destruct r as [|d r']; [intros H; injection H as <-; reflexivity|].
    cbn [forallb] in Hr. apply andb_true_iff in Hr as [Hd Hr'].
    destruct (d =? 45).
    + destruct r' as [|e r'']; intros H; injection H as <-; [reflexivity|].
      change (45 :: 45 :: name_char e ++ serialize_name r'') with ([45; 45] ++ serialize_name (e :: r'')).
      rewrite clean_app, serialize_name_clean by exact Hr'. reflexivity.
    + intros H; injection H as <-.
      change (45 :: ident_first_char d ++ serialize_name r') with ([45] ++ ident_first_char d ++ serialize_name r').
      rewrite !clean_app, ident_first_char_clean, serialize_name_clean; auto.
  - intros H; injection H as <-. rewrite clean_app, ident_first_char_clean, serialize_name_clean; auto.
Qed.

Lemma string_char_clean c : negb (c =? 0) = true -> clean (string_char c) = true.
Proof.
  intros H0. unfold string_char. clean_ifs; try reflexivity.
  unfold clean; cbn [forallb]; unfold clean_cp; lia.
Qed.

Lemma url_char_clean c : negb (c =? 0) = true -> clean (url_char c) = true.
Proof.
  intros H0. unfold url_char. clean_ifs; try reflexivity.
  - change (92 :: hex_upper c ++ [32]) with ([92] ++ hex_upper c ++ [32]).
    rewrite !clean_app, hex_upper_clean by lia. reflexivity.
  - unfold clean; cbn [forallb]; unfold clean_cp; lia.
Qed.

Lemma number_repr_clean repr : number_repr repr = true -> clean repr = true.
Proof.
  intros H. destruct (number_repr_parts repr H) as (sg & d1 & frac & ex & -> & [Hsg Hd1 Hfrac Hex _]).
  assert (Hdig : forall d, digits d = true -> clean d = true).
  { induction d as [|c d IH]; [reflexivity|]. unfold digits. cbn [forallb]. intros Hd.
    apply andb_true_iff in Hd as [Hc Hd]. unfold clean. cbn [forallb]. fold (clean d). rewrite (IH Hd).
    unfold clean_cp. unf. lia. }
  assert (Hsgc : forall g, is_sg g = true -> clean g = true).
  { intros g Hg. destruct g as [|c [|? ?]]; try discriminate; [reflexivity|].
    cbn in Hg. unfold clean. cbn [forallb]. unfold clean_cp. unf. lia. }
  rewrite !clean_app, (Hsgc _ Hsg), (Hdig _ Hd1). cbn [andb].
  assert (Hf : clean frac = true).
  { destruct Hfrac as [->|(d2 & -> & _ & Hd2)]; [reflexivity|].
    change (46 :: d2) with ([46] ++ d2). rewrite clean_app, (Hdig _ Hd2). reflexivity. }
  assert (He : clean ex = true).
  { destruct Hex as [->|(e & es & d3 & -> & Hee & Hes & _ & Hd3)]; [reflexivity|].
    change (e :: es ++ d3) with ([e] ++ es ++ d3). rewrite !clean_app, (Hsgc _ Hes), (Hdig _ Hd3).
    unfold clean. cbn [forallb]. unfold clean_cp, is_e in *. lia. }
  rewrite Hf, He. reflexivity.
Qed.

Lemma separator_clean prev t r : prev_ok prev (t :: r) -> clean (separator prev t) = true.
Proof. intros H. destruct (separator_cases prev t r H) as [-> | ->]; reflexivity. Qed.

Lemma ser_clean n : forall ts prev s, (lsize ts <= n)%nat -> wf_tokens ts = true -> prev_ok prev ts ->
  serialize_from prev ts = Ok s -> clean s = true.
Proof.
  induction n as [|n IH]; intros ts prev s Hn Hw Hp Hs.
  { destruct ts as [|t r]; [cbn in Hs; injection Hs as <-; reflexivity|].
    rewrite lsize_cons in Hn; pose proof (tsize_pos t); lia. }
  destruct ts as [|t r]; [cbn in Hs; injection Hs as <-; reflexivity|].
  rewrite lsize_cons in Hn. pose proof (tsize_pos t) as Htp.
  cbn [wf_tokens] in Hw. apply andb_true_iff in Hw as [Hw Hwr]. apply andb_true_iff in Hw as [Hwt Hbs].
  rewrite serialize_from_cons in Hs.
  apply bind_ok in Hs as (a & Ha & Hs). apply bind_ok in Hs as (b & Hb & Hs). injection Hs as <-.
  rewrite !clean_app, (separator_clean prev t r Hp), (IH r (Some t) b ltac:(lia) Hwr (conj Hwt Hbs) Hb).
  rewrite andb_true_r. cbn [andb].
  assert (Hargs : forall args sa, (lsize args <= n)%nat -> wf_tokens args = true ->
                  ser_list_with ser_token None args = Ok sa -> clean sa = true).
  { intros args sa Hl Hwa Hsa. apply (IH args None sa Hl Hwa I Hsa). }
  destruct t; cbn [ser_token] in Ha.
  - injection Ha as <-. cbn [wf_tok] in Hwt. unfold wf_literal in Hwt.
    destruct v as [|c [|b0 [|c0 [|d [|? ?]]]]]; try discriminate Hwt.
    + unfold lit1 in Hwt. unfold clean. cbn [forallb]. unfold clean_cp. unf. lia.
    + apply orb_true_iff in Hwt as [Hwt|Hwt]; bsplit; [reflexivity|].
      destruct (cmp_delim_cases c H) as [->|[->|[->|[->| ->]]]]; reflexivity.
    + bsplit. reflexivity.
    + bsplit. reflexivity.
  - discriminate Hwt.
  - injection Ha as <-. cbn [wf_tok] in Hwt. unfold comment_ok in Hwt. apply andb_true_iff in Hwt as [_ Hv].
    change (47 :: 42 :: v ++ cps "*/"%string) with ([47; 42] ++ v ++ [42; 47]).
    rewrite !clean_app. unfold clean at 2. rewrite Hv. reflexivity.
  - injection Ha as <-. cbn [wf_tok] in Hwt. apply andb_true_iff in Hwt as [_ Hv].
    revert Hv. clear. induction v as [|c v IH]; [reflexivity|]. cbn [forallb]. intros H.
    apply andb_true_iff in H as [Hc H]. unfold clean. cbn [forallb]. fold (clean v). rewrite (IH H).
    unfold clean_cp. unf. lia.
  - cbn [wf_tok] in Hwt. apply andb_true_iff in Hwt as [_ Hv]. apply (serialize_identifier_clean v); auto.
  - cbn [wf_tok] in Hwt. apply andb_true_iff in Hwt as [_ Hv].
    apply bind_ok in Ha as (s' & Hs' & Ha). injection Ha as <-.
    change (64 :: s') with ([64] ++ s'). rewrite clean_app, (serialize_identifier_clean v s'); auto.
  - cbn [wf_tok] in Hwt. apply andb_true_iff in Hwt as [Hv _]. apply andb_true_iff in Hv as [_ Hv].
    destruct is_id.
    + apply bind_ok in Ha as (s' & Hs' & Ha). injection Ha as <-.
      change (35 :: s') with ([35] ++ s'). rewrite clean_app, (serialize_identifier_clean v s'); auto.
    + injection Ha as <-. change (35 :: serialize_name v) with ([35] ++ serialize_name v).
      rewrite clean_app, serialize_name_clean; auto.
  - cbn [wf_tok] in Hwt. apply andb_true_iff in Hwt as [He Hv]. apply negb_true_iff in He. subst err.
    injection Ha as <-. change (34 :: serialize_string_value v ++ [34]) with ([34] ++ serialize_string_value v ++ [34]).
    rewrite !clean_app. unfold serialize_string_value. rewrite (clean_flat_map string_char _ v string_char_clean Hv).
    reflexivity.
  - cbn [wf_tok] in Hwt. apply andb_true_iff in Hwt as [He Hv]. apply negb_true_iff in He. subst err.
    cbv zeta in Ha. injection Ha as <-.
    change (117 :: 114 :: 108 :: 40 :: serialize_url v ++ [41]) with ([117; 114; 108; 40] ++ serialize_url v ++ [41]).
    rewrite !clean_app. unfold serialize_url. rewrite (clean_flat_map url_char _ v url_char_clean Hv).
    reflexivity.
  - cbn [wf_tok] in Hwt. apply andb_true_iff in Hwt as [H1 H2].
    assert (Ha1 : clean (hex_upper range_start) = true).
    { apply hexdig_clean, hex_upper_spec. unfold pow16_6 in H1. cbn. lia. }
    assert (Ha2 : clean (hex_upper range_end) = true).
    { apply hexdig_clean, hex_upper_spec. unfold pow16_6 in H2. cbn. lia. }
    destruct (range_end =? range_start); injection Ha as <-;
      repeat (rewrite ?clean_cons, ?clean_app); rewrite ?Ha1, ?Ha2; reflexivity.
  - cbn [wf_tok] in Hwt. apply andb_true_iff in Hwt as [Hr _]. injection Ha as <-. apply number_repr_clean, Hr.
  - cbn [wf_tok] in Hwt. apply andb_true_iff in Hwt as [Hr _]. injection Ha as <-.
    rewrite clean_app, number_repr_clean; auto.
  - cbn [wf_tok] in Hwt. apply andb_true_iff in Hwt as [Hwt Hu]. apply andb_true_iff in Hwt as [Hr _].
    apply andb_true_iff in Hu as [_ Hu].
    pose proof (ser_dimension p repr is_int unit) as E. cbn [ser_token] in E. rewrite E in Ha.
    apply bind_ok in Ha as (us & Hus & Ha). injection Ha as <-.
    rewrite clean_app, number_repr_clean by exact Hr. cbn [andb].
    unfold ser_unit in Hus. destruct unit as [|c u]; [discriminate|].
    destruct (((c =? 101) || (c =? 69)) && match u with [] => true | d :: _ => (d =? 45) || is_digit d end).
    + injection Hus as <-. cbn [no_nul forallb] in Hu. apply andb_true_iff in Hu as [_ Hu].
      rewrite clean_app, serialize_name_clean by exact Hu. destruct (c =? 101); reflexivity.
    + apply (serialize_identifier_clean (c :: u)); auto.
  - rewrite wf_parens in Hwt. apply bind_ok in Ha as (sa & Hsa & Ha). injection Ha as <-.
    change (40 :: sa ++ [41]) with ([40] ++ sa ++ [41]).
    rewrite !clean_app, (Hargs args sa); auto. cbn [tsize] in Hn; unfold lsize; lia.
  - rewrite wf_square in Hwt. apply bind_ok in Ha as (sa & Hsa & Ha). injection Ha as <-.
    change (91 :: sa ++ [93]) with ([91] ++ sa ++ [93]).
    rewrite !clean_app, (Hargs args sa); auto. cbn [tsize] in Hn; unfold lsize; lia.
  - rewrite wf_curly in Hwt. apply bind_ok in Ha as (sa & Hsa & Ha). injection Ha as <-.
    change (123 :: sa ++ [125]) with ([123] ++ sa ++ [125]).
    rewrite !clean_app, (Hargs args sa); auto. cbn [tsize] in Hn; unfold lsize; lia.
  - rewrite wf_function in Hwt. apply andb_true_iff in Hwt as [Hwt _]. apply andb_true_iff in Hwt as [Hname Hwa].
    apply andb_true_iff in Hname as [_ Hname].
    apply bind_ok in Ha as (sn & Hsn & Ha). apply bind_ok in Ha as (sa & Hsa & Ha). injection Ha as <-.
    repeat (rewrite ?clean_cons, ?clean_app).
    rewrite (serialize_identifier_clean name sn), (Hargs args sa); auto.
    + match goal with |- context [if ?b then _ else _] => destruct b end; reflexivity.
    + cbn [tsize] in Hn; unfold lsize; lia.
Qed.

(* ------------------------------------------------------------------ the round trip *)
Theorem roundtrip ts s :
  wf_tokens ts = true -> serialize ts = Ok s -> norm (tokenize true s) = norm ts.
Proof.
  intros Hw Hs. unfold tokenize.
  rewrite (preprocess_clean s (ser_clean (lsize ts) ts None s (le_n _) Hw I Hs)).
  apply (roundtrip_pre ts s Hw Hs).
Qed.
