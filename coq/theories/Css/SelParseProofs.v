(* Css/SelParseProofs.v -- the selector parser model never panics and never
   runs out of fuel: ParseGroup returns (a group or an error) for every input. *)
From Verif Require Import Css.Sel Css.SelParse.
From Coq Require Import ZArith NArith Lia List Bool Arith ZifyBool ZifyNat.
Import ListNotations.

Section Total.
Variable s : str.
Local Notation len := (length s).

(* r is an error, or a success at a position in [i, len] *)
Definition good {A} (i : nat) (r : res (pr A)) : Prop :=
  match r with
  | Ok (POk _ i') => i <= i' <= len
  | Ok PErr => True
  | Panic _ => False
  | OutOfFuel => False
  end.
(* ... at a position in (i, len]: the function consumed input *)
Definition good_lt {A} (i : nat) (r : res (pr A)) : Prop :=
  match r with
  | Ok (POk _ i') => i < i' <= len
  | Ok PErr => True
  | Panic _ => False
  | OutOfFuel => False
  end.

Lemma good_lt_good {A} i (r : res (pr A)) : good_lt i r -> good i r.
Proof. destruct r as [[a i'|]| |]; simpl; lia. Qed.
Lemma good_mono {A} i j (r : res (pr A)) : i <= j -> good j r -> good i r.
Proof. destruct r as [[a i'|]| |]; simpl; lia. Qed.
Lemma good_lt_mono {A} i j (r : res (pr A)) : i <= j -> good_lt j r -> good_lt i r.
Proof. destruct r as [[a i'|]| |]; simpl; lia. Qed.
Lemma good_lt_of_good {A} i j (r : res (pr A)) : i < j -> good j r -> good_lt i r.
Proof. destruct r as [[a i'|]| |]; simpl; lia. Qed.

Lemma good_bind {A B} i (m : res (pr A)) (k : A -> nat -> res (pr B)) :
  good i m -> (forall a i', i <= i' <= len -> good i' (k a i')) -> good i (bindP m k).
Proof.
  destruct m as [[a i'|]| |]; simpl; try tauto. intros H Hk.
  eapply good_mono; [|apply Hk; exact H]. lia.
Qed.
Lemma good_lt_bind {A B} i (m : res (pr A)) (k : A -> nat -> res (pr B)) :
  good_lt i m -> (forall a i', i < i' <= len -> good i' (k a i')) -> good_lt i (bindP m k).
Proof.
  destruct m as [[a i'|]| |]; simpl; try tauto. intros H Hk.
  eapply good_lt_of_good; [|apply Hk; exact H]. lia.
Qed.
Lemma good_bind_lt {A B} i (m : res (pr A)) (k : A -> nat -> res (pr B)) :
  good i m -> (forall a i', i <= i' <= len -> good_lt i' (k a i')) -> good_lt i (bindP m k).
Proof.
  destruct m as [[a i'|]| |]; simpl; try tauto. intros H Hk.
  eapply good_lt_mono; [|apply Hk; exact H]. lia.
Qed.

(* reads and slices inside the bounds do not panic *)
Lemma at_ok site i : i < len -> exists c, at_ s site i = Ok c.
Proof.
  intros H. unfold at_. destruct (nth_error s i) eqn:E; [eauto|]. apply nth_error_None in E. lia.
Qed.
Lemma slice_ok site a b : a <= b <= len -> exists r, slice s site a b = Ok r.
Proof.
  intros H. unfold slice. destruct (Nat.leb_spec a b), (Nat.leb_spec b len); simpl; eauto; lia.
Qed.
Lemma peek_lt i f : peek s i f = true -> i < len.
Proof.
  unfold peek. destruct (nth_error s i) eqn:E; [|discriminate]. intros _. apply nth_error_Some. congruence.
Qed.

Ltac use_at site i :=
  let c := fresh "c" in let E := fresh "E" in
  destruct (at_ok site i) as [c E]; [lia | rewrite E; cbn [bind]].
Ltac use_slice site a b :=
  let r := fresh "r" in let E := fresh "E" in
  destruct (slice_ok site a b) as [r E]; [lia | rewrite E; cbn [bind]].

Lemma hex_run_S j n : hex_run s j (S n) = if peek s j hex_digit then hex_run s (S j) n else j.
Proof. reflexivity. Qed.

Lemma hex_run_bounds n : forall j, j <= len -> j <= hex_run s j n <= len.
Proof.
  induction n as [|n IH]; intros j Hj; cbn [hex_run]; [lia|].
  destruct (peek s j hex_digit) eqn:E; [|lia].
  apply peek_lt in E. specialize (IH (S j) E). lia.
Qed.

Lemma parse_escape_good i : i <= len ->
  match parse_escape s i with
  | Ok (POk _ i') => i + 2 <= i' <= len
  | Ok PErr => True
  | _ => False
  end.
Proof.
  intros Hi. unfold parse_escape. destruct (Nat.ltb_spec len (i + 2)); [exact I|].
  use_at 24%N i. destruct (negb (c =? 92)%N); [exact I|].
  use_at 29%N (i + 1). destruct ((c0 =? 13)%N || (c0 =? 10)%N || (c0 =? 12)%N); [exact I|].
  destruct (hex_digit c0) eqn:Eh.
  - assert (Hrun : i + 2 <= hex_run s (i + 1) 6 <= len).
    { rewrite (hex_run_S (i + 1) 5). unfold peek, at_ in *.
      destruct (nth_error s (i + 1)) as [x|] eqn:En; [|discriminate].
      injection E0 as ->. rewrite Eh. pose proof (hex_run_bounds 5 (S (i + 1))). lia. }
    set (j := hex_run s (i + 1) 6) in *. use_slice 39%N (i + 1) j.
    destruct (Nat.ltb_spec j len).
    + use_at 41%N j. destruct (c1 =? 13)%N.
      * destruct (peek_is s (S j) 10) eqn:Ep; cbn [bind]; [apply peek_lt in Ep|]; lia.
      * destruct ((c1 =? 32)%N || (c1 =? 9)%N || (c1 =? 10)%N || (c1 =? 12)%N); cbn [bind]; lia.
    + cbn [bind]. lia.
  - use_slice 56%N (i + 1) (i + 1 + 1). lia.
Qed.

Lemma parse_escape_good' i : i <= len -> good_lt i (parse_escape s i).
Proof.
  intros Hi. pose proof (parse_escape_good i Hi) as H. unfold good_lt.
  destruct (parse_escape s i) as [[a i'|]| |]; try tauto. lia.
Qed.

Lemma name_loop_good : forall n i acc, i <= len -> len - i < n ->
  match name_loop s n i acc with
  | Ok (POk r i') => i <= i' <= len /\ (i' = i -> r = acc)
  | Ok PErr => True
  | _ => False
  end.
Proof.
  induction n as [|n IH]; intros i acc Hi Hn; [lia|]. cbn [name_loop].
  destruct (Nat.ltb_spec i len); [|split; [lia | reflexivity]].
  use_at 129%N i. destruct (name_char c).
  - specialize (IH (S i) (acc ++ [c])). destruct (name_loop s n (S i) (acc ++ [c])) as [[r i'|]| |]; try (apply IH; lia).
    destruct IH as [H1 H2]; [lia|lia|]. split; [lia | intros ->; lia].
  - destruct (c =? 92)%N; [|split; [lia | reflexivity]].
    pose proof (parse_escape_good i Hi) as He. destruct (parse_escape s i) as [[val i1|]| |]; try tauto. cbn [bindP].
    specialize (IH i1 (acc ++ val)). destruct (name_loop s n i1 (acc ++ val)) as [[r i'|]| |]; try (apply IH; lia).
    destruct IH as [H1 H2]; [lia|lia|]. split; [lia | intros ->; lia].
Qed.

Lemma parse_name_good i : i <= len -> good_lt i (parse_name s i).
Proof.
  intros Hi. unfold parse_name. pose proof (name_loop_good (S len) i [] Hi ltac:(lia)) as H.
  destruct (name_loop s (S len) i []) as [[r i'|]| |]; try tauto. cbn [bindP].
  destruct r as [|x r]; [exact I|]. simpl. destruct H as [H1 H2].
  destruct (Nat.eq_dec i' i) as [->|]; [specialize (H2 eq_refl); discriminate | lia].
Qed.

Lemma dash_run_bounds n : forall i, i <= len -> i <= dash_run s n i <= len.
Proof.
  induction n as [|n IH]; intros i Hi; cbn [dash_run]; [lia|].
  destruct (peek_is s i 45) eqn:E; [|lia]. apply peek_lt in E. specialize (IH (S i) E). lia.
Qed.

Lemma parse_identifier_good i : i <= len -> good_lt i (parse_identifier s i).
Proof.
  intros Hi. unfold parse_identifier. pose proof (dash_run_bounds len i Hi) as Hd.
  set (j := dash_run s len i) in *. destruct (Nat.leb_spec len j); [exact I|].
  use_at 112%N j. destruct (negb (name_start c || (c =? 92)%N)); [exact I|].
  eapply good_lt_mono; [|apply good_lt_bind; [apply parse_name_good; lia|]]; [lia|].
  intros a i' Hi'. simpl. lia.
Qed.

Lemma string_loop_good : forall n q i acc, i <= len -> len - i < n -> good i (string_loop s n q i acc).
Proof.
  induction n as [|n IH]; intros q i acc Hi Hn; [lia|]. cbn [string_loop].
  destruct (Nat.ltb_spec i len); [|simpl; lia].
  use_at 170%N i. destruct (c =? 92)%N.
  - destruct (Nat.ltb_spec (S i) len).
    + use_at 173%N (S i). destruct (c0 =? 13)%N.
      * destruct (peek_is s (i + 2) 10) eqn:Ep; cbn [bind].
        -- apply peek_lt in Ep. eapply good_mono; [|apply IH]; lia.
        -- eapply good_mono; [|apply IH]; lia.
      * destruct ((c0 =? 10)%N || (c0 =? 12)%N); cbn [bind].
        -- eapply good_mono; [|apply IH]; lia.
        -- apply good_lt_good, good_lt_bind; [apply parse_escape_good'; lia|].
           intros a i' Hi'. apply IH; lia.
    + cbn [bind]. apply good_lt_good, good_lt_bind; [apply parse_escape_good'; lia|].
      intros a i' Hi'. apply IH; lia.
  - destruct (c =? q)%N; [simpl; lia|].
    destruct ((c =? 13)%N || (c =? 10)%N || (c =? 12)%N); [exact I|].
    eapply good_mono; [|apply IH]; lia.
Qed.

Lemma parse_string_good i : i <= len -> good_lt i (parse_string s i).
Proof.
  intros Hi. unfold parse_string. destruct (Nat.ltb_spec len (i + 2)); [exact I|].
  use_at 165%N i.
  eapply good_lt_of_good with (j := S i); [lia|].
  apply good_bind; [apply string_loop_good; lia|].
  intros a i' Hi'. destruct (Nat.leb_spec len i'); simpl; lia.
Qed.

Lemma find_close_bounds n : forall j e, find_close s n j = Some e -> j <= e /\ e + 2 <= len.
Proof.
  induction n as [|n IH]; intros j e H; [discriminate|]. cbn [find_close] in H.
  destruct (peek_is s j 42 && peek_is s (S j) 47) eqn:E.
  - injection H as <-. apply andb_true_iff in E as [_ E]. apply peek_lt in E. lia.
  - destruct (Nat.ltb_spec j len); [|discriminate]. apply IH in H. lia.
Qed.

Lemma skip_ws_loop_bounds n : forall i, i <= len -> i <= skip_ws_loop s n i <= len.
Proof.
  induction n as [|n IH]; intros i Hi; cbn [skip_ws_loop]; [lia|].
  destruct (peek s i is_space) eqn:E.
  - apply peek_lt in E. specialize (IH (S i) E). lia.
  - destruct (peek_is s i 47 && peek_is s (S i) 42); [|lia].
    destruct (find_close s (S len) (i + 2)) as [e|] eqn:Ef; [|lia].
    apply find_close_bounds in Ef. specialize (IH (e + 2)). lia.
Qed.
Lemma skip_ws_bounds i : i <= len -> i <= skip_ws s i <= len.
Proof. apply skip_ws_loop_bounds. Qed.

Lemma consume_paren_bounds i j : i <= len -> consume_paren s i = Some j -> i < j <= len.
Proof.
  intros Hi. unfold consume_paren. destruct (peek_is s i 40) eqn:E; [|discriminate].
  intros H. injection H as <-. apply peek_lt in E. pose proof (skip_ws_bounds (S i) E). lia.
Qed.
Lemma consume_closing_paren_bounds i j : i <= len -> consume_closing_paren s i = Some j -> i < j <= len.
Proof.
  intros Hi. unfold consume_closing_paren. destruct (peek_is s (skip_ws s i) 41) eqn:E; [|discriminate].
  intros H. injection H as <-. apply peek_lt in E. pose proof (skip_ws_bounds i Hi). lia.
Qed.

Lemma digit_run_bounds n : forall i, i <= len -> i <= digit_run s n i <= len.
Proof.
  induction n as [|n IH]; intros i Hi; cbn [digit_run]; [lia|].
  destruct (peek s i digit) eqn:E; [|lia]. apply peek_lt in E. specialize (IH (S i) E). lia.
Qed.

Lemma parse_integer_good i : i <= len -> good_lt i (parse_integer s i).
Proof.
  intros Hi. unfold parse_integer. pose proof (digit_run_bounds len i Hi) as Hd.
  set (j := digit_run s len i) in *. destruct (Nat.eqb_spec j i); [exact I|].
  use_slice 628%N i j. destruct (parse_dec r <=? 9223372036854775807)%Z; simpl; lia.
Qed.

Lemma nth_read_n_good a i : i <= len -> good i (nth_read_n s a i).
Proof.
  intros Hi. unfold nth_read_n. pose proof (skip_ws_bounds i Hi) as Hs.
  set (j := skip_ws s i) in *. destruct (Nat.leb_spec len j); [exact I|].
  use_at 729%N j.
  assert (Hs2 : S j <= skip_ws s (S j) <= len) by (apply skip_ws_bounds; lia).
  destruct (c =? 43)%N.
  - eapply good_mono with (j := skip_ws s (S j)); [lia|].
    apply good_bind; [apply good_lt_good, parse_integer_good; lia|]. intros b i' Hi'. simpl. lia.
  - destruct (c =? 45)%N; [|simpl; lia].
    eapply good_mono with (j := skip_ws s (S j)); [lia|].
    apply good_bind; [apply good_lt_good, parse_integer_good; lia|]. intros b i' Hi'. simpl. lia.
Qed.

Lemma nth_read_a_good a i : i <= len -> good i (nth_read_a s a i).
Proof.
  intros Hi. unfold nth_read_a. destruct (Nat.leb_spec len i); [exact I|].
  use_at 715%N i. destruct (is_n c); [|simpl; lia].
  eapply good_mono; [|apply nth_read_n_good]; lia.
Qed.

Lemma nth_signed_a_good neg i : i <= len -> good i (nth_signed_a s neg i).
Proof.
  intros Hi. unfold nth_signed_a. destruct (Nat.leb_spec len i); [exact I|].
  use_at 676%N i. destruct (digit c).
  - apply good_bind; [apply good_lt_good, parse_integer_good; lia|].
    intros a i' Hi'. apply nth_read_a_good. lia.
  - destruct (is_n c); [|exact I]. eapply good_mono; [|apply nth_read_n_good]; lia.
Qed.

Lemma parse_nth_good i : i <= len -> good i (parse_nth s i).
Proof.
  intros Hi. unfold parse_nth. destruct (Nat.leb_spec len i); [exact I|].
  use_at 642%N i.
  destruct (c =? 45)%N; [eapply good_mono; [|apply nth_signed_a_good]; lia|].
  destruct (c =? 43)%N; [eapply good_mono; [|apply nth_signed_a_good]; lia|].
  destruct (digit c); [apply nth_signed_a_good; lia|].
  destruct (is_n c); [eapply good_mono; [|apply nth_read_n_good]; lia|].
  destruct ((c =? 111)%N || (c =? 79)%N || (c =? 101)%N || (c =? 69)%N); [|exact I].
  apply good_bind; [apply good_lt_good, parse_name_good; lia|].
  intros id i' Hi'. destruct (str_eqb (to_lower id) n_odd); [simpl; lia|].
  destruct (str_eqb (to_lower id) n_even); [simpl; lia | exact I].
Qed.

Lemma parse_id_selector_good i : i <= len -> good_lt i (parse_id_selector s i).
Proof.
  intros Hi. unfold parse_id_selector. destruct (Nat.leb_spec len i); [exact I|].
  use_at 320%N i. destruct (negb (c =? 35)%N); [exact I|].
  eapply good_lt_of_good with (j := S i); [lia|].
  apply good_bind; [apply good_lt_good, parse_name_good; lia|]. intros a i' Hi'. simpl. lia.
Qed.
Lemma parse_class_selector_good i : i <= len -> good_lt i (parse_class_selector s i).
Proof.
  intros Hi. unfold parse_class_selector. destruct (Nat.leb_spec len i); [exact I|].
  use_at 338%N i. destruct (negb (c =? 46)%N); [exact I|].
  eapply good_lt_of_good with (j := S i); [lia|].
  apply good_bind; [apply good_lt_good, parse_identifier_good; lia|]. intros a i' Hi'. simpl. lia.
Qed.
Lemma parse_type_selector_good i : i <= len -> good_lt i (parse_type_selector s i).
Proof.
  intros Hi. unfold parse_type_selector.
  apply good_lt_bind; [apply parse_identifier_good; lia|]. intros a i' Hi'. simpl. lia.
Qed.

Lemma parse_attribute_selector_good i : i <= len -> good_lt i (parse_attribute_selector s i).
Proof.
  intros Hi. unfold parse_attribute_selector. destruct (Nat.leb_spec len i); [exact I|].
  use_at 356%N i. destruct (negb (c =? 91)%N); [exact I|].
  pose proof (skip_ws_bounds (S i) ltac:(lia)) as W1.
  eapply good_lt_of_good with (j := skip_ws s (S i)); [lia|].
  apply good_bind; [apply good_lt_good, parse_identifier_good; lia|].
  intros key i1 Hi1. pose proof (skip_ws_bounds i1 ltac:(lia)) as W2.
  set (i2 := skip_ws s i1) in *. destruct (Nat.leb_spec len i2); [exact I|].
  use_at 373%N i2. destruct (c0 =? 93)%N; [simpl; lia|].
  destruct (Nat.leb_spec len (i2 + 2)); [exact I|].
  use_slice 382%N i2 (i2 + 2). use_at 383%N i2. use_at 385%N (S i2).
  destruct (negb (c1 =? 61)%N && negb (c2 =? 61)%N); [exact I|].
  set (op := if (c1 =? 61)%N then [61%N] else r).
  assert (Hop : i2 < i2 + length op <= len).
  { unfold op. destruct (c1 =? 61)%N; simpl; [lia|].
    unfold slice in E1. destruct ((i2 <=? i2 + 2) && (i2 + 2 <=? len)); [|discriminate].
    injection E1 as <-. rewrite firstn_length, skipn_length. lia. }
  pose proof (skip_ws_bounds (i2 + length op) ltac:(lia)) as W3.
  set (i3 := skip_ws s (i2 + length op)) in *. destruct (Nat.leb_spec len i3); [exact I|].
  destruct (str_eqb op [35%N; 61%N]); [exact I|].
  use_at 399%N i3.
  assert (Hval : good_lt i3 (if (c3 =? 39)%N || (c3 =? 34)%N then parse_string s i3 else parse_identifier s i3)).
  { destruct ((c3 =? 39)%N || (c3 =? 34)%N); [apply parse_string_good | apply parse_identifier_good]; lia. }
  eapply good_mono with (j := i3); [lia|]. apply good_bind; [apply good_lt_good; exact Hval|].
  intros val i4 Hi4. pose proof (skip_ws_bounds i4 ltac:(lia)) as W4.
  set (i5 := skip_ws s i4) in *. destruct (Nat.leb_spec len i5); [exact I|].
  use_at 417%N i5. set (ic := (c4 =? 105)%N || (c4 =? 73)%N).
  pose proof (skip_ws_bounds (if ic then S i5 else i5) ltac:(destruct ic; lia)) as W5.
  set (i6 := skip_ws s (if ic then S i5 else i5)) in *.
  assert (i5 <= i6) by (destruct ic; lia).
  destruct (Nat.leb_spec len i6); [exact I|].
  use_at 427%N i6. destruct (negb (c5 =? 93)%N); [exact I|].
  destruct (op_of op); simpl; [lia | exact I].
Qed.

Lemma parse_lang_arg_good i : i <= len -> good i (parse_lang_arg s i).
Proof.
  intros Hi. unfold parse_lang_arg. destruct (consume_paren s i) as [i1|] eqn:E1; [|exact I].
  apply consume_paren_bounds in E1; [|exact Hi]. destruct (Nat.eqb_spec i1 len); [exact I|].
  eapply good_mono with (j := i1); [lia|].
  apply good_bind; [apply good_lt_good, parse_identifier_good; lia|].
  intros val i2 Hi2. pose proof (skip_ws_bounds i2 ltac:(lia)) as H2.
  destruct (Nat.leb_spec len (skip_ws s i2)); [exact I|].
  destruct (consume_closing_paren s (skip_ws s i2)) as [i3|] eqn:E3; [|exact I].
  apply consume_closing_paren_bounds in E3; [|lia]. simpl. lia.
Qed.

Definition starts_simple (c : N) : bool := N.eqb c 35 || N.eqb c 46 || N.eqb c 91 || N.eqb c 58.

(* Depth fuel: a call at position i needs 3 * (len - i) + c_f, with
   c_group = 5 > c_group_loop = c_selector = 4 > c_selector_loop = c_seq = 3 > c_seq_loop = 2 > c_pseudo = 1:
   every call passes fuel - 1 and either moves to a function with a smaller constant
   at the same position or has consumed input (p_pseudo consumes ":x(" before p_group). *)
Lemma grammar_good : forall fuel,
  (forall a i, i <= len -> 3 * (len - i) + 5 <= fuel -> good_lt i (p_group s fuel a i)) /\
  (forall a i acc, i <= len -> 3 * (len - i) + 4 <= fuel -> good i (p_group_loop s fuel a i acc)) /\
  (forall a i, i <= len -> 3 * (len - i) + 4 <= fuel -> good_lt i (p_selector s fuel a i)) /\
  (forall a i r, i <= len -> 3 * (len - i) + 3 <= fuel -> good i (p_selector_loop s fuel a i r)) /\
  (forall a i, i <= len -> 3 * (len - i) + 3 <= fuel -> good_lt i (p_seq s fuel a i)) /\
  (forall a i sels pe, i <= len -> 3 * (len - i) + 2 <= fuel ->
     good i (p_seq_loop s fuel a i sels pe) /\
     (peek s i starts_simple = true -> good_lt i (p_seq_loop s fuel a i sels pe))) /\
  (forall i, i <= len -> 3 * (len - i) + 1 <= fuel -> good_lt i (p_pseudo s fuel i)).
Proof.
  induction fuel as [|f IH].
  - repeat split; intros; lia.
  - destruct IH as [IHg [IHgl [IHs [IHsl [IHq [IHql IHp]]]]]].
    repeat split.
    + (* p_group *) intros a i Hi Hf. cbn [p_group].
      apply good_lt_bind; [apply IHs; lia|]. intros cur i' Hi'. apply IHgl; lia.
    + (* p_group_loop *) intros a i acc Hi Hf. cbn [p_group_loop].
      destruct (Nat.leb_spec len i); [simpl; lia|].
      use_at 883%N i. destruct (negb (c =? 44)%N); [simpl; lia|].
      eapply good_mono with (j := S i); [lia|].
      apply good_bind; [apply good_lt_good, IHs; lia|]. intros c' i' Hi'. apply IHgl; lia.
    + (* p_selector *) intros a i Hi Hf. cbn [p_selector].
      pose proof (skip_ws_bounds i Hi) as Hs.
      eapply good_lt_mono with (j := skip_ws s i); [lia|].
      apply good_lt_bind; [apply IHq; lia|]. intros r i' Hi'. apply IHsl; lia.
    + (* p_selector_loop *) intros a i r Hi Hf. cbn [p_selector_loop].
      pose proof (skip_ws_bounds i Hi) as Hs. set (j := skip_ws s i) in *.
      destruct (Nat.leb_spec len j); [simpl; lia|].
      use_at 852%N j. destruct ((c =? 44)%N || (c =? 41)%N); [simpl; lia|].
      pose proof (skip_ws_bounds (S j) ltac:(lia)) as Hs2.
      destruct ((c =? 43)%N || (c =? 62)%N || (c =? 126)%N).
      * destruct (comb_of c); [|simpl; lia]. destruct (pseudo_element r); [|exact I].
        eapply good_mono with (j := skip_ws s (S j)); [lia|].
        apply good_bind; [apply good_lt_good, IHq; lia|]. intros c' i' Hi'. apply IHsl; lia.
      * destruct (Nat.ltb_spec i j).
        -- destruct (comb_of 32); [|simpl; lia]. destruct (pseudo_element r); [|exact I].
           eapply good_mono with (j := j); [lia|].
           apply good_bind; [apply good_lt_good, IHq; lia|]. intros c' i' Hi'. apply IHsl; lia.
        -- simpl. lia.
    + (* p_seq *) intros a i Hi Hf. cbn [p_seq].
      destruct (Nat.leb_spec len i); [exact I|].
      use_at 766%N i. destruct (c =? 42)%N.
      * assert (Hi2 : exists i2, (if S i + 2 <? len
                                  then let* two := slice s 770 (S i) (S i + 2) in
                                       if str_eqb two [124%N; 42%N] then Ok (S i + 2) else Ok (S i)
                                  else Ok (S i)) = Ok i2 /\ S i <= i2 <= len).
        { destruct (Nat.ltb_spec (S i + 2) len); [|eexists; split; [reflexivity | lia]].
          destruct (slice_ok 770%N (S i) (S i + 2)) as [two Et]; [lia|]. rewrite Et. cbn [bind].
          destruct (str_eqb two [124%N; 42%N]); eexists; (split; [reflexivity | lia]). }
        destruct Hi2 as [i2 [E2 Hi2]]. rewrite E2. cbn [bind].
        eapply good_lt_of_good with (j := i2); [lia|]. apply IHql; lia.
      * destruct ((c =? 35)%N || (c =? 46)%N || (c =? 91)%N || (c =? 58)%N) eqn:Es.
        -- apply IHql; [lia | lia |]. unfold peek, at_ in *.
           destruct (nth_error s i); [|discriminate]. injection E as ->. exact Es.
        -- apply good_lt_bind; [apply parse_type_selector_good; lia|]. intros r i' Hi'. apply IHql; lia.
    + (* p_seq_loop: good *) cbn [p_seq_loop].
      destruct (Nat.leb_spec len i); [destruct sels as [|x [|y l]]; destruct pe; simpl; lia|].
      use_at 791%N i.
      assert (Hadd : forall ns i', i < i' <= len ->
                good i' (match pe with [] => p_seq_loop s f a i' (sels ++ [ns]) pe | _ :: _ => Ok PErr end)).
      { intros ns i' Hi'. destruct pe; [apply IHql; lia | exact I]. }
      destruct (c =? 35)%N; [apply good_lt_good, good_lt_bind; [apply parse_id_selector_good; lia | exact Hadd]|].
      destruct (c =? 46)%N; [apply good_lt_good, good_lt_bind; [apply parse_class_selector_good; lia | exact Hadd]|].
      destruct (c =? 91)%N; [apply good_lt_good, good_lt_bind; [apply parse_attribute_selector_good; lia | exact Hadd]|].
      destruct (c =? 58)%N.
      * apply good_lt_good, good_lt_bind; [apply IHp; lia|]. intros r i' Hi'.
        destruct r as [ns|name]; [apply Hadd; exact Hi'|].
        destruct pe; [|exact I]. destruct a; [apply IHql; lia | exact I].
      * destruct sels as [|x [|y l]]; destruct pe; simpl; lia.
    + (* p_seq_loop: progress after # . [ : *) intros Hpk. cbn [p_seq_loop].
      pose proof (peek_lt _ _ Hpk) as Hlt. destruct (Nat.leb_spec len i); [lia|].
      use_at 791%N i.
      assert (Hc : starts_simple c = true).
      { unfold peek, at_ in *. destruct (nth_error s i); [|discriminate]. injection E as ->. exact Hpk. }
      assert (Hadd : forall ns i', i < i' <= len ->
                good i' (match pe with [] => p_seq_loop s f a i' (sels ++ [ns]) pe | _ :: _ => Ok PErr end)).
      { intros ns i' Hi'. destruct pe; [apply IHql; lia | exact I]. }
      destruct (c =? 35)%N eqn:E1; [apply good_lt_bind; [apply parse_id_selector_good; lia | exact Hadd]|].
      destruct (c =? 46)%N eqn:E2; [apply good_lt_bind; [apply parse_class_selector_good; lia | exact Hadd]|].
      destruct (c =? 91)%N eqn:E3; [apply good_lt_bind; [apply parse_attribute_selector_good; lia | exact Hadd]|].
      destruct (c =? 58)%N eqn:E4.
      * apply good_lt_bind; [apply IHp; lia|]. intros r i' Hi'.
        destruct r as [ns|name]; [apply Hadd; exact Hi'|].
        destruct pe; [|exact I]. destruct a; [apply IHql; lia | exact I].
      * unfold starts_simple in Hc. rewrite E1, E2, E3, E4 in Hc. discriminate.
    + (* p_pseudo *) intros i Hi Hf. cbn [p_pseudo].
      destruct (Nat.leb_spec len i); [exact I|].
      use_at 454%N i. destruct (negb (c =? 58)%N); [exact I|].
      destruct (Nat.leb_spec len (S i)); [exact I|].
      use_at 463%N (S i). set (i1 := if (c0 =? 58)%N then S (S i) else S i).
      assert (Hi1 : S i <= i1 <= len) by (unfold i1; destruct (c0 =? 58)%N; lia).
      eapply good_lt_of_good with (j := i1); [lia|].
      apply good_bind; [apply good_lt_good, parse_identifier_good; lia|].
      intros name i2 Hi2.
      destruct ((c0 =? 58)%N && negb (str_in (to_lower name) pseudo_elements)); [exact I|].
      destruct (rel_of (to_lower name)) as [rn|].
      * destruct (consume_paren s i2) as [i3|] eqn:E3; [|exact I].
        apply consume_paren_bounds in E3; [|lia].
        eapply good_mono with (j := i3); [lia|].
        apply good_bind; [apply good_lt_good, IHg; lia|]. intros g i4 Hi4.
        destruct (consume_closing_paren s i4) as [i5|] eqn:E5; [|exact I].
        apply consume_closing_paren_bounds in E5; [|lia]. simpl. lia.
      * destruct (nth_of (to_lower name)) as [[last ofType]|].
        -- destruct (consume_paren s i2) as [i3|] eqn:E3; [|exact I].
           apply consume_paren_bounds in E3; [|lia].
           eapply good_mono with (j := i3); [lia|].
           apply good_bind; [apply parse_nth_good; lia|]. intros ab i4 Hi4.
           destruct (consume_closing_paren s i4) as [i5|] eqn:E5; [|exact I].
           apply consume_closing_paren_bounds in E5; [|lia]. simpl. lia.
        -- destruct (str_eqb (to_lower name) n_lang).
           ++ apply good_bind; [apply parse_lang_arg_good; lia|]. intros x i3 Hi3. simpl. lia.
           ++ destruct (simple_pseudo (to_lower name)); [simpl; lia|].
              destruct (str_in (to_lower name) pseudo_elements); [simpl; lia | exact I].
Qed.

(* ParseGroup terminates without panic on every input: it returns a group or an error *)
Theorem parse_group_at_total : exists r, parse_group_at s = Ok r.
Proof.
  unfold parse_group_at, fuel_of.
  destruct (grammar_good (8 * len + 16)) as [Hg _].
  specialize (Hg true 0 ltac:(lia) ltac:(lia)).
  destruct (p_group s (8 * len + 16) true 0) as [[g i|]| |]; simpl in Hg; try contradiction.
  - destruct (i <? len); eauto.
  - eauto.
Qed.

End Total.

Theorem parse_group_total : forall s, exists r, parse_group s = Ok r.
Proof. intros s. apply parse_group_at_total. Qed.

(* in particular: never a Go run-time panic (C07) *)
Corollary parse_group_no_panic : forall s site, parse_group s <> Panic site.
Proof. intros s site H. destruct (parse_group_total s) as [r E]. congruence. Qed.
