(* Css/SerCompoundProofs3.v -- C20, the compound case left open by
   SerCompoundProofs2 (compound_bang_ok c = false): a declaration with
   `!important` whose value ends in the delimiter "<".
   Finding (vm_compute on the model): the statement is NOT refuted there.  The
   text "a:<!important" (no separator is written between "<" and "!") tokenizes
   back to  a : < ! important  because the tokenizer only builds a CDO token from
   "<!--" and "!important" does not start with "!--".  So the expected answer is
   `_holds`; the general proof needs a tokenizer lemma about "<" followed by "!"
   not followed by "--" (not done here).  What is proved: concrete instances
   outside the class of partial3 that do round-trip. *)
From Verif Require Import Css.Ser Css.RetokSpec Css.SerWf Css.SerCompound
  Css.RoundTripList Css.RoundTripSep Css.RoundTripBuild Css.SerCompoundProofs Css.SerCompoundProofs2.
From Coq Require Import List NArith Bool Lia String.
Import ListNotations.
Open Scope N_scope.

(* a:<!important   and   a: b <!important *)
Definition lt_decl : compound := CDecl (cps "a") [TLiteral p0 [60]] true.
Definition lt_decl2 : compound :=
  CDecl (cps "a") [TWhitespace p0 [32]; TIdent p0 (cps "b"); TWhitespace p0 [32]; TLiteral p0 [60]] true.

Definition roundtrips (c : compound) : bool :=
  match ser_compound c with
  | Ok s => match read_back c (norm (tokenize true s)) with
            | Some c' => true
            | None => false
            end
  | _ => false
  end.

Definition roundtrip_at (c : compound) : Prop :=
  compound_bang_ok c = false /\ compound_wf c = true /\
  read_back c (norm (compound_tokens c)) = Some (norm_compound c) /\
  exists s, ser_compound c = Ok s /\
    norm (tokenize true s) = norm (compound_tokens c) /\
    read_back c (norm (tokenize true s)) = Some (norm_compound c).

Theorem lt_decl_roundtrips : roundtrip_at lt_decl /\ roundtrip_at lt_decl2.
Proof.
  split; (split; [vm_compute; reflexivity|]); (split; [vm_compute; reflexivity|]);
    (split; [vm_compute; reflexivity|]).
  - exists (cps "a:<!important"). repeat split; vm_compute; reflexivity.
  - exists (cps "a: b <!important"). repeat split; vm_compute; reflexivity.
Qed.
