(* Css/ContentsSpec.v -- SPEC of one item of a block's contents (ParseBlocksContents:
   the content of a style rule, an @page rule, a style attribute), after the
   css-syntax Editor's Draft "consume a block's contents":

     "anything else: Mark input.  Consume a declaration from input, with nested set
      to true.  If a declaration was returned, append it to decls, and discard a mark
      from input.  Otherwise, restore a mark from input, then consume a qualified rule
      from input, with nested set to true, and <semicolon-token> as the stop token."
     consume a qualified rule: "<stop token>: This is a parse error.  Return nothing.
      <{-token>: consume a block, assign it to the rule, return the rule.
      <EOF-token>: This is a parse error.  Return nothing."

   Item segmentation (a documented choice of the implementation, inherited from
   tinycss2): an item ends at its first top-level ";" or right after its first
   top-level {} block, whichever comes first, or at the end of the input.  (The draft
   lets a declaration run to the ";": for "a: {b} c; d:e" the draft yields the rule
   "a:{b}" where the implementation yields the declaration a = {b}; what follows
   the block is garbage for both.)  Independent, executable; no proofs. *)
From Verif Require Import Css.Token Css.DeclSpec.
From Coq Require Import List NArith ZArith Bool.
Import ListNotations.
Open Scope N_scope.

Definition is_semicolon_tok (t : token) : bool := delim_is t 59.
(* ends an item *)
Definition ends_item (t : token) : bool := is_semicolon_tok t || is_curly_block t.

(* `first`: first token of the item (not whitespace / comment / ";" / at-keyword / {} block);
   `body`: the tokens after it that contain no terminator; `term`: what ended the item *)
Definition spec_item (first : token) (body : list token) (term : option token) : compound :=
  let after_name := body ++ match term with
                            | Some t => if is_curly_block t then [t] else []
                            | None => []
                            end in
  match spec_declaration_draft first after_name with
  | DOk name value important => CDeclaration (token_pos first) name value important
  | DError =>
      match term with
      | Some (TCurly _ args) => CQualifiedRule (token_pos first) (first :: body) args   (* a nested rule *)
      | Some stop => CParseError (token_pos stop) errInvalid                            (* stop token before a {} block *)
      | None => CParseError (token_pos (last body first)) errInvalid                    (* EOF before a {} block *)
      end
  end.
