(* Css/Decl.v -- model of the declaration pipeline of
   /repo/css/validation/validation.go (PreprocessDeclarationsPrelude, the
   declaration part) and of the shorthand expanders of
   /repo/css/validation/expanders.go, PARAMETERISED by the ~300 leaf
   validators (`validate`), which are an oracle of the theorems.

   Concretely modelled: validateNonShorthand, findVar, expandFourSides,
   the genericExpander decorator, _expandBorderSide, expandBorder,
   _expandColumns (with columnWidth / columnCount), outline / column-rule, the
   dispatch of PreprocessDeclarationsPrelude and the leaf validators the
   four-sides / border shorthands need (getLength, margin, padding, bleed,
   border-*-width, border-*-style, *-color through the ParseColor oracle,
   visibility).

   Model file: definitions only (proofs in Css/DeclProofs.v). *)
From Coq Require Import List NArith ZArith QArith Qround Bool String Ascii.
From Verif Require Export Css.DeclTok.
Import ListNotations.

(* string literal -> code points (ASCII only; used for the names of the tables) *)
Definition s (x : string) : str := map N_of_ascii (list_ascii_of_string x).

(* ---- declared values ---- *)

(* parser.Color, css/parser/colors.go:255-271 *)
Inductive color := CNone | CCurrent | CRgba (r g b a : Q).

Inductive value : Type :=
| VInherit | VInitial                (* pr.DefaultValue *)
| VRaw (ts : list tok)               (* pr.RawTokens: pending var() substitution *)
| VDim (v : Q) (u : N)               (* pr.DimOrS{Dimension{Value, Unit}}; u = pr.Unit code *)
| VKw (k : str)                      (* pr.DimOrS{S: k} / pr.String(k) *)
| VColor (c : color)                 (* pr.Color *)
| VInt (n : Z)                       (* pr.IntString{Int: n} (the String member is a VKw) *)
| VOther (repr : list N).            (* any other typed value, canonically printed (oracle validators) *)

(* namedProperty, expanders.go:97-102; np_short = [] when the Go field is 0 *)
Record nprop := mkNP { np_name : str; np_value : value; np_short : str }.

(* validation.Declaration, validation.go:511-520 *)
Record odecl := mkOD { od_name : str; od_value : value; od_important : bool; od_short : str }.

(* the members of []pa.Compound: a Declaration, or anything else (ParseError,
   QualifiedRule with nil prelude, Whitespace, Comment, AtRule: all skipped
   at validation.go:577-605) *)
Inductive raw := RDecl (name : str) (val : list tok) (important : bool) | ROther.

(* ---- keyword helpers, validation.go:714-743 ---- *)

Definition get_keyword (t : tok) : str :=
  match t with TIdent v => ascii_lower v | _ => [] end.

Definition get_single_keyword (ts : list tok) : str :=
  match ts with [t] => get_keyword t | _ => [] end.

Definition kw_inherit := Eval compute in s "inherit".
Definition kw_initial := Eval compute in s "initial".
Definition kw_auto := Eval compute in s "auto".

Definition is_default_kw (k : str) : bool := str_eqb k kw_inherit || str_eqb k kw_initial.

(* pr.NewDefaultValue, css/properties/main.go:50-55 *)
Definition default_value (k : str) : value :=
  if str_eqb k kw_initial then VInitial else VInherit.

(* ---- tables of validation.go ---- *)

Definition in_table (l : list str) (n : str) : bool := existsb (str_eqb n) l.

(* validation.go:411 notPrintMedia *)
Definition not_print_media_l : list str := Eval compute in map s
  ["azimuth"; "cue"; "cue-after"; "cue-before"; "elevation"; "pause"; "pause-after"; "pause-before"; "pitch-range"; "pitch"; "play-during"; "richness"; "speak-header"; "speak-numeral"; "speak-punctuation"; "speak"; "speech-rate"; "stress"; "voice-family"; "volume"; "animation"; "animation-composition"; "animation-delay"; "animation-direction"; "animation-duration"; "animation-fill-mode"; "animation-iteration-count"; "animation-name"; "animation-play-state"; "animation-range"; "animation-range-end"; "animation-range-start"; "animation-timeline"; "animation-timing-function"; "timeline-scope"; "transition"; "transition-delay"; "transition-duration"; "transition-property"; "transition-timing-function"; "view-timeline"; "view-timeline-axis"; "view-timeline-inset"; "view-timeline-name"; "view-transition-name"; "will-change"; "caret"; "caret-color"; "caret-shape"; "cursor"; "field-sizing"; "pointer-event"; "resize"; "touch-action"; "overscroll-behavior"; "overscroll-behavior-block"; "overscroll-behavior-inline"; "overscroll-behavior-x"; "overscroll-behavior-y"; "scroll-behavior"; "scroll-margin"; "scroll-margin-block"; "scroll-margin-block-end"; "scroll-margin-block-start"; "scroll-margin-bottom"; "scroll-margin-inline"; "scroll-margin-inline-end"; "scroll-margin-inline-start"; "scroll-margin-left"; "scroll-margin-right"; "scroll-margin-top"; "scroll-padding"; "scroll-padding-block"; "scroll-padding-block-end"; "scroll-padding-block-start"; "scroll-padding-bottom"; "scroll-padding-inline"; "scroll-padding-inline-end"; "scroll-padding-inline-start"; "scroll-padding-left"; "scroll-padding-right"; "scroll-padding-top"; "scroll-snap-align"; "scroll-snap-stop"; "scroll-snap-type"; "scroll-timeline"; "scroll-timeline-axis"; "scroll-timeline-name"; "scrollbar-color"; "scrollbar-gutter"; "scrollbar-width"]%string.

(* validation.go:279 proprietary, :284 unstable *)
Definition proprietary_l : list str := Eval compute in map s ["anchor"; "link"; "lang"]%string.
Definition unstable_l : list str := Eval compute in map s
  ["transform-origin"; "size"; "hyphens"; "hyphenate-character"; "hyphenate-limit-zone"; "hyphenate-limit-chars"; "bookmark-label"; "bookmark-level"; "bookmark-state"; "string-set"; "column-rule-color"; "column-rule-style"; "column-rule-width"; "column-width"; "column-span"; "column-gap"; "column-fill"; "column-count"; "bleed-left"; "bleed-right"; "bleed-top"; "bleed-bottom"; "marks"; "continue"; "max-lines"]%string.

Definition proprietary_prefix := Eval compute in s "-weasy-".   (* validation.go:24 *)

(* ---- four-sides names, expanders.go:202-214 ---- *)

(* strings.LastIndex(s, "-") *)
Fixpoint last_index_dash_from (i : nat) (l : str) (acc : option nat) : option nat :=
  match l with
  | [] => acc
  | c :: r => last_index_dash_from (S i) r (if N.eqb c dash then Some i else acc)
  end.
Definition last_index_dash (l : str) : option nat := last_index_dash_from 0 l None.

Definition side_suffixes : list str := Eval compute in map s ["-top"; "-right"; "-bottom"; "-left"]%string.

Definition four_names (name : str) : list str :=
  map (fun suffix =>
         match last_index_dash name with
         | None => name ++ suffix
         | Some i => firstn i name ++ suffix ++ skipn i name   (* border-color -> border-*-color *)
         end) side_suffixes.

Section Pipeline.
  (* pr.KnownProperties.Has(prop) && allValidators[prop] (validation.go:378-384) *)
  Variable known : str -> bool.
  (* ValidateKnown (validation.go:347-359) with `nil` / error as None *)
  Variable validate : str -> list tok -> option value.
  (* parser.ParseColor (css/parser/colors.go:299): oracle, see C20/C06 *)
  Variable parse_color : tok -> color.
  (* the expanders of the shorthands that are not modelled (font, background, ...) *)
  Variable other_expander : str -> option (list tok -> option (list nprop)).

  (* validateNonShorthand, validation.go:368-408.  None = error. *)
  Definition validate_non_shorthand (name : str) (tokens : list tok) (required : bool) : option nprop :=
    if is_custom_name name then Some (mkNP name (VRaw tokens) [])              (* :369-375 *)
    else if (negb required && negb (known name))%bool then None                (* :378-384 *)
    else if existsb has_var tokens then Some (mkNP name (VRaw tokens) [])      (* :386-391 *)
    else
      let keyword := get_single_keyword tokens in
      if is_default_kw keyword then Some (mkNP name (default_value keyword) []) (* :394-396 *)
      else match validate name tokens with                                    (* :398-404 *)
           | Some v => Some (mkNP name v [])
           | None => None
           end.

  (* findVar, expanders.go:80-93 *)
  Definition find_var (shorthand : str) (tokens : list tok) (expanded_names : list str) : option (list nprop) :=
    if existsb has_var tokens
    then Some (map (fun n => mkNP n (VRaw tokens) shorthand) expanded_names)
    else None.

  (* option-monadic map (a `for` loop returning on the first error) *)
  Fixpoint map_opt {A B} (f : A -> option B) (l : list A) : option (list B) :=
    match l with
    | [] => Some []
    | a :: r => match f a with
                | None => None
                | Some b => match map_opt f r with None => None | Some bs => Some (b :: bs) end
                end
    end.

  (* expandFourSides, expanders.go:199-248 (with the fix 18f11b5: CSS-wide
     keywords only alone) *)
  Definition expand_four_sides (name : str) (tokens : list tok) : option (list nprop) :=
    let expanded_names := four_names name in
    match find_var name tokens expanded_names with
    | Some result => Some result
    | None =>
      if (Nat.ltb 1 (List.length tokens) && existsb (fun t => is_default_kw (get_keyword t)) tokens)%bool
      then None
      else
        let four :=
          match tokens with
          | [a] => Some [a; a; a; a]
          | [a; b] => Some [a; b; a; b]
          | [a; b; c] => Some [a; b; c; b]
          | [a; b; c; d] => Some [a; b; c; d]
          | _ => None
          end in
        match four with
        | None => None
        | Some toks =>
            map_opt (fun nt => validate_non_shorthand (fst nt) [snd nt] true) (combine expanded_names toks)
        end
    end.

  (* ---- genericExpander, expanders.go:116-197 ---- *)

  Fixpoint assoc {A} (n : str) (l : list (str * A)) : option A :=
    match l with
    | [] => None
    | (k, v) :: r => if str_eqb k n then Some v else assoc n r
    end.

  (* the loop at :150-160: unknown expanded name or duplicate => error *)
  Fixpoint collect_results (expanded_names : list str) (result : list (str * list tok))
           (results : list (str * list tok)) : option (list (str * list tok)) :=
    match result with
    | [] => Some results
    | (new_name, new_tokens) :: r =>
        if negb (in_table expanded_names new_name) then None
        else match assoc new_name results with
             | Some _ => None
             | None => collect_results expanded_names r ((new_name, new_tokens) :: results)
             end
    end.

  Definition generic_expander (expanded_names : list str)
             (wrapped : str -> list tok -> option (list (str * list tok)))
             (shorthand : str) (tokens : list tok) : option (list nprop) :=
    let keyword := get_single_keyword tokens in
    if is_default_kw keyword then                                     (* :133-138 *)
      Some (map (fun n => mkNP n (default_value keyword) []) expanded_names)
    else match find_var shorthand tokens expanded_names with          (* :140-146 *)
    | Some props => Some props
    | None =>
      match wrapped shorthand tokens with                             (* :149-153 *)
      | None => None
      | Some result =>
        match collect_results expanded_names result [] with
        | None => None
        | Some results =>
            map_opt (fun new_name =>                                  (* :164-190 *)
                       match assoc new_name results with
                       | Some toks => validate_non_shorthand new_name toks true
                       | None => Some (mkNP new_name VInitial [])
                       end) expanded_names
        end
      end
    end.

  (* ---- border sides, expanders.go:345-378 ---- *)

  Definition border_width_kws : list str := Eval compute in map s ["thin"; "medium"; "thick"]%string.
  Definition border_style_kws : list str := Eval compute in map s
    ["none"; "hidden"; "dotted"; "dashed"; "double"; "inset"; "outset"; "groove"; "ridge"; "solid"]%string.

  (* pr.Unit codes (css/properties/types.go:360 ff., iota from Scalar = 1) *)
  Definition u_scalar : N := 1.  Definition u_perc : N := 2.
  Definition length_units : list (str * N) := Eval compute in
    map (fun p => (s (fst p), snd p))
        [("ex", 3); ("em", 4); ("ch", 5); ("rem", 6); ("px", 7); ("pt", 8); ("pc", 9); ("in", 10);
         ("cm", 11); ("mm", 12); ("q", 13)]%string%N.   (* LENGTHUNITS, validation.go:29 *)

  (* getLength, validation.go:736-755 (after fix 1b5e53e: unit lower-cased).
     None = pr.Dimension{} (IsNone). *)
  Definition get_length (t : tok) (negative percentage : bool) : option (Q * N) :=
    match t with
    | TPerc v _ => if (percentage && (negative || Qle_bool 0 v))%bool then Some (v, u_perc) else None
    | TDim v _ u =>
        match assoc (ascii_lower u) length_units with
        | Some unit => if (negative || Qle_bool 0 v)%bool then Some (v, unit) else None
        | None => None
        end
    | TNum v _ => if Qeq_bool v 0 then Some (0, u_scalar) else None
    | _ => None
    end.

  (* borderWidth, validation.go:1327-1341 *)
  Definition border_width (tokens : list tok) : option value :=
    match tokens with
    | [t] => match get_length t false false with
             | Some (v, u) => Some (VDim v u)
             | None => let k := get_keyword t in
                       if in_table border_width_kws k then Some (VKw k) else None
             end
    | _ => None
    end.

  (* borderStyle, validation.go:1182-1191 *)
  Definition border_style (tokens : list tok) : option value :=
    let k := get_single_keyword tokens in
    if in_table border_style_kws k then Some (VKw k) else None.

  Definition sfx_color := Eval compute in s "-color".
  Definition sfx_width := Eval compute in s "-width".
  Definition sfx_style := Eval compute in s "-style".

  (* _expandBorderSide, expanders.go:362-378 *)
  Definition expand_border_side (shorthand : str) (tokens : list tok) : option (list (str * list tok)) :=
    map_opt (fun t =>
               match parse_color t with
               | CNone =>
                   match border_width [t] with
                   | Some _ => Some (shorthand ++ sfx_width, [t])
                   | None => match border_style [t] with
                             | Some _ => Some (shorthand ++ sfx_style, [t])
                             | None => None
                             end
                   end
               | _ => Some (shorthand ++ sfx_color, [t])
               end) tokens.

  Definition border_side_names (shorthand : str) : list str :=
    [shorthand ++ sfx_width; shorthand ++ sfx_color; shorthand ++ sfx_style].

  (* borderExpanders[i], expanders.go:57-62 *)
  Definition border_side_expander (shorthand : str) (tokens : list tok) : option (list nprop) :=
    generic_expander (border_side_names shorthand) expand_border_side shorthand tokens.

  Definition n_border := Eval compute in s "border".
  Definition border_sides : list str := Eval compute in map (fun x => n_border ++ x) side_suffixes.

  (* expandBorder, expanders.go:345-356 *)
  Fixpoint expand_border_loop (sides : list str) (tokens : list tok) : option (list nprop) :=
    match sides with
    | [] => Some []
    | sd :: r =>
        match border_side_expander sd tokens with
        | None => None
        | Some props => match expand_border_loop r tokens with
                        | None => None
                        | Some rest => Some (props ++ rest)
                        end
        end
    end.
  Definition expand_border (tokens : list tok) : option (list nprop) :=
    expand_border_loop border_sides tokens.

  (* ---- columns, expanders.go:840-869 ---- *)

  (* columnWidth, validation.go:1455-1469: <length> (not negative) | auto *)
  Definition column_width (tokens : list tok) : option value :=
    match tokens with
    | [t] => match get_length t false false with
             | Some (v, u) => Some (VDim v u)
             | None => if str_eqb (get_keyword t) kw_auto then Some (VKw kw_auto) else None
             end
    | _ => None
    end.

  (* columnCount, validation.go:2441-2456: <integer> >= 1 | auto;
     Number.Int() = int(ValueF), tokenizer.go:252 *)
  Definition column_count (tokens : list tok) : option value :=
    match tokens with
    | [t] =>
        match (match t with
               | TNum v true => if Qle_bool 1 v then Some (VInt (Qfloor v)) else None
               | _ => None
               end) with
        | Some x => Some x
        | None => if str_eqb (get_keyword t) kw_auto then Some (VKw kw_auto) else None
        end
    | _ => None
    end.

  Definition is_some {A} (o : option A) : bool := match o with Some _ => true | None => false end.

  Definition n_columns := Eval compute in s "columns".
  Definition n_column_width := Eval compute in s "column-width".
  Definition n_column_count := Eval compute in s "column-count".
  Definition tok_auto : tok := TIdent kw_auto.      (* pa.NewIdent("auto", pos) *)

  (* the loop at :846-856.  `name` is the longhand given to the previous token
     ([] before the first one: the zero KnownProp is not column-width); returns
     the (name, tokens) list and the last name *)
  Fixpoint columns_loop (tokens : list tok) (name : str) : option (list (str * list tok) * str) :=
    match tokens with
    | [] => Some ([], name)
    | t :: r =>
        let name' :=
          if (is_some (column_width [t]) && negb (str_eqb name n_column_width))%bool then Some n_column_width   (* :848 *)
          else if is_some (column_count [t]) then Some n_column_count                                           (* :850 *)
          else None in                                                                                          (* :853 *)
        match name' with
        | None => None
        | Some nm => match columns_loop r nm with
                     | None => None
                     | Some (out, last) => Some ((nm, [t]) :: out, last)
                     end
        end
    end.

  (* _expandColumns, expanders.go:841-869 *)
  Definition expand_columns (_ : str) (tokens : list tok) : option (list (str * list tok)) :=
    let tokens :=
      match tokens with
      | [a; b] => if str_eqb (get_keyword a) kw_auto then [b; a] else tokens      (* :842-844 reverse *)
      | _ => tokens
      end in
    match columns_loop tokens [] with
    | None => None
    | Some (out, name) =>
        match tokens with
        | [_] =>                                                                   (* :858-867 *)
            let other := if str_eqb name n_column_width then n_column_count else n_column_width in
            Some (out ++ [(other, [tok_auto])])
        | _ => Some out
        end
    end.

  Definition columns_names : list str := [n_column_width; n_column_count].       (* expanders.go:39 *)

  Definition columns_expander (tokens : list tok) : option (list nprop) :=
    generic_expander columns_names expand_columns n_columns tokens.

  (* ---- the expanders table, expanders.go:15-55 (modelled entries) ---- *)

  Definition four_sides_shorthands : list str := Eval compute in map s
    ["border-color"; "border-style"; "border-width"; "margin"; "padding"; "bleed"]%string.

  (* expanders.go:37-38: column-rule and outline share _expandBorderSide *)
  Definition side_like_shorthands : list str := Eval compute in map s ["column-rule"; "outline"]%string.

  Definition expander_of (name : str) : option (list tok -> option (list nprop)) :=
    if in_table four_sides_shorthands name then Some (expand_four_sides name)
    else if str_eqb name n_border then Some expand_border
    else if in_table border_sides name then Some (border_side_expander name)
    else if in_table side_like_shorthands name then Some (border_side_expander name)
    else if str_eqb name n_columns then Some columns_expander
    else other_expander name.

  (* ExpandValidatePending, expanders.go:66-77 *)
  Definition expand_validate_pending (prop from : str) (tokens : list tok) : option value :=
    match expander_of from with
    | None => None       (* unreachable: `from` always is a shorthand tag *)
    | Some e =>
        match e tokens with
        | None => None
        | Some props =>
            match find (fun p => str_eqb (np_name p) prop) props with
            | Some p => Some (np_value p)
            | None => None
            end
        end
    end.

  (* ---- PreprocessDeclarationsPrelude, validation.go:577-693: one turn of
     the loop over `declarations`, as the list of Declaration it appends to
     ownDecls ([] when the turn ends in `continue`) ---- *)
  Definition preprocess_one (r : raw) : list odecl :=
    match r with
    | ROther => []                                                   (* :578-605 *)
    | RDecl dname dvalue important =>
        let name := if is_custom_name dname then dname else ascii_lower dname in   (* :607-610 *)
        if in_table not_print_media_l name then []                   (* :616-619 *)
        else
          let name' :=                                               (* :621-635 *)
            if has_prefix proprietary_prefix name then
              let unprefixed := trim_prefix proprietary_prefix name in
              if in_table proprietary_l unprefixed then Some unprefixed
              else if in_table unstable_l unprefixed then Some unprefixed
              else None
            else Some name in
          match name' with
          | None => []
          | Some name =>
              if (has_prefix [dash] name && negb (is_custom_name name))%bool then []   (* :637-640 *)
              else
                let tokens := remove_whitespace dvalue in            (* :642 *)
                match tokens with
                | [] => []                                           (* :646-649 *)
                | _ =>
                    let result :=                                    (* :655-663 *)
                      match expander_of name with
                      | Some e => e tokens
                      | None => match validate_non_shorthand name tokens false with
                                | Some np => Some [np]
                                | None => None
                                end
                      end in
                    match result with
                    | None => []                                     (* :665-668 *)
                    | Some nps =>                                    (* :670-679 *)
                        map (fun np => mkOD (np_name np) (np_value np) important (np_short np)) nps
                    end
                end
          end
    end.

  (* the loop itself: ownDecls is an accumulator appended to in order *)
  Fixpoint preprocess_loop (ds : list raw) (own_decls : list odecl) : list odecl :=
    match ds with
    | [] => own_decls
    | d :: r => preprocess_loop r (own_decls ++ preprocess_one d)
    end.

  (* PreprocessDeclarations, validation.go:533-536 *)
  Definition preprocess (ds : list raw) : list odecl := preprocess_loop ds [].

  (* a declaration is valid when the loop keeps it *)
  Definition valid (r : raw) : bool :=
    match preprocess_one r with [] => false | _ => true end.

End Pipeline.

(* ---- the concretely modelled leaf validators (instance of `validate`) ---- *)

Section Leaves.
  Variable parse_color : tok -> color.

  Definition dim_value (o : option (Q * N)) : option value :=
    match o with Some (v, u) => Some (VDim v u) | None => None end.

  (* lengthPercOrAuto, validation.go:1656 (margin longhands) *)
  Definition length_perc_or_auto (tokens : list tok) : option value :=
    match tokens with
    | [t] => match get_length t true true with
             | Some (v, u) => Some (VDim v u)
             | None => if str_eqb (get_keyword t) kw_auto then Some (VKw kw_auto) else None
             end
    | _ => None
    end.

  (* lengthOrPercentage, validation.go:2334 (padding longhands) *)
  Definition length_or_percentage (tokens : list tok) : option value :=
    match tokens with
    | [t] => dim_value (get_length t false true)
    | _ => None
    end.

  (* bleed, validation.go:1270 (after fix 7f628f3) *)
  Definition bleed (tokens : list tok) : option value :=
    match tokens with
    | [t] => if str_eqb (get_keyword t) kw_auto then Some (VKw kw_auto)
             else dim_value (get_length t true false)
    | _ => None
    end.

  (* otherColors, validation.go:813 (border-*-color) *)
  Definition other_colors (tokens : list tok) : option value :=
    match tokens with
    | [t] => match parse_color t with CNone => None | c => Some (VColor c) end
    | _ => None
    end.

  (* color, validation.go:864 (after fix 7f628f3); ValidateKnown special case :348 *)
  Definition color_prop (tokens : list tok) : option value :=
    match tokens with
    | [t] => match parse_color t with
             | CCurrent => Some VInherit
             | CNone => None
             | c => Some (VColor c)
             end
    | _ => None
    end.

  Definition visibility_kws : list str := Eval compute in map s ["visible"; "hidden"; "collapse"]%string.
  (* visibility, validation.go:2662 *)
  Definition visibility (tokens : list tok) : option value :=
    let k := get_single_keyword tokens in
    if in_table visibility_kws k then Some (VKw k) else None.

  (* outlineStyle, validation.go:1324-1333: the border styles without `hidden` *)
  Definition outline_style_kws : list str := Eval compute in map s
    ["none"; "dotted"; "dashed"; "double"; "inset"; "outset"; "groove"; "ridge"; "solid"]%string.
  Definition outline_style (tokens : list tok) : option value :=
    let k := get_single_keyword tokens in
    if in_table outline_style_kws k then Some (VKw k) else None.

  Definition kw_invert := Eval compute in s "invert".
  (* outlineColor, validation.go:825-835 *)
  Definition outline_color (tokens : list tok) : option value :=
    match tokens with
    | [t] => if str_eqb (get_keyword t) kw_invert then Some (VColor CCurrent)
             else match parse_color t with CNone => None | c => Some (VColor c) end
    | _ => None
    end.

  Definition n_outline_width := Eval compute in s "outline-width".
  Definition n_outline_style := Eval compute in s "outline-style".
  Definition n_outline_color := Eval compute in s "outline-color".
  Definition n_column_rule_width := Eval compute in s "column-rule-width".
  Definition n_column_rule_style := Eval compute in s "column-rule-style".
  Definition n_column_rule_color := Eval compute in s "column-rule-color".

  Definition names_with (pre : string) (post : string) : list str :=
    map (fun sd => s pre ++ sd ++ s post) side_suffixes.

  Definition margin_names := Eval compute in names_with "margin" "".
  Definition padding_names := Eval compute in names_with "padding" "".
  Definition bleed_names := Eval compute in names_with "bleed" "".
  Definition border_width_names := Eval compute in names_with "border" "-width".
  Definition border_style_names := Eval compute in names_with "border" "-style".
  Definition border_color_names := Eval compute in names_with "border" "-color".
  Definition n_color := Eval compute in s "color".
  Definition n_visibility := Eval compute in s "visibility".

  (* validators[prop] for the modelled longhands *)
  Definition leaf_validator (name : str) : option (list tok -> option value) :=
    if in_table margin_names name then Some length_perc_or_auto
    else if in_table padding_names name then Some length_or_percentage
    else if in_table bleed_names name then Some bleed
    else if in_table border_width_names name then Some border_width
    else if in_table border_style_names name then Some border_style
    else if in_table border_color_names name then Some other_colors
    else if str_eqb name n_color then Some color_prop
    else if str_eqb name n_visibility then Some visibility
    else if (str_eqb name n_outline_width || str_eqb name n_column_rule_width)%bool then Some border_width
    else if str_eqb name n_column_rule_style then Some border_style
    else if str_eqb name n_column_rule_color then Some other_colors
    else if str_eqb name n_outline_style then Some outline_style
    else if str_eqb name n_outline_color then Some outline_color
    else if str_eqb name n_column_width then Some column_width
    else if str_eqb name n_column_count then Some column_count
    else None.

  Definition known_modelled (name : str) : bool :=
    match leaf_validator name with Some _ => true | None => false end.

  Definition validate_modelled (name : str) (tokens : list tok) : option value :=
    match leaf_validator name with Some f => f tokens | None => None end.

  (* the instance used by the correspondence check: only modelled shorthands *)
  Definition preprocess_modelled : list raw -> list odecl :=
    preprocess known_modelled validate_modelled parse_color (fun _ => None).

End Leaves.
