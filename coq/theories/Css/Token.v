(* Css/Token.v -- the token / compound AST of /repo/css/parser, as data.

   Mirrors the Go structs of css/parser/tokenizer.go:17-85 (tokens) and
   css/parser/parser.go:16-38 (compounds).  Types only (plus trivial
   accessors): shared by C06 (tokenizer/parser model, Css/Tok.v, Css/Parse.v)
   and C20 (serializer).  THIS FILE IS KEPT STABLE: definitions are only added.

   Conventions
   * strings (`Value`, `Unit`, `Name`, `AtKeyword`) are lists of Unicode code
     points (`list N`), i.e. what `for _, r := range s` yields on the Go side
     (the tokenizer only ever builds valid UTF-8: `WriteRune` replaces
     surrogates / out-of-range runes by U+FFFD, and so does the model).
   * `pos` = Go `Pos{Line, Column}`; Column is counted in BYTES of the
     preprocessed UTF-8 source (tokenizer.go:669-681), first column 1.
   * the `flag` bitmask of `stringVal` (tokenizer.go:227-235) is represented
     by the boolean each token type actually uses:
       Number/Percentage/Dimension : isInteger   (`IsInt()`),
       Hash                        : isIdentifier (`isIdentifier()`),
       String                      : isErrorInString (`isError()`),
       URL                         : isErrorInURL (`flag&isErrorInURL != 0`).
     (The tokenizer never sets any other bit on those types.)
   * numeric tokens keep the *representation string* (`Value`) and the integer
     flag; `ValueF` is `float32(strconv.ParseFloat(Value, 32))`, a function of
     the representation computed by trusted library code, so it is not a field
     (see `Css/Tok.v` `repr_value` for its exact rational value).
   * `ParseError.Message` is not modelled (never compared); `kind` is the byte
     of tokenizer.go:254-266. *)
From Coq Require Import List NArith ZArith Bool.
Import ListNotations.

Definition str := list N.

Record pos : Type := mkPos { line : Z; column : Z }.

Inductive token : Type :=
| TLiteral (p : pos) (v : str)                    (* Literal: delimiter or raw value, e.g. ":" "~=" "<!--" *)
| TParseError (p : pos) (kind : N)                (* ParseError: kind byte *)
| TComment (p : pos) (v : str)                    (* Comment: text between /* and */ *)
| TWhitespace (p : pos) (v : str)
| TIdent (p : pos) (v : str)                      (* unescaped value *)
| TAtKeyword (p : pos) (v : str)                  (* without the @ *)
| THash (p : pos) (v : str) (is_id : bool)        (* without the # *)
| TString (p : pos) (v : str) (err : bool)        (* err: EOF in string *)
| TURL (p : pos) (v : str) (err : bool)           (* err: EOF in url *)
| TUnicodeRange (p : pos) (range_start range_end : N)
| TNumber (p : pos) (repr : str) (is_int : bool)
| TPercentage (p : pos) (repr : str) (is_int : bool)
| TDimension (p : pos) (repr : str) (is_int : bool) (unit : str)
| TParens (p : pos) (args : list token)           (* ParenthesesBlock *)
| TSquare (p : pos) (args : list token)           (* SquareBracketsBlock *)
| TCurly (p : pos) (args : list token)            (* CurlyBracketsBlock *)
| TFunction (p : pos) (name : str) (args : list token).  (* FunctionBlock; name unescaped, as written (case kept) *)

(* ParseError kinds, tokenizer.go:254-266 *)
Definition errBadString : N := 98.      (* 'b' *)
Definition errBadURL : N := 117.        (* 'u' *)
Definition errP : N := 41.              (* ')' unmatched *)
Definition errB : N := 93.              (* ']' unmatched *)
Definition errC : N := 125.             (* '}' unmatched *)
Definition errEofInString : N := 115.   (* 's' *)
Definition errEofInUrl : N := 101.      (* 'e' *)
Definition errInvalidNumber : N := 110. (* 'n' *)
Definition errEmpty : N := 69.          (* 'E' *)
Definition errExtraInput : N := 120.    (* 'x' *)
Definition errInvalid : N := 105.       (* 'i' *)

(* Kind, tokenizer.go:141-161 (same numbering) *)
Inductive kind : Type :=
| KLitteral | KParseError | KComment | KWhitespace | KIdent | KAtKeyword | KHash
| KString | KURL | KUnicodeRange | KNumber | KPercentage | KDimension
| KParenthesesBlock | KSquareBracketsBlock | KCurlyBracketsBlock | KFunctionBlock.

Definition token_kind (t : token) : kind :=
  match t with
  | TLiteral _ _ => KLitteral | TParseError _ _ => KParseError | TComment _ _ => KComment
  | TWhitespace _ _ => KWhitespace | TIdent _ _ => KIdent | TAtKeyword _ _ => KAtKeyword
  | THash _ _ _ => KHash | TString _ _ _ => KString | TURL _ _ _ => KURL
  | TUnicodeRange _ _ _ => KUnicodeRange | TNumber _ _ _ => KNumber
  | TPercentage _ _ _ => KPercentage | TDimension _ _ _ _ => KDimension
  | TParens _ _ => KParenthesesBlock | TSquare _ _ => KSquareBracketsBlock
  | TCurly _ _ => KCurlyBracketsBlock | TFunction _ _ _ => KFunctionBlock
  end.

Definition kind_code (k : kind) : N :=
  match k with
  | KLitteral => 0 | KParseError => 1 | KComment => 2 | KWhitespace => 3 | KIdent => 4
  | KAtKeyword => 5 | KHash => 6 | KString => 7 | KURL => 8 | KUnicodeRange => 9
  | KNumber => 10 | KPercentage => 11 | KDimension => 12 | KParenthesesBlock => 13
  | KSquareBracketsBlock => 14 | KCurlyBracketsBlock => 15 | KFunctionBlock => 16
  end%N.

Definition token_pos (t : token) : pos :=
  match t with
  | TLiteral p _ | TParseError p _ | TComment p _ | TWhitespace p _ | TIdent p _
  | TAtKeyword p _ | THash p _ _ | TString p _ _ | TURL p _ _ | TUnicodeRange p _ _
  | TNumber p _ _ | TPercentage p _ _ | TDimension p _ _ _ | TParens p _ | TSquare p _
  | TCurly p _ | TFunction p _ _ => p
  end.

(* Compounds, parser.go:16-38.  `Compound` is implemented by QualifiedRule,
   AtRule, Declaration and by the tokens ParseError, Whitespace, Comment.
   AtRule.Content: Go distinguishes nil (rule ended by ';' or EOF, no block)
   from a non-nil, possibly empty slice (a {} block was present,
   parser.go:277-280): `option`. *)
Inductive compound : Type :=
| CQualifiedRule (p : pos) (prelude content : list token)
| CAtRule (p : pos) (at_keyword : str) (prelude : list token) (content : option (list token))
| CDeclaration (p : pos) (name : str) (value : list token) (important : bool)
| CParseError (p : pos) (kind : N)
| CWhitespace (p : pos) (v : str)
| CComment (p : pos) (v : str).

Definition compound_pos (c : compound) : pos :=
  match c with
  | CQualifiedRule p _ _ | CAtRule p _ _ _ | CDeclaration p _ _ _ | CParseError p _
  | CWhitespace p _ | CComment p _ => p
  end.
