(* Css/DefaultingValue.v -- the abstract CSS value type shared by the generated
   tables (Generated/PropTables.v) and the model of CSS defaulting
   (Css/Defaulting.v).

   Only the Go value types whose *content* some modelled computer function
   reads are represented structurally; every other type is `VOpaque id`,
   compared by identity (the harness interns the canonical %#v print of the Go
   value; id 0 is reserved for "the initial value of that property").

   Go type (css/properties/types.go)         constructor
   pr.DimOrS{S, Dimension{Value, Unit}}      VDim s v u        (Unit 0 = null)
   pr.DimOrS{Value: +Inf, Unit: Px}          VInfPx            (max-width: none)
   pr.String, pr.Page                        VStr s
   pr.IntString{String, Int}                 VIntStr s i
   pr.Int                                    VInt i
   pr.Display{a, b, c}                       VDisplay a b c
   pr.BoolString{Bool, String}               VBoolStr b s
   pr.Decorations                            VDecor bits
   pr.Point{d1, d2}                          VPoint v1 u1 v2 u2
   pr.Marks{Crop, Cross}                     VMarks crop cross
   anything else                             VOpaque id *)
From Coq Require Export QArith ZArith NArith String Bool.

Inductive value : Type :=
| VDim (s : string) (v : Q) (u : N)
| VInfPx
| VStr (s : string)
| VIntStr (s : string) (i : Z)
| VInt (i : Z)
| VDisplay (a b c : string)
| VBoolStr (b : bool) (s : string)
| VDecor (bits : N)
| VPoint (v1 : Q) (u1 : N) (v2 : Q) (u2 : N)
| VMarks (crop cross : bool)
| VOpaque (id : N).

(* equality up to Qeq on the rational components *)
Definition value_eqb (a b : value) : bool :=
  match a, b with
  | VDim s v u, VDim s' v' u' => String.eqb s s' && Qeq_bool v v' && N.eqb u u'
  | VInfPx, VInfPx => true
  | VStr s, VStr s' => String.eqb s s'
  | VIntStr s i, VIntStr s' i' => String.eqb s s' && Z.eqb i i'
  | VInt i, VInt i' => Z.eqb i i'
  | VDisplay a b c, VDisplay a' b' c' => String.eqb a a' && String.eqb b b' && String.eqb c c'
  | VBoolStr b s, VBoolStr b' s' => Bool.eqb b b' && String.eqb s s'
  | VDecor x, VDecor y => N.eqb x y
  | VPoint a u b w, VPoint a' u' b' w' =>
      Qeq_bool a a' && N.eqb u u' && Qeq_bool b b' && N.eqb w w'
  | VMarks a b, VMarks a' b' => Bool.eqb a a' && Bool.eqb b b'
  | VOpaque i, VOpaque j => N.eqb i j
  | _, _ => false
  end.

Inductive value_eq : value -> value -> Prop :=
| VEDim s v v' u : v == v' -> value_eq (VDim s v u) (VDim s v' u)
| VEInf : value_eq VInfPx VInfPx
| VEStr s : value_eq (VStr s) (VStr s)
| VEIntStr s i : value_eq (VIntStr s i) (VIntStr s i)
| VEInt i : value_eq (VInt i) (VInt i)
| VEDisplay a b c : value_eq (VDisplay a b c) (VDisplay a b c)
| VEBoolStr b s : value_eq (VBoolStr b s) (VBoolStr b s)
| VEDecor x : value_eq (VDecor x) (VDecor x)
| VEPoint a a' u b b' w : a == a' -> b == b' -> value_eq (VPoint a u b w) (VPoint a' u b' w)
| VEMarks a b : value_eq (VMarks a b) (VMarks a b)
| VEOpaque i : value_eq (VOpaque i) (VOpaque i).
