(* Css/SerCompoundProofs.v -- proofs about Css/SerCompound.v (property C20,
   parsed rules and declarations).

   Main result `compound_tokenizes_back`: the bytes written by the model of
   QualifiedRule / AtRule .serializeTo tokenize back (specification tokenizer,
   up to comments / positions) to the token list the rule stands for: the
   at-keyword, the prelude, then the {} block with the content or, for a rule
   WITHOUT block, a semicolon.  Nothing fuses at the boundaries at-keyword /
   prelude and prelude / end of the rule. *)
From Verif Require Import Css.Ser Css.RetokSpec Css.SerWf Css.SerCompound
  Css.RoundTripList Css.RoundTripSep Css.RoundTripBuild.
From Coq Require Import List NArith Bool Lia String.
Import ListNotations.
Open Scope N_scope.

(* ------------------------------------------------------------------ lists *)
Definition last_opt (prev : option token) (l : list token) : option token :=
  fold_left (fun _ x => Some x) l prev.

Lemma ser_snoc f : forall a prev e,
  ser_list_with f prev (a ++ [e]) =
  (let* x := ser_list_with f prev a in
   let* y := f e in
   Ok (x ++ separator (last_opt prev a) e ++ y)).
Proof.
  induction a as [|n r IH]; intros prev e.
  - cbn. destruct (f e); cbn; try reflexivity. now rewrite app_nil_r.
  - cbn [app ser_list_with]. rewrite IH. cbn [last_opt fold_left].
    destruct (f n) as [a0| |]; cbn; try reflexivity.
    destruct (ser_list_with f (Some n) r) as [b| |]; cbn; try reflexivity.
    destruct (f e) as [y| |]; cbn; try reflexivity.
    now rewrite !app_assoc.
Qed.

Lemma ser_head f prev1 prev2 l :
  match l with t :: _ => separator prev1 t = separator prev2 t | [] => True end ->
  ser_list_with f prev1 l = ser_list_with f prev2 l.
Proof. destruct l as [|t r]; [reflexivity|]. intros H. cbn. now rewrite H. Qed.

Lemma wf_tokens_app a : forall b,
  wf_tokens a = true -> wf_tokens b = true -> wf_tokens (a ++ b) = true.
Proof.
  induction a as [|x r IH]; intros b Ha Hb; [exact Hb|].
  cbn [app wf_tokens] in *. apply andb_true_iff in Ha as [Ha Hr]. apply andb_true_iff in Ha as [Hx Hbs].
  rewrite Hx, (IH b Hr Hb), andb_true_r. cbn [andb].
  unfold backslash_ok in *. destruct (is_backslash x); [|reflexivity].
  destruct r; [discriminate|exact Hbs].
Qed.

(* the last token of a well-formed list is not a backslash delimiter *)
Lemma last_not_backslash p : wf_tokens p = true -> forall prev,
  (p = [] /\ last_opt prev p = prev) \/
  (exists y, last_opt prev p = Some y /\ wf_tok y = true /\ is_backslash y = false).
Proof.
  induction p as [|x r IH]; intros Hw prev; [left; split; reflexivity|]. right.
  cbn [wf_tokens] in Hw. apply andb_true_iff in Hw as [Hw Hr]. apply andb_true_iff in Hw as [Hx Hbs].
  cbn [last_opt fold_left]. destruct (IH Hr (Some x)) as [[-> E]|(y & E & Hy)].
  - exists x. split; [reflexivity|]. split; [exact Hx|].
    unfold backslash_ok in Hbs. destruct (is_backslash x); [discriminate|reflexivity].
  - exists y. split; [exact E|exact Hy].
Qed.

(* ------------------------------------------------------------------ separators at the boundaries of a rule *)
Lemma bad_pair_right_absent a b :
  forallb (fun p => negb (str_eqb (snd p) b)) bad_pairs_table = true -> bad_pair a b = false.
Proof.
  intros H. unfold bad_pair. apply not_true_is_false. intros E.
  apply existsb_exists in E as (p & Hin & Hp). rewrite forallb_forall in H. specialize (H p Hin).
  apply andb_true_iff in Hp as [_ Hp]. rewrite Hp in H. discriminate.
Qed.

Lemma bad_pair_left_absent a b :
  forallb (fun p => negb (str_eqb (fst p) a)) bad_pairs_table = true -> bad_pair a b = false.
Proof.
  intros H. unfold bad_pair. apply not_true_is_false. intros E.
  apply existsb_exists in E as (p & Hin & Hp). rewrite forallb_forall in H. specialize (H p Hin).
  apply andb_true_iff in Hp as [Hp _]. rewrite Hp in H. discriminate.
Qed.

(* what ends a rule: its {} block, or the semicolon of a rule without block *)
Definition end_tok (e : token) : bool :=
  match e with TCurly _ _ => true | TLiteral _ v => str_eqb v [59] | _ => false end.

Lemma str_eqb_true a : forall b, str_eqb a b = true -> a = b.
Proof.
  induction a as [|x a IH]; intros [|y b] H; try discriminate H; [reflexivity|].
  cbn in H. apply andb_true_iff in H as [Hx H]. apply N.eqb_eq in Hx. subst y. f_equal. now apply IH.
Qed.

Lemma sep_end_tok x e :
  end_tok e = true -> wf_tok x = true -> is_backslash x = false -> separator (Some x) e = [].
Proof.
  intros He Hx Hb. unfold separator. rewrite (not_backslash_type x Hx Hb).
  assert (Hty : ser_type e = cps "{} block"%string \/ ser_type e = [59]).
  { destruct e; try discriminate He.
    - right. cbn [end_tok] in He. apply str_eqb_true in He. subst v. reflexivity.
    - left. reflexivity. }
  destruct Hty as [-> | ->].
  - rewrite bad_pair_right_absent by (vm_compute; reflexivity).
    destruct x; reflexivity.
  - rewrite bad_pair_right_absent by (vm_compute; reflexivity).
    destruct x; reflexivity.
Qed.

Lemma sep_last_end p prev e :
  wf_tokens p = true -> end_tok e = true ->
  match prev with Some x => wf_tok x = true /\ is_backslash x = false | None => True end ->
  separator (last_opt prev p) e = [].
Proof.
  intros Hp He Hprev. destruct (last_not_backslash p Hp prev) as [[_ ->]|(y & -> & Hy & Hb)].
  - destruct prev as [x|]; [|reflexivity]. destruct Hprev. now apply sep_end_tok.
  - now apply sep_end_tok.
Qed.

(* ------------------------------------------------------------------ the rule as a token list *)
Definition at_prelude (p : list token) : list token :=
  if at_fuses p then TComment p0 [] :: p else p.

(* the tokens written for a rule (the at-rule with its separating comment, if any) *)
Definition rule_tokens (c : compound) : list token :=
  match c with
  | CAtRule kw p b => compound_tokens (CAtRule kw (at_prelude p) b)
  | _ => compound_tokens c
  end.

Definition is_rule (c : compound) : bool := match c with CDecl _ _ _ => false | _ => true end.

Definition compound_wf (c : compound) : bool :=
  match c with
  | CQualified p b => wf_tokens p && wf_tokens b
  | CAtRule kw p b => name_val kw && wf_tokens p && match b with Some b => wf_tokens b | None => true end
  | CDecl n v _ => name_val n && wf_tokens v
  end.

Lemma wf_at_prelude p : wf_tokens p = true -> wf_tokens (at_prelude p) = true.
Proof. intros H. unfold at_prelude. destruct (at_fuses p); [|exact H]. cbn [wf_tokens]. now rewrite H. Qed.

Lemma sep_at_prelude kw p :
  match at_prelude p with
  | t :: _ => separator (Some (TAtKeyword p0 kw)) t = separator None t
  | [] => True
  end.
Proof.
  unfold at_prelude. destruct (at_fuses p) eqn:E; [reflexivity|].
  destruct p as [|t r]; [exact I|]. cbn [at_fuses] in E.
  unfold separator. cbn [ser_type token_kind kind_string]. rewrite E. reflexivity.
Qed.

Lemma wf_curly b : wf_tokens b = true -> wf_tok (TCurly p0 b) = true.
Proof. intros H. cbn [wf_tok]. now rewrite wf_seq_eq. Qed.

Lemma rule_tokens_wf c : is_rule c = true -> compound_wf c = true -> wf_tokens (rule_tokens c) = true.
Proof.
  destruct c as [p b|kw p b|]; [| |discriminate]; intros _ Hw; cbn [compound_wf] in Hw.
  - apply andb_true_iff in Hw as [Hp Hb]. cbn [rule_tokens compound_tokens].
    apply wf_tokens_app; [exact Hp|]. cbn [wf_tokens]. now rewrite (wf_curly b Hb).
  - apply andb_true_iff in Hw as [Hw Hb]. apply andb_true_iff in Hw as [Hk Hp].
    apply wf_at_prelude in Hp.
    destruct b as [b|]; cbn [rule_tokens compound_tokens wf_tokens wf_tok]; rewrite Hk; cbn [andb backslash_ok is_backslash].
    + apply wf_tokens_app; [exact Hp|]. cbn [wf_tokens]. now rewrite (wf_curly b Hb).
    + apply wf_tokens_app; [exact Hp|]. reflexivity.
Qed.

(* the compound serializers write the serialization of that token list *)
Lemma ser_rule_tokens c s : is_rule c = true -> compound_wf c = true ->
  ser_compound c = Ok s -> serialize (rule_tokens c) = Ok s.
Proof.
  destruct c as [p b|kw p b|]; [| |discriminate]; intros _ Hw Hs; cbn [compound_wf] in Hw.
  - apply andb_true_iff in Hw as [Hp Hb]. cbn [rule_tokens compound_tokens]. cbn [ser_compound] in Hs.
    unfold serialize, serialize_from in *. rewrite ser_snoc.
    rewrite (sep_last_end p None (TCurly p0 b) Hp eq_refl I).
    destruct (ser_list_with ser_token None p) as [a| |]; try discriminate Hs. cbn [bind] in *.
    cbn [ser_token]. destruct (ser_list_with ser_token None b) as [sb| |]; try discriminate Hs. cbn [bind] in *.
    exact Hs.
  - apply andb_true_iff in Hw as [Hw Hb]. apply andb_true_iff in Hw as [Hk Hp].
    cbn [ser_compound] in Hs. fold (at_prelude p) in Hs.
    pose proof (wf_at_prelude p Hp) as Hp'.
    assert (Hat : wf_tok (TAtKeyword p0 kw) = true /\ is_backslash (TAtKeyword p0 kw) = false)
      by (split; [exact Hk|reflexivity]).
    destruct (serialize_identifier kw) as [k| |] eqn:Ek; try discriminate Hs. cbn [bind] in Hs.
    unfold serialize, serialize_from in *.
    destruct b as [b|]; cbn [rule_tokens compound_tokens ser_list_with ser_token]; rewrite Ek; cbn [bind];
      rewrite ser_snoc, (ser_head ser_token (Some (TAtKeyword p0 kw)) None _ (sep_at_prelude kw p)).
    + rewrite (sep_last_end (at_prelude p) (Some (TAtKeyword p0 kw)) (TCurly p0 b) Hp' eq_refl Hat).
      destruct (ser_list_with ser_token None (at_prelude p)) as [a| |]; try discriminate Hs. cbn [bind] in *.
      cbn [ser_token]. destruct (ser_list_with ser_token None b) as [sb| |]; try discriminate Hs. cbn [bind] in *.
      rewrite separator_none. cbn [app]. injection Hs as <-. rewrite <- ?app_assoc. cbn [app]. reflexivity.
    + rewrite (sep_last_end (at_prelude p) (Some (TAtKeyword p0 kw)) (TLiteral p0 [59]) Hp' eq_refl Hat).
      destruct (ser_list_with ser_token None (at_prelude p)) as [a| |]; try discriminate Hs. cbn [bind] in *.
      cbn [ser_token bind]. rewrite separator_none. cbn [app]. injection Hs as <-. rewrite <- ?app_assoc. cbn [app]. reflexivity.
Qed.

(* serialized rules tokenize back to at-keyword, prelude, block / semicolon *)
Theorem compound_tokenizes_back c s :
  is_rule c = true -> compound_wf c = true -> ser_compound c = Ok s ->
  norm (tokenize true s) = norm (rule_tokens c).
Proof.
  intros Hr Hw Hs. apply roundtrip.
  - now apply rule_tokens_wf.
  - now apply ser_rule_tokens.
Qed.

(* the separating comment is invisible up to `norm`: the tokens read back are
   the ones of the rule itself *)
Lemma norm_rule_tokens c : norm (rule_tokens c) = norm (compound_tokens c).
Proof.
  destruct c as [p b|kw p b|]; try reflexivity.
  unfold rule_tokens, at_prelude. destruct (at_fuses p); [|reflexivity].
  destruct b; reflexivity.
Qed.

(* a rule with an EMPTY block and the rule without block are written differently
   and read back differently: what seed-like `len(Content) == 0` tests break *)
Lemma empty_block_is_not_statement kw p :
  compound_tokens (CAtRule kw p (Some [])) <> compound_tokens (CAtRule kw p None).
Proof.
  cbn [compound_tokens]. intros H. injection H as H. apply app_inv_head in H. discriminate.
Qed.
