(* Css/SerProofs.v -- per-consumer round-trip lemmas for property C20:
   what the serializer model (Css/Ser.v) writes for a name, an identifier, a
   string, a url, a number, a unicode range is read back by the corresponding
   consumer of the specification tokenizer (Css/RetokSpec.v) as the same value,
   leaving exactly the text that followed. *)
From Verif Require Import Css.Ser Css.RetokSpec Css.SerWf.
From Coq Require Import List NArith Bool Lia ZifyBool ZifyN ZifyNat.
Import ListNotations.
Open Scope N_scope.

Ltac unf1 := unfold name_cp, name_start, hexdig, is_letter_us, non_printable, is_sign, head_is, is_quote, is_open,
  is_close, cmp_delim, surrogate, whitespace, newline in *.
Ltac unf2 := unfold letter, non_ascii, digit, is_lower, is_upper, is_digit in *.
Ltac unf := unf1; unf2.

(* ------------------------------------------------------------------ hexadecimal *)
Lemma hex_str_val_app a b :
  hex_str_val (a ++ b) = fold_left (fun x c => x * 16 + hexval c) b (hex_str_val a).
Proof. unfold hex_str_val. apply fold_left_app. Qed.

Lemma hex_str_val_snoc a d : hex_str_val (a ++ [d]) = hex_str_val a * 16 + hexval d.
Proof. rewrite hex_str_val_app. reflexivity. Qed.

Lemma fold_hex_shift l : forall x,
  fold_left (fun x c => x * 16 + hexval c) l x = x * 16 ^ N.of_nat (length l) + hex_str_val l.
Proof.
  unfold hex_str_val. induction l as [|d l IH]; intros x.
  - cbn. lia.
  - cbn [fold_left length]. rewrite IH. rewrite (IH (0 * 16 + hexval d)).
    rewrite Nat2N.inj_succ, N.pow_succ_r'. lia.
Qed.

Lemma hex_digit_ok d : d < 16 -> hexdig (hex_digit d) = true /\ hexval (hex_digit d) = d.
Proof.
  intros H. unfold hex_digit, hexval. destruct (d <? 10) eqn:E.
  - assert (E1 : digit (48 + d) = true) by (unf; lia). rewrite E1. split; [unf; lia | lia].
  - assert (E1 : digit (55 + d) = false) by (unf; lia). rewrite E1.
    assert (E2 : (97 <=? 55 + d) = false) by lia. rewrite E2. split; [unf; lia | lia].
Qed.

(* hex_upper_fuel writes the digits of n in front of acc *)
Lemma hex_upper_fuel_spec f : forall n acc,
  n < 16 ^ N.of_nat f -> (0 < f)%nat ->
  exists h, hex_upper_fuel f n acc = h ++ acc /\ forallb hexdig h = true /\
            (1 <= length h <= f)%nat /\ hex_str_val h = n.
Proof.
  induction f as [|f IH]; intros n acc Hn Hf; [lia|].
  cbn [hex_upper_fuel].
  assert (Hm : n mod 16 < 16) by (apply N.mod_lt; lia).
  destruct (hex_digit_ok _ Hm) as [Hd Hv].
  destruct (n / 16 =? 0) eqn:E.
  - exists [hex_digit (n mod 16)]. cbn [app forallb length]. rewrite Hd.
    split; [reflexivity|]. split; [reflexivity|]. split; [lia|].
    unfold hex_str_val. cbn [fold_left]. rewrite Hv. apply N.eqb_eq in E.
    pose proof (N.div_mod n 16). lia.
  - assert (Hf' : (0 < f)%nat).
    { destruct f; [|lia]. cbn in Hn. assert (n / 16 = 0) by (apply N.div_small; lia). lia. }
    assert (Hn' : n / 16 < 16 ^ N.of_nat f).
    { apply N.div_lt_upper_bound; [lia|]. rewrite Nat2N.inj_succ, N.pow_succ_r' in Hn. lia. }
    destruct (IH (n / 16) (hex_digit (n mod 16) :: acc) Hn' Hf') as (h & Eh & Hh & Hl & Hval).
    exists (h ++ [hex_digit (n mod 16)]). rewrite Eh, <- app_assoc. split; [reflexivity|].
    rewrite forallb_app, Hh. cbn [forallb andb]. rewrite Hd. rewrite app_length. cbn [length].
    split; [reflexivity|]. split; [lia|].
    rewrite hex_str_val_snoc, Hval, Hv. pose proof (N.div_mod n 16). lia.
Qed.

Lemma hex_upper_spec n : n < 16 ^ 8 ->
  forallb hexdig (hex_upper n) = true /\ (1 <= length (hex_upper n) <= 8)%nat /\
  hex_str_val (hex_upper n) = n.
Proof.
  intros H. unfold hex_upper.
  destruct (hex_upper_fuel_spec 8 n [] H ltac:(lia)) as (h & E & A & B & C).
  rewrite E, app_nil_r. auto.
Qed.

(* hex_run reads a block of hex digits *)
Lemma hex_run_app h : forall n acc x,
  forallb hexdig h = true -> (length h <= n)%nat ->
  (length h = n \/ match x with c :: _ => hexdig c = false | [] => True end) ->
  hex_run n acc (h ++ x) = (fold_left (fun a c => a * 16 + hexval c) h acc, x).
Proof.
  induction h as [|d h IH]; intros n acc x Hh Hl Hx.
  - cbn [app fold_left]. destruct n; [reflexivity|]. destruct x as [|c x]; [reflexivity|].
    cbn. destruct Hx as [Hx|Hx]; [cbn in Hx; lia|]. rewrite Hx. reflexivity.
  - cbn in Hh. apply andb_true_iff in Hh as [Hd Hh]. destruct n; [cbn in Hl; lia|].
    cbn [app hex_run fold_left]. rewrite Hd. apply IH; auto.
    + cbn in Hl. lia.
    + destruct Hx as [Hx|Hx]; [left; cbn in Hx; lia | right; exact Hx].
Qed.

(* an escape written as 1..6 hex digits followed by a space *)
Lemma consume_escape_hex h rest :
  forallb hexdig h = true -> (1 <= length h <= 6)%nat ->
  consume_escape (h ++ 32 :: rest) = (scalar_or_fffd (hex_str_val h), rest).
Proof.
  intros Hh Hl. destruct h as [|d h]; [cbn in Hl; lia|].
  cbn in Hh. apply andb_true_iff in Hh as [Hd Hh].
  cbn [app consume_escape]. rewrite Hd.
  rewrite (hex_run_app h 5 (hexval d) (32 :: rest) Hh).
  - cbn. unfold hex_str_val. cbn. reflexivity.
  - cbn in Hl. lia.
  - right. reflexivity.
Qed.

Lemma scalar_id c : c <> 0 -> c < 55296 -> scalar_or_fffd c = c.
Proof. intros. unfold scalar_or_fffd, surrogate.
  assert (E : (c =? 0) || (55296 <=? c) && (c <=? 57343) || (1114111 <? c) = false) by lia.
  rewrite E. reflexivity. Qed.

(* "\%X " of a small non-zero code point *)
Lemma hex_upper_small c : c < 256 ->
  hex_upper c = if c / 16 =? 0 then [hex_digit (c mod 16)]
                else [hex_digit (c / 16 mod 16); hex_digit (c mod 16)].
Proof.
  intros H. unfold hex_upper. cbn [hex_upper_fuel].
  destruct (c / 16 =? 0) eqn:E1; [reflexivity|].
  assert (E2 : c / 16 / 16 =? 0 = true).
  { apply N.eqb_eq. apply N.div_small. apply N.div_lt_upper_bound; lia. }
  rewrite E2. reflexivity.
Qed.

Lemma escape_hex_upper c rest : c <> 0 -> c < 256 ->
  consume_escape (hex_upper c ++ 32 :: rest) = (c, rest).
Proof.
  intros H0 H.
  destruct (hex_upper_spec c ltac:(cbn; lia)) as (A & _ & C).
  assert (L : (1 <= length (hex_upper c) <= 6)%nat).
  { rewrite hex_upper_small by exact H. destruct (c / 16 =? 0); cbn; lia. }
  rewrite consume_escape_hex; auto.
  rewrite C. rewrite scalar_id; auto. lia.
Qed.

(* ------------------------------------------------------------------ names *)

Lemma consume_name_stop k f : name_stop k = true -> consume_name f k = ([], k).
Proof.
  unfold name_stop. intros H. apply andb_true_iff in H as [H1 H2].
  destruct f; [reflexivity|]. destruct k as [|c k]; [reflexivity|].
  cbn [consume_name]. apply negb_true_iff in H1, H2. cbn [head_sat] in H1. rewrite H1, H2. reflexivity.
Qed.

Lemma esc_A rest : consume_escape (65 :: 32 :: rest) = (10, rest).
Proof. reflexivity. Qed.
Lemma esc_D rest : consume_escape (68 :: 32 :: rest) = (13, rest).
Proof. reflexivity. Qed.
Lemma esc_C rest : consume_escape (67 :: 32 :: rest) = (12, rest).
Proof. reflexivity. Qed.
Lemma esc_9 rest : consume_escape (57 :: 32 :: rest) = (9, rest).
Proof. reflexivity. Qed.

Lemma consume_escape_raw c rest : hexdig c = false -> consume_escape (c :: rest) = (c, rest).
Proof. intros H. cbn. rewrite H. reflexivity. Qed.

(* one step of consume_name over an escape *)
Lemma consume_name_escape f e body rest r1 :
  consume_escape (body ++ rest) = (e, r1) -> head_is 10 (body ++ rest) = false ->
  consume_name (S f) (92 :: body ++ rest) = let '(v, k) := consume_name f r1 in (e :: v, k).
Proof.
  intros He Hn. cbn [consume_name].
  assert (E1 : name_cp 92 = false) by reflexivity. rewrite E1.
  unfold valid_escape. rewrite Hn. cbn [N.eqb andb negb].
  change (92 =? 92) with true. cbn [andb]. rewrite He. reflexivity.
Qed.

Lemma name_char_step c f rest :
  consume_name (S f) (name_char c ++ rest) = let '(v, k) := consume_name f rest in (c :: v, k).
Proof.
  unfold name_char.
  destruct (is_letter_us c || (c =? 45)) eqn:E1.
  { cbn [app consume_name]. assert (H : name_cp c = true) by (unf; lia). rewrite H. reflexivity. }
  destruct (c =? 10) eqn:E2.
  { apply N.eqb_eq in E2; subst c. apply (consume_name_escape f 10 [65; 32]); reflexivity. }
  destruct (c =? 13) eqn:E3.
  { apply N.eqb_eq in E3; subst c. apply (consume_name_escape f 13 [68; 32]); reflexivity. }
  destruct (c =? 12) eqn:E4.
  { apply N.eqb_eq in E4; subst c. apply (consume_name_escape f 12 [67; 32]); reflexivity. }
  destruct (is_digit c) eqn:E5.
  { cbn [app consume_name]. assert (H : name_cp c = true) by (unf; lia). rewrite H. reflexivity. }
  destruct (127 <? c) eqn:E6.
  { cbn [app consume_name]. assert (H : name_cp c = true) by (unf; lia). rewrite H. reflexivity. }
  apply (consume_name_escape f c [c]).
  - cbn [app]. apply consume_escape_raw. unf. lia.
  - cbn. lia.
Qed.

Lemma serialize_name_cons c v : serialize_name (c :: v) = name_char c ++ serialize_name v.
Proof. reflexivity. Qed.

Theorem name_roundtrip v : forall k f,
  name_stop k = true -> (length v <= f)%nat ->
  consume_name f (serialize_name v ++ k) = (v, k).
Proof.
  induction v as [|c v IH]; intros k f Hk Hf.
  - cbn [serialize_name flat_map app]. apply consume_name_stop, Hk.
  - destruct f; [cbn in Hf; lia|].
    rewrite serialize_name_cons, <- app_assoc, name_char_step, IH; auto. cbn in Hf. lia.
Qed.

(* ------------------------------------------------------------------ identifiers *)
Lemma digit_cases c : is_digit c = true ->
  c = 48 \/ c = 49 \/ c = 50 \/ c = 51 \/ c = 52 \/ c = 53 \/ c = 54 \/ c = 55 \/ c = 56 \/ c = 57.
Proof. unf. lia. Qed.

Lemma ident_first_char_step c f rest :
  consume_name (S f) (ident_first_char c ++ rest) = let '(v, k) := consume_name f rest in (c :: v, k).
Proof.
  unfold ident_first_char.
  destruct (is_letter_us c) eqn:E1.
  { cbn [app consume_name]. assert (H : name_cp c = true) by (unf; lia). rewrite H. reflexivity. }
  destruct (c =? 10) eqn:E2.
  { apply N.eqb_eq in E2; subst c. apply (consume_name_escape f 10 [65; 32]); reflexivity. }
  destruct (c =? 13) eqn:E3.
  { apply N.eqb_eq in E3; subst c. apply (consume_name_escape f 13 [68; 32]); reflexivity. }
  destruct (c =? 12) eqn:E4.
  { apply N.eqb_eq in E4; subst c. apply (consume_name_escape f 12 [67; 32]); reflexivity. }
  destruct (is_digit c) eqn:E5.
  { cbn [app]. rewrite <- app_assoc. cbn [app].
    replace (hex_upper c ++ 32 :: rest) with ((hex_upper c ++ [32]) ++ rest)
      by (rewrite <- app_assoc; reflexivity).
    apply (consume_name_escape f c (hex_upper c ++ [32]) rest rest).
    - rewrite <- app_assoc. cbn [app]. apply escape_hex_upper; unf; lia.
    - destruct (digit_cases c E5) as [->|[->|[->|[->|[->|[->|[->|[->|[->| ->]]]]]]]]]; reflexivity. }
  destruct (127 <? c) eqn:E6.
  { cbn [app consume_name]. assert (H : name_cp c = true) by (unf; lia). rewrite H. reflexivity. }
  apply (consume_name_escape f c [c]).
  - cbn [app]. apply consume_escape_raw. unf. lia.
  - cbn. lia.
Qed.

(* how an identifier-first-character starts: a name-start code point or a valid escape *)
Lemma ident_first_char_head c rest :
  match ident_first_char c ++ rest with
  | d :: r => (name_start d = true /\ d <> 45) \/ (d = 92 /\ head_is 10 r = false)
  | [] => False
  end.
Proof.
  unfold ident_first_char.
  destruct (is_letter_us c) eqn:E1. { cbn. left. unf. lia. }
  destruct (c =? 10) eqn:E2. { cbn. right. auto. }
  destruct (c =? 13) eqn:E3. { cbn. right. auto. }
  destruct (c =? 12) eqn:E4. { cbn. right. auto. }
  destruct (is_digit c) eqn:E5.
  { cbn [app]. right. split; [reflexivity|].
    destruct (digit_cases c E5) as [->|[->|[->|[->|[->|[->|[->|[->|[->| ->]]]]]]]]]; reflexivity. }
  destruct (127 <? c) eqn:E6. { cbn. left. unf. lia. }
  cbn. right. split; [reflexivity|lia].
Qed.

Lemma starts_ident_first_char c rest : starts_ident (ident_first_char c ++ rest) = true.
Proof.
  pose proof (ident_first_char_head c rest) as H.
  destruct (ident_first_char c ++ rest) as [|d r]; [contradiction|].
  unfold starts_ident. destruct H as [[H1 H2]|[-> H2]].
  - assert (E : d =? 45 = false) by lia. rewrite E.
    destruct (d =? 92) eqn:E92; [|exact H1]. unf. lia.
  - cbn. unfold valid_escape. cbn. rewrite H2. reflexivity.
Qed.

Lemma starts_ident_dash_first_char c rest : starts_ident (45 :: ident_first_char c ++ rest) = true.
Proof.
  pose proof (ident_first_char_head c rest) as H.
  unfold starts_ident. cbn [N.eqb]. change (45 =? 45) with true. cbn match.
  destruct (ident_first_char c ++ rest) as [|d r]; [contradiction|].
  destruct H as [[H1 H2]|[-> H2]].
  - rewrite H1. reflexivity.
  - unfold valid_escape. rewrite H2. reflexivity.
Qed.


Lemma consume_name_raw c f rest : name_cp c = true ->
  consume_name (S f) (c :: rest) = let '(v, k) := consume_name f rest in (c :: v, k).
Proof. intros H. cbn [consume_name]. rewrite H. reflexivity. Qed.

Lemma consume_name_esc_dash f k :
  name_stop k = true -> consume_name (S f) (92 :: 45 :: k) = ([45], k).
Proof.
  intros Hk. change (92 :: 45 :: k) with (92 :: [45] ++ k).
  rewrite (consume_name_escape f 45 [45] k k); [|reflexivity|reflexivity].
  rewrite consume_name_stop; auto.
Qed.

Theorem ident_roundtrip v s k f :
  serialize_identifier v = Ok s -> name_stop k = true -> (length v <= f)%nat ->
  consume_name f (s ++ k) = (v, k) /\ starts_ident (s ++ k) = true.
Proof.
  intros Hs Hk Hf. unfold serialize_identifier in Hs.
  destruct v as [|c r]; [discriminate|].
  destruct (c =? 45) eqn:Ec.
  - apply N.eqb_eq in Ec; subst c.
    destruct r as [|d r'].
    + (* "-" *) injection Hs as <-. destruct f; [cbn in Hf; lia|]. split; [|reflexivity].
      cbn [app]. apply consume_name_esc_dash, Hk.
    + destruct (d =? 45) eqn:Ed.
      * apply N.eqb_eq in Ed; subst d. destruct r' as [|e r''].
        -- (* "--" *) injection Hs as <-. do 2 (destruct f; [cbn in Hf; lia|]). split; [|reflexivity].
           rewrite <- ?app_comm_cons. rewrite consume_name_raw by reflexivity.
           rewrite consume_name_esc_dash by exact Hk. reflexivity.
        -- injection Hs as <-. do 2 (destruct f; [cbn in Hf; lia|]). split; [|reflexivity].
           rewrite <- ?app_comm_cons. rewrite consume_name_raw by reflexivity. rewrite consume_name_raw by reflexivity.
           change (name_char e ++ serialize_name r'') with (serialize_name (e :: r'')).
           rewrite name_roundtrip; auto. cbn in Hf |- *. lia.
      * injection Hs as <-. do 2 (destruct f; [cbn in Hf; lia|]). split.
        -- rewrite <- ?app_comm_cons. rewrite consume_name_raw by reflexivity.
           rewrite <- app_assoc, ident_first_char_step, name_roundtrip; auto. cbn in Hf. lia.
        -- rewrite <- ?app_comm_cons. rewrite <- app_assoc. apply starts_ident_dash_first_char.
  - injection Hs as <-. destruct f; [cbn in Hf; lia|]. split.
    + rewrite <- app_assoc, ident_first_char_step, name_roundtrip; auto. cbn in Hf. lia.
    + rewrite <- app_assoc. apply starts_ident_first_char.
Qed.

Lemma serialize_identifier_ok v : v <> [] -> exists s, serialize_identifier v = Ok s.
Proof.
  intros H. unfold serialize_identifier. destruct v as [|c r]; [contradiction|].
  destruct (c =? 45); [|eauto]. destruct r as [|d r']; [eauto|].
  destruct (d =? 45); [|eauto]. destruct r'; eauto.
Qed.

(* ------------------------------------------------------------------ strings *)
Lemma consume_string_escape f q e body rest r1 :
  consume_escape (body ++ rest) = (e, r1) -> head_is 10 (body ++ rest) = false ->
  body <> [] -> q <> 92 -> q <> 10 ->
  consume_string (S f) q (92 :: body ++ rest) =
  let '(v, en, k) := consume_string f q r1 in (e :: v, en, k).
Proof.
  intros He Hn Hb Hq Hq'. cbn [consume_string].
  assert (E1 : 92 =? q = false) by lia. rewrite E1. change (92 =? 10) with false. change (92 =? 92) with true.
  cbn iota. destruct (body ++ rest) as [|d x] eqn:E.
  - destruct body; [contradiction|discriminate].
  - cbn in Hn. rewrite Hn. rewrite He. reflexivity.
Qed.

Lemma string_char_step c f rest :
  consume_string (S f) 34 (string_char c ++ rest) =
  let '(v, en, k) := consume_string f 34 rest in (c :: v, en, k).
Proof.
  unfold string_char.
  destruct (c =? 34) eqn:E1.
  { apply N.eqb_eq in E1; subst c. apply (consume_string_escape f 34 34 [34]); try reflexivity; discriminate. }
  destruct (c =? 92) eqn:E2.
  { apply N.eqb_eq in E2; subst c. apply (consume_string_escape f 34 92 [92]); try reflexivity; discriminate. }
  destruct (c =? 10) eqn:E3.
  { apply N.eqb_eq in E3; subst c. apply (consume_string_escape f 34 10 [65; 32]); try reflexivity; discriminate. }
  destruct (c =? 13) eqn:E4.
  { apply N.eqb_eq in E4; subst c. apply (consume_string_escape f 34 13 [68; 32]); try reflexivity; discriminate. }
  destruct (c =? 12) eqn:E5.
  { apply N.eqb_eq in E5; subst c. apply (consume_string_escape f 34 12 [67; 32]); try reflexivity; discriminate. }
  cbn [app consume_string]. rewrite E1, E3, E2. reflexivity.
Qed.

Theorem string_roundtrip v : forall k f,
  (length v < f)%nat ->
  consume_string f 34 (serialize_string_value v ++ 34 :: k) = (v, SClosed, k).
Proof.
  induction v as [|c v IH]; intros k f Hf.
  - destruct f; [lia|]. reflexivity.
  - destruct f; [lia|]. change (serialize_string_value (c :: v)) with (string_char c ++ serialize_string_value v).
    rewrite <- app_assoc, string_char_step, IH; auto. cbn in Hf. lia.
Qed.

(* ------------------------------------------------------------------ urls *)
Lemma consume_url_escape f e body rest r1 :
  consume_escape (body ++ rest) = (e, r1) -> head_is 10 (body ++ rest) = false ->
  consume_url (S f) (92 :: body ++ rest) =
  match consume_url f r1 with
  | UOk v k => UOk (e :: v) k
  | UEof v => UEof (e :: v)
  | UBad k => UBad k
  end.
Proof.
  intros He Hn. cbn [consume_url]. change (92 =? 41) with false. change (whitespace 92) with false.
  change ((92 =? 34) || (92 =? 39) || (92 =? 40) || non_printable 92) with false. change (92 =? 92) with true.
  cbn iota. unfold valid_escape. rewrite Hn. cbn. rewrite He. reflexivity.
Qed.

Lemma url_char_step c f rest : c <> 0 ->
  consume_url (S f) (url_char c ++ rest) =
  match consume_url f rest with
  | UOk v k => UOk (c :: v) k
  | UEof v => UEof (c :: v)
  | UBad k => UBad k
  end.
Proof.
  intros H0. unfold url_char.
  destruct (c =? 39) eqn:E1. { apply N.eqb_eq in E1; subst c. apply (consume_url_escape f 39 [39]); reflexivity. }
  destruct (c =? 34) eqn:E2. { apply N.eqb_eq in E2; subst c. apply (consume_url_escape f 34 [34]); reflexivity. }
  destruct (c =? 92) eqn:E3. { apply N.eqb_eq in E3; subst c. apply (consume_url_escape f 92 [92]); reflexivity. }
  destruct (c =? 32) eqn:E4. { apply N.eqb_eq in E4; subst c. apply (consume_url_escape f 32 [32]); reflexivity. }
  destruct (c =? 9) eqn:E5. { apply N.eqb_eq in E5; subst c. apply (consume_url_escape f 9 [57; 32]); reflexivity. }
  destruct (c =? 10) eqn:E6. { apply N.eqb_eq in E6; subst c. apply (consume_url_escape f 10 [65; 32]); reflexivity. }
  destruct (c =? 13) eqn:E7. { apply N.eqb_eq in E7; subst c. apply (consume_url_escape f 13 [68; 32]); reflexivity. }
  destruct (c =? 12) eqn:E8. { apply N.eqb_eq in E8; subst c. apply (consume_url_escape f 12 [67; 32]); reflexivity. }
  destruct (c =? 40) eqn:E9. { apply N.eqb_eq in E9; subst c. apply (consume_url_escape f 40 [40]); reflexivity. }
  destruct (c =? 41) eqn:E10. { apply N.eqb_eq in E10; subst c. apply (consume_url_escape f 41 [41]); reflexivity. }
  destruct ((c <? 32) || (c =? 127)) eqn:E11.
  { cbn [app]. rewrite <- app_assoc. cbn [app].
    replace (hex_upper c ++ 32 :: rest) with ((hex_upper c ++ [32]) ++ rest)
      by (rewrite <- app_assoc; reflexivity).
    apply (consume_url_escape f c (hex_upper c ++ [32]) rest rest).
    - rewrite <- app_assoc. cbn [app]. apply escape_hex_upper; lia.
    - (* the first hex digit is not a newline *)
      destruct (hex_upper_spec c ltac:(cbn; lia)) as (A & B & _).
      destruct (hex_upper c) as [|d h]; [cbn in B; lia|]. cbn in A |- *.
      apply andb_true_iff in A as [A _]. unf. lia. }
  cbn [app consume_url]. rewrite E10.
  assert (W : whitespace c = false) by (unf; lia). rewrite W.
  assert (Q : (c =? 34) || (c =? 39) || (c =? 40) || non_printable c = false) by (unf; lia). rewrite Q.
  rewrite E3. reflexivity.
Qed.


Theorem url_roundtrip v : forall k f,
  no_nul v = true -> (length v < f)%nat ->
  consume_url f (serialize_url v ++ 41 :: k) = UOk v k.
Proof.
  induction v as [|c v IH]; intros k f Hv Hf.
  - destruct f; [lia|]. reflexivity.
  - destruct f; [lia|]. cbn in Hv. apply andb_true_iff in Hv as [Hc Hv].
    change (serialize_url (c :: v)) with (url_char c ++ serialize_url v).
    apply negb_true_iff in Hc.
    rewrite <- app_assoc, url_char_step by lia.
    rewrite IH; auto. cbn in Hf. lia.
Qed.

(* ------------------------------------------------------------------ numbers *)

Lemma span_app p a : forall b,
  forallb p a = true -> head_sat p b = false -> span p (a ++ b) = (a, b).
Proof.
  induction a as [|c a IH]; intros b Ha Hb.
  - cbn [app]. destruct b as [|d b]; [reflexivity|]. cbn in Hb |- *. rewrite Hb. reflexivity.
  - cbn in Ha. apply andb_true_iff in Ha as [Hc Ha]. cbn [app span]. rewrite Hc, IH; auto.
Qed.

Lemma span_spec p s : forall a b,
  span p s = (a, b) -> s = a ++ b /\ forallb p a = true /\ head_sat p b = false.
Proof.
  induction s as [|c s IH]; intros a b H.
  - cbn in H. injection H as <- <-. auto.
  - cbn [span] in H. destruct (p c) eqn:Hc.
    + destruct (span p s) as [a' b'] eqn:E. injection H as <- <-.
      destruct (IH a' b' eq_refl) as (-> & Ha & Hb). cbn. rewrite Hc. auto.
    + injection H as <- <-. cbn. rewrite Hc. auto.
Qed.

Definition is_sg (sg : list N) : bool :=
  match sg with [] => true | [c] => is_sign c | _ => false end.

Lemma take_sign_app sg r :
  is_sg sg = true -> (sg = [] -> head_sat is_sign r = false) -> take_sign (sg ++ r) = (sg, r).
Proof.
  intros Hs Hr. destruct sg as [|c [|d sg]]; try discriminate.
  - cbn [app]. specialize (Hr eq_refl). destruct r as [|x r]; [reflexivity|]. cbn in Hr |- *. rewrite Hr. reflexivity.
  - cbn in Hs |- *. rewrite Hs. reflexivity.
Qed.

Lemma take_sign_spec s sg r :
  take_sign s = (sg, r) -> s = sg ++ r /\ is_sg sg = true /\ (sg = [] -> head_sat is_sign r = false).
Proof.
  destruct s as [|c s]; cbn.
  - intros H. injection H as <- <-. auto.
  - destruct (is_sign c) eqn:E; intros H; injection H as <- <-.
    + cbn. rewrite E. repeat split. discriminate.
    + cbn. rewrite E. auto.
Qed.

Definition digits (d : list N) : bool := forallb digit d.

(* the grammar of a number representation: sign? digits* (. digits+)? ([eE] sign? digits+)? *)
Definition frac_ok (frac : list N) : Prop :=
  frac = [] \/ exists d2, frac = 46 :: d2 /\ d2 <> [] /\ digits d2 = true.
Definition exp_ok (ex : list N) : Prop :=
  ex = [] \/ exists e es d3, ex = e :: es ++ d3 /\ is_e e = true /\ is_sg es = true /\
                             d3 <> [] /\ digits d3 = true.

Record num_parts (sg d1 frac ex : list N) : Prop := {
  np_sg : is_sg sg = true;
  np_d1 : digits d1 = true;
  np_frac : frac_ok frac;
  np_ex : exp_ok ex;
  np_ne : d1 ++ frac <> [] }.


Lemma digits_head d x : digits d = true -> d <> [] -> head_sat digit (d ++ x) = true.
Proof. destruct d as [|c d]; [contradiction|]. cbn. intros H _. apply andb_true_iff in H as [H _]. exact H. Qed.

Lemma digit_not_sign c : digit c = true -> is_sign c = false.
Proof. unf. lia. Qed.

Lemma consume_number_parts sg d1 frac ex k :
  num_parts sg d1 frac ex -> num_stop k = true ->
  consume_number (sg ++ d1 ++ frac ++ ex ++ k) = Some (sg ++ d1 ++ frac ++ ex, k).
Proof.
  intros [Hsg Hd1 Hfrac Hex Hne] Hk.
  unfold num_stop in Hk. apply andb_true_iff in Hk as [Hk Hk3]. apply andb_true_iff in Hk as [Hk1 Hk2].
  apply negb_true_iff in Hk1, Hk2, Hk3.
  (* head facts *)
  assert (Hexk_nodigit : head_sat digit (ex ++ k) = false).
  { destruct Hex as [->|(e & es & d3 & -> & He & _)]; [exact Hk1|]. cbn. unfold is_e in He. unf. lia. }
  assert (Hfrac_nodigit : head_sat digit (frac ++ ex ++ k) = false).
  { destruct Hfrac as [->|(d2 & -> & _)]; [exact Hexk_nodigit|reflexivity]. }
  unfold consume_number.
  (* sign *)
  rewrite take_sign_app; auto.
  2:{ intros _. destruct d1 as [|c d1].
      - cbn [app]. destruct Hfrac as [->|(d2 & -> & _)]; [cbn in Hne; contradiction|reflexivity].
      - cbn in Hd1 |- *. apply andb_true_iff in Hd1 as [Hc _]. apply digit_not_sign, Hc. }
  (* integer part *)
  rewrite span_app by assumption.
  (* fraction *)
  assert (Efrac : take_frac (frac ++ ex ++ k) = (frac, ex ++ k)).
  { unfold take_frac. destruct Hfrac as [->|(d2 & -> & Hne2 & Hd2)].
    - cbn [app]. destruct (head_is 46 (ex ++ k)) eqn:E46; [|reflexivity].
      destruct Hex as [->|(e & es & d3 & -> & He & _)].
      + cbn [app] in *. rewrite E46 in Hk2. cbn in Hk2.
        destruct (tl k) as [|c t] eqn:Et; [cbn; reflexivity|].
        cbn in Hk2. cbn [span]. rewrite Hk2. reflexivity.
      + cbn in E46. unfold is_e in He. lia.
    - cbn [app head_is tl]. change (46 =? 46) with true. cbn iota.
      rewrite span_app by assumption. destruct d2; [contradiction|reflexivity]. }
  rewrite Efrac.
  destruct (d1 ++ frac) as [|m0 m] eqn:Em; [contradiction|]. rewrite <- Em.
  (* exponent *)
  assert (Eex : take_exp (ex ++ k) = (ex, k)).
  { unfold take_exp. destruct Hex as [->|(e & es & d3 & -> & He & Hes & Hne3 & Hd3)].
    - cbn [app]. destruct k as [|e r]; [reflexivity|].
      destruct (is_e e) eqn:He; unfold is_e in He; rewrite He; [|reflexivity].
      cbn in Hk3.
      destruct (take_sign r) as [es r4] eqn:Ets. cbn in Hk3.
      destruct r4 as [|c r4]; [reflexivity|]. cbn in Hk3. cbn [span]. rewrite Hk3. reflexivity.
    - cbn [app]. unfold is_e in He. rewrite He. rewrite <- app_assoc.
      rewrite take_sign_app; auto.
      2:{ intros _.
          destruct d3 as [|c d3]; [contradiction|]. cbn in Hd3 |- *.
          apply andb_true_iff in Hd3 as [Hc _]. apply digit_not_sign, Hc. }
      rewrite span_app by assumption. destruct d3; [contradiction|reflexivity]. }
  rewrite Eex. rewrite <- !app_assoc. reflexivity.
Qed.

Lemma consume_number_inv s r k :
  consume_number s = Some (r, k) ->
  s = r ++ k /\ exists sg d1 frac ex, r = sg ++ d1 ++ frac ++ ex /\ num_parts sg d1 frac ex.
Proof.
  unfold consume_number.
  destruct (take_sign s) as [sg r0] eqn:E0.
  destruct (span digit r0) as [d1 r1] eqn:E1.
  destruct (take_frac r1) as [frac r2] eqn:E2.
  destruct (d1 ++ frac) as [|m0 m] eqn:Em; [discriminate|].
  destruct (take_exp r2) as [ex r3] eqn:E3.
  intros H. injection H as Hr Hk3. subst r3. subst r.
  destruct (take_sign_spec _ _ _ E0) as (-> & Hsg & _).
  destruct (span_spec _ _ _ _ E1) as (-> & Hd1 & _).
  assert (Hfrac : r1 = frac ++ r2 /\ frac_ok frac).
  { unfold take_frac in E2. destruct (head_is 46 r1) eqn:E46.
    - destruct r1 as [|c t]; [discriminate|]. cbn in E46. apply N.eqb_eq in E46; subst c. cbn [tl] in E2.
      destruct (span digit t) as [d2 r3'] eqn:E4. destruct (span_spec _ _ _ _ E4) as (-> & Hd2 & _).
      destruct d2 as [|c d2]; injection E2 as <- <-.
      + split; [reflexivity|left; reflexivity].
      + split; [reflexivity|]. right. exists (c :: d2). repeat split; auto. discriminate.
    - injection E2 as <- <-. split; [reflexivity|left; reflexivity]. }
  destruct Hfrac as [-> Hfrac].
  assert (Hex : r2 = ex ++ k /\ exp_ok ex).
  { unfold take_exp in E3. destruct r2 as [|e t].
    - injection E3 as <- <-. split; [reflexivity|left; reflexivity].
    - destruct ((e =? 101) || (e =? 69)) eqn:He.
      + destruct (take_sign t) as [es r4] eqn:E5. destruct (take_sign_spec _ _ _ E5) as (-> & Hes & _).
        destruct (span digit r4) as [d3 r5] eqn:E6. destruct (span_spec _ _ _ _ E6) as (-> & Hd3 & _).
        destruct d3 as [|c d3]; injection E3 as <- <-.
        * split; [reflexivity|left; reflexivity].
        * split; [cbn; rewrite <- app_assoc; reflexivity|]. right. exists e, es, (c :: d3).
          repeat split; auto. discriminate.
      + injection E3 as <- <-. split; [reflexivity|left; reflexivity]. }
  destruct Hex as [-> Hex].
  change (m0 :: m ++ ex) with ((m0 :: m) ++ ex). rewrite <- Em.
  split.
  - rewrite <- !app_assoc. reflexivity.
  - exists sg, d1, frac, ex. split; [rewrite <- !app_assoc; reflexivity|].
    constructor; auto. rewrite Em. discriminate.
Qed.


Theorem number_roundtrip repr k :
  number_repr repr = true -> num_stop k = true ->
  consume_number (repr ++ k) = Some (repr, k).
Proof.
  unfold number_repr. destruct (consume_number repr) as [[r k0]|] eqn:E; [|discriminate].
  destruct k0; [|discriminate]. intros _ Hk.
  destruct (consume_number_inv _ _ _ E) as (Hr & sg & d1 & frac & ex & -> & Hp).
  rewrite app_nil_r in Hr. subst repr.
  rewrite <- !app_assoc. apply consume_number_parts; auto.
Qed.

Lemma number_repr_head repr : number_repr repr = true ->
  exists c r, repr = c :: r /\ (digit c = true \/ c = 43 \/ c = 45 \/ c = 46).
Proof.
  unfold number_repr. destruct (consume_number repr) as [[r k0]|] eqn:E; [|discriminate].
  destruct k0; [|discriminate]. intros _.
  destruct (consume_number_inv _ _ _ E) as (Hr & sg & d1 & frac & ex & -> & [Hsg Hd1 Hfrac Hex Hne]).
  rewrite app_nil_r in Hr. subst repr.
  destruct sg as [|c [|? ?]]; try discriminate.
  - destruct d1 as [|c d1].
    + destruct Hfrac as [->|(d2 & -> & _)]; [cbn in Hne; contradiction|]. cbn. eauto 10.
    + cbn in Hd1. apply andb_true_iff in Hd1 as [Hc _]. cbn. eauto 10.
  - cbn in Hsg. cbn. exists c. eexists. split; [reflexivity|]. unf. lia.
Qed.

(* ------------------------------------------------------------------ unicode ranges *)
Lemma hex_fuel_irrel f : forall n acc, (1 <= f)%nat -> n < 16 ^ N.of_nat f ->
  hex_upper_fuel (S f) n acc = hex_upper_fuel f n acc.
Proof.
  induction f as [|f IH]; intros n acc Hf Hn; [lia|].
  cbn [hex_upper_fuel]. destruct (n / 16 =? 0) eqn:E; [reflexivity|].
  destruct f as [|f'].
  - exfalso. cbn in Hn. assert (n / 16 = 0) by (apply N.div_small; lia). lia.
  - change (hex_upper_fuel (S (S f')) (n / 16) (hex_digit (n mod 16) :: acc))
      with (hex_upper_fuel (S (S f')) (n / 16) (hex_digit (n mod 16) :: acc)).
    rewrite <- (IH (n / 16) (hex_digit (n mod 16) :: acc)); [reflexivity|lia|].
    apply N.div_lt_upper_bound; [lia|]. rewrite Nat2N.inj_succ, N.pow_succ_r' in Hn. lia.
Qed.

Lemma hex_upper_6 n : n < 16 ^ 6 ->
  forallb hexdig (hex_upper n) = true /\ (1 <= length (hex_upper n) <= 6)%nat /\
  hex_str_val (hex_upper n) = n.
Proof.
  intros H. unfold hex_upper.
  rewrite (hex_fuel_irrel 7) by (cbn in *; lia).
  rewrite (hex_fuel_irrel 6) by (cbn in *; lia).
  destruct (hex_upper_fuel_spec 6 n [] H ltac:(lia)) as (h & E & A & B & C).
  rewrite E, app_nil_r. auto.
Qed.

Lemma span_n_app p a : forall n b,
  forallb p a = true -> (length a <= n)%nat -> (length a = n \/ head_sat p b = false) ->
  span_n p n (a ++ b) = (a, b).
Proof.
  induction a as [|c a IH]; intros n b Ha Hl Hb.
  - cbn [app]. destruct n; [reflexivity|]. destruct b as [|d b]; [reflexivity|].
    destruct Hb as [Hb|Hb]; [cbn in Hb; lia|]. cbn in Hb |- *. rewrite Hb. reflexivity.
  - cbn in Ha. apply andb_true_iff in Ha as [Hc Ha]. destruct n; [cbn in Hl; lia|].
    cbn [app span_n]. rewrite Hc, IH; auto.
    + cbn in Hl. lia.
    + destruct Hb as [Hb|Hb]; [left; cbn in Hb; lia|right; exact Hb].
Qed.


Lemma consume_urange_single h k :
  forallb hexdig h = true -> (1 <= length h <= 6)%nat -> ur_stop k = true ->
  consume_urange (h ++ k) = (hex_str_val h, hex_str_val h, k).
Proof.
  intros Hh Hl Hk. unfold ur_stop in Hk.
  apply andb_true_iff in Hk as [Hk Hk3]. apply andb_true_iff in Hk as [Hk1 Hk2].
  apply negb_true_iff in Hk1, Hk2, Hk3.
  unfold consume_urange. rewrite span_n_app; auto; [|lia].
  assert (Eq : span_n (fun c => c =? 63) (6 - length h) k = ([], k)).
  { destruct (6 - length h)%nat; [reflexivity|]. destruct k as [|c k]; [reflexivity|].
    cbn in Hk2 |- *. rewrite Hk2. reflexivity. }
  rewrite Eq. destruct k as [|m [|c r]]; try reflexivity.
  cbn in Hk3. cbn in Hk3. destruct (m =? 45); cbn in Hk3 |- *; [rewrite Hk3|]; reflexivity.
Qed.

Lemma consume_urange_pair h h2 k :
  forallb hexdig h = true -> (1 <= length h <= 6)%nat ->
  forallb hexdig h2 = true -> (1 <= length h2 <= 6)%nat -> head_sat hexdig k = false ->
  consume_urange (h ++ 45 :: h2 ++ k) = (hex_str_val h, hex_str_val h2, k).
Proof.
  intros Hh Hl Hh2 Hl2 Hk.
  unfold consume_urange. rewrite span_n_app; auto; [|lia].
  assert (Eq : span_n (fun c => c =? 63) (6 - length h) (45 :: h2 ++ k) = ([], 45 :: h2 ++ k)).
  { destruct (6 - length h)%nat; reflexivity. }
  rewrite Eq. destruct h2 as [|c h2]; [cbn in Hl2; lia|].
  cbn [app]. cbn in Hh2. apply andb_true_iff in Hh2 as [Hc Hh2'].
  change (45 =? 45) with true. rewrite Hc. cbn [andb].
  change (c :: h2 ++ k) with ((c :: h2) ++ k).
  rewrite span_n_app; auto.
  - cbn. rewrite Hc, Hh2'. reflexivity.
  - lia.
Qed.

(* ------------------------------------------------------------------ lengths (fuel bounds) *)
Lemma flat_map_length_ge {A} (f : A -> list N) v :
  (forall c, 1 <= length (f c))%nat -> (length v <= length (flat_map f v))%nat.
Proof.
  intros H. induction v as [|c v IH]; cbn; [lia|]. rewrite app_length. specialize (H c). lia.
Qed.

Lemma name_char_length c : (1 <= length (name_char c))%nat.
Proof.
  unfold name_char. repeat match goal with |- context [if ?b then _ else _] => destruct b end.
  all: try (cbn [length]; lia). all: try (vm_compute; lia).
Qed.

Lemma serialize_name_length v : (length v <= length (serialize_name v))%nat.
Proof. apply flat_map_length_ge, name_char_length. Qed.

Lemma ident_first_char_length c : (1 <= length (ident_first_char c))%nat.
Proof.
  unfold ident_first_char. repeat match goal with |- context [if ?b then _ else _] => destruct b end.
  all: try (cbn [length]; lia). all: try (vm_compute; lia).
Qed.

Lemma serialize_identifier_length v s : serialize_identifier v = Ok s -> (length v <= length s)%nat.
Proof.
  unfold serialize_identifier. destruct v as [|c r]; [discriminate|].
  destruct (c =? 45).
  - destruct r as [|d r']; [intros H; injection H as <-; cbn; lia|].
    destruct (d =? 45).
    + destruct r' as [|e r'']; intros H; injection H as <-; [cbn; lia|].
      pose proof (serialize_name_length (e :: r'')). unfold serialize_name in *. cbn [length flat_map] in *. lia.
    + intros H; injection H as <-. cbn [length]. rewrite app_length.
      pose proof (serialize_name_length r'). pose proof (ident_first_char_length d). lia.
  - intros H; injection H as <-. rewrite app_length. cbn [length].
    pose proof (serialize_name_length r). pose proof (ident_first_char_length c). lia.
Qed.

Lemma string_char_length c : (1 <= length (string_char c))%nat.
Proof.
  unfold string_char. repeat match goal with |- context [if ?b then _ else _] => destruct b end.
  all: try (cbn [length]; lia). all: try (vm_compute; lia).
Qed.
Lemma serialize_string_length v : (length v <= length (serialize_string_value v))%nat.
Proof. apply flat_map_length_ge, string_char_length. Qed.

Lemma url_char_length c : (1 <= length (url_char c))%nat.
Proof.
  unfold url_char. repeat match goal with |- context [if ?b then _ else _] => destruct b end.
  all: try (cbn [length]; lia). all: try (vm_compute; lia).
Qed.
Lemma serialize_url_length v : (length v <= length (serialize_url v))%nat.
Proof. apply flat_map_length_ge, url_char_length. Qed.
