(* Css/RoundTripTok.v -- property C20, token level: for every well-formed
   token t that is not a block, one step of the specification tokenizer on
   (serialization of t ++ k) yields exactly t and leaves k, provided k may
   follow t (`follow_ok`, Css/SerWf.v). *)
From Verif Require Import Css.Ser Css.RetokSpec Css.SerWf Css.SerProofs.
From Coq Require Import String.
From Coq Require Import List NArith Bool Lia ZifyBool ZifyN ZifyNat.
Import ListNotations.
Open Scope N_scope.

(* ------------------------------------------------------------------ walking the if-chain of lex_step *)
Lemma lex_step_ident skip c r :
  whitespace c = false -> starts_urange (c :: r) = false -> has_prefix [45; 45; 62] (c :: r) = false ->
  starts_ident (c :: r) = true -> lex_step skip (c :: r) = lex_ident_like (c :: r).
Proof. intros H1 H2 H3 H4. unfold lex_step. rewrite H1, H2, H3, H4. reflexivity. Qed.

Lemma lex_step_num skip c r repr k :
  whitespace c = false -> starts_urange (c :: r) = false -> has_prefix [45; 45; 62] (c :: r) = false ->
  starts_ident (c :: r) = false -> consume_number (c :: r) = Some (repr, k) ->
  lex_step skip (c :: r) = lex_numeric repr k.
Proof. intros H1 H2 H3 H4 H5. unfold lex_step. rewrite H1, H2, H3, H4, H5. reflexivity. Qed.

Lemma lex_step_punct skip c r :
  whitespace c = false -> starts_urange (c :: r) = false -> has_prefix [45; 45; 62] (c :: r) = false ->
  starts_ident (c :: r) = false -> consume_number (c :: r) = None ->
  lex_step skip (c :: r) = lex_punct skip c r.
Proof. intros H1 H2 H3 H4 H5. unfold lex_step. rewrite H1, H2, H3, H4, H5. reflexivity. Qed.

Lemma consume_number_none c x :
  is_sign c = false -> digit c = false -> c <> 46 -> consume_number (c :: x) = None.
Proof.
  intros H1 H2 H3. unfold consume_number. cbn [take_sign]. rewrite H1. cbn [span]. rewrite H2.
  unfold take_frac. cbn [head_is]. assert (E : c =? 46 = false) by lia. rewrite E. reflexivity.
Qed.

(* a code point that starts none of the multi-character constructs *)
Lemma punct_chain skip c r :
  whitespace c = false -> name_start c = false -> digit c = false ->
  c <> 45 -> c <> 43 -> c <> 46 -> c <> 92 ->
  lex_step skip (c :: r) = lex_punct skip c r.
Proof.
  intros Hw Hn Hd H45 H43 H46 H92. apply lex_step_punct; auto.
  - unfold starts_urange. destruct r as [|p [|d r]]; try reflexivity. unf. lia.
  - cbn [has_prefix]. assert (E : 45 =? c = false) by lia. rewrite E. reflexivity.
  - unfold starts_ident. assert (E1 : c =? 45 = false) by lia. assert (E2 : c =? 92 = false) by lia.
    rewrite E1, E2. exact Hn.
  - apply consume_number_none; auto. unf. lia.
Qed.

(* ------------------------------------------------------------------ heads of serialized names and identifiers *)
Lemma name_char_head e :
  exists d x, name_char e = d :: x /\ ((d = e /\ name_cp e = true) \/ d = 92).
Proof.
  unfold name_char.
  destruct (is_letter_us e || (e =? 45)) eqn:E1. { exists e, []. split; [reflexivity|left]. split; [reflexivity|unf; lia]. }
  destruct (e =? 10). { eexists _, _. split; [reflexivity|right; reflexivity]. }
  destruct (e =? 13). { eexists _, _. split; [reflexivity|right; reflexivity]. }
  destruct (e =? 12). { eexists _, _. split; [reflexivity|right; reflexivity]. }
  destruct (is_digit e) eqn:E5. { exists e, []. split; [reflexivity|left]. split; [reflexivity|unf; lia]. }
  destruct (127 <? e) eqn:E6. { exists e, []. split; [reflexivity|left]. split; [reflexivity|unf; lia]. }
  eexists _, _. split; [reflexivity|right; reflexivity].
Qed.

(* the head of (serialize_name r ++ k) is a name code point, a backslash, or the head of k *)
Lemma serialize_name_head r k :
  match r with
  | [] => serialize_name r ++ k = k
  | e :: _ => exists d x, serialize_name r ++ k = d :: x /\ (name_cp d = true \/ d = 92)
  end.
Proof.
  destruct r as [|e r]; [reflexivity|].
  destruct (name_char_head e) as (d & x & E & H).
  exists d, (x ++ serialize_name r ++ k). split.
  - rewrite serialize_name_cons, E, <- app_assoc. reflexivity.
  - destruct H as [[-> H]|H]; auto.
Qed.

Lemma ident_first_char_shape c :
  exists d x, ident_first_char c = d :: x /\
    ((d = c /\ x = [] /\ name_start c = true) \/ d = 92).
Proof.
  unfold ident_first_char.
  destruct (is_letter_us c) eqn:E1. { exists c, []. split; [reflexivity|left]. repeat split. unf. lia. }
  destruct (c =? 10). { eexists _, _. split; [reflexivity|right; reflexivity]. }
  destruct (c =? 13). { eexists _, _. split; [reflexivity|right; reflexivity]. }
  destruct (c =? 12). { eexists _, _. split; [reflexivity|right; reflexivity]. }
  destruct (is_digit c). { eexists _, _. split; [reflexivity|right; reflexivity]. }
  destruct (127 <? c) eqn:E6. { exists c, []. split; [reflexivity|left]. repeat split. unf. lia. }
  eexists _, _. split; [reflexivity|right; reflexivity].
Qed.

Lemma starts_urange_head c r : c <> 85 -> c <> 117 -> starts_urange (c :: r) = false.
Proof. intros. unfold starts_urange. destruct r as [|p [|d r]]; try reflexivity. lia. Qed.

Lemma starts_urange_second c p r : p <> 43 -> starts_urange (c :: p :: r) = false.
Proof. intros. unfold starts_urange. destruct r as [|d r]; try reflexivity. lia. Qed.

Lemma ident_no_urange v s k :
  serialize_identifier v = Ok s -> negb (is_u v && starts_urange (85 :: k)) = true ->
  starts_urange (s ++ k) = false.
Proof.
  intros Hs Hu. unfold serialize_identifier in Hs. destruct v as [|c r]; [discriminate|].
  destruct (c =? 45) eqn:Ec.
  - destruct r as [|d r']; [injection Hs as <-; cbn [app]; apply starts_urange_head; lia|].
    destruct (d =? 45); [destruct r'|]; injection Hs as <-; cbn [app]; apply starts_urange_head; lia.
  - injection Hs as <-. destruct (ident_first_char_shape c) as (d & x & E & H). rewrite E.
    destruct H as [(-> & -> & Hn) | -> ]; [|apply starts_urange_head; lia].
    cbn [app].
    pose proof (serialize_name_head r k) as Hh. destruct r as [|e r'].
    + rewrite Hh. cbn [is_u] in Hu.
      destruct ((c =? 117) || (c =? 85)) eqn:Ecu.
      * cbn [andb] in Hu. apply negb_true_iff in Hu.
        unfold starts_urange in *. destruct k as [|p [|d k]]; try reflexivity.
        rewrite Ecu' in * || idtac.
        assert (Ecu2 : (c =? 85) || (c =? 117) = true) by lia. rewrite Ecu2.
        cbn in Hu. exact Hu.
      * apply starts_urange_head; lia.
    + destruct Hh as (d & x & -> & Hd). apply starts_urange_second.
      destruct Hd as [Hd| ->]; [|lia]. intros ->. discriminate.
Qed.

Lemma has_cdc_false c r : c <> 45 -> has_prefix [45; 45; 62] (c :: r) = false.
Proof. intros. cbn [has_prefix]. assert (E : 45 =? c = false) by lia. rewrite E. reflexivity. Qed.

Lemma ident_no_cdc v s k :
  serialize_identifier v = Ok s -> has_prefix [45; 45; 62] (s ++ k) = false.
Proof.
  intros Hs. unfold serialize_identifier in Hs. destruct v as [|c r]; [discriminate|].
  destruct (c =? 45) eqn:Ec.
  - destruct r as [|d r']; [injection Hs as <-; reflexivity|].
    destruct (d =? 45) eqn:Ed.
    + destruct r' as [|e r'']; injection Hs as <-; [reflexivity|].
      change (name_char e ++ serialize_name r'') with (serialize_name (e :: r'')).
      rewrite <- !app_comm_cons. pose proof (serialize_name_head (e :: r'') k) as (d' & x & E & Hd).
      rewrite E. cbn [has_prefix]. change (45 =? 45) with true. cbn [andb]. destruct Hd as [Hd| ->]; [|reflexivity].
      destruct (62 =? d') eqn:E62; [|reflexivity]. apply N.eqb_eq in E62. subst d'. discriminate.
    + injection Hs as <-. cbn [app]. destruct (ident_first_char_shape d) as (d' & x & E & H). rewrite E.
      cbn [app has_prefix]. change (45 =? 45) with true. cbn [andb].
      destruct H as [(-> & -> & Hn) | -> ]; [|reflexivity].
      assert (E45 : 45 =? d = false) by lia. rewrite E45. reflexivity.
  - injection Hs as <-. destruct (ident_first_char_shape c) as (d' & x & E & H). rewrite E.
    cbn [app]. apply has_cdc_false. destruct H as [(-> & _ & _) | -> ]; lia.
Qed.

Lemma starts_ident_not_ws c r : starts_ident (c :: r) = true -> whitespace c = false.
Proof.
  unfold starts_ident. destruct (c =? 45) eqn:E1; [intros _; unf; lia|].
  destruct (c =? 92) eqn:E2; [intros _; unf; lia|]. intros H. unf. lia.
Qed.

(* ------------------------------------------------------------------ identifier-like tokens *)
Lemma lex_ident_like_name v s k :
  serialize_identifier v = Ok s -> name_stop k = true ->
  consume_name (length (s ++ k)) (s ++ k) = (v, k).
Proof.
  intros Hs Hk. apply (ident_roundtrip v s k); auto.
  rewrite app_length. pose proof (serialize_identifier_length v s Hs). lia.
Qed.

Theorem lex_ident skip p v s k :
  serialize_identifier v = Ok s -> follow_ok (TIdent p v) k = true ->
  lex_step skip (s ++ k) = ([FTok (TIdent p0 v)], k).
Proof.
  intros Hs Hf. cbn [follow_ok] in Hf.
  apply andb_true_iff in Hf as [Hf Hu]. apply andb_true_iff in Hf as [Hk H40].
  destruct (ident_roundtrip v s k (length (s ++ k)) Hs Hk) as [Hn Hi].
  { rewrite app_length. pose proof (serialize_identifier_length v s Hs). lia. }
  pose proof (ident_no_urange v s k Hs Hu) as Hur.
  pose proof (ident_no_cdc v s k Hs) as Hcdc.
  destruct (s ++ k) as [|c r] eqn:E; [discriminate|].
  rewrite lex_step_ident; auto; [|apply (starts_ident_not_ws c r Hi)].
  unfold lex_ident_like. rewrite Hn. apply negb_true_iff in H40. rewrite H40. reflexivity.
Qed.

Theorem lex_function_open skip v s x :
  serialize_identifier v = Ok s ->
  (is_url_name v = true -> head_is 34 (skip_ws x) = true) ->
  lex_step skip (s ++ 40 :: x) = ([FFun v], x).
Proof.
  intros Hs Hurl.
  assert (Hk : name_stop (40 :: x) = true) by reflexivity.
  destruct (ident_roundtrip v s (40 :: x) (length (s ++ 40 :: x)) Hs Hk) as [Hn Hi].
  { rewrite app_length. pose proof (serialize_identifier_length v s Hs). lia. }
  assert (Hu : negb (is_u v && starts_urange (85 :: 40 :: x)) = true).
  { rewrite starts_urange_second by lia. rewrite andb_false_r. reflexivity. }
  pose proof (ident_no_urange v s _ Hs Hu) as Hur.
  pose proof (ident_no_cdc v s (40 :: x) Hs) as Hcdc.
  destruct (s ++ 40 :: x) as [|c r] eqn:E; [discriminate|].
  rewrite lex_step_ident; auto; [|apply (starts_ident_not_ws c r Hi)].
  unfold lex_ident_like. rewrite Hn. cbn [head_is tl]. change (40 =? 40) with true. cbn iota.
  destruct (is_url_name v); [|reflexivity]. rewrite (Hurl eq_refl). reflexivity.
Qed.

Theorem lex_at_keyword skip p v s k :
  serialize_identifier v = Ok s -> follow_ok (TAtKeyword p v) k = true ->
  lex_step skip (64 :: s ++ k) = ([FTok (TAtKeyword p0 v)], k).
Proof.
  intros Hs Hk. cbn [follow_ok] in Hk.
  destruct (ident_roundtrip v s k (length (s ++ k)) Hs Hk) as [Hn Hi].
  { rewrite app_length. pose proof (serialize_identifier_length v s Hs). lia. }
  rewrite punct_chain by (try reflexivity; lia).
  unfold lex_punct. change (64 =? 64) with true. cbn iota. rewrite Hi, Hn. reflexivity.
Qed.

Lemma starts_ident_head_name s : starts_ident s = true -> head_sat_name s || valid_escape s = true.
Proof.
  unfold starts_ident. destruct s as [|c r]; [discriminate|].
  destruct (c =? 45) eqn:E1. { intros _. cbn. apply N.eqb_eq in E1. subst c. reflexivity. }
  destruct (c =? 92) eqn:E2. { intros H. rewrite H. apply orb_true_r. }
  intros H. cbn. assert (E : name_cp c = true) by (unf; lia). rewrite E. reflexivity.
Qed.

Theorem lex_hash_id skip p v s k :
  serialize_identifier v = Ok s -> follow_ok (THash p v true) k = true ->
  lex_step skip (35 :: s ++ k) = ([FTok (THash p0 v true)], k).
Proof.
  intros Hs Hk. cbn [follow_ok] in Hk.
  destruct (ident_roundtrip v s k (length (s ++ k)) Hs Hk) as [Hn Hi].
  { rewrite app_length. pose proof (serialize_identifier_length v s Hs). lia. }
  rewrite punct_chain by (try reflexivity; lia).
  unfold lex_punct. change (35 =? 64) with false. change (35 =? 35) with true. cbn iota.
  rewrite (starts_ident_head_name _ Hi), Hn, Hi. reflexivity.
Qed.

Theorem lex_hash_nonid skip p v k :
  name_val v = true -> hash_nonid v = true -> follow_ok (THash p v false) k = true ->
  lex_step skip (35 :: serialize_name v ++ k) = ([FTok (THash p0 v false)], k).
Proof.
  intros Hv Hh Hk. cbn [follow_ok] in Hk.
  rewrite punct_chain by (try reflexivity; lia).
  unfold lex_punct. change (35 =? 64) with false. change (35 =? 35) with true. cbn iota.
  assert (Hn : consume_name (length (serialize_name v ++ k)) (serialize_name v ++ k) = (v, k)).
  { apply name_roundtrip; auto. rewrite app_length. pose proof (serialize_name_length v). lia. }
  rewrite Hn.
  (* shape of the text: a digit, or '-' followed by a digit or by k *)
  destruct v as [|c r]; [discriminate|]. cbn [hash_nonid] in Hh.
  rewrite serialize_name_cons.
  destruct (digit c) eqn:Ed.
  - assert (E : name_char c = [c]).
    { unfold name_char. assert (E1 : is_letter_us c || (c =? 45) = false) by (unf; lia). rewrite E1.
      assert (E2 : c =? 10 = false) by (unf; lia). assert (E3 : c =? 13 = false) by (unf; lia).
      assert (E4 : c =? 12 = false) by (unf; lia). rewrite E2, E3, E4.
      assert (E5 : is_digit c = true) by (unf; lia). rewrite E5. reflexivity. }
    rewrite E. cbn [app head_sat_name]. assert (E6 : name_cp c = true) by (unf; lia). rewrite E6. cbn [orb].
    assert (E7 : starts_ident (c :: serialize_name r ++ k) = false).
    { unfold starts_ident. assert (c =? 45 = false) by (unf; lia). assert (c =? 92 = false) by (unf; lia).
      rewrite H, H0. unf. lia. }
    rewrite E7. reflexivity.
  - cbn [orb] in Hh. apply andb_true_iff in Hh as [E45 Hr]. apply N.eqb_eq in E45. subst c.
    change (name_char 45) with [45]. cbn [app head_sat_name]. change (name_cp 45) with true. cbn [orb].
    assert (E7 : starts_ident (45 :: serialize_name r ++ k) = false).
    { unfold starts_ident. change (45 =? 45) with true. cbn iota.
      destruct r as [|d r'].
      - cbn [serialize_name flat_map app]. unfold name_stop in Hk. apply andb_true_iff in Hk as [K1 K2].
        apply negb_true_iff in K1, K2. destruct k as [|d k]; [reflexivity|]. cbn [head_sat] in K1.
        rewrite K2. unf. lia.
      - rewrite serialize_name_cons.
        assert (E : name_char d = [d]).
        { unfold name_char. assert (E1 : is_letter_us d || (d =? 45) = false) by (unf; lia). rewrite E1.
          assert (E2 : d =? 10 = false) by (unf; lia). assert (E3 : d =? 13 = false) by (unf; lia).
          assert (E4 : d =? 12 = false) by (unf; lia). rewrite E2, E3, E4.
          assert (E5 : is_digit d = true) by (unf; lia). rewrite E5. reflexivity. }
        rewrite E. cbn [app]. unfold valid_escape. unf. lia. }
    rewrite E7. reflexivity.
Qed.

(* ------------------------------------------------------------------ numeric tokens *)
Lemma number_repr_parts repr : number_repr repr = true ->
  exists sg d1 frac ex, repr = sg ++ d1 ++ frac ++ ex /\ num_parts sg d1 frac ex.
Proof.
  unfold number_repr. destruct (consume_number repr) as [[r k0]|] eqn:E; [|discriminate].
  destruct k0; [|discriminate]. intros _.
  destruct (consume_number_inv _ _ _ E) as (Hr & sg & d1 & frac & ex & -> & Hp).
  rewrite app_nil_r in Hr. subst repr. exists sg, d1, frac, ex. split; [reflexivity|exact Hp].
Qed.

(* first code points of a number representation *)
Lemma number_repr_head2 repr : number_repr repr = true ->
  exists c r, repr = c :: r /\
    (digit c = true \/ c = 46 \/
     ((c = 43 \/ c = 45) /\ exists d r', r = d :: r' /\ (digit d = true \/ d = 46))).
Proof.
  intros H. destruct (number_repr_parts repr H) as (sg & d1 & frac & ex & -> & [Hsg Hd1 Hfrac Hex Hne]).
  assert (Hrest : exists d r', d1 ++ frac ++ ex = d :: r' /\ (digit d = true \/ d = 46)).
  { destruct d1 as [|d d1].
    - destruct Hfrac as [->|(d2 & -> & _)]; [cbn in Hne; contradiction|]. cbn. eauto.
    - cbn in Hd1. apply andb_true_iff in Hd1 as [Hd _]. cbn. eauto. }
  destruct Hrest as (d & r' & E & Hd). rewrite E.
  destruct sg as [|c [|? ?]]; try discriminate.
  - exists d, r'. split; [reflexivity|]. destruct Hd; auto.
  - cbn in Hsg. exists c, (d :: r'). split; [reflexivity|]. right. right.
    split; [unf; lia|]. eauto.
Qed.

Lemma number_chain repr k : number_repr repr = true ->
  exists c r, repr ++ k = c :: r /\ whitespace c = false /\ starts_urange (c :: r) = false /\
              has_prefix [45; 45; 62] (c :: r) = false /\ starts_ident (c :: r) = false.
Proof.
  intros H. destruct (number_repr_head2 repr H) as (c & r & -> & Hc).
  exists c, (r ++ k). split; [reflexivity|].
  destruct Hc as [Hc|[->|[Hc (d & r' & -> & Hd)]]].
  - repeat split.
    + unf; lia.
    + apply starts_urange_head; unf; lia.
    + apply has_cdc_false. unf; lia.
    + unfold starts_ident. assert (c =? 45 = false) by (unf; lia). assert (c =? 92 = false) by (unf; lia).
      rewrite H0, H1. unf. lia.
  - repeat split; try reflexivity. apply starts_urange_head; lia.
  - repeat split.
    + unf; lia.
    + apply starts_urange_head; lia.
    + cbn [app has_prefix]. destruct Hc as [-> | ->]; [reflexivity|].
      change (45 =? 45) with true. cbn [andb]. assert (45 =? d = false) by (unf; lia). rewrite H0. reflexivity.
    + unfold starts_ident. destruct Hc as [-> | ->]; [reflexivity|].
      change (45 =? 45) with true. cbn iota. cbn [app]. unfold valid_escape.
      assert (E : name_start d || (d =? 45) || (d =? 92) && negb (head_is 10 (r' ++ k)) = false) by (unf; lia).
      exact E.
Qed.

Theorem lex_number skip p repr i k :
  number_repr repr = true -> follow_ok (TNumber p repr i) k = true ->
  lex_step skip (repr ++ k) = ([FTok (TNumber p0 repr (repr_is_int repr))], k).
Proof.
  intros Hr Hf. cbn [follow_ok] in Hf.
  apply andb_true_iff in Hf as [Hf H37]. apply andb_true_iff in Hf as [Hns Hid].
  apply negb_true_iff in H37, Hid.
  destruct (number_chain repr k Hr) as (c & r & E & H1 & H2 & H3 & H4).
  rewrite E. rewrite (lex_step_num skip c r repr k); auto.
  - unfold lex_numeric. rewrite Hid, H37. reflexivity.
  - rewrite <- E. apply number_roundtrip; auto.
Qed.

Theorem lex_percentage skip repr k :
  number_repr repr = true ->
  lex_step skip (repr ++ 37 :: k) = ([FTok (TPercentage p0 repr (repr_is_int repr))], k).
Proof.
  intros Hr.
  destruct (number_chain repr (37 :: k) Hr) as (c & r & E & H1 & H2 & H3 & H4).
  rewrite E. rewrite (lex_step_num skip c r repr (37 :: k)); auto.
  rewrite <- E. apply number_roundtrip; auto.
Qed.

(* the unit part written by Dimension.serializeTo *)
Definition ser_unit (u : str) : res str :=
  match u with
  | c :: r =>
      if ((c =? 101) || (c =? 69))
         && (match r with [] => true | d :: _ => (d =? 45) || is_digit d end) then
        Ok ((if c =? 101 then [92; 54; 53; 32] else [92; 52; 53; 32]) ++ serialize_name r)
      else serialize_identifier u
  | [] => serialize_identifier u
  end.

Lemma ser_dimension p repr i u :
  ser_token (TDimension p repr i u) = let* us := ser_unit u in Ok (repr ++ us).
Proof.
  cbn [ser_token]. unfold ser_unit. destruct u as [|c r]; [reflexivity|].
  destruct (((c =? 101) || (c =? 69)) && match r with [] => true | d :: _ => (d =? 45) || is_digit d end);
    reflexivity.
Qed.

Lemma num_stop_head c x : digit c = false -> c <> 46 -> is_e c = false -> num_stop (c :: x) = true.
Proof.
  intros H1 H2 H3. unfold num_stop. cbn [head_sat head_is tl]. rewrite H1, H3.
  assert (E : c =? 46 = false) by lia. rewrite E. reflexivity.
Qed.

Lemma ser_unit_roundtrip u us k :
  name_val u = true -> ser_unit u = Ok us -> name_stop k = true ->
  num_stop (us ++ k) = true /\ starts_ident (us ++ k) = true /\
  consume_name (length (us ++ k)) (us ++ k) = (u, k).
Proof.
  intros Hu Hs Hk. unfold ser_unit in Hs. destruct u as [|c r]; [discriminate|].
  destruct (((c =? 101) || (c =? 69)) && match r with [] => true | d :: _ => (d =? 45) || is_digit d end) eqn:Ee.
  - (* escaped e / E *)
    apply andb_true_iff in Ee as [Ec _]. injection Hs as <-.
    assert (Hn : forall f, (length r <= f)%nat ->
                 consume_name (S f) (((if c =? 101 then [92; 54; 53; 32] else [92; 52; 53; 32]) ++ serialize_name r) ++ k) = (c :: r, k)).
    { intros f Hf. rewrite <- app_assoc.
      destruct (c =? 101) eqn:E101.
      - apply N.eqb_eq in E101. subst c.
        change ([92; 54; 53; 32] ++ serialize_name r ++ k) with (92 :: [54; 53; 32] ++ serialize_name r ++ k).
        rewrite (consume_name_escape f 101 [54; 53; 32] _ (serialize_name r ++ k)); [|reflexivity|reflexivity].
        rewrite name_roundtrip; auto.
      - assert (c = 69) by lia. subst c.
        change ([92; 52; 53; 32] ++ serialize_name r ++ k) with (92 :: [52; 53; 32] ++ serialize_name r ++ k).
        rewrite (consume_name_escape f 69 [52; 53; 32] _ (serialize_name r ++ k)); [|reflexivity|reflexivity].
        rewrite name_roundtrip; auto. }
    split; [|split].
    + destruct (c =? 101); reflexivity.
    + destruct (c =? 101); reflexivity.
    + pose proof (serialize_name_length r) as L.
      specialize (Hn (3 + length (serialize_name r) + length k)%nat ltac:(lia)).
      destruct (c =? 101) eqn:E101; rewrite app_length, app_length; cbn [length plus];
        cbn [plus] in Hn; exact Hn.
  - (* plain identifier *)
    assert (Hl : (length (c :: r) <= length (us ++ k))%nat).
    { rewrite app_length. pose proof (serialize_identifier_length _ _ Hs). lia. }
    destruct (ident_roundtrip _ _ k _ Hs Hk Hl) as [Hn Hi]. split; [|split]; auto.
    (* num_stop: the text starts with '-', a backslash or a name-start code point *)
    unfold serialize_identifier in Hs.
    destruct (c =? 45) eqn:E45.
    { destruct r as [|d r']; [injection Hs as <-; reflexivity|].
      destruct (d =? 45); [destruct r'|]; injection Hs as <-; reflexivity. }
    injection Hs as <-. destruct (ident_first_char_shape c) as (d & x & E & H). rewrite E.
    destruct H as [(-> & -> & Hns) | -> ]; [|reflexivity].
    cbn [app]. destruct (is_e c) eqn:Eec.
    + (* raw e/E: the next code point is neither a sign nor a digit *)
      unfold is_e in Eec. rewrite Eec in Ee. cbn [andb] in Ee.
      destruct r as [|d' r']; [discriminate|].
      unfold num_stop. cbn [head_sat head_is tl].
      assert (D : digit c = false) by (unfold is_e in *; unf; lia). rewrite D.
      assert (E46 : c =? 46 = false) by (unfold is_e in *; lia). rewrite E46.
      unfold is_e. rewrite Eec. cbn [negb andb].
      pose proof (serialize_name_head (d' :: r') k) as (d'' & x' & E' & Hd''). rewrite E'.
      assert (Hsign : is_sign d'' = false).
      { destruct Hd'' as [Hd''| ->]; [|reflexivity].
        (* d'' is the head of name_char d' *)
        rewrite serialize_name_cons in E'. destruct (name_char_head d') as (h & y & Eh & Hh).
        rewrite Eh in E'. cbn [app] in E'. injection E' as <- _.
        destruct Hh as [[-> _] | ->]; [|reflexivity]. unf. unfold is_digit in Ee. lia. }
      cbn [take_sign]. rewrite Hsign. cbn [snd head_sat].
      destruct Hd'' as [Hd''| ->]; [|reflexivity].
      rewrite serialize_name_cons in E'. destruct (name_char_head d') as (h & y & Eh & Hh).
      rewrite Eh in E'. cbn [app] in E'. injection E' as <- _.
      destruct Hh as [[-> _] | ->]; [|reflexivity]. unfold is_digit in Ee. unf. lia.
    + apply num_stop_head; auto; unf; lia.
Qed.

Theorem lex_dimension skip p repr i u s k :
  number_repr repr = true -> name_val u = true ->
  ser_token (TDimension p repr i u) = Ok s -> follow_ok (TDimension p repr i u) k = true ->
  lex_step skip (s ++ k) = ([FTok (TDimension p0 repr (repr_is_int repr) u)], k).
Proof.
  intros Hr Hu Hs Hk. cbn [follow_ok] in Hk. rewrite ser_dimension in Hs.
  destruct (ser_unit u) as [us| |] eqn:Eu; try discriminate. cbn [bind] in Hs. injection Hs as <-.
  destruct (ser_unit_roundtrip u us k Hu Eu Hk) as (Hns & Hi & Hn).
  rewrite <- app_assoc.
  destruct (number_chain repr (us ++ k) Hr) as (c & r & E & H1 & H2 & H3 & H4).
  rewrite E. rewrite (lex_step_num skip c r repr (us ++ k)); auto.
  - unfold lex_numeric. rewrite Hi, Hn. reflexivity.
  - rewrite <- E. apply number_roundtrip; auto.
Qed.

(* ------------------------------------------------------------------ strings and urls *)
Theorem lex_string skip v k :
  lex_step skip (34 :: serialize_string_value v ++ 34 :: k) = ([FTok (TString p0 v false)], k).
Proof.
  rewrite punct_chain by (try reflexivity; lia).
  unfold lex_punct. change (34 =? 64) with false. change (34 =? 35) with false.
  change (is_open 34) with false. change (is_close 34) with false. change (is_quote 34) with true.
  cbn iota. rewrite string_roundtrip; [reflexivity|].
  rewrite app_length. pose proof (serialize_string_length v). lia.
Qed.

Lemma url_char_head c : exists d y, url_char c = d :: y /\ whitespace d = false /\ d <> 34 /\ d <> 39.
Proof.
  unfold url_char.
  repeat match goal with
         | |- context [if ?b then _ else _] => let E := fresh "E" in destruct b eqn:E
         end;
  try (eexists _, _; split; [reflexivity|]; split; [reflexivity|]; split; discriminate).
  exists c, []. split; [reflexivity|]. unf. repeat split; lia.
Qed.

Lemma url_text_head v x :
  exists d y, serialize_url v ++ 41 :: x = d :: y /\ whitespace d = false /\ d <> 34 /\ d <> 39.
Proof.
  destruct v as [|c v].
  - exists 41, x. repeat split; try reflexivity; discriminate.
  - destruct (url_char_head c) as (d & y & E & H).
    exists d, (y ++ serialize_url v ++ 41 :: x). split; [|exact H].
    change (serialize_url (c :: v)) with (url_char c ++ serialize_url v). rewrite E, <- app_assoc. reflexivity.
Qed.

Theorem lex_url skip v k :
  no_nul v = true ->
  lex_step skip ([117; 114; 108; 40] ++ serialize_url v ++ 41 :: k) = ([FTok (TURL p0 v false)], k).
Proof.
  intros Hv. cbn [app].
  rewrite lex_step_ident; try reflexivity.
  unfold lex_ident_like.
  assert (Hn : consume_name (length (117 :: 114 :: 108 :: 40 :: serialize_url v ++ 41 :: k))
                 (117 :: 114 :: 108 :: 40 :: serialize_url v ++ 41 :: k)
               = ([117; 114; 108], 40 :: serialize_url v ++ 41 :: k)).
  { apply (name_roundtrip [117; 114; 108] (40 :: serialize_url v ++ 41 :: k)); [reflexivity|].
    cbn [length]. lia. }
  rewrite Hn. cbn [head_is tl]. change (40 =? 40) with true. cbn iota.
  change (is_url_name [117; 114; 108]) with true. cbn iota.
  destruct (url_text_head v k) as (d & y & E & Hw & H34 & H39).
  assert (Es : skip_ws (serialize_url v ++ 41 :: k) = serialize_url v ++ 41 :: k).
  { rewrite E. cbn [skip_ws]. rewrite Hw. reflexivity. }
  rewrite Es.
  assert (Eq : head_is 34 (serialize_url v ++ 41 :: k) || head_is 39 (serialize_url v ++ 41 :: k) = false).
  { rewrite E. cbn [head_is]. lia. }
  rewrite Eq. rewrite url_roundtrip; auto.
  rewrite app_length. pose proof (serialize_url_length v). lia.
Qed.

(* ------------------------------------------------------------------ unicode ranges *)
Theorem lex_urange skip p a b s k :
  a <? pow16_6 = true -> b <? pow16_6 = true ->
  ser_token (TUnicodeRange p a b) = Ok s -> follow_ok (TUnicodeRange p a b) k = true ->
  lex_step skip (s ++ k) = ([FTok (TUnicodeRange p0 a b)], k).
Proof.
  intros Ha Hb Hs Hk. cbn [follow_ok] in Hk. cbn [ser_token] in Hs.
  assert (Ha' : a < 16 ^ 6) by (unfold pow16_6 in Ha; cbn; lia).
  assert (Hb' : b < 16 ^ 6) by (unfold pow16_6 in Hb; cbn; lia).
  destruct (hex_upper_6 a Ha') as (A1 & A2 & A3).
  destruct (hex_upper_6 b Hb') as (B1 & B2 & B3).
  assert (Hhead : exists d y, hex_upper a = d :: y /\ hexdig d = true).
  { destruct (hex_upper a) as [|d y]; [cbn in A2; lia|]. cbn in A1. apply andb_true_iff in A1 as [A1 _]. eauto. }
  destruct Hhead as (d & y & Eh & Hd).
  destruct (b =? a) eqn:Eba.
  - apply N.eqb_eq in Eba. subst b. injection Hs as <-.
    change (cps "U+"%string) with [85; 43]. cbn [app]. unfold lex_step.
    change (whitespace 85) with false. cbn iota.
    assert (Eu : starts_urange (85 :: 43 :: hex_upper a ++ k) = true).
    { rewrite Eh. cbn [app starts_urange]. rewrite Hd. reflexivity. }
    rewrite Eu. cbn [tl]. rewrite consume_urange_single; auto. rewrite A3. reflexivity.
  - injection Hs as <-.
    change (cps "U+"%string) with [85; 43]. cbn [app]. rewrite <- !app_assoc. cbn [app]. unfold lex_step.
    change (whitespace 85) with false. cbn iota.
    assert (Eu : starts_urange (85 :: 43 :: hex_upper a ++ 45 :: hex_upper b ++ k) = true).
    { rewrite Eh. cbn [app starts_urange]. rewrite Hd. reflexivity. }
    rewrite Eu. cbn [tl]. rewrite consume_urange_pair; auto.
    + rewrite A3, B3. reflexivity.
    + unfold ur_stop in Hk. apply andb_true_iff in Hk as [Hk _]. apply andb_true_iff in Hk as [Hk _].
      apply negb_true_iff in Hk. exact Hk.
Qed.

(* ------------------------------------------------------------------ whitespace *)
Lemma span_app_gen p a : forall b,
  forallb p a = true -> span p (a ++ b) = (a ++ fst (span p b), snd (span p b)).
Proof.
  induction a as [|c a IH]; intros b Ha.
  - cbn [app]. destruct (span p b); reflexivity.
  - cbn in Ha. apply andb_true_iff in Ha as [Hc Ha]. cbn [app span]. rewrite Hc, IH by exact Ha. reflexivity.
Qed.

Theorem lex_whitespace skip w k :
  nonempty w = true -> forallb whitespace w = true ->
  lex_step skip (w ++ k) =
  ([FTok (TWhitespace p0 (w ++ fst (span whitespace k)))], snd (span whitespace k)).
Proof.
  intros Hn Hw. destruct w as [|c w]; [discriminate|]. cbn in Hw. apply andb_true_iff in Hw as [Hc Hw].
  cbn [app lex_step]. rewrite Hc. rewrite span_app_gen by exact Hw. reflexivity.
Qed.

Lemma span_no_head p k : head_sat p k = false -> span p k = ([], k).
Proof. destruct k as [|c k]; [reflexivity|]. cbn. intros ->. reflexivity. Qed.

(* ------------------------------------------------------------------ comments *)
Lemma find_comment_end_app v : forall k,
  has_comment_end v = false -> find_comment_end (v ++ 42 :: 47 :: k) = Some (v, k).
Proof.
  induction v as [|c v IH]; intros k Hv.
  - reflexivity.
  - cbn [has_comment_end] in Hv. apply orb_false_iff in Hv as [H1 H2].
    cbn [app find_comment_end].
    assert (E : has_prefix [42; 47] (c :: v ++ 42 :: 47 :: k) = false).
    { cbn [has_prefix] in H1 |- *. destruct (42 =? c) eqn:Ec; [|reflexivity]. cbn [andb] in H1 |- *.
      destruct v as [|d v]; [cbn [app]; cbn in H1|cbn [app]; exact H1].
      cbn [has_prefix]. apply N.eqb_eq in Ec. subst c.
      (* v = []: the text is "*" followed by "*/": the first pair is "**" *)
      reflexivity. }
    rewrite E, IH by exact H2. reflexivity.
Qed.

Theorem lex_comment v k :
  has_comment_end v = false ->
  lex_step true ([47; 42] ++ v ++ [42; 47] ++ k) = ([], k).
Proof.
  intros Hv. cbn [app]. rewrite punct_chain by (try reflexivity; lia).
  unfold lex_punct. change (47 =? 64) with false. change (47 =? 35) with false.
  change (is_open 47) with false. change (is_close 47) with false. change (is_quote 47) with false.
  cbn iota. cbn [has_prefix]. change (47 =? 47) with true. change (42 =? 42) with true. cbn [andb tl].
  rewrite find_comment_end_app by exact Hv. reflexivity.
Qed.

Lemma lex_separator k : lex_step true ([47; 42; 42; 47] ++ k) = ([], k).
Proof. apply (lex_comment [] k). reflexivity. Qed.

(* ------------------------------------------------------------------ literals *)
Lemma has_prefix1 c k : has_prefix [c] k = head_is c k.
Proof. destruct k as [|d k]; [reflexivity|]. cbn. rewrite andb_true_r. apply N.eqb_sym. Qed.

Lemma consume_number_sign_none c k :
  is_sign c = true -> head_sat digit k = false -> head_is 46 k && head_sat digit (tl k) = false ->
  consume_number (c :: k) = None.
Proof.
  intros Hs Hd Hf. unfold consume_number. cbn [take_sign]. rewrite Hs.
  rewrite span_no_head by exact Hd. unfold take_frac.
  destruct (head_is 46 k) eqn:E46; [|reflexivity].
  cbn [andb] in Hf. rewrite span_no_head by exact Hf. reflexivity.
Qed.

Lemma consume_number_dot_none k : head_sat digit k = false -> consume_number (46 :: k) = None.
Proof.
  intros Hd. unfold consume_number. cbn [take_sign]. change (is_sign 46) with false. cbn iota.
  cbn [span]. change (digit 46) with false. cbn iota. unfold take_frac. cbn [head_is tl].
  change (46 =? 46) with true. cbn iota. rewrite span_no_head by exact Hd. reflexivity.
Qed.

Lemma lit1_generic skip c k :
  lit1 c = true ->
  c <> 45 -> c <> 43 -> c <> 46 -> c <> 92 -> c <> 64 -> c <> 35 -> c <> 47 -> c <> 60 ->
  cmp_delim c = false ->
  lex_step skip (c :: k) = ([FTok (TLiteral p0 [c])], k).
Proof.
  intros Hl H45 H43 H46 H92 H64 H35 H47 H60 Hcmp. unfold lit1 in Hl.
  rewrite punct_chain; try (unf; lia).
  unfold lex_punct.
  assert (E1 : c =? 64 = false) by lia. assert (E2 : c =? 35 = false) by lia. rewrite E1, E2.
  assert (E3 : is_open c = false) by (unf; lia). assert (E4 : is_close c = false) by (unf; lia).
  assert (E5 : is_quote c = false) by (unf; lia). rewrite E3, E4, E5.
  cbn [has_prefix]. assert (E6 : 47 =? c = false) by lia. rewrite E6. cbn [andb].
  unfold lex_delim. cbn [has_prefix]. assert (E7 : 60 =? c = false) by lia. rewrite E7. cbn [andb].
  assert (E8 : 124 =? c = false) by (unf; lia). rewrite E8. cbn [andb]. rewrite Hcmp. reflexivity.
Qed.

Lemma cmp_delim_cases a : cmp_delim a = true -> a = 126 \/ a = 124 \/ a = 94 \/ a = 36 \/ a = 42.
Proof. unf. lia. Qed.

Theorem lex_literal skip p v k :
  wf_literal v = true -> follow_ok (TLiteral p v) k = true ->
  lex_step skip (v ++ k) = ([FTok (TLiteral p0 v)], k).
Proof.
  intros Hw Hf. cbn [follow_ok] in Hf. unfold wf_literal in Hw.
  destruct v as [|a [|b [|c [|d [|? ?]]]]]; try discriminate.
  - (* one code point *)
    cbn [app]. unfold lit_follow in Hf.
    destruct (a =? 45) eqn:E45.
    { apply N.eqb_eq in E45. subst a.
      apply andb_true_iff in Hf as [Hf H3]. apply andb_true_iff in Hf as [H1 H2].
      apply negb_true_iff in H1, H2, H3.
      rewrite lex_step_punct; try reflexivity; auto.
      - apply starts_urange_head; lia.
      - destruct k as [|d k']; [reflexivity|]. cbn [has_prefix]. change (45 =? 45) with true. cbn [andb].
        destruct (45 =? d) eqn:Ed; [|reflexivity]. exfalso. apply N.eqb_eq in Ed. subst d.
        unfold starts_ident in H1. cbn in H1. discriminate.
      - apply consume_number_sign_none; auto. }
    destruct (a =? 43) eqn:E43.
    { apply N.eqb_eq in E43. subst a. apply andb_true_iff in Hf as [H2 H3]. apply negb_true_iff in H2, H3.
      rewrite lex_step_punct; try reflexivity; auto.
      - apply starts_urange_head; lia.
      - apply consume_number_sign_none; auto. }
    destruct (a =? 46) eqn:E46.
    { apply N.eqb_eq in E46. subst a. apply negb_true_iff in Hf.
      rewrite lex_step_punct; try reflexivity; auto.
      - apply starts_urange_head; lia.
      - apply consume_number_dot_none; auto. }
    destruct (a =? 35) eqn:E35.
    { apply N.eqb_eq in E35. subst a. rewrite punct_chain by (try reflexivity; lia).
      unfold lex_punct. change (35 =? 64) with false. change (35 =? 35) with true. cbn iota.
      unfold name_stop in Hf. apply andb_true_iff in Hf as [H1 H2]. apply negb_true_iff in H1, H2.
      change (head_sat_name k) with (head_sat name_cp k). rewrite H1, H2. reflexivity. }
    destruct (a =? 64) eqn:E64.
    { apply N.eqb_eq in E64. subst a. rewrite punct_chain by (try reflexivity; lia).
      unfold lex_punct. change (64 =? 64) with true. cbn iota. apply negb_true_iff in Hf. rewrite Hf. reflexivity. }
    destruct (a =? 47) eqn:E47.
    { apply N.eqb_eq in E47. subst a. rewrite punct_chain by (try reflexivity; lia).
      apply negb_true_iff in Hf.
      unfold lex_punct. change (47 =? 64) with false. change (47 =? 35) with false.
      change (is_open 47) with false. change (is_close 47) with false. change (is_quote 47) with false.
      cbn iota. change (has_prefix [47; 42] (47 :: k)) with (has_prefix [42] k).
      rewrite has_prefix1, Hf. reflexivity. }
    destruct (a =? 60) eqn:E60.
    { apply N.eqb_eq in E60. subst a. rewrite punct_chain by (try reflexivity; lia).
      apply negb_true_iff in Hf.
      unfold lex_punct. change (60 =? 64) with false. change (60 =? 35) with false.
      change (is_open 60) with false. change (is_close 60) with false. change (is_quote 60) with false.
      cbn iota. change (has_prefix [47; 42] (60 :: k)) with false. cbn iota.
      unfold lex_delim. change (has_prefix [60; 33; 45; 45] (60 :: k)) with (has_prefix [33; 45; 45] k).
      rewrite Hf. reflexivity. }
    destruct (a =? 124) eqn:E124.
    { apply N.eqb_eq in E124. subst a. rewrite punct_chain by (try reflexivity; lia).
      apply andb_true_iff in Hf as [H1 H2]. apply negb_true_iff in H1, H2.
      unfold lex_punct. change (124 =? 64) with false. change (124 =? 35) with false.
      change (is_open 124) with false. change (is_close 124) with false. change (is_quote 124) with false.
      cbn iota. change (has_prefix [47; 42] (124 :: k)) with false. cbn iota.
      unfold lex_delim. change (has_prefix [60; 33; 45; 45] (124 :: k)) with false. cbn iota.
      change (has_prefix [124; 124] (124 :: k)) with (has_prefix [124] k).
      rewrite has_prefix1, H1, H2. reflexivity. }
    destruct (cmp_delim a) eqn:Ecmp.
    { apply negb_true_iff in Hf.
      destruct (cmp_delim_cases a Ecmp) as [->|[->|[->|[->| ->]]]]; try discriminate;
        (rewrite punct_chain by (try reflexivity; lia));
        unfold lex_punct, lex_delim; cbn [has_prefix]; cbn; rewrite Hf; reflexivity. }
    destruct (a =? 92) eqn:E92.
    { apply N.eqb_eq in E92. subst a.
      rewrite lex_step_punct; try reflexivity; auto.
      - apply starts_urange_head; lia.
      - unfold starts_ident. change (92 =? 45) with false. change (92 =? 92) with true. cbn iota.
        unfold valid_escape. rewrite Hf. reflexivity. }
    apply lit1_generic; auto; lia.
  - (* two code points *)
    apply orb_true_iff in Hw as [Hw|Hw].
    + apply andb_true_iff in Hw as [Ha Hb]. apply N.eqb_eq in Ha, Hb. subst a b. cbn [app].
      rewrite punct_chain by (try reflexivity; lia). reflexivity.
    + apply andb_true_iff in Hw as [Ha Hb]. apply N.eqb_eq in Hb. subst b. cbn [app].
      destruct (cmp_delim_cases a Ha) as [->|[->|[->|[->| ->]]]];
        (rewrite punct_chain by (try reflexivity; lia)); reflexivity.
  - apply andb_true_iff in Hw as [Hw Hc]. apply andb_true_iff in Hw as [Ha Hb].
    apply N.eqb_eq in Ha, Hb, Hc. subst a b c. reflexivity.
  - apply andb_true_iff in Hw as [Hw Hd]. apply andb_true_iff in Hw as [Hw Hc]. apply andb_true_iff in Hw as [Ha Hb].
    apply N.eqb_eq in Ha, Hb, Hc, Hd. subst a b c d. cbn [app].
    rewrite punct_chain by (try reflexivity; lia). reflexivity.
Qed.
