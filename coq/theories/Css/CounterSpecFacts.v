(* Css/CounterSpecFacts.v -- the specification of Css/CounterSpec.v determines
   the representation: `counter_repr` is functional (so "RenderValue returns a
   string s with counter_repr T n v s" pins the string down). *)
From Verif Require Import Base.GoSem Css.Counters Css.CounterSpec Css.CounterAbs Css.CounterProofs
                          Css.CounterTableProofs.
From Coq Require Import List ZArith NArith Bool Lia.
Import ListNotations.
Open Scope Z_scope.

(* enough symbols for the digit systems (guaranteed for every valid rule) *)
Definition rs_ok (r : rstyle) : Prop :=
  match rs_system r with
  | SAlphabetic => 1 <= slen (rs_symbols r)
  | SNumeric => 2 <= slen (rs_symbols r)
  | _ => True
  end.

Lemma initial_repr_functional r w o o' :
  rs_ok r -> CounterSpec.initial_repr r w o -> CounterSpec.initial_repr r w o' -> o = o'.
Proof.
  unfold rs_ok, CounterSpec.initial_repr. destruct (rs_system r); intros Hok H H'; try congruence.
  - destruct (w <? 1); [congruence|].
    destruct H as (ds & Hd & ->), H' as (ds' & Hd' & ->).
    rewrite (alphabetic_digits_unique' _ _ _ _ Hok Hd Hd'). reflexivity.
  - destruct H as (ds & Hd & ->), H' as (ds' & Hd' & ->).
    rewrite (numeric_digits_unique _ _ _ _ Hok Hd Hd'). reflexivity.
Qed.

Lemma style_repr_functional r v o o' :
  rs_ok r -> style_repr r v o -> style_repr r v o' -> o = o'.
Proof.
  intros Hok [(Hn & ->)|(Hi & io & Hio & ->)] [(Hn' & ->)|(Hi' & io' & Hio' & ->)];
    try reflexivity; try contradiction.
  rewrite (initial_repr_functional r _ io io' Hok Hio Hio'). reflexivity.
Qed.

Section Functional.
Variable T : stable.
Hypothesis Hok : forall m r, resolved T m r -> rs_ok r.

Lemma decimal_repr_functional v s s' : decimal_repr T v s -> decimal_repr T v s' -> s = s'.
Proof.
  intros (r & Hr & Hs) (r' & Hr' & Hs').
  rewrite <- (resolved_functional T _ _ Hr _ Hr') in Hs'.
  pose proof (style_repr_functional r v _ _ (Hok _ _ Hr) Hs Hs') as H. congruence.
Qed.

(* the k-th style of a chain cannot both fail and succeed / be unknown *)
Lemma fails_vs_repr n v k m r s :
  chain_fails T n v k -> fallback_chain T n k m -> resolved T m r -> style_repr r v (Some s) -> False.
Proof.
  intros (m0 & r0 & Hc0 & Hr0 & Hs0) Hc Hr Hs.
  rewrite <- (chain_functional T n _ _ Hc0 _ Hc) in Hr.
  rewrite <- (resolved_functional T _ _ Hr0 _ Hr) in Hs.
  pose proof (style_repr_functional r0 v _ _ (Hok _ _ Hr0) Hs0 Hs). discriminate.
Qed.

Lemma fails_vs_unknown n v k m :
  chain_fails T n v k -> fallback_chain T n k m -> T m = None -> False.
Proof.
  intros (m0 & r0 & Hc0 & Hr0 & _) Hc Hn.
  rewrite (chain_functional T n _ _ Hc0 _ Hc) in Hr0.
  inversion Hr0; congruence.
Qed.

Theorem counter_repr_functional n v s s' :
  counter_repr T n v s -> counter_repr T n v s' -> s = s'.
Proof.
  intros [(k & m & r & Hf & Hc & Hr & Hs) | [(k & m & Hf & Hc & Hn & Hd) | (Hall & Hd)]]
         [(k' & m' & r' & Hf' & Hc' & Hr' & Hs') | [(k' & m' & Hf' & Hc' & Hn' & Hd') | (Hall' & Hd')]].
  - destruct (Nat.lt_trichotomy k k') as [Hlt|[->|Hlt]].
    + exfalso. eapply fails_vs_repr; [apply (Hf' k Hlt)|eassumption..].
    + rewrite <- (chain_functional T n _ _ Hc _ Hc') in Hr'.
      rewrite <- (resolved_functional T _ _ Hr _ Hr') in Hs'.
      pose proof (style_repr_functional r v _ _ (Hok _ _ Hr) Hs Hs'). congruence.
    + exfalso. eapply fails_vs_repr; [apply (Hf k' Hlt)|eassumption..].
  - exfalso. destruct (Nat.lt_trichotomy k k') as [Hlt|[->|Hlt]].
    + eapply fails_vs_repr; [apply (Hf' k Hlt)|eassumption..].
    + rewrite (chain_functional T n _ _ Hc _ Hc') in Hr. inversion Hr; congruence.
    + eapply fails_vs_unknown; [apply (Hf k' Hlt)|eassumption..].
  - exfalso. eapply fails_vs_repr; [apply (Hall' k)|eassumption..].
  - exfalso. destruct (Nat.lt_trichotomy k k') as [Hlt|[->|Hlt]].
    + eapply fails_vs_unknown; [apply (Hf' k Hlt)|eassumption..].
    + rewrite <- (chain_functional T n _ _ Hc _ Hc') in Hr'. inversion Hr'; congruence.
    + eapply fails_vs_repr; [apply (Hf k' Hlt)|eassumption..].
  - eapply decimal_repr_functional; eassumption.
  - eapply decimal_repr_functional; eassumption.
  - exfalso. eapply fails_vs_repr; [apply (Hall k')|eassumption..].
  - eapply decimal_repr_functional; eassumption.
  - eapply decimal_repr_functional; eassumption.
Qed.

End Functional.
