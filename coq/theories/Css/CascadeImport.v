(* Css/CascadeImport.v -- @import by URL (property C03): model only, no proofs
   (see CascadeImportProofs.v).

   Css/Cascade.v describes a sheet as a tree: `RImport q fetched sheet rest`
   carries the rules the URL served.  That form cannot say that TWO @import
   rules name the SAME url, nor that a sheet imports itself.  Here a sheet
   refers to its imports by URL and the document comes with the table of what
   every URL serves.

   Ported code (html/tree/style.go, /repo e82870f):
     guardImportCycle 1270-1284   the fetcher handed to an imported sheet serves
                                  the sheet's own URL only once, and that one
                                  fetch is consumed by newCSS loading the sheet
                                  itself: for the rules of the imported sheet
                                  the URL is not served any more (cyclic @import
                                  -> error -> the rule contributes nothing)
     preprocessStylesheet 1340-1375  `newCSS(url, guardImportCycle(urlFetcher,
                                  url), ...)`: the guard is passed to the
                                  imported sheet ONLY; the following rules of
                                  the importing sheet keep `urlFetcher`.

   The fetcher is represented by the table of the URLs it still serves:
   `guard e u` removes u.  Nested guards = successive removals. *)
From Verif Require Export Css.Cascade.
Open Scope N_scope.

Inductive urules :=
| UNil
| UStyle (g : list sel) (b : body) (rest : urules)
| UMedia (q : list N) (inner : urules) (rest : urules)
| UImport (q : list N) (url : N) (rest : urules)      (* @import url(<url>) q; *)
| UOther (rest : urules).

(* what the fetcher serves: (url, sheet); a URL without entry is a failed fetch *)
Definition env := list (N * urules).

Fixpoint fetch (e : env) (u : N) : option urules :=
  match e with
  | [] => None
  | (k, sh) :: r => if k =? u then Some sh else fetch r u
  end.

(* style.go:1273-1284 guardImportCycle, after newCSS consumed the single fetch *)
Definition guard (e : env) (u : N) : env := filter (fun kv => negb (fst kv =? u)) e.

(* style.go:1301-1465 preprocessStylesheet with the fetcher `e`.  `fuel` bounds
   the depth of nested @import; length e is always enough (every nesting level
   removes a URL from the table, CascadeImportProofs.flatten_u_fuel). *)
Fixpoint flatten_u (fuel : nat) (device : N) (e : env) : urules -> bool -> list frule :=
  fix go (rs : urules) (ignore_imports : bool) {struct rs} : list frule :=
    match rs with
    | UNil => []
    | UStyle g b rest => flatten_body (resolve_top g) b [] [] ++ go rest true
    | UImport q u rest =>
        if ignore_imports then go rest ignore_imports
        else if negb (evaluate_media q device) then go rest ignore_imports
        else match fetch e u with                                   (* 1370 *)
             | Some sh =>
                 (match fuel with
                  | S k => flatten_u k device (guard e u) sh false  (* the guard goes to the imported sheet ... *)
                  | O => []
                  end) ++ go rest ignore_imports                    (* ... the loop keeps its own fetcher *)
             | None => go rest ignore_imports
             end
    | UMedia q inner rest =>
        if evaluate_media q device then go inner true ++ go rest true else go rest true
    | UOther rest => go rest true
    end.

(* CSS (css-cascade-4 2): "the stylesheet's contents are treated as if they were
   written in place of the @import rule": the tree of Css/Cascade.v in which
   every @import carries the sheet its URL serves; an @import that closes a
   cycle is dropped (it carries nothing) *)
Fixpoint expand (fuel : nat) (e : env) : urules -> rules :=
  fix go (rs : urules) {struct rs} : rules :=
    match rs with
    | UNil => RNil
    | UStyle g b rest => RStyle g b (go rest)
    | UMedia q inner rest => RMedia q (go inner) (go rest)
    | UOther rest => ROther (go rest)
    | UImport q u rest =>
        match fetch e u, fuel with
        | Some sh, S k => RImport q true (expand k (guard e u) sh) (go rest)
        | _, _ => RImport q false RNil (go rest)
        end
    end.

Definition full_fuel (e : env) : nat := length e.

Definition flatten_env (device : N) (e : env) (rs : urules) : list frule :=
  flatten_u (full_fuel e) device e rs false.

Definition expand_env (e : env) (rs : urules) : rules := expand (full_fuel e) e rs.

(* a document whose sheets import by URL *)
Record uauthor := mkUAuthor { ua_media : list N; ua_rules : urules }.

Record udocument := mkUDoc {
  ud_device : N;  ud_hints : bool;
  ud_ua : urules;  ud_ua_device : N;
  ud_ph : urules;  ud_ph_device : N;
  ud_authors : list uauthor;
  ud_users : list (N * urules);
  ud_files : env }.

Definition expand_doc (d : udocument) : document :=
  let ex := expand_env (ud_files d) in
  mkDoc (ud_device d) (ud_hints d) (ex (ud_ua d)) (ud_ua_device d) (ex (ud_ph d)) (ud_ph_device d)
        (map (fun a => mkAuthor (ua_media a) (ex (ua_rules a))) (ud_authors d))
        (map (fun u => (fst u, ex (snd u))) (ud_users d)).
