(* Css/CascadeMore.v -- further unbounded facts about the cascade order of
   CascadeSpec.v (property C03): the winner depends only on the SET of numbered
   occurrences, is monotone under insertion, and properties are independent. *)
From Verif Require Import Css.Cascade Css.CascadeSpec Css.CascadeProofs.
From Coq Require Import List NArith Bool Permutation.
Import ListNotations.
Open Scope N_scope.

(* (a) the winner depends on the set of (position, occurrence) keys only *)
Lemma is_winner_same_elements : forall l l' p w,
  (forall x, In x l <-> In x l') -> is_winner l p w -> is_winner l' p w.
Proof.
  intros l l' p w Hset [Hin [Hp Hmax]]. split; [apply Hset; exact Hin|].
  split; [exact Hp|]. intros x Hx Hxp. apply Hmax; [apply Hset; exact Hx|exact Hxp].
Qed.

Lemma is_winner_permutation : forall l l' p w,
  Permutation l l' -> is_winner l p w -> is_winner l' p w.
Proof.
  intros l l' p w HP. apply is_winner_same_elements. intros x. split; intros Hx.
  - eapply Permutation_in; [exact HP|exact Hx].
  - eapply Permutation_in; [apply Permutation_sym; exact HP|exact Hx].
Qed.

(* (b) monotonicity *)
Lemma is_winner_add_lower : forall l p w x,
  is_winner l p w -> occ_lt x w = true -> is_winner (x :: l) p w.
Proof.
  intros l p w x [Hin [Hp Hmax]] Hlt. split; [right; exact Hin|]. split; [exact Hp|].
  intros y [Hy|Hy] Hyp; [subst y; right; exact Hlt|apply Hmax; assumption].
Qed.

Lemma is_winner_add_higher : forall l p w x,
  is_winner l p w -> o_prop (snd x) = p -> occ_lt w x = true -> is_winner (x :: l) p x.
Proof.
  intros l p w x [Hin [Hp Hmax]] Hxp Hlt. split; [left; reflexivity|]. split; [exact Hxp|].
  intros y [Hy|Hy] Hyp; [left; symmetry; exact Hy|]. right.
  destruct (Hmax y Hy Hyp) as [He|Hyw]; [subst y; exact Hlt|].
  eapply occ_lt_trans; [exact Hyw|exact Hlt].
Qed.

(* (c) declarations of another property are inert *)
Lemma is_winner_other_property : forall l p w x,
  o_prop (snd x) <> p -> (is_winner (x :: l) p w <-> is_winner l p w).
Proof.
  intros l p w x Hne. split; intros [Hin [Hp Hmax]].
  - split; [destruct Hin as [He|Hin]; [subst x; contradiction|exact Hin]|].
    split; [exact Hp|]. intros y Hy Hyp. apply Hmax; [right; exact Hy|exact Hyp].
  - split; [right; exact Hin|]. split; [exact Hp|].
    intros y [Hy|Hy] Hyp; [subst y; contradiction|apply Hmax; assumption].
Qed.
