(* Draw/StackingOrder.v -- the child stacking contexts of one context, in the
   order they are painted (negative, zero, positive: draw.go steps 3, 8, 9), are
   the stable sort by z-index of the child contexts in document order. *)
From Verif Require Import Base.GoSem Base.SortStable Draw.Stacking.
From Coq Require Import List ZArith Lia Sorted Permutation Bool.
Import ListNotations.

Section Order.
  Context {A : Type}.
  Variable key : A -> Z.

  Lemma sorted_app l1 l2 :
    sorted key l1 -> sorted key l2 ->
    (forall a b, In a l1 -> In b l2 -> (key a <= key b)%Z) -> sorted key (l1 ++ l2).
  Proof.
    unfold sorted. induction l1 as [|x r IH]; intros H1 H2 H12; cbn [app]; [exact H2|].
    inversion H1 as [|? ? Hr Hall]; subst. constructor.
    - apply IH; [exact Hr|exact H2|]. intros a b Ha Hb. apply H12; [right; exact Ha|exact Hb].
    - rewrite Forall_forall in *. intros a Ha. apply in_app_or in Ha. destruct Ha as [Ha|Ha].
      + exact (Hall a Ha).
      + apply H12; [left; reflexivity|exact Ha].
  Qed.

  Lemma sorted_const k l : (forall a, In a l -> key a = k) -> sorted key l.
  Proof.
    unfold sorted. induction l as [|x r IH]; intros H; constructor.
    - apply IH. intros a Ha. apply H. right; exact Ha.
    - rewrite Forall_forall. intros a Ha. unfold key_le.
      rewrite (H x (or_introl eq_refl)), (H a (or_intror Ha)). lia.
  Qed.

  Lemma keyed_filter_all k f l :
    (forall a, key a = k -> f a = true) -> keyed key k (filter f l) = keyed key k l.
  Proof.
    intros Hf. unfold keyed. induction l as [|x r IH]; cbn [filter]; [reflexivity|].
    destruct (f x) eqn:Hfx; cbn [filter].
    - rewrite IH. reflexivity.
    - destruct (Z.eqb_spec (key x) k) as [Hk|Hk]; [|exact IH].
      rewrite (Hf x Hk) in Hfx. discriminate.
  Qed.

  Lemma keyed_filter_none k f l :
    (forall a, key a = k -> f a = false) -> keyed key k (filter f l) = [].
  Proof.
    intros Hf. unfold keyed. induction l as [|x r IH]; cbn [filter]; [reflexivity|].
    destruct (f x) eqn:Hfx; cbn [filter]; [|exact IH].
    destruct (Z.eqb_spec (key x) k) as [Hk|Hk]; [|exact IH].
    rewrite (Hf x Hk) in Hfx. discriminate.
  Qed.
End Order.

Theorem new_context_children_order i kids cc blocks floats bac :
  match new_context i kids cc blocks floats bac with
  | Ctx _ _ _ neg zero pos _ _ _ => neg ++ zero ++ pos = isort ctx_z cc
  end.
Proof.
  unfold new_context.
  set (fn := fun c => (ctx_z c <? 0)%Z).
  set (fz := fun c => (ctx_z c =? 0)%Z).
  set (fp := fun c => negb (ctx_z c <? 0)%Z && negb (ctx_z c =? 0)%Z).
  apply isort_unique. split.
  - apply sorted_app; [apply isort_sorted| |].
    + apply sorted_app; [apply (sorted_const ctx_z 0%Z)|apply isort_sorted|].
      * intros a Ha. apply filter_In in Ha. destruct Ha as [_ Ha]. unfold fz in Ha. lia.
      * intros a b Ha Hb. apply filter_In in Ha. apply isort_in, filter_In in Hb.
        destruct Ha as [_ Ha]. destruct Hb as [_ Hb]. unfold fz, fp in *. lia.
    + intros a b Ha Hb. apply isort_in, filter_In in Ha. destruct Ha as [_ Ha]. unfold fn in Ha.
      apply in_app_or in Hb. destruct Hb as [Hb|Hb].
      * apply filter_In in Hb. destruct Hb as [_ Hb]. unfold fz in Hb. lia.
      * apply isort_in, filter_In in Hb. destruct Hb as [_ Hb]. unfold fp in Hb. lia.
  - intros k. rewrite !keyed_app, !isort_stable.
    destruct (Z.lt_trichotomy k 0) as [Hk|[Hk|Hk]].
    + rewrite (keyed_filter_all ctx_z k fn), (keyed_filter_none ctx_z k fz), (keyed_filter_none ctx_z k fp).
      * rewrite app_nil_r. reflexivity.
      * intros a Ha. unfold fp. lia.
      * intros a Ha. unfold fz. lia.
      * intros a Ha. unfold fn. lia.
    + rewrite (keyed_filter_none ctx_z k fn), (keyed_filter_all ctx_z k fz), (keyed_filter_none ctx_z k fp).
      * rewrite app_nil_r. reflexivity.
      * intros a Ha. unfold fp. lia.
      * intros a Ha. unfold fz. lia.
      * intros a Ha. unfold fn. lia.
    + rewrite (keyed_filter_none ctx_z k fn), (keyed_filter_none ctx_z k fz), (keyed_filter_all ctx_z k fp).
      * reflexivity.
      * intros a Ha. unfold fp. lia.
      * intros a Ha. unfold fz. lia.
      * intros a Ha. unfold fn. lia.
Qed.
