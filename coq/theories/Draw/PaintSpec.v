(* Draw/PaintSpec.v -- CSS 2.1 Appendix E ("Elaborate description of Stacking
   Contexts", http://www.w3.org/TR/CSS21/zindex.html) as a recursive definition
   over the abstract laid-out box tree, extended as CSS Color 3 (opacity) and
   CSS Transforms 1 prescribe: a box with opacity < 1 or a transform forms a
   stacking context painted at the level of 'z-index: 0'.

   This file is a SPECIFICATION: it does not mention the stacking-context data
   structure, accumulators, insertion indices or a sorting algorithm.  It only
   uses, per box, the classification Appendix E speaks about, and collects the
   boxes each step talks about by plain tree traversals ("all ... descendants,
   in tree order").

   Section variables:
     forms_ctx  which boxes form a stacking context of their own
     level      the z-index of such a box (0 for 'auto')
     zsort      ANY function returning its argument ordered by ascending level,
                boxes of equal level keeping their (tree) order.             *)
From Verif Require Import Base.SortStable Draw.Stacking.
From Coq Require Import List ZArith NArith Bool.
Import ListNotations.

(* CSS vocabulary on box kinds *)
Definition css_block_level (k : kind) : bool :=      (* 9.2.1 block-level boxes *)
  match k with KBlock | KFlex | KTable | KBlockReplaced => true | _ => false end.
Definition css_atomic_inline_container (k : kind) : bool :=   (* inline-block, inline-flex *)
  match k with KInlineBlock | KInlineFlex => true | _ => false end.
Definition css_replaced (k : kind) : bool :=
  match k with KBlockReplaced | KInlineReplaced => true | _ => false end.
Definition css_text (k : kind) : bool := match k with KText => true | _ => false end.
Definition css_inline_box (k : kind) : bool := match k with KInline => true | _ => false end.
Definition css_line_box (k : kind) : bool := match k with KLine => true | _ => false end.
Definition css_table (k : kind) : bool := match k with KTable => true | _ => false end.
Definition css_cell (k : kind) : bool := match k with KTableCell => true | _ => false end.
(* boxes whose own background and border are painted as a unit in step 2 when
   they are the root of a (pseudo) stacking context: everything except inline
   boxes (painted per line box in step 6/7), tables (layers), and the boxes that
   have no background of their own (lines, text, page: painted by drawPage) *)
Definition css_paints_box_decoration (k : kind) : bool :=
  match k with
  | KBlock | KFlex | KBlockReplaced | KTableCell | KInlineBlock | KInlineFlex
  | KInlineReplaced | KMargin => true
  | _ => false
  end.
(* "Transforms apply to block-level and atomic inline-level elements" *)
Definition css_transformable (k : kind) : bool := negb (css_inline_box k).

(* CSS Transforms 1, 7: "If a transform function causes the current transformation
   matrix of an object to be non-invertible, the object and its content do not get
   displayed." *)
Definition css_not_displayed (i : binfo) : bool :=
  btrans i && css_transformable (bkind i) && bsing i.

Fixpoint height (b : box) : nat :=
  match b with Box _ cs => S (fold_right (fun c m => Nat.max (height c) m) 0 cs) end.

Section Spec.
  Variable forms_ctx : binfo -> bool.
  Variable level : binfo -> Z.
  Variable zsort : list box -> list box.

  Definition blevel (b : box) : Z := level (binfo_of b).

  (* what Appendix E says about a descendant met while walking the tree *)
  Inductive cls :=
  | CReal     (* forms a stacking context: painted atomically, steps 3 / 8 / 9 *)
  | CPos      (* positioned, z-index auto: step 8, "as if it created a new stacking context" *)
  | CFloat    (* non-positioned float: step 5, idem *)
  | CAtomic   (* inline-block / inline-flex: step 7.2.1.4, idem, in place in its line *)
  | CFlow.    (* in-flow, non-positioned: painted piecewise by steps 4 and 7 *)

  Definition classify (i : binfo) : cls :=
    if forms_ctx i then CReal
    else if bpos i then CPos
    else if bfloat i then CFloat
    else if css_atomic_inline_container (bkind i) then CAtomic
    else CFlow.
  Definition cl (b : box) : cls := classify (binfo_of b).

  (* the positioned descendants and the descendants that form a stacking
     context, in tree order, that belong to the stacking context of b: "any
     positioned descendants and descendants which actually create a new
     stacking context should be considered part of the parent stacking
     context" -- the search goes through pseudo contexts but never enters a real one *)
  Fixpoint hoisted (b : box) : list box :=
    match b with
    | Box _ cs => flat_map (fun c => match cl c with
                                     | CReal => [c]
                                     | CPos => c :: hoisted c
                                     | _ => hoisted c
                                     end) cs
    end.

  (* in-flow, non-positioned descendants selected by sel, in tree order *)
  Fixpoint flow_desc (sel : kind -> bool) (b : box) : list box :=
    match b with
    | Box _ cs => flat_map (fun c => match cl c with
                                     | CFlow => (if sel (bkind (binfo_of c)) then [c] else []) ++ flow_desc sel c
                                     | _ => []
                                     end) cs
    end.

  (* non-positioned floating descendants (not inside another pseudo context), tree order *)
  Fixpoint flow_floats (b : box) : list box :=
    match b with
    | Box _ cs => flat_map (fun c => match cl c with
                                     | CFloat => [c]
                                     | CFlow => flow_floats c
                                     | _ => []
                                     end) cs
    end.

  (* the box and its in-flow non-positioned descendants (owners of the outlines of step 10) *)
  Fixpoint flow_all (b : box) : list box :=
    match b with
    | Box _ cs => b :: flat_map (fun c => match cl c with CFlow => flow_all c | _ => [] end) cs
    end.

  (* 7.2.1: the boxes in a line box, in tree order.  `atomic` paints an
     inline-block as a pseudo stacking context. *)
  Fixpoint inline_paint (atomic : box -> list event) (d : box) : list event :=
    match d with
    | Box i cs =>
      match classify i with
      | CReal | CPos | CFloat => []                  (* painted by another step *)
      | CAtomic => atomic d
      | CFlow =>
        if css_text (bkind i) then [Content (bid i)]                  (* 7.2.1.4 text run *)
        else if css_replaced (bkind i) then [Bg (bid i); Border (bid i); Content (bid i)]
        else Bg (bid i) :: Border (bid i) :: flat_map (inline_paint atomic) cs  (* 7.2.1.1-4 *)
      end
    end.

  (* step 6 for an inline box that is itself the root of the context *)
  Definition inline_root_paint (atomic : box -> list event) (b : box) : list event :=
    match b with Box i cs => Bg (bid i) :: Border (bid i) :: flat_map (inline_paint atomic) cs end.

  (* step 7 for one block: replaced content, or its line boxes in order *)
  Definition block_content (atomic : box -> list event) (b : box) : list event :=
    match b with
    | Box i cs =>
      if css_replaced (bkind i) then [Content (bid i)]
      else flat_map (fun c => match cl c with
                              | CFlow => if css_line_box (bkind (binfo_of c)) then inline_paint atomic c else []
                              | _ => []
                              end) cs
    end.

  (* step 4 for one block *)
  Definition block_decoration (b : box) : list event :=
    let i := binfo_of b in
    if css_table (bkind i) then [TableLayers (bid i)] else [Bg (bid i); Border (bid i)].

  Definition wrap (e : effect) (on : bool) (id : N) (l : list event) : list event :=
    if on then Push e id :: l ++ [Pop e id] else l.

  (* the ten steps, for a box painted as a stacking context (real = it forms
     one; otherwise "as if", and then steps 3, 8, 9 are empty because those
     descendants belong to the parent context).  n bounds the nesting depth of
     contexts (spec_paint supplies the height of the tree).                  *)
  Fixpoint spec_ctx (n : nat) (real : bool) (b : box) : list event :=
    match n with
    | O => []
    | S n' =>
      let i := binfo_of b in
      let id := bid i in
      let k := bkind i in
      let H := if real then hoisted b else [] in
      let sub := fun d => spec_ctx n' (forms_ctx (binfo_of d)) d in
      let atomic := fun d => spec_ctx n' false d in
      let neg := filter (fun d => forms_ctx (binfo_of d) && (blevel d <? 0)%Z) H in
      let mid := filter (fun d => negb (forms_ctx (binfo_of d)) || (blevel d =? 0)%Z) H in
      let pos := filter (fun d => forms_ctx (binfo_of d) && (0 <? blevel d)%Z) H in
      (* a non-invertible transform: the box and its content are not displayed; everything
         else of the enclosing context (later steps, later contexts) is unaffected *)
      if css_not_displayed i then [] else
      (* group effects apply to everything the box paints *)
      wrap EOpacity (bopac i) id
       (wrap ETransform (btrans i && css_transformable k) id
        ((if css_paints_box_decoration k then [Bg id; Border id] else [])   (* 1, 2 *)
         ++ wrap EClip (bclip i && negb (is_page k)) id                       (* overflow clips the content, not the border *)
             (flat_map sub (zsort neg)                                      (* 3 *)
              ++ flat_map block_decoration (flow_desc css_block_level b)    (* 4 *)
              ++ flat_map atomic (flow_floats b)                            (* 5 *)
              ++ (if css_inline_box k then inline_root_paint atomic b else [])   (* 6 *)
              ++ flat_map (block_content atomic)                            (* 7 *)
                   (b :: flow_desc (fun k => css_block_level k || css_cell k) b)
              ++ flat_map sub mid                                           (* 8 *)
              ++ flat_map sub (zsort pos))                                  (* 9 *)
         ++ map (fun d => Outline (bid (binfo_of d))) (flow_all b)))        (* 10 *)
    end.

  (* the root element forms the root stacking context *)
  Definition spec_paint (b : box) : list event := spec_ctx (S (height b)) true b.

  (* a page: page background, canvas, page border; the page children (root
     element, margin boxes) are stacking contexts ordered by level *)
  Definition spec_page (pi : binfo) (canvas : N) (roots : list box) : list event :=
    let n := S (fold_right (fun c m => Nat.max (height c) m) 0 roots) in
    let sub := fun d => spec_ctx n true d in
    [Bg (bid pi); CanvasBg canvas; Border (bid pi)]
    ++ flat_map sub (zsort (filter (fun d => (blevel d <? 0)%Z) roots))
    ++ flat_map sub (filter (fun d => (blevel d =? 0)%Z) roots)
    ++ flat_map sub (zsort (filter (fun d => (0 <? blevel d)%Z) roots))
    ++ [Outline (bid pi)].
End Spec.

(* the declarative order of steps 3 and 9: ascending z-index, then tree order *)
Definition z_then_tree_order (level : binfo -> Z) (zsort : list box -> list box) : Prop :=
  forall l, stable_sorted_of (fun b => level (binfo_of b)) l (zsort l).

(* which boxes form a stacking context: CSS 2.1 9.9.1 (positioned with an
   integer z-index), CSS Color 3 (opacity < 1), CSS Transforms (transform) *)
Definition css_forms_ctx (i : binfo) : bool :=
  (bpos i && match bz i with Some _ => true | None => false end) || bopac i || btrans i.

(* ... and, in this implementation (as in WeasyPrint), every box with
   overflow other than visible: that is how "overflow clipping applies to the
   whole sub-tree of the box that declares it" is realised.  CSS does not make
   such a box a stacking context (see notes/C16.md, finding overflow-ctx). *)
Definition impl_forms_ctx (i : binfo) : bool := css_forms_ctx i || bclip i.

(* 'z-index' applies to positioned boxes only (CSS 2.1 9.9.1) *)
Definition css_level (i : binfo) : Z :=
  if bpos i then match bz i with Some k => k | None => 0%Z end else 0%Z.

(* ------------------------------------------------------------------ well-shaped trees *)
(* The shape layout gives to any box tree (hypothesis of the theorems of
   Properties/C16.v, evaluated on every case by Check/C16.v):
     W0 only parent boxes have children,
     W1 the in-flow children of a box are all line boxes, or none is,
     W2 the in-flow children of a line box / inline box are inline boxes,
        text or inline replaced boxes (inline-blocks being atomic). *)

Definition kept (c : box) : bool :=
  match cl impl_forms_ctx c with CFlow | CAtomic => true | _ => false end.
Definition flow_line (c : box) : bool :=
  match cl impl_forms_ctx c with CFlow => is_linebox (bkind (binfo_of c)) | _ => false end.
Definition inline_ok (c : box) : bool :=
  match cl impl_forms_ctx c with
  | CFlow => match bkind (binfo_of c) with
             | KInline | KText | KInlineReplaced => true
             | _ => false
             end
  | _ => true
  end.

Fixpoint wf_shape (b : box) : bool :=
  match b with
  | Box i cs =>
    (* W0: only parent boxes have children *)
    (is_parent (bkind i) || match cs with [] => true | _ => false end)
    (* W1: a box has only line boxes as in-flow children, or none *)
    && (forallb flow_line (filter kept cs) || forallb (fun c => negb (flow_line c)) (filter kept cs))
    (* W2: line and inline boxes contain inline-level boxes *)
    && (negb (is_line (bkind i)) || forallb inline_ok cs)
    && forallb wf_shape cs
  end.

