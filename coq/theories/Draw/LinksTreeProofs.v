(* Draw/LinksTreeProofs.v -- the transform stack of gatherLinksAndBookmarks
   (Draw/LinksTree.v) against a declarative reading: the matrix under which a
   box is placed is the product of the own matrices of its ancestors-or-self,
   outermost first, and of nothing else (in particular not of a preceding
   sibling or of a box nested in a preceding sibling). *)
From Verif Require Import Draw.LinksTree.
From Coq Require Import List.
Import ListNotations.

(* SPEC: `occurs t chain r`: the box r lies in t, and `chain` lists the own
   matrices (None for an untransformed box) of the boxes on the path from the
   root of t down to r, both included *)
Inductive occurs : tbox -> list (option T) -> rawbox -> Prop :=
| occ_here : forall own r ch, occurs (TBox own (Some r) ch) [own] r
| occ_child : forall own info ch c chain r,
    In c ch -> occurs c chain r -> occurs (TBox own info ch) (own :: chain) r.

(* induction principle with the children as a Forall *)
Section tbox_ind2.
Variable P : tbox -> Prop.
Hypothesis H : forall own info ch, Forall P ch -> P (TBox own info ch).
Fixpoint tbox_ind2 (t : tbox) : P t :=
  match t with
  | TBox own info ch =>
      H own info ch ((fix go (l : list tbox) : Forall P l :=
                        match l with
                        | [] => Forall_nil P
                        | c :: r => Forall_cons c (tbox_ind2 c) (go r)
                        end) ch)
  end.
End tbox_ind2.

Section WithArith.
Variable ar : arith.

(* the product along a chain, starting from the matrix received *)
Definition chain_matrix (m : option T) (chain : list (option T)) : option T :=
  fold_left (comb ar) chain m.

Lemma flatten_occurs : forall t m b,
  In b (flatten ar m t) <->
  exists chain r, occurs t chain r /\ b = place ar (chain_matrix m chain) r.
Proof.
  induction t as [own info ch IH] using tbox_ind2. intros m b.
  cbn [flatten]. rewrite in_app_iff, in_flat_map. split.
  - intros [Hh | [c [Hc Hb]]].
    + destruct info as [r|]; cbn in Hh; [|contradiction].
      destruct Hh as [<- | []]. exists [own], r. split; [constructor | reflexivity].
    + rewrite Forall_forall in IH. apply (IH c Hc) in Hb.
      destruct Hb as [chain [r [Ho ->]]].
      exists (own :: chain), r. split; [econstructor; eassumption | reflexivity].
  - intros [chain [r [Ho ->]]]. inversion Ho; subst.
    + left. cbn. left. reflexivity.
    + right. exists c. split; [assumption|].
      rewrite Forall_forall in IH. apply (IH c); [assumption|].
      exists chain0, r. split; [assumption | reflexivity].
Qed.

(* what follows a sub-tree is placed exactly as if the sub-tree were not there *)
Lemma flatten_siblings : forall own info pre c post m,
  flatten ar m (TBox own info (pre ++ c :: post)) =
  (match info with Some r => [place ar (comb ar m own) r] | None => [] end)
  ++ flat_map (flatten ar (comb ar m own)) pre
  ++ flatten ar (comb ar m own) c
  ++ flat_map (flatten ar (comb ar m own)) post.
Proof.
  intros. cbn [flatten]. rewrite flat_map_app. cbn [flat_map]. reflexivity.
Qed.

(* no transform anywhere: the stored geometry is the hit area itself *)
Lemma chain_none : forall chain, Forall (fun o => o = None) chain -> chain_matrix None chain = None.
Proof.
  induction chain as [|o chain IH]; intros HF; [reflexivity|].
  inversion HF; subst. cbn. apply IH. assumption.
Qed.

End WithArith.
