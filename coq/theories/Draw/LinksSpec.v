(* Draw/LinksSpec.v -- what the property text says about anchors and links,
   stated over the laid-out boxes of the pages in document order, independently
   of how gatherLinksAndBookmarks / resolveLinks compute it.

   "every internal link emitted names an anchor that CreateAnchors defines
    exactly once (the first element with that id), links to missing anchors
    are dropped" *)
From Verif Require Export Draw.Links.
From Coq Require Import List Permutation.
Import ListNotations.

(* b is the first box of the page whose anchor name is n *)
Definition first_in_page (bs : list box) (n : name) (b : box) : Prop :=
  exists pre post, bs = pre ++ b :: post /\ b_anchor b = n /\
                   Forall (fun b' => b_anchor b' <> n) pre.

(* b, on page j, is the first box of the document whose anchor name is n *)
Definition first_def (bpages : list (list box)) (n : name) (j : nat) (b : box) : Prop :=
  n <> [] /\
  exists bs, nth_error bpages j = Some bs /\ first_in_page bs n b /\
    forall i bs', (i < j)%nat -> nth_error bpages i = Some bs' ->
                  Forall (fun b' => b_anchor b' <> n) bs'.

(* some box of the document has anchor name n *)
Definition defined (bpages : list (list box)) (n : name) : Prop :=
  n <> [] /\ exists bs b, In bs bpages /\ In b bs /\ b_anchor b = n.

Definition definedb (bpages : list (list box)) (n : name) : bool :=
  negb (is_empty n) && existsb (existsb (fun b => name_eqb (b_anchor b) n)) bpages.

(* the links of a page, in document order: one per non-text box with a link;
   an external link on an <a rel=attachment> element is an attachment *)
Definition box_link (b : box) : list link :=
  match b_link b with
  | Some (ty, t) =>
      if b_textline b then []
      else [mklink (if ltype_eqb ty LExternal && b_attach b then LAttachment else ty) t (b_rect b)]
  | None => []
  end.
Definition page_links (bs : list box) : list link := flat_map box_link bs.

(* a link is kept unless it is internal and names an undefined anchor *)
Definition keep_spec (bpages : list (list box)) (l : link) : bool :=
  match ltyp l with
  | LInternal => definedb bpages (ltarget l)
  | _ => true
  end.

(* `pages` is what newPage hands to resolveLinks for the boxes `bpages`, the
   anchor map of every page being enumerated in an arbitrary order *)
Definition page_for (bs : list box) (p : page) : Prop :=
  Permutation (p_anchors p) (g_anchors (gather bs)) /\ p_links p = g_links (gather bs).
Definition pages_for (bpages : list (list box)) (pages : list page) : Prop :=
  Forall2 page_for bpages pages.

(* the anchors handed to CreateAnchors are exactly the first definitions *)
Definition anchors_are_first_defs (bpages : list (list box)) (anchors : list (list anchor)) : Prop :=
  length anchors = length bpages /\
  forall j a, In a (nth j anchors []) <->
              exists b, first_def bpages (aname a) j b /\ apos a = b_pos b.

(* every kept internal link has exactly one anchor in the whole document, and
   it is the first definition in document order *)
Definition each_internal_link_has_unique_first_anchor
  (bpages : list (list box)) (links : list (list link)) (anchors : list (list anchor)) : Prop :=
  forall i out l, nth_error links i = Some out -> In l out -> ltyp l = LInternal ->
    exists j a b,
      In a (nth j anchors []) /\ aname a = ltarget l /\
      first_def bpages (ltarget l) j b /\ apos a = b_pos b /\
      forall j' a', In a' (nth j' anchors []) -> aname a' = ltarget l -> j' = j /\ a' = a.

(* nothing but dangling internal links is dropped, order and payload kept *)
Definition only_dangling_dropped (bpages : list (list box)) (links : list (list link)) : Prop :=
  Forall2 (fun bs out => out = filter (keep_spec bpages) (page_links bs)) bpages links.
