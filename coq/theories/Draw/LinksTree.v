(* Draw/LinksTree.v -- the transform stack of gatherLinksAndBookmarks
   (/repo/html/document/document.go:127-185) on the TREE of laid-out boxes.

   Draw/Links.v models what is kept of a box (`gather_box`) on the pre-order
   list of the boxes, with the geometry as a payload.  This file models where
   that geometry comes from:

     :128-135  a box with a CSS transform (getMatrix, C17's) multiplies the
               matrix it RECEIVED from its parent by its own matrix, into a
               FRESH value handed to its children: the matrix of the parent's
               frame is unchanged, the following siblings receive it as it was
     :153      hit area of the box
     :160-164  link rectangle: rectangleAabb (:89-99) under the accumulated
               matrix, [x, y, x+w, y+h] without one
     :167-169  bookmark / anchor position: matrix.Apply of the hit area origin

   Model only, no proofs (Draw/LinksTreeProofs.v).  Written against
   Base.F32.arith: exactQ for the theorems, f32 bit for bit for the tie. *)
From Verif Require Export Base.F32 Geom.Matrix Draw.Links.
From Coq Require Export QArith List NArith ZArith Bool.
Export ListNotations.

(* what gatherLinksAndBookmarks reads of one box, before any transform *)
Record rawbox := mkraw {
  w_anchor : name; w_link : option (ltype * name); w_textline : bool; w_attach : bool;
  w_label : name; w_level : Z; w_open : bool;
  w_x : Q; w_y : Q; w_w : Q; w_h : Q          (* bo.HitArea(box).Unpack() :153 *)
}.

(* a laid-out box: its own matrix when getMatrix says it has one (recorded
   input: computing it is C17's), what is read of it (None: neither id, link
   nor bookmark label: the box only matters through its matrix), children *)
Inductive tbox := TBox (own : option T) (info : option rawbox) (ch : list tbox).

Section WithArith.
Variable ar : arith.

(* :128-135  `t := mt.Mul( *matrix, transform); matrix = &t` / `matrix = &transform` *)
Definition comb (m : option T) (own : option T) : option T :=
  match own with
  | None => m
  | Some t => match m with Some m0 => Some (mult ar m0 t) | None => Some t end
  end.

(* utils.Mins / utils.Maxs (utils/math.go:37-55) on four values *)
Definition min4 (a b c d : Q) : Q := Qminf (Qminf (Qminf a b) c) d.
Definition max4 (a b c d : Q) : Q := Qmaxf (Qmaxf (Qmaxf a b) c) d.

(* :89-99 rectangleAabb *)
Definition rectangle_aabb (m : T) (x y w h : Q) : rect :=
  let '(x1, y1) := apply ar m x y in
  let '(x2, y2) := apply ar m (add ar x w) y in
  let '(x3, y3) := apply ar m x (add ar y h) in
  let '(x4, y4) := apply ar m (add ar x w) (add ar y h) in
  mkrect (min4 x1 x2 x3 x4) (min4 y1 y2 y3 y4) (max4 x1 x2 x3 x4) (max4 y1 y2 y3 y4).

(* :160-169 the geometry stored for a box under the accumulated matrix *)
Definition place (m : option T) (r : rawbox) : box :=
  let rc := match m with
            | Some m0 => rectangle_aabb m0 (w_x r) (w_y r) (w_w r) (w_h r)
            | None => mkrect (w_x r) (w_y r) (add ar (w_x r) (w_w r)) (add ar (w_y r) (w_h r))
            end in
  let p := match m with
           | Some m0 => let '(x, y) := apply ar m0 (w_x r) (w_y r) in mkpos x y
           | None => mkpos (w_x r) (w_y r)
           end in
  mkbox (w_anchor r) (w_link r) (w_textline r) (w_attach r) (w_label r) (w_level r) (w_open r) p rc.

(* the recursion :182-184: pre-order; every child receives the SAME matrix *)
Fixpoint flatten (m : option T) (t : tbox) : list box :=
  let 'TBox own info ch := t in
  let m' := comb m own in
  (match info with Some r => [place m' r] | None => [] end) ++ flat_map (flatten m') ch.

(* newPage: gatherLinksAndBookmarks(pageBox, ..., nil) *)
Definition gather_tree (t : tbox) : gathered := gather (flatten None t).

End WithArith.
