(* Draw/EmitProofs.v -- properties of the model of the page loop of
   Document.Write (Draw/Emit.v): page order, AddPage arguments, linear scaling
   of link rectangles and anchors, and acceptance of the modelled call
   sequences by the backend protocol automaton (Draw/Protocol.v). *)
From Verif Require Import Draw.Emit Draw.ProtocolProofs.
From Coq Require Import List NArith QArith Bool Lia ZifyBool ZifyNat ZifyN.
Import ListNotations.

(* ------------------------------------------------------------------ *)
(* 8. one output page per input page, in order *)

Theorem emit_length : forall ar zoom pages, length (emit ar zoom pages) = length pages.
Proof. intros ar zoom pages. unfold emit. apply map_length. Qed.

Theorem emit_nth : forall ar zoom pages i p,
  nth_error pages i = Some p ->
  nth_error (emit ar zoom pages) i = Some (emit_page ar zoom p).
Proof. intros ar zoom pages i p Hn. unfold emit. apply map_nth_error. exact Hn. Qed.

(* ------------------------------------------------------------------ *)
(* 9. AddPage receives the bleed box in CSS pixels *)
Open Scope Q_scope.

Lemma scale_nonzero : forall zoom, ~ zoom == 0 -> ~ zoom * (3 # 4) == 0.
Proof.
  intros zoom Hz Hs. apply Hz. apply Qmult_integral in Hs.
  destruct Hs as [Hs|Hs]; [exact Hs | discriminate].
Qed.

Theorem addpage_args : forall zoom p, ~ zoom == 0 ->
  let r := o_addpage (emit_page exactQ zoom p) in
  rx0 r == - ep_bl p /\ ry0 r == - ep_bt p /\
  rx1 r == ep_w p + ep_bl p + ep_br p /\ ry1 r == ep_h p + ep_bt p + ep_bb p.
Proof.
  intros zoom p Hz r. subst r. unfold emit_page, scale_of.
  cbn [o_addpage rx0 ry0 rx1 ry1 add sub mul div exactQ].
  pose proof (scale_nonzero zoom Hz) as Hs.
  repeat split; field; exact Hz.
Qed.

(* ------------------------------------------------------------------ *)
(* 10. linear scaling of link rectangles and anchors *)

Theorem links_scaled : forall zoom p,
  let s := zoom * (3 # 4) in
  o_links (emit_page exactQ zoom p) =
  map (fun l => mklink (ltyp l) (ltarget l)
                  (scale_rect exactQ (mk s 0 0 (- s) 0 (ep_h p * s)) (lrect l)))
      (filter emitted (ep_links p)).
Proof. intros zoom p s. reflexivity. Qed.

Theorem anchors_scaled : forall zoom p,
  let s := zoom * (3 # 4) in
  o_anchors (emit_page exactQ zoom p) =
  map (scale_anchor exactQ (mk s 0 0 (- s) 0 (ep_h p * s))) (ep_anchors p).
Proof. intros zoom p s. reflexivity. Qed.

Theorem scale_rect_linear : forall s h r,
  let r' := scale_rect exactQ (mk s 0 0 (- s) 0 (h * s)) r in
  rx0 r' == s * rx0 r /\ ry0 r' == s * (h - ry0 r) /\
  rx1 r' == s * rx1 r /\ ry1 r' == s * (h - ry1 r).
Proof.
  intros s h r r'. subst r'. unfold scale_rect, apply.
  cbn [rx0 ry0 rx1 ry1 A B C D E F add sub mul div exactQ].
  repeat split; ring.
Qed.

Theorem scale_anchor_linear : forall s h a,
  let a' := scale_anchor exactQ (mk s 0 0 (- s) 0 (h * s)) a in
  aname a' = aname a /\
  px (apos a') == s * px (apos a) /\ py (apos a') == s * (h - py (apos a)).
Proof.
  intros s h a a'. subst a'. unfold scale_anchor, apply.
  cbn [aname apos px py A B C D E F add sub mul div exactQ].
  split; [reflexivity|]. split; ring.
Qed.

Theorem links_targets_preserved : forall ar zoom p,
  map (fun l => (ltyp l, ltarget l)) (o_links (emit_page ar zoom p)) =
  map (fun l => (ltyp l, ltarget l)) (filter emitted (ep_links p)).
Proof.
  intros ar zoom p. unfold emit_page. cbn [o_links]. rewrite map_map.
  apply map_ext. intros l. reflexivity.
Qed.

Theorem anchors_names_preserved : forall ar zoom p,
  map aname (o_anchors (emit_page ar zoom p)) = map aname (ep_anchors p).
Proof.
  intros ar zoom p. unfold emit_page. cbn [o_anchors]. rewrite map_map.
  apply map_ext. intros a. reflexivity.
Qed.

(* every emitted link comes from a link of the page, none is dropped or
   reordered except those of an unknown type *)
Theorem links_count : forall ar zoom p,
  length (o_links (emit_page ar zoom p)) = length (filter emitted (ep_links p)).
Proof. intros ar zoom p. unfold emit_page. cbn [o_links]. apply map_length. Qed.

(* ------------------------------------------------------------------ *)
(* 11. coordinates at zoom z are z times the coordinates at zoom 1 *)

Theorem zoom_linear : forall z h r,
  let rz := scale_rect exactQ (mk (z * (3 # 4)) 0 0 (- (z * (3 # 4))) 0 (h * (z * (3 # 4)))) r in
  let r1 := scale_rect exactQ (mk (1 * (3 # 4)) 0 0 (- (1 * (3 # 4))) 0 (h * (1 * (3 # 4)))) r in
  rx0 rz == z * rx0 r1 /\ ry0 rz == z * ry0 r1 /\ rx1 rz == z * rx1 r1 /\ ry1 rz == z * ry1 r1.
Proof.
  intros z h r rz r1. subst rz r1. unfold scale_rect, apply.
  cbn [rx0 ry0 rx1 ry1 A B C D E F add sub mul div exactQ].
  repeat split; ring.
Qed.

Theorem zoom_linear_links : forall z p l,
  In l (o_links (emit_page exactQ z p)) ->
  exists l0 l1, In l0 (filter emitted (ep_links p)) /\
    l = scale_link exactQ (mk (z * (3 # 4)) 0 0 (- (z * (3 # 4))) 0 (ep_h p * (z * (3 # 4)))) l0 /\
    In l1 (o_links (emit_page exactQ 1 p)) /\
    ltyp l = ltyp l1 /\ ltarget l = ltarget l1 /\
    rx0 (lrect l) == z * rx0 (lrect l1) /\ ry0 (lrect l) == z * ry0 (lrect l1) /\
    rx1 (lrect l) == z * rx1 (lrect l1) /\ ry1 (lrect l) == z * ry1 (lrect l1).
Proof.
  intros z p l Hin. unfold emit_page, scale_of in Hin. cbn [o_links mul exactQ] in Hin.
  apply in_map_iff in Hin. destruct Hin as [l0 [Heq Hin0]].
  exists l0, (scale_link exactQ (mk (1 * (3 # 4)) 0 0 (- (1 * (3 # 4))) 0 (ep_h p * (1 * (3 # 4)))) l0).
  split; [exact Hin0|]. split; [symmetry; exact Heq|]. split.
  - unfold emit_page, scale_of. cbn [o_links mul exactQ]. apply in_map. exact Hin0.
  - subst l. unfold scale_link. cbn [ltyp ltarget lrect].
    split; [reflexivity|]. split; [reflexivity|].
    apply (zoom_linear z (ep_h p) (lrect l0)).
Qed.

Print Assumptions emit_length.
Print Assumptions emit_nth.
Print Assumptions addpage_args.
Print Assumptions links_scaled.
Print Assumptions scale_rect_linear.
Print Assumptions scale_anchor_linear.
Print Assumptions links_targets_preserved.
Print Assumptions anchors_names_preserved.
Print Assumptions zoom_linear.
Print Assumptions zoom_linear_links.
