(* Draw/EmitProofs.v -- properties of the model of the page loop of
   Document.Write (Draw/Emit.v): page order, AddPage arguments, linear scaling
   of link rectangles and anchors, and acceptance of the modelled call
   sequences by the backend protocol automaton (Draw/Protocol.v). *)
From Verif Require Import Draw.Emit Draw.ProtocolProofs.
From Coq Require Import List NArith QArith Bool Lia ZifyBool ZifyNat ZifyN.
Import ListNotations.

(* ------------------------------------------------------------------ *)
(* 8. one output page per input page, in order *)

Theorem emit_length : forall ar zoom pages, length (emit ar zoom pages) = length pages.
Proof. intros ar zoom pages. unfold emit. apply map_length. Qed.

Theorem emit_nth : forall ar zoom pages i p,
  nth_error pages i = Some p ->
  nth_error (emit ar zoom pages) i = Some (emit_page ar zoom p).
Proof. intros ar zoom pages i p Hn. unfold emit. apply map_nth_error. exact Hn. Qed.

(* ------------------------------------------------------------------ *)
(* 9. AddPage receives the bleed box in CSS pixels *)
Open Scope Q_scope.

Lemma scale_nonzero : forall zoom, ~ zoom == 0 -> ~ zoom * (3 # 4) == 0.
Proof.
  intros zoom Hz Hs. apply Hz. apply Qmult_integral in Hs.
  destruct Hs as [Hs|Hs]; [exact Hs | discriminate].
Qed.

Theorem addpage_args : forall zoom p, ~ zoom == 0 ->
  let r := o_addpage (emit_page exactQ zoom p) in
  rx0 r == - ep_bl p /\ ry0 r == - ep_bt p /\
  rx1 r == ep_w p + ep_bl p + ep_br p /\ ry1 r == ep_h p + ep_bt p + ep_bb p.
Proof.
  intros zoom p Hz r. subst r. unfold emit_page, scale_of.
  cbn [o_addpage rx0 ry0 rx1 ry1 add sub mul div exactQ].
  pose proof (scale_nonzero zoom Hz) as Hs.
  repeat split; field; exact Hz.
Qed.

(* ------------------------------------------------------------------ *)
(* 10. linear scaling of link rectangles and anchors *)

Theorem links_scaled : forall zoom p,
  let s := zoom * (3 # 4) in
  o_links (emit_page exactQ zoom p) =
  map (fun l => mklink (ltyp l) (ltarget l)
                  (scale_rect exactQ (mk s 0 0 (- s) 0 (ep_h p * s)) (lrect l)))
      (filter emitted (ep_links p)).
Proof. intros zoom p s. reflexivity. Qed.

Theorem anchors_scaled : forall zoom p,
  let s := zoom * (3 # 4) in
  o_anchors (emit_page exactQ zoom p) =
  map (scale_anchor exactQ (mk s 0 0 (- s) 0 (ep_h p * s))) (ep_anchors p).
Proof. intros zoom p s. reflexivity. Qed.

Theorem scale_rect_linear : forall s h r,
  let r' := scale_rect exactQ (mk s 0 0 (- s) 0 (h * s)) r in
  rx0 r' == s * rx0 r /\ ry0 r' == s * (h - ry0 r) /\
  rx1 r' == s * rx1 r /\ ry1 r' == s * (h - ry1 r).
Proof.
  intros s h r r'. subst r'. unfold scale_rect, apply.
  cbn [rx0 ry0 rx1 ry1 A B C D E F add sub mul div exactQ].
  repeat split; ring.
Qed.

Theorem scale_anchor_linear : forall s h a,
  let a' := scale_anchor exactQ (mk s 0 0 (- s) 0 (h * s)) a in
  aname a' = aname a /\
  px (apos a') == s * px (apos a) /\ py (apos a') == s * (h - py (apos a)).
Proof.
  intros s h a a'. subst a'. unfold scale_anchor, apply.
  cbn [aname apos px py A B C D E F add sub mul div exactQ].
  split; [reflexivity|]. split; ring.
Qed.

Theorem links_targets_preserved : forall ar zoom p,
  map (fun l => (ltyp l, ltarget l)) (o_links (emit_page ar zoom p)) =
  map (fun l => (ltyp l, ltarget l)) (filter emitted (ep_links p)).
Proof.
  intros ar zoom p. unfold emit_page. cbn [o_links]. rewrite map_map.
  apply map_ext. intros l. reflexivity.
Qed.

Theorem anchors_names_preserved : forall ar zoom p,
  map aname (o_anchors (emit_page ar zoom p)) = map aname (ep_anchors p).
Proof.
  intros ar zoom p. unfold emit_page. cbn [o_anchors]. rewrite map_map.
  apply map_ext. intros a. reflexivity.
Qed.

(* every emitted link comes from a link of the page, none is dropped or
   reordered except those of an unknown type *)
Theorem links_count : forall ar zoom p,
  length (o_links (emit_page ar zoom p)) = length (filter emitted (ep_links p)).
Proof. intros ar zoom p. unfold emit_page. cbn [o_links]. apply map_length. Qed.

(* ------------------------------------------------------------------ *)
(* 11. coordinates at zoom z are z times the coordinates at zoom 1 *)

Theorem zoom_linear : forall z h r,
  let rz := scale_rect exactQ (mk (z * (3 # 4)) 0 0 (- (z * (3 # 4))) 0 (h * (z * (3 # 4)))) r in
  let r1 := scale_rect exactQ (mk (1 * (3 # 4)) 0 0 (- (1 * (3 # 4))) 0 (h * (1 * (3 # 4)))) r in
  rx0 rz == z * rx0 r1 /\ ry0 rz == z * ry0 r1 /\ rx1 rz == z * rx1 r1 /\ ry1 rz == z * ry1 r1.
Proof.
  intros z h r rz r1. subst rz r1. unfold scale_rect, apply.
  cbn [rx0 ry0 rx1 ry1 A B C D E F add sub mul div exactQ].
  repeat split; ring.
Qed.

Theorem zoom_linear_links : forall z p l,
  In l (o_links (emit_page exactQ z p)) ->
  exists l0 l1, In l0 (filter emitted (ep_links p)) /\
    l = scale_link exactQ (mk (z * (3 # 4)) 0 0 (- (z * (3 # 4))) 0 (ep_h p * (z * (3 # 4)))) l0 /\
    In l1 (o_links (emit_page exactQ 1 p)) /\
    ltyp l = ltyp l1 /\ ltarget l = ltarget l1 /\
    rx0 (lrect l) == z * rx0 (lrect l1) /\ ry0 (lrect l) == z * ry0 (lrect l1) /\
    rx1 (lrect l) == z * rx1 (lrect l1) /\ ry1 (lrect l) == z * ry1 (lrect l1).
Proof.
  intros z p l Hin. unfold emit_page, scale_of in Hin. cbn [o_links mul exactQ] in Hin.
  apply in_map_iff in Hin. destruct Hin as [l0 [Heq Hin0]].
  exists l0, (scale_link exactQ (mk (1 * (3 # 4)) 0 0 (- (1 * (3 # 4))) 0 (ep_h p * (1 * (3 # 4)))) l0).
  split; [exact Hin0|]. split; [symmetry; exact Heq|]. split.
  - unfold emit_page, scale_of. cbn [o_links mul exactQ]. apply in_map. exact Hin0.
  - subst l. unfold scale_link. cbn [ltyp ltarget lrect].
    split; [reflexivity|]. split; [reflexivity|].
    apply (zoom_linear z (ep_h p) (lrect l0)).
Qed.

(* ------------------------------------------------------------------ *)
(* 12. the modelled emitters are accepted by the protocol automaton *)
Open Scope N_scope.

(* st' differs from st at most on canvas c (and by registered fonts) *)
Definition same_off (c : N) (st st' : pstate) : Prop :=
  map fst (canv st') = map fst (canv st) /\
  (forall k, k <> c -> cur st' k = cur st k) /\
  npages st' = npages st /\ closed st' = closed st /\
  (forall k f, pmem k f (fonts st) = true -> pmem k f (fonts st') = true) /\
  pending st' = pending st.

(* ... and the OnNewStack depth of c is the same *)
Definition same_but (c : N) (st st' : pstate) : Prop :=
  same_off c st st' /\ depth (cur st' c) = depth (cur st c).

Lemma same_off_refl : forall c st, same_off c st st.
Proof. intros c st. repeat split. intros k f Hf. exact Hf. Qed.

Lemma same_off_trans : forall c a b d, same_off c a b -> same_off c b d -> same_off c a d.
Proof.
  intros c a b d [Hk1 [Ho1 [Hn1 [Hc1 [Hf1 Hp1]]]]] [Hk2 [Ho2 [Hn2 [Hc2 [Hf2 Hp2]]]]].
  split; [congruence|]. split.
  - intros k Hne. rewrite (Ho2 k Hne). apply Ho1. exact Hne.
  - split; [congruence|]. split; [congruence|]. split; [|congruence].
    intros k f Hf. apply Hf2. apply Hf1. exact Hf.
Qed.

Lemma same_but_refl : forall c st, same_but c st st.
Proof. intros c st. split; [apply same_off_refl | reflexivity]. Qed.

Lemma same_but_trans : forall c a b d, same_but c a b -> same_but c b d -> same_but c a d.
Proof.
  intros c a b d [H1 D1] [H2 D2]. split; [eapply same_off_trans; eassumption | congruence].
Qed.

Lemma same_off_on : forall c st f, same_off c st (on st c f).
Proof.
  intros c st f. split; [|split].
  - unfold on. cbn [canv]. apply update_keys.
  - intros k Hne. apply cur_on_other. intros Heq. apply Hne. symmetry. exact Heq.
  - repeat split. intros k g Hg. exact Hg.
Qed.

Lemma same_but_mark : forall c st k, same_but c st (mark st k).
Proof. intros c st k. split; [|reflexivity]. repeat split. intros j g Hg. exact Hg. Qed.

Lemma keys_lookup : forall (l l' : list (N * cstate)) k,
  map fst l' = map fst l -> (lookup k l' = None <-> lookup k l = None).
Proof. intros l l' k Hk. rewrite !lookup_none_keys, Hk. reflexivity. Qed.

Lemma same_but_keys : forall c st st', same_but c st st' -> map fst (canv st') = map fst (canv st).
Proof. intros c st st' [[Hk _] _]. exact Hk. Qed.

Lemma same_but_lookup : forall c st st' k, same_but c st st' ->
  (lookup k (canv st') = None <-> lookup k (canv st) = None).
Proof. intros c st st' k Hsb. apply keys_lookup. eapply same_but_keys. exact Hsb. Qed.

Lemma same_but_exists : forall c st st' k, same_but c st st' ->
  lookup k (canv st) <> None -> lookup k (canv st') <> None.
Proof. intros c st st' k Hsb Hex Hn. apply Hex. apply (same_but_lookup c st st' k Hsb). exact Hn. Qed.

Lemma same_but_depth : forall c st st', same_but c st st' -> depth (cur st' c) = depth (cur st c).
Proof. intros c st st' [_ Hd]. exact Hd. Qed.

Lemma same_but_other : forall c st st' k, same_but c st st' -> k <> c -> cur st' k = cur st k.
Proof. intros c st st' k [[_ [Ho _]] _] Hne. apply Ho. exact Hne. Qed.

Lemma same_but_npages : forall c st st', same_but c st st' -> npages st' = npages st.
Proof. intros c st st' [[_ [_ [Hn _]]] _]. exact Hn. Qed.

Lemma same_but_closed : forall c st st', same_but c st st' -> closed st' = closed st.
Proof. intros c st st' [[_ [_ [_ [Hc _]]]] _]. exact Hc. Qed.

Lemma same_but_fonts : forall c st st' k f, same_but c st st' ->
  pmem k f (fonts st) = true -> pmem k f (fonts st') = true.
Proof. intros c st st' k f [[_ [_ [_ [_ [Hf _]]]]] _]. apply Hf. Qed.

Lemma same_but_pending : forall c st st', same_but c st st' -> pending st' = pending st.
Proof. intros c st st' [[_ [_ [_ [_ [_ Hp]]]]] _]. exact Hp. Qed.

Lemma cur_on_exists : forall st c f,
  lookup c (canv st) <> None -> cur (on st c f) c = f (cur st c).
Proof.
  intros st c f Hex. rewrite cur_on, N.eqb_refl. unfold cur.
  destruct (lookup c (canv st)); [reflexivity | congruence].
Qed.

Lemma same_but_on_keep : forall c st f,
  (forall s, depth (f s) = depth s) -> same_but c st (on st c f).
Proof.
  intros c st f Hf. split; [apply same_off_on|].
  rewrite cur_on, N.eqb_refl. unfold cur.
  destruct (lookup c (canv st)); [apply Hf | reflexivity].
Qed.

Lemma on_exists : forall st c f k,
  lookup k (canv st) <> None -> lookup k (canv (on st c f)) <> None.
Proof.
  intros st c f k Hex Hn. apply Hex.
  apply (proj1 (keys_lookup (canv st) (update c f (canv st)) k (update_keys c f (canv st)))).
  exact Hn.
Qed.

Lemma guard_on_canvas : forall st x c,
  call_canvas x = Some c -> call_group x = None -> nums_ok (call_nums x) = true ->
  guard_kind st x = 0 -> lookup c (canv st) <> None -> guard st x = 0.
Proof.
  intros st x c Hc Hg Hn Hk Hex. apply guard_zero_intro; [| |exact Hn|exact Hk].
  - rewrite Hc. cbn [exists_canvas]. destruct (lookup c (canv st)); [reflexivity | congruence].
  - rewrite Hg. reflexivity.
Qed.

(* a call on an existing canvas that has no precondition and no effect *)
Lemma run_plain : forall c x st t,
  call_canvas x = Some c -> call_group x = None -> nums_ok (call_nums x) = true ->
  guard_kind st x = 0 -> effect st x = st -> lookup c (canv st) <> None ->
  run st (x :: t) = run st t.
Proof.
  intros c x st t Hc Hg Hn Hk He Hex.
  rewrite run_cons_ok by (eapply guard_on_canvas; eassumption). rewrite He. reflexivity.
Qed.

Lemma set_call_plain : forall c k,
  call_canvas (set_call c k) = Some c /\ call_group (set_call c k) = None /\
  nums_ok (call_nums (set_call c k)) = true /\ is_addpage (set_call c k) = false /\
  forall st, guard_kind st (set_call c k) = 0 /\ effect st (set_call c k) = st.
Proof.
  intros c k. unfold set_call. destruct k as [|p]; [repeat split|].
  destruct p as [q|q|]; try destruct q as [r|r|]; try destruct r as [u|u|]; repeat split.
Qed.

(* induction on programs, through the list of PStack *)
Section ProgInd.
  Variable P : prog -> Prop.
  Hypothesis HSet : forall k, P (PSet k).
  Hypothesis HFill : forall f r op, P (PFill f r op).
  Hypothesis HClip : forall f r eo, P (PClipPath f r eo).
  Hypothesis HStack : forall body, Forall P body -> P (PStack body).
  Hypothesis HText : forall f, P (PText f).
  Hypothesis HImage : P PImage.
  Fixpoint prog_ind' (p : prog) : P p :=
    match p with
    | PSet k => HSet k
    | PFill f r op => HFill f r op
    | PClipPath f r eo => HClip f r eo
    | PStack body =>
        HStack body ((fix go (l : list prog) : Forall P l :=
                        match l with
                        | [] => Forall_nil P
                        | q :: r => Forall_cons q (prog_ind' q) (go r)
                        end) body)
    | PText f => HText f
    | PImage => HImage
    end.
End ProgInd.

Lemma emit_prog_stack : forall c body,
  emit_prog c (PStack body) = CPush c :: emit_progs c body ++ [CPop c].
Proof.
  intros c body. reflexivity.
Qed.

Lemma emit_progs_cons : forall c q r, emit_progs c (q :: r) = emit_prog c q ++ emit_progs c r.
Proof. reflexivity. Qed.

Definition fpath (s : cstate) : cstate := mkc (depth s) true true.
Definition fpaint (s : cstate) : cstate := mkc (depth s) false false.
Definition fpush (s : cstate) : cstate := mkc (depth s + 1) (haspath s) (haspoint s).
Definition fpop (s : cstate) : cstate := mkc (N.pred (depth s)) (haspath s) (haspoint s).

(* the rest of a path, once a current point exists *)
Lemma path_ops_accepted : forall c r st,
  lookup c (canv st) <> None -> haspath (cur st c) = true -> haspoint (cur st c) = true ->
  exists st', run st (map (path_call c) r) = Some st' /\ same_but c st st' /\
              haspath (cur st' c) = true /\ haspoint (cur st' c) = true.
Proof.
  intros c. induction r as [|o r IH]; intros st Hex Hp Hpt.
  - exists st. split; [reflexivity|]. split; [apply same_but_refl|]. split; assumption.
  - cbn [map].
    assert (Hg : guard st (path_call c o) = 0).
    { apply guard_on_canvas with c; [destruct o; reflexivity .. | | exact Hex].
      destruct o; cbn [path_call guard_kind]; try reflexivity; rewrite Hpt; reflexivity. }
    rewrite run_cons_ok by exact Hg.
    assert (Hst : same_but c st (effect st (path_call c o)) /\
                  haspath (cur (effect st (path_call c o)) c) = true /\
                  haspoint (cur (effect st (path_call c o)) c) = true).
    { destruct o; cbn [path_call effect];
        try (split; [apply same_but_refl | split; assumption]).
      - split; [apply same_but_on_keep; reflexivity|].
        rewrite cur_on_exists by exact Hex. split; reflexivity.
      - split; [apply same_but_on_keep; reflexivity|].
        rewrite cur_on_exists by exact Hex. split; reflexivity. }
    destruct Hst as [Hsb [Hp1 Hpt1]].
    destruct (IH _ (same_but_exists _ _ _ _ Hsb Hex) Hp1 Hpt1) as [st' [Hrun [Hsb' [Hp' Hpt']]]].
    exists st'. split; [exact Hrun|]. split; [|split; assumption].
    eapply same_but_trans; eassumption.
Qed.

(* a whole path: the first operator starts it *)
Lemma path_accepted : forall c f r st t,
  starts_path f = true -> lookup c (canv st) <> None ->
  exists st', run st (map (path_call c) (f :: r) ++ t) = run st' t /\ same_but c st st' /\
              haspath (cur st' c) = true.
Proof.
  intros c f r st t Hsp Hex. cbn [map app].
  assert (Hg : guard st (path_call c f) = 0).
  { apply guard_on_canvas with c; [destruct f; reflexivity .. | | exact Hex].
    destruct f; try discriminate; reflexivity. }
  assert (He : effect st (path_call c f) = on st c fpath).
  { destruct f; try discriminate; reflexivity. }
  rewrite run_cons_ok by exact Hg. rewrite He.
  assert (Hsb1 : same_but c st (on st c fpath)) by (apply same_but_on_keep; reflexivity).
  assert (Hc1 : cur (on st c fpath) c = fpath (cur st c)) by (apply cur_on_exists; exact Hex).
  destruct (path_ops_accepted c r (on st c fpath)) as [st2 [Hrun [Hsb2 [Hp2 _]]]].
  - apply on_exists. exact Hex.
  - rewrite Hc1. reflexivity.
  - rewrite Hc1. reflexivity.
  - exists st2. rewrite run_app, Hrun. split; [reflexivity|]. split; [|exact Hp2].
    eapply same_but_trans; eassumption.
Qed.

Definition frag (c : N) (p : prog) : Prop :=
  prog_ok p = true -> forall st, lookup c (canv st) <> None ->
  exists st', run st (emit_prog c p) = Some st' /\ same_but c st st'.

Lemma frags_accepted : forall c body,
  Forall (frag c) body -> forallb prog_ok body = true ->
  forall st, lookup c (canv st) <> None ->
  exists st', run st (emit_progs c body) = Some st' /\ same_but c st st'.
Proof.
  intros c body HF. induction HF as [|q r Hq HF IH]; intros Hok st Hex.
  - exists st. split; [reflexivity | apply same_but_refl].
  - cbn [forallb] in Hok. apply andb_true_iff in Hok. destruct Hok as [Hokq Hokr].
    destruct (Hq Hokq st Hex) as [st1 [Hrun1 Hsb1]].
    destruct (IH Hokr st1 (same_but_exists _ _ _ _ Hsb1 Hex)) as [st2 [Hrun2 Hsb2]].
    exists st2. rewrite emit_progs_cons, run_app, Hrun1. split; [exact Hrun2|].
    eapply same_but_trans; eassumption.
Qed.

Lemma prog_frag : forall c p, frag c p.
Proof.
  intros c. induction p as [k|f r op|f r eo|body IH|f|] using prog_ind'; intros Hok st Hex.
  - (* PSet *)
    destruct (set_call_plain c k) as [Hc [Hg [Hn [_ Hst]]]]. destruct (Hst st) as [Hk He].
    exists st. cbn [emit_prog]. rewrite (run_plain c) by assumption.
    split; [reflexivity | apply same_but_refl].
  - (* PFill *)
    cbn [prog_ok] in Hok. apply andb_true_iff in Hok. destruct Hok as [Hsp Hop].
    cbn [emit_prog].
    destruct (path_accepted c f r st [CPaint c op] Hsp Hex) as [st2 [Hrun [Hsb2 Hp2]]].
    rewrite Hrun.
    assert (Hg : guard st2 (CPaint c op) = 0).
    { apply guard_on_canvas with c; try reflexivity.
      - cbn [guard_kind]. rewrite Hp2. cbn [negb].
        destruct (6 <=? op) eqn:E; [|reflexivity].
        apply N.leb_le in E. apply N.ltb_lt in Hop. lia.
      - eapply same_but_exists; eassumption. }
    rewrite run_cons_ok by exact Hg. cbn [run effect]. exists (mark (on st2 c fpaint) c).
    split; [reflexivity|]. eapply same_but_trans; [exact Hsb2|].
    eapply same_but_trans; [apply (same_but_on_keep c st2 fpaint); reflexivity | apply same_but_mark].
  - (* PClipPath *)
    cbn [prog_ok] in Hok. cbn [emit_prog].
    destruct (path_accepted c f r st [CClip c eo] Hok Hex) as [st2 [Hrun [Hsb2 Hp2]]].
    rewrite Hrun.
    assert (Hg : guard st2 (CClip c eo) = 0).
    { apply guard_on_canvas with c; try reflexivity.
      - cbn [guard_kind]. rewrite Hp2. reflexivity.
      - eapply same_but_exists; eassumption. }
    rewrite run_cons_ok by exact Hg. cbn [run effect]. exists (on st2 c fpaint).
    split; [reflexivity|]. eapply same_but_trans; [exact Hsb2|].
    apply same_but_on_keep. reflexivity.
  - (* PStack *)
    cbn [prog_ok] in Hok. rewrite emit_prog_stack.
    assert (Hg : guard st (CPush c) = 0) by (apply guard_on_canvas with c; try reflexivity; exact Hex).
    rewrite run_cons_ok by exact Hg. cbn [effect]. fold fpush.
    assert (Hex1 : lookup c (canv (on st c fpush)) <> None) by (apply on_exists; exact Hex).
    destruct (frags_accepted c body IH Hok _ Hex1) as [st2 [Hrun2 Hsb2]].
    rewrite run_app, Hrun2.
    assert (Hex2 : lookup c (canv st2) <> None) by (eapply same_but_exists; eassumption).
    assert (Hd2 : depth (cur st2 c) = depth (cur st c) + 1).
    { rewrite (same_but_depth _ _ _ Hsb2). rewrite cur_on_exists by exact Hex. reflexivity. }
    assert (Hg2 : guard st2 (CPop c) = 0).
    { apply guard_on_canvas with c; try reflexivity; [|exact Hex2].
      cbn [guard_kind]. destruct (depth (cur st2 c) =? 0) eqn:E; [|reflexivity].
      apply N.eqb_eq in E. lia. }
    rewrite run_cons_ok by exact Hg2. cbn [run effect]. fold fpop.
    exists (on st2 c fpop). split; [reflexivity|]. split.
    + eapply same_off_trans; [apply same_off_on|].
      eapply same_off_trans; [exact (proj1 Hsb2) | apply same_off_on].
    + rewrite cur_on_exists by exact Hex2. unfold fpop. cbn [depth]. rewrite Hd2. lia.
  - (* PText *)
    cbn [emit_prog].
    assert (Hg : guard st (CAddFont c f) = 0) by (apply guard_on_canvas with c; try reflexivity; exact Hex).
    rewrite run_cons_ok by exact Hg. cbn [effect].
    set (st1 := mkp (canv st) ((c, f) :: fonts st) (npages st) (closed st) (pending st) (dirty st)).
    assert (Hg1 : guard st1 (CDrawText c [f] (K 5)) = 0).
    { apply guard_on_canvas with c; try reflexivity; [|exact Hex].
      cbn [guard_kind forallb]. unfold st1. cbn [fonts]. unfold pmem. cbn [existsb fst snd].
      rewrite !N.eqb_refl. reflexivity. }
    rewrite run_cons_ok by exact Hg1. cbn [run effect]. exists (mark st1 c).
    split; [reflexivity|]. split; [|reflexivity].
    split; [reflexivity|]. split; [intros k _; reflexivity|].
    split; [reflexivity|]. split; [reflexivity|]. split; [|reflexivity].
    intros k g Hm. unfold st1, mark. cbn [fonts]. unfold pmem in *. cbn [existsb]. rewrite Hm.
    apply orb_true_r.
  - (* PImage *)
    cbn [emit_prog].
    assert (Hg : guard st (CDrawImage c (K 2)) = 0) by (apply guard_on_canvas with c; try reflexivity; exact Hex).
    rewrite run_cons_ok by exact Hg. cbn [run effect]. exists (mark st c).
    split; [reflexivity | apply same_but_mark].
Qed.

Theorem prog_fragment_accepted : forall c p st,
  prog_ok p = true -> lookup c (canv st) <> None ->
  exists st', run st (emit_prog c p) = Some st' /\ same_but c st st'.
Proof. intros c p st Hok Hex. exact (prog_frag c p Hok st Hex). Qed.

Theorem progs_fragment_accepted : forall c progs st,
  forallb prog_ok progs = true -> lookup c (canv st) <> None ->
  exists st', run st (emit_progs c progs) = Some st' /\ same_but c st st'.
Proof.
  intros c progs st Hok Hex. apply frags_accepted; [|exact Hok|exact Hex].
  apply Forall_forall. intros q _. apply prog_frag.
Qed.

(* ------------------------------------------------------------------ *)
(* the page loop of Write *)

Lemma run_links : forall c l st t,
  lookup c (canv st) <> None ->
  run st (map (fun k => CPageLink c k (K 4)) l ++ t) = run st t.
Proof.
  intros c l st t Hex. induction l as [|k l IH]; [reflexivity|].
  cbn [map app]. rewrite (run_plain c) by (try reflexivity; exact Hex). exact IH.
Qed.

Lemma run_embed : forall n st t, run st (repeat CEmbed n ++ t) = run st t.
Proof.
  intros n st t. induction n as [|n IH]; [reflexivity|].
  cbn [repeat app]. rewrite run_cons_ok by reflexivity. exact IH.
Qed.

(* one iteration: AddPage, the flip, Page.Paint, the links, the three boxes *)
Theorem page_calls_accepted : forall c links progs st,
  forallb prog_ok progs = true -> lookup c (canv st) = None -> closed st = false ->
  exists st', run st (page_calls c links (emit_progs c progs)) = Some st' /\
    map fst (canv st') = c :: map fst (canv st) /\
    depth (cur st' c) = 0 /\
    (forall k, k <> c -> cur st' k = cur st k) /\
    closed st' = false /\ npages st' = npages st + 1 /\
    (forall k f, pmem k f (fonts st) = true -> pmem k f (fonts st') = true) /\
    pending st' = pending st.
Proof.
  intros c links progs st Hok Hnone Hcl. unfold page_calls, page_paint_calls. cbn [app].
  assert (Hg : guard st (CAddPage c (K 4)) = 0).
  { apply guard_zero_intro; try reflexivity. cbn [guard_kind]. rewrite Hcl, Hnone. reflexivity. }
  rewrite run_cons_ok by exact Hg. cbn [effect]. rewrite Hnone.
  set (st1 := mkp ((c, fresh) :: canv st) (fonts st) (npages st + 1) (closed st) (pending st) (dirty st)).
  assert (Hl1 : lookup c (canv st1) = Some fresh).
  { unfold st1. cbn [canv lookup]. rewrite N.eqb_refl. reflexivity. }
  assert (Hex1 : lookup c (canv st1) <> None) by (rewrite Hl1; discriminate).
  rewrite (run_plain c) by (try reflexivity; exact Hex1).
  assert (Hg1 : guard st1 (CPush c) = 0) by (apply guard_on_canvas with c; try reflexivity; exact Hex1).
  rewrite run_cons_ok by exact Hg1. cbn [effect]. fold fpush.
  set (st2 := on st1 c fpush).
  assert (Hex2 : lookup c (canv st2) <> None) by (apply on_exists; exact Hex1).
  assert (Hd2 : depth (cur st2 c) = 1).
  { unfold st2. rewrite cur_on_exists by exact Hex1. unfold cur. rewrite Hl1. reflexivity. }
  rewrite (run_plain c) by (try reflexivity; exact Hex2).
  destruct (progs_fragment_accepted c progs st2 Hok Hex2) as [st3 [Hrun3 Hsb3]].
  rewrite <- app_assoc. rewrite run_app, Hrun3.
  assert (Hex3 : lookup c (canv st3) <> None) by (eapply same_but_exists; eassumption).
  assert (Hd3 : depth (cur st3 c) = 1) by (rewrite (same_but_depth _ _ _ Hsb3); exact Hd2).
  assert (Hg3 : guard st3 (CPop c) = 0).
  { apply guard_on_canvas with c; try reflexivity; [|exact Hex3].
    cbn [guard_kind]. rewrite Hd3. reflexivity. }
  cbn [app]. rewrite run_cons_ok by exact Hg3. cbn [effect]. fold fpop.
  set (st4 := on st3 c fpop).
  assert (Hex4 : lookup c (canv st4) <> None) by (apply on_exists; exact Hex3).
  rewrite run_links by exact Hex4.
  rewrite !(run_plain c) by (try reflexivity; exact Hex4). cbn [run].
  exists st4. split; [reflexivity|]. split; [|split; [|split; [|split; [|split; [|split]]]]].
  - unfold st4, on. cbn [canv]. rewrite update_keys. rewrite (same_but_keys _ _ _ Hsb3).
    unfold st2, on. cbn [canv]. rewrite update_keys. reflexivity.
  - unfold st4. rewrite cur_on_exists by exact Hex3. unfold fpop. cbn [depth]. rewrite Hd3. reflexivity.
  - intros k Hne.
    assert (Hne' : c <> k) by (intros Heq; apply Hne; symmetry; exact Heq).
    unfold st4. rewrite cur_on_other by exact Hne'.
    rewrite (same_but_other _ _ _ _ Hsb3 Hne).
    unfold st2. rewrite cur_on_other by exact Hne'.
    unfold st1. apply cur_add. exact Hnone.
  - change (closed st4) with (closed st3). rewrite (same_but_closed _ _ _ Hsb3). exact Hcl.
  - change (npages st4) with (npages st3). rewrite (same_but_npages _ _ _ Hsb3). reflexivity.
  - intros k f Hm. change (fonts st4) with (fonts st3).
    apply (same_but_fonts _ _ _ k f Hsb3). exact Hm.
  - change (pending st4) with (pending st3). rewrite (same_but_pending _ _ _ Hsb3). reflexivity.
Qed.

Definition all_zero (st : pstate) : Prop := forall k, depth (cur st k) = 0.

Lemma all_zero_balanced : forall st,
  NoDup (map fst (canv st)) -> all_zero st -> balanced st = true.
Proof.
  intros st Hnd Hz. unfold balanced. apply forallb_forall. intros [k s] Hin. cbn [snd].
  apply N.eqb_eq. specialize (Hz k). unfold cur in Hz.
  rewrite (lookup_in_nodup _ _ _ Hnd Hin) in Hz. exact Hz.
Qed.

Definition paint_ok (p : wpage) : Prop :=
  exists progs, w_paint p = emit_progs (w_canvas p) progs /\ forallb prog_ok progs = true.

Lemma pages_loop : forall pages st,
  closed st = false -> NoDup (map fst (canv st)) -> all_zero st ->
  NoDup (map w_canvas pages) ->
  (forall p, In p pages -> ~ In (w_canvas p) (map fst (canv st))) ->
  (forall p, In p pages -> paint_ok p) ->
  exists st',
    run st (flat_map (fun p => page_calls (w_canvas p) (w_links p) (w_paint p)) pages) = Some st' /\
    closed st' = false /\ NoDup (map fst (canv st')) /\ all_zero st' /\
    npages st' = npages st + N.of_nat (length pages) /\
    map fst (canv st') = rev (map w_canvas pages) ++ map fst (canv st) /\
    pending st' = pending st.
Proof.
  induction pages as [|p pages IH]; intros st Hcl Hnd Hz Hndp Hfresh Hpaint.
  - exists st. cbn [flat_map length rev map app]. repeat split; try assumption. lia.
  - cbn [flat_map]. rewrite run_app.
    destruct (Hpaint p (or_introl eq_refl)) as [progs [Hwp Hok]]. rewrite Hwp.
    assert (Hnone : lookup (w_canvas p) (canv st) = None).
    { apply lookup_none_keys. apply Hfresh. left. reflexivity. }
    destruct (page_calls_accepted (w_canvas p) (w_links p) progs st Hok Hnone Hcl)
      as [st1 [Hrun1 [Hk1 [Hd1 [Ho1 [Hcl1 [Hn1 [_ Hpe1]]]]]]]].
    rewrite Hrun1.
    cbn [map] in Hndp. inversion Hndp as [|c0 l0 Hnotin Hndp']. subst c0 l0.
    destruct (IH st1) as [st' [Hrun' [Hcl' [Hnd' [Hz' [Hn' [Hk' Hpe']]]]]]].
    + exact Hcl1.
    + rewrite Hk1. constructor; [apply Hfresh; left; reflexivity | exact Hnd].
    + intros k. destruct (N.eq_dec k (w_canvas p)) as [Heq|Hne].
      * subst k. exact Hd1.
      * rewrite (Ho1 k Hne). apply Hz.
    + exact Hndp'.
    + intros q Hq. rewrite Hk1. intros [Heq|Hin].
      * apply Hnotin. rewrite Heq. apply in_map. exact Hq.
      * apply (Hfresh q); [right; exact Hq | exact Hin].
    + intros q Hq. apply Hpaint. right. exact Hq.
    + exists st'. split; [exact Hrun'|]. split; [exact Hcl'|]. split; [exact Hnd'|].
      split; [exact Hz'|]. split; [|split].
      * rewrite Hn', Hn1. cbn [length]. lia.
      * rewrite Hk', Hk1. cbn [map rev]. rewrite <- app_assoc. reflexivity.
      * congruence.
Qed.

Definition is_doc (x : call) : Prop := exists k n, x = CDoc k (K n).

Lemma run_docs : forall l st, Forall is_doc l ->
  exists st', run st l = Some st' /\ canv st' = canv st /\ npages st' = npages st /\ pending st' = pending st.
Proof.
  induction l as [|x l IH]; intros st HF.
  - exists st. repeat split.
  - inversion HF as [|x0 l0 Hx HF']. subst x0 l0. destruct Hx as [k [n Hx]]. subst x.
    rewrite run_cons_ok by reflexivity. cbn [effect].
    destruct (IH (mkp (canv st) (fonts st) (npages st) true (pending st) (dirty st)) HF') as [st' [Hrun [Hc [Hn Hp]]]].
    exists st'. split; [exact Hrun|]. split; [exact Hc|]. split; [exact Hn | exact Hp].
Qed.

Lemma trailer_docs : forall na nb, Forall is_doc (trailer_calls na nb).
Proof.
  intros na nb. unfold trailer_calls. apply Forall_app. split.
  - repeat constructor; eexists; eexists; reflexivity.
  - apply Forall_forall. intros x Hx. apply repeat_spec in Hx. subst x.
    eexists; eexists; reflexivity.
Qed.

Lemma write_calls_run : forall nembed pages na nb,
  NoDup (map w_canvas pages) -> (forall p, In p pages -> paint_ok p) ->
  exists st, run pinit (write_calls nembed pages na nb) = Some st /\
    balanced st && complete st = true /\ npages st = N.of_nat (length pages) /\
    map fst (canv st) = rev (map w_canvas pages).
Proof.
  intros nembed pages na nb Hnd Hpaint. unfold write_calls. rewrite run_embed, run_app.
  destruct (pages_loop pages pinit) as [st1 [Hrun1 [_ [Hnd1 [Hz1 [Hn1 [Hk1 Hpe1]]]]]]].
  - reflexivity.
  - constructor.
  - intros k. reflexivity.
  - exact Hnd.
  - intros p _ Hin. exact Hin.
  - exact Hpaint.
  - rewrite Hrun1.
    destruct (run_docs (trailer_calls na nb) st1 (trailer_docs na nb)) as [st2 [Hrun2 [Hc2 [Hn2 Hpe2]]]].
    exists st2. split; [exact Hrun2|]. split; [|split].
    + apply andb_true_iff. split.
      * unfold balanced. rewrite Hc2. apply all_zero_balanced; assumption.
      * unfold complete, orphans. rewrite Hpe2, Hpe1. reflexivity.
    + rewrite Hn2, Hn1. cbn [pinit npages]. lia.
    + rewrite Hc2, Hk1. cbn [pinit canv map]. apply app_nil_r.
Qed.

Theorem write_calls_accepted : forall nembed pages na nb,
  NoDup (map w_canvas pages) ->
  (forall p, In p pages -> exists progs,
     w_paint p = emit_progs (w_canvas p) progs /\ forallb prog_ok progs = true) ->
  accept (write_calls nembed pages na nb) = true.
Proof.
  intros nembed pages na nb Hnd Hpaint.
  destruct (write_calls_run nembed pages na nb Hnd Hpaint) as [st [Hrun [Hb _]]].
  unfold accept. rewrite Hrun. exact Hb.
Qed.

(* the AddPage calls of Write: one per page, in page order *)
Lemma set_call_not_addpage : forall c k, is_addpage (set_call c k) = false.
Proof. intros c k. apply (set_call_plain c k). Qed.

Lemma path_calls_no_addpage : forall c r, filter is_addpage (map (path_call c) r) = [].
Proof.
  intros c. induction r as [|o r IH]; [reflexivity|].
  cbn [map filter]. destruct o; cbn [path_call is_addpage]; exact IH.
Qed.

Lemma emit_prog_no_addpage : forall c p, filter is_addpage (emit_prog c p) = [].
Proof.
  intros c. induction p as [k|f r op|f r eo|body IH|f|] using prog_ind'.
  - cbn [emit_prog filter]. rewrite set_call_not_addpage. reflexivity.
  - cbn [emit_prog]. rewrite filter_app, path_calls_no_addpage. reflexivity.
  - cbn [emit_prog]. rewrite filter_app, path_calls_no_addpage. reflexivity.
  - rewrite emit_prog_stack. cbn [filter is_addpage]. rewrite filter_app. cbn [filter is_addpage].
    rewrite app_nil_r. induction IH as [|q r Hq _ IHr]; [reflexivity|].
    rewrite emit_progs_cons, filter_app, Hq, IHr. reflexivity.
  - reflexivity.
  - reflexivity.
Qed.

Lemma emit_progs_no_addpage : forall c l, filter is_addpage (emit_progs c l) = [].
Proof.
  intros c. induction l as [|q r IH]; [reflexivity|].
  rewrite emit_progs_cons, filter_app, emit_prog_no_addpage, IH. reflexivity.
Qed.

Lemma page_calls_addpage : forall c links paint,
  filter is_addpage paint = [] ->
  filter is_addpage (page_calls c links paint) = [CAddPage c (K 4)].
Proof.
  intros c links paint Hp. unfold page_calls, page_paint_calls.
  rewrite !filter_app, Hp. cbn [filter is_addpage app]. f_equal.
  induction links as [|k l IH]; [reflexivity|]. cbn [map filter is_addpage app]. exact IH.
Qed.

Theorem write_calls_addpages : forall nembed pages na nb,
  (forall p, In p pages -> exists progs,
     w_paint p = emit_progs (w_canvas p) progs /\ forallb prog_ok progs = true) ->
  filter is_addpage (write_calls nembed pages na nb) =
  map (fun p => CAddPage (w_canvas p) (K 4)) pages.
Proof.
  intros nembed pages na nb Hpaint. unfold write_calls. rewrite !filter_app.
  replace (filter is_addpage (repeat CEmbed nembed)) with (@nil call)
    by (induction nembed as [|n IH]; [reflexivity | exact IH]).
  replace (filter is_addpage (trailer_calls na nb)) with (@nil call) by reflexivity.
  rewrite app_nil_r. cbn [app].
  induction pages as [|p pages IH]; [reflexivity|].
  cbn [flat_map map]. rewrite filter_app.
  destruct (Hpaint p (or_introl eq_refl)) as [progs [Hwp _]].
  rewrite page_calls_addpage by (rewrite Hwp; apply emit_progs_no_addpage).
  cbn [app]. f_equal. apply IH. intros q Hq. apply Hpaint. right. exact Hq.
Qed.

Theorem write_calls_count : forall nembed pages na nb,
  (forall p, In p pages -> exists progs,
     w_paint p = emit_progs (w_canvas p) progs /\ forallb prog_ok progs = true) ->
  count_pages (write_calls nembed pages na nb) = N.of_nat (length pages).
Proof.
  intros nembed pages na nb Hpaint.
  rewrite count_pages_filter, (write_calls_addpages _ _ _ _ Hpaint), map_length. reflexivity.
Qed.

Print Assumptions emit_length.
Print Assumptions emit_nth.
Print Assumptions addpage_args.
Print Assumptions links_scaled.
Print Assumptions scale_rect_linear.
Print Assumptions scale_anchor_linear.
Print Assumptions links_targets_preserved.
Print Assumptions anchors_names_preserved.
Print Assumptions zoom_linear.
Print Assumptions zoom_linear_links.
Print Assumptions prog_fragment_accepted.
Print Assumptions progs_fragment_accepted.
Print Assumptions page_calls_accepted.
Print Assumptions write_calls_accepted.
Print Assumptions write_calls_addpages.
Print Assumptions write_calls_count.
