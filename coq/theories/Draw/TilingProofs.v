(* Draw/TilingProofs.v -- the tiling arithmetic of drawBackgroundImage
   (Draw/Tiling.v, exact arithmetic) against CSS Backgrounds 3, 3.4
   (background-repeat):

     space: "the image is repeated as often as will fit within the background
     positioning area without being clipped and then the images are spaced out
     to fill the area.  The first and last images touch the edges of the area.
     [...] The value of background-position for this direction is ignored,
     unless there is not sufficient space for two copies of the image, in which
     case only one image is placed and background-position determines its
     position in this direction."

   The k-th copy (k = 0 .. n-1) of the tile starts at k * tcell from the origin
   of the positioning area (the pattern has period `tcell` and is translated by
   `tshift`). *)
From Verif Require Import Draw.Tiling.
From Coq Require Import QArith Qround ZArith Lia Lqa Bool.
Open Scope Q_scope.

Definition tcount := n_tiles exactQ.
Definition tcell (a : axis) : Q := o_cell (tile_axis exactQ a).
Definition tshift (a : axis) : Q := o_shift (tile_axis exactQ a).

Lemma n_tiles_max : forall a, 0 < a_img a ->
  inject_Z (tcount a) * a_img a <= a_posw a /\ a_posw a < inject_Z (tcount a + 1) * a_img a.
Proof.
  intros a Himg. unfold tcount, n_tiles. cbn [div exactQ].
  set (q := a_posw a / a_img a).
  assert (Hq : q * a_img a == a_posw a).
  { unfold q. field. intro H0. rewrite H0 in Himg. apply (Qlt_irrefl 0 Himg). }
  pose proof (Qfloor_le q) as Hle. pose proof (Qlt_floor q) as Hlt.
  split.
  - rewrite <- Hq. apply Qmult_le_compat_r; [exact Hle | apply Qlt_le_weak; exact Himg].
  - rewrite <- Hq. apply Qmult_lt_compat_r; [exact Himg | exact Hlt].
Qed.

Lemma inject_Z_pred : forall n : Z, inject_Z n - 1 == inject_Z (n - 1).
Proof. intro n. unfold Zminus. rewrite inject_Z_plus. reflexivity. Qed.

Lemma two_le_pos : forall n : Z, (2 <= n)%Z -> 0 < inject_Z (n - 1).
Proof. intros n Hn. change 0 with (inject_Z 0). rewrite <- Zlt_Qlt. lia. Qed.

Lemma cell_space_eq : forall a, a_rep a = RSpace -> (2 <= tcount a)%Z ->
  tcell a == (a_posw a - a_img a) / inject_Z (tcount a - 1) /\ tshift a == a_pos0 a.
Proof.
  intros a Hrep Hn. unfold tcell, tshift, tile_axis, cell_at. rewrite Hrep.
  fold tcount. apply Z.leb_le in Hn. fold (n_tiles exactQ a). change (n_tiles exactQ a) with (tcount a).
  rewrite Hn. cbn [o_cell o_shift add sub div exactQ]. split.
  - rewrite inject_Z_pred. reflexivity.
  - ring.
Qed.

(* first copy at the origin, last copy ends at the far edge, equal gaps *)
Lemma space_fills : forall a, a_rep a = RSpace -> 0 < a_img a -> (2 <= tcount a)%Z ->
  inject_Z (tcount a - 1) * tcell a + a_img a == a_posw a.
Proof.
  intros a Hrep Himg Hn. destruct (cell_space_eq a Hrep Hn) as [Hc _]. rewrite Hc.
  pose proof (two_le_pos _ Hn) as Hpos.
  field. intro H0. rewrite H0 in Hpos. apply (Qlt_irrefl 0 Hpos).
Qed.

(* the copies do not overlap: the period is at least the tile *)
Lemma space_no_overlap : forall a, a_rep a = RSpace -> 0 < a_img a -> (2 <= tcount a)%Z ->
  a_img a <= tcell a.
Proof.
  intros a Hrep Himg Hn.
  pose proof (space_fills a Hrep Himg Hn) as Hf.
  destruct (n_tiles_max a Himg) as [Hmax _].
  pose proof (two_le_pos _ Hn) as Hpos.
  set (m := inject_Z (tcount a - 1)) in *.
  assert (Hn1 : inject_Z (tcount a) == m + 1).
  { unfold m. rewrite <- inject_Z_pred. ring. }
  rewrite Hn1 in Hmax.
  (* m * tcell + img = P >= (m + 1) * img  =>  m * tcell >= m * img *)
  assert (Hm : m * a_img a <= m * tcell a).
  { apply Qplus_le_l with (z := a_img a). rewrite Hf.
    setoid_replace (m * a_img a + a_img a) with ((m + 1) * a_img a) by ring. exact Hmax. }
  apply Qmult_lt_0_le_reg_r with (z := m); [exact Hpos |].
  setoid_replace (a_img a * m) with (m * a_img a) by ring.
  setoid_replace (tcell a * m) with (m * tcell a) by ring. exact Hm.
Qed.

(* fewer than two copies fit: one image, placed by background-position *)
Lemma space_single : forall a, a_rep a = RSpace -> (tcount a < 2)%Z ->
  tcell a == a_posw a /\ tshift a == a_at a + a_pos0 a.
Proof.
  intros a Hrep Hn. unfold tcell, tshift, tile_axis, cell_at. rewrite Hrep.
  change (n_tiles exactQ a) with (tcount a).
  assert (Hb : (2 <=? tcount a)%Z = false) by (apply Z.leb_gt; exact Hn).
  rewrite Hb. cbn [o_cell o_shift add exactQ]. split; reflexivity.
Qed.

(* repeat / round: period = tile, placed by background-position *)
Lemma repeat_cell : forall a, a_rep a = RRepeat \/ a_rep a = RRound ->
  tcell a == a_img a /\ tshift a == a_at a + a_pos0 a.
Proof.
  intros a [H | H]; unfold tcell, tshift, tile_axis, cell_at; rewrite H; cbn [o_cell o_shift add exactQ]; split; reflexivity.
Qed.

(* no-repeat: the cell holds the whole tile and is at least twice the painting
   area, so that no second copy can show (draw.go:489-493) *)
Lemma no_repeat_cell : forall a, a_rep a = RNoRepeat ->
  a_img a <= tcell a /\ 2 * a_paintw a <= tcell a /\ tshift a == a_at a + a_pos0 a.
Proof.
  intros a H. unfold tcell, tshift, tile_axis, cell_at. rewrite H. cbn [o_cell o_shift add mul exactQ].
  unfold qmax. destruct (Qlt_le_dec (a_img a) (2 * a_paintw a)) as [Hlt | Hle].
  - split; [apply Qlt_le_weak; exact Hlt | split; [apply Qle_refl | reflexivity]].
  - split; [apply Qle_refl | split; [exact Hle | reflexivity]].
Qed.

(* the pattern cell holds a whole tile whenever at least one copy fits *)
Lemma cell_holds_tile : forall a, 0 < a_img a -> (a_rep a <> RSpace \/ (1 <= tcount a)%Z) ->
  a_img a <= tcell a.
Proof.
  intros a Himg Hc. destruct (a_rep a) eqn:Hrep.
  - apply (no_repeat_cell a Hrep).
  - destruct (repeat_cell a (or_introl Hrep)) as [He _]. rewrite He. apply Qle_refl.
  - destruct (repeat_cell a (or_intror Hrep)) as [He _]. rewrite He. apply Qle_refl.
  - destruct Hc as [Hc | Hc]; [congruence |].
    destruct (Z_lt_le_dec (tcount a) 2) as [Hlt | Hge].
    + destruct (space_single a Hrep Hlt) as [He _]. rewrite He.
      destruct (n_tiles_max a Himg) as [Hmax _].
      assert (H1 : tcount a = 1%Z) by lia. rewrite H1 in Hmax.
      setoid_replace (a_img a) with (inject_Z 1 * a_img a) by (unfold inject_Z; ring). exact Hmax.
    + apply space_no_overlap; assumption.
Qed.

(* the cell of a drawn layer is positive (so the backend never gets an empty
   or negative pattern) when the tile and the areas are *)
Lemma cell_positive : forall a, 0 < a_img a -> (a_rep a <> RSpace \/ (1 <= tcount a)%Z) -> 0 < tcell a.
Proof.
  intros a Himg Hc. apply Qlt_le_trans with (y := a_img a); [exact Himg | apply cell_holds_tile; assumption].
Qed.

(* the three clauses of "space" with at least two copies, together *)
Lemma space_spec : forall a, a_rep a = RSpace -> 0 < a_img a -> (2 <= tcount a)%Z ->
  inject_Z (tcount a - 1) * tcell a + a_img a == a_posw a /\ a_img a <= tcell a /\ tshift a == a_pos0 a.
Proof.
  intros a Hrep Himg Hn. split; [apply space_fills; assumption |].
  split; [apply space_no_overlap; assumption | apply (cell_space_eq a Hrep Hn)].
Qed.

Lemma cell_holds_tile_positive : forall a, 0 < a_img a -> (a_rep a <> RSpace \/ (1 <= tcount a)%Z) ->
  a_img a <= tcell a /\ 0 < tcell a.
Proof. intros a Himg Hc. split; [apply cell_holds_tile | apply cell_positive]; assumption. Qed.
