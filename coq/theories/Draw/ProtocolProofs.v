(* Draw/ProtocolProofs.v -- lemmas about the backend protocol automaton of
   Draw/Protocol.v: prefix closure, the monitor agrees with the strict
   automaton, path construction precedes Paint / Clip, AddFont precedes
   DrawText, pages are counted, accepted traces carry finite numbers. *)
From Verif Require Import Draw.Protocol.
From Coq Require Import List NArith Bool Lia ZifyBool ZifyNat ZifyN.
Import ListNotations.
Open Scope N_scope.

(* ------------------------------------------------------------------ *)
(* run / step / guard basics *)

Lemma run_app : forall t1 t2 st,
  run st (t1 ++ t2) = match run st t1 with Some st' => run st' t2 | None => None end.
Proof.
  induction t1 as [|x t1 IH]; intros t2 st; cbn [run app].
  - reflexivity.
  - destruct (step st x) as [s1|]; [apply IH | reflexivity].
Qed.

Theorem protocol_prefix_closed : forall t1 t2 st st',
  run st (t1 ++ t2) = Some st' -> exists st1, run st t1 = Some st1.
Proof.
  intros t1 t2 st st' Hrun. rewrite run_app in Hrun.
  destruct (run st t1) as [s1|]; [exists s1; reflexivity | discriminate].
Qed.

Corollary accepted_prefix_runs : forall t1 t2,
  accept (t1 ++ t2) = true -> exists st1, run pinit t1 = Some st1.
Proof.
  intros t1 t2 Hacc. unfold accept in Hacc.
  destruct (run pinit (t1 ++ t2)) as [s|] eqn:Hrun; [|discriminate].
  eapply protocol_prefix_closed; exact Hrun.
Qed.

Lemma step_some : forall st x st',
  step st x = Some st' <-> guard st x = 0 /\ st' = effect st x.
Proof.
  intros st x st'. unfold step. destruct (guard st x =? 0) eqn:Hg.
  - apply N.eqb_eq in Hg. split.
    + intros Heq. injection Heq as Heq. split; [exact Hg | symmetry; exact Heq].
    + intros [_ Heq]. subst st'. reflexivity.
  - apply N.eqb_neq in Hg. split.
    + discriminate.
    + intros [Hz _]. contradiction.
Qed.

Lemma step_ok : forall st x, guard st x = 0 -> step st x = Some (effect st x).
Proof. intros st x Hg. apply step_some. split; [exact Hg | reflexivity]. Qed.

Lemma run_cons_ok : forall st x t, guard st x = 0 -> run st (x :: t) = run (effect st x) t.
Proof. intros st x t Hg. cbn [run]. rewrite (step_ok _ _ Hg). reflexivity. Qed.

Lemma run_cons_some : forall st x t st',
  run st (x :: t) = Some st' -> guard st x = 0 /\ run (effect st x) t = Some st'.
Proof.
  intros st x t st' Hrun. cbn [run] in Hrun.
  destruct (step st x) as [s1|] eqn:Hs; [|discriminate].
  apply step_some in Hs. destruct Hs as [Hg Heq]. subst s1. split; assumption.
Qed.

Lemma guard_zero : forall st x, guard st x = 0 ->
  exists_canvas st (call_canvas x) = true /\ exists_canvas st (call_group x) = true /\
  nums_ok (call_nums x) = true /\ guard_kind st x = 0.
Proof.
  intros st x. unfold guard.
  destruct (exists_canvas st (call_canvas x)); cbn [negb]; [|discriminate].
  destruct (exists_canvas st (call_group x)); cbn [negb]; [|discriminate].
  destruct (nums_ok (call_nums x)); cbn [negb]; [|discriminate].
  intros Hk. repeat split. exact Hk.
Qed.

Lemma guard_zero_intro : forall st x,
  exists_canvas st (call_canvas x) = true -> exists_canvas st (call_group x) = true ->
  nums_ok (call_nums x) = true -> guard_kind st x = 0 -> guard st x = 0.
Proof.
  intros st x Hc Hg Hn Hk. unfold guard. rewrite Hc, Hg, Hn. cbn [negb]. exact Hk.
Qed.

(* an invariant of the strict automaton, relating the trace read so far and
   the state *)
Lemma run_inv : forall (P : list call -> pstate -> Prop),
  (forall t st x st', P t st -> step st x = Some st' -> P (t ++ [x]) st') ->
  forall t st0 t0 st, P t0 st0 -> run st0 t = Some st -> P (t0 ++ t) st.
Proof.
  intros P Hstep. induction t as [|x t IH]; intros st0 t0 st HP Hrun.
  - cbn [run] in Hrun. injection Hrun as Hrun. subst st. rewrite app_nil_r. exact HP.
  - cbn [run] in Hrun. destruct (step st0 x) as [s1|] eqn:Hs; [|discriminate].
    replace (t0 ++ x :: t) with ((t0 ++ [x]) ++ t) by (rewrite <- app_assoc; reflexivity).
    eapply IH; [|exact Hrun]. eapply Hstep; [exact HP | exact Hs].
Qed.

(* ------------------------------------------------------------------ *)
(* monitor *)

Theorem monitor_sound : forall t st i,
  fst (monitor_from i st t) = [] <-> exists st', run st t = Some st'.
Proof.
  induction t as [|x t IH]; intros st i.
  - cbn [monitor_from run fst]. split; [intros _; exists st; reflexivity | reflexivity].
  - cbn [monitor_from run]. unfold step.
    specialize (IH (effect st x) (N.succ i)).
    destruct (monitor_from (N.succ i) (effect st x) t) as [l s'] eqn:Hm.
    cbn [fst] in *. destruct (guard st x =? 0).
    + exact IH.
    + split; [discriminate | intros [s Hs]; discriminate].
Qed.

Theorem monitor_state : forall t st i st',
  run st t = Some st' -> snd (monitor_from i st t) = st'.
Proof.
  induction t as [|x t IH]; intros st i st' Hrun.
  - cbn [run] in Hrun. injection Hrun as Hrun. exact Hrun.
  - apply run_cons_some in Hrun. destruct Hrun as [_ Hrun].
    cbn [monitor_from]. specialize (IH (effect st x) (N.succ i) st' Hrun).
    destruct (monitor_from (N.succ i) (effect st x) t) as [l s'] eqn:Hm.
    cbn [snd] in *. exact IH.
Qed.

Corollary monitor_accept : forall t,
  fst (monitor t) = [] /\ balanced (snd (monitor t)) && complete (snd (monitor t)) = true <-> accept t = true.
Proof.
  intros t. unfold monitor, accept. split.
  - intros [Hm Hb]. apply monitor_sound in Hm. destruct Hm as [s Hs].
    rewrite Hs. rewrite (monitor_state _ _ 0 _ Hs) in Hb. exact Hb.
  - intros Hacc. destruct (run pinit t) as [s|] eqn:Hs; [|discriminate]. split.
    + apply monitor_sound. exists s. exact Hs.
    + rewrite (monitor_state _ _ 0 _ Hs). exact Hacc.
Qed.

(* ------------------------------------------------------------------ *)
(* lookup / update / cur *)

Lemma lookup_update : forall c k f l,
  lookup c (update k f l) = if N.eqb k c then option_map f (lookup c l) else lookup c l.
Proof.
  intros c k f. induction l as [|[j s] l IH]; cbn [update lookup].
  - destruct (N.eqb k c); reflexivity.
  - destruct (N.eqb j k) eqn:Ejk.
    + apply N.eqb_eq in Ejk. subst j. cbn [lookup].
      destruct (N.eqb k c) eqn:E; cbn [option_map]; reflexivity.
    + cbn [lookup]. rewrite IH.
      destruct (N.eqb j c) eqn:Ejc; destruct (N.eqb k c) eqn:Ekc; cbn [option_map]; try reflexivity.
      apply N.eqb_eq in Ejc. apply N.eqb_eq in Ekc. subst j. subst k.
      rewrite N.eqb_refl in Ejk. discriminate.
Qed.

Lemma update_keys : forall k f l, map fst (update k f l) = map fst l.
Proof.
  intros k f. induction l as [|[j s] l IH]; cbn [update map fst]; [reflexivity|].
  destruct (N.eqb j k); cbn [map fst]; [reflexivity | rewrite IH; reflexivity].
Qed.

Lemma lookup_none_keys : forall k l, lookup k l = None <-> ~ In k (map fst l).
Proof.
  intros k. induction l as [|[j s] l IH]; cbn [lookup map fst In].
  - split; [intros _ H; exact H | reflexivity].
  - destruct (N.eqb j k) eqn:E.
    + apply N.eqb_eq in E. split; [discriminate | intros Hn; exfalso; apply Hn; left; exact E].
    + apply N.eqb_neq in E. rewrite IH. split.
      * intros Hn [Hj|Hin]; [contradiction | exact (Hn Hin)].
      * intros Hn Hin. apply Hn. right. exact Hin.
Qed.

Lemma lookup_in_nodup : forall l k s,
  NoDup (map fst l) -> In (k, s) l -> lookup k l = Some s.
Proof.
  induction l as [|[j s0] l IH]; intros k s Hnd Hin; [destruct Hin|].
  cbn [map fst] in Hnd. inversion Hnd as [|j' l' Hnotin Hnd']. subst j' l'.
  cbn [lookup]. destruct Hin as [Heq|Hin].
  - injection Heq as Hj Hs. subst j s0. rewrite N.eqb_refl. reflexivity.
  - destruct (N.eqb j k) eqn:E.
    + apply N.eqb_eq in E. subst j. exfalso. apply Hnotin.
      change k with (fst (k, s)). apply in_map. exact Hin.
    + apply IH; assumption.
Qed.

Lemma cur_on : forall st k f c,
  cur (on st k f) c =
  if N.eqb k c then match lookup c (canv st) with Some s => f s | None => fresh end
  else cur st c.
Proof.
  intros st k f c. unfold cur, on. cbn [canv]. rewrite lookup_update.
  destruct (N.eqb k c); [|reflexivity].
  destruct (lookup c (canv st)); reflexivity.
Qed.

Lemma cur_on_other : forall st k f c, k <> c -> cur (on st k f) c = cur st c.
Proof.
  intros st k f c Hne. rewrite cur_on. apply N.eqb_neq in Hne. rewrite Hne. reflexivity.
Qed.

Lemma cur_add : forall st k c fs n b pe di,
  lookup k (canv st) = None -> cur (mkp ((k, fresh) :: canv st) fs n b pe di) c = cur st c.
Proof.
  intros st k c fs n b pe di Hnone. unfold cur. cbn [canv lookup].
  destruct (N.eqb k c) eqn:E; [|reflexivity].
  apply N.eqb_eq in E. subst c. rewrite Hnone. reflexivity.
Qed.

(* AddPage / NewGroup never change what `cur` returns *)
Lemma cur_effect_addpage : forall st k a c, cur (effect st (CAddPage k a)) c = cur st c.
Proof.
  intros st k a c. cbn [effect]. destruct (lookup k (canv st)) eqn:E; [reflexivity|].
  apply cur_add. exact E.
Qed.

Lemma cur_effect_newgroup : forall st k g a c, cur (effect st (CNewGroup k g a)) c = cur st c.
Proof.
  intros st k g a c. cbn [effect]. destruct (lookup g (canv st)) eqn:E; [reflexivity|].
  apply cur_add. exact E.
Qed.

Lemma cur_mark : forall st k c, cur (mark st k) c = cur st c.
Proof. reflexivity. Qed.

Lemma cur_consume : forall st g c, cur (consume st g) c = cur st c.
Proof. reflexivity. Qed.

Lemma cur_effect_opacity : forall st k g a c, cur (effect st (CDrawWithOpacity k g a)) c = cur st c.
Proof. intros st k g a c. cbn [effect]. rewrite cur_consume. destruct (mem g (dirty st)); reflexivity. Qed.

(* ------------------------------------------------------------------ *)
(* 4. path construction precedes Paint / Clip *)

Definition is_path_start (c : N) (x : call) : bool :=
  match x with CMoveTo k _ | CRect k _ => N.eqb k c | _ => false end.

Definition consumes_path (c : N) (x : call) : bool :=
  match x with CPaint k _ | CClip k _ => N.eqb k c | _ => false end.

Lemma haspath_on : forall st k f c,
  haspath (cur (on st k f) c) = true ->
  (N.eqb k c = true /\ exists s, haspath (f s) = true) \/ (N.eqb k c = false /\ haspath (cur st c) = true).
Proof.
  intros st k f c Hh. rewrite cur_on in Hh. destruct (N.eqb k c).
  - left. split; [reflexivity|]. destruct (lookup c (canv st)) as [s|].
    + exists s. exact Hh.
    + discriminate.
  - right. split; [reflexivity | exact Hh].
Qed.

Lemma haspath_on_keep : forall st k f c,
  (forall s, haspath (f s) = haspath s) ->
  haspath (cur (on st k f) c) = true -> haspath (cur st c) = true.
Proof.
  intros st k f c Hf Hh. rewrite cur_on in Hh. destruct (N.eqb k c); [|exact Hh].
  unfold cur. destruct (lookup c (canv st)) as [s|]; [rewrite Hf in Hh; exact Hh | discriminate].
Qed.

Lemma haspath_effect : forall st x c,
  haspath (cur (effect st x) c) = true ->
  is_path_start c x = true \/ (consumes_path c x = false /\ haspath (cur st c) = true).
Proof.
  intros st x c Hh.
  destruct x; cbn [is_path_start consumes_path];
    try (right; split; [reflexivity | exact Hh]).
  - (* AddPage *) right. split; [reflexivity|]. rewrite cur_effect_addpage in Hh. exact Hh.
  - (* Push *) right. split; [reflexivity|]. cbn [effect] in Hh.
    eapply haspath_on_keep; [|exact Hh]. intros s. reflexivity.
  - (* Pop *) right. split; [reflexivity|]. cbn [effect] in Hh.
    eapply haspath_on_keep; [|exact Hh]. intros s. reflexivity.
  - (* NewGroup *) right. split; [reflexivity|]. rewrite cur_effect_newgroup in Hh. exact Hh.
  - (* DrawWithOpacity *) right. split; [reflexivity|]. rewrite cur_effect_opacity in Hh. exact Hh.
  - (* Paint *) cbn [effect] in Hh. rewrite cur_mark in Hh. apply haspath_on in Hh.
    destruct Hh as [[_ [s Hs]]|[Hne Hh]]; [discriminate|]. right. split; assumption.
  - (* Rect *) cbn [effect] in Hh. apply haspath_on in Hh.
    destruct Hh as [[He _]|[Hne Hh]]; [left; exact He|]. right. split; [reflexivity | exact Hh].
  - (* MoveTo *) cbn [effect] in Hh. apply haspath_on in Hh.
    destruct Hh as [[He _]|[Hne Hh]]; [left; exact He|]. right. split; [reflexivity | exact Hh].
  - (* Clip *) cbn [effect] in Hh. apply haspath_on in Hh.
    destruct Hh as [[_ [s Hs]]|[Hne Hh]]; [discriminate|]. right. split; assumption.
Qed.

Definition path_inv (t : list call) (st : pstate) : Prop :=
  forall c, haspath (cur st c) = true ->
  exists u y v, t = u ++ y :: v /\ is_path_start c y = true /\
                forallb (fun z => negb (consumes_path c z)) v = true.

Lemma path_inv_step : forall t st x st',
  path_inv t st -> step st x = Some st' -> path_inv (t ++ [x]) st'.
Proof.
  intros t st x st' Hinv Hs. apply step_some in Hs. destruct Hs as [_ Heq]. subst st'.
  intros c Hh. apply haspath_effect in Hh. destruct Hh as [Hstart|[Hnc Hh]].
  - exists t, x, []. repeat split. exact Hstart.
  - destruct (Hinv c Hh) as [u [y [v [Ht [Hy Hv]]]]].
    exists u, y, (v ++ [x]). split; [|split].
    + rewrite Ht. rewrite <- app_assoc. reflexivity.
    + exact Hy.
    + rewrite forallb_app, Hv. cbn [forallb]. rewrite Hnc. reflexivity.
Qed.

Lemma path_inv_init : path_inv [] pinit.
Proof. intros c Hh. discriminate. Qed.

Lemma run_path_inv : forall t st, run pinit t = Some st -> path_inv t st.
Proof.
  intros t st Hrun. change t with ([] ++ t).
  eapply (run_inv path_inv path_inv_step); [exact path_inv_init | exact Hrun].
Qed.

Lemma consumes_guard : forall st c x,
  consumes_path c x = true -> guard st x = 0 -> haspath (cur st c) = true.
Proof.
  intros st c x Hc Hg. apply guard_zero in Hg. destruct Hg as [_ [_ [_ Hk]]].
  destruct x; cbn [consumes_path] in Hc; try discriminate;
    apply N.eqb_eq in Hc; subst c; cbn [guard_kind] in Hk;
    destruct (haspath (cur st c0)); [reflexivity | discriminate | reflexivity | discriminate].
Qed.

Theorem path_before_paint : forall t1 x t2 st' c,
  consumes_path c x = true ->
  run pinit (t1 ++ x :: t2) = Some st' ->
  exists u y v, t1 = u ++ y :: v /\ is_path_start c y = true /\
                forallb (fun z => negb (consumes_path c z)) v = true.
Proof.
  intros t1 x t2 st' c Hc Hrun. rewrite run_app in Hrun.
  destruct (run pinit t1) as [s1|] eqn:H1; [|discriminate].
  apply run_cons_some in Hrun. destruct Hrun as [Hg _].
  apply (run_path_inv _ _ H1 c). eapply consumes_guard; [exact Hc | exact Hg].
Qed.

(* ------------------------------------------------------------------ *)
(* 5. AddFont precedes DrawText, on the same canvas *)

Lemma fonts_effect : forall st x,
  fonts (effect st x) = match x with CAddFont c f => (c, f) :: fonts st | _ => fonts st end.
Proof.
  intros st x. destruct x; cbn [effect on mark consume fonts]; try reflexivity.
  - destruct (lookup c (canv st)); reflexivity.
  - destruct (lookup g (canv st)); reflexivity.
  - destruct (mem g (dirty st)); reflexivity.
Qed.

Lemma pmem_cons : forall a b x y l,
  pmem a b ((x, y) :: l) = (N.eqb x a && N.eqb y b) || pmem a b l.
Proof. reflexivity. Qed.

Lemma pmem_in : forall a b l, pmem a b l = true <-> In (a, b) l.
Proof.
  intros a b. induction l as [|[x y] l IH].
  - split; [discriminate | intros []].
  - rewrite pmem_cons, orb_true_iff, andb_true_iff, !N.eqb_eq, IH. cbn [In]. split.
    + intros [[Hx Hy]|Hin]; [left; subst; reflexivity | right; exact Hin].
    + intros [Heq|Hin]; [left; injection Heq as Hx Hy; split; assumption | right; exact Hin].
Qed.

Definition font_inv (t : list call) (st : pstate) : Prop :=
  forall c f, pmem c f (fonts st) = true -> In (CAddFont c f) t.

Lemma font_inv_step : forall t st x st',
  font_inv t st -> step st x = Some st' -> font_inv (t ++ [x]) st'.
Proof.
  intros t st x st' Hinv Hs. apply step_some in Hs. destruct Hs as [_ Heq]. subst st'.
  intros k f Hm. rewrite fonts_effect in Hm.
  assert (Hold : pmem k f (fonts st) = true -> In (CAddFont k f) (t ++ [x])).
  { intros Hm'. apply in_or_app. left. apply Hinv. exact Hm'. }
  destruct x; try (apply Hold; exact Hm).
  rewrite pmem_cons in Hm. apply orb_true_iff in Hm. destruct Hm as [He|Hm].
  - apply andb_true_iff in He. destruct He as [Hc Hf].
    apply N.eqb_eq in Hc. apply N.eqb_eq in Hf. subst c f0.
    apply in_or_app. right. left. reflexivity.
  - apply Hold. exact Hm.
Qed.

Lemma run_font_inv : forall t st, run pinit t = Some st -> font_inv t st.
Proof.
  intros t st Hrun. change t with ([] ++ t).
  eapply (run_inv font_inv font_inv_step); [|exact Hrun].
  intros c f Hm. discriminate.
Qed.

(* every font of a DrawText received by canvas c was registered by an AddFont
   received by the SAME canvas c earlier in the trace *)
Theorem font_before_text : forall t1 c fs a t2 st' f,
  run pinit (t1 ++ CDrawText c fs a :: t2) = Some st' -> In f fs ->
  In (CAddFont c f) t1.
Proof.
  intros t1 c fs a t2 st' f Hrun Hin. rewrite run_app in Hrun.
  destruct (run pinit t1) as [s1|] eqn:H1; [|discriminate].
  apply run_cons_some in Hrun. destruct Hrun as [Hg _].
  apply guard_zero in Hg. destruct Hg as [_ [_ [_ Hk]]]. cbn [guard_kind] in Hk.
  destruct (forallb (fun f0 => pmem c f0 (fonts s1)) fs) eqn:Hall; [|discriminate].
  rewrite forallb_forall in Hall. apply (run_font_inv _ _ H1 c f). apply Hall. exact Hin.
Qed.

(* a registration on another canvas does not help: the strict automaton stops *)
Example font_on_other_canvas_rejected :
  run pinit [CAddPage 1 (K 4); CNewGroup 1 2 (K 4); CAddFont 1 7; CDrawText 2 [7] (K 5)] = None.
Proof. vm_compute. reflexivity. Qed.

(* ------------------------------------------------------------------ *)
(* 6. pages *)

Definition is_addpage (x : call) : bool := match x with CAddPage _ _ => true | _ => false end.

Fixpoint count_pages (t : list call) : N :=
  match t with
  | [] => 0
  | x :: r => (if is_addpage x then 1 else 0) + count_pages r
  end.

Lemma count_pages_app : forall t1 t2, count_pages (t1 ++ t2) = count_pages t1 + count_pages t2.
Proof.
  induction t1 as [|x t1 IH]; intros t2; cbn [count_pages app]; [reflexivity|].
  rewrite IH. lia.
Qed.

Lemma count_pages_filter : forall t, count_pages t = N.of_nat (length (filter is_addpage t)).
Proof.
  induction t as [|x t IH]; cbn [count_pages filter]; [reflexivity|].
  rewrite IH. destruct (is_addpage x); cbn [length]; lia.
Qed.

Lemma npages_effect : forall st x, guard st x = 0 ->
  npages (effect st x) = npages st + (if is_addpage x then 1 else 0).
Proof.
  intros st x Hg. apply guard_zero in Hg. destruct Hg as [_ [_ [_ Hk]]].
  destruct x; cbn [effect on mark consume npages is_addpage]; try lia.
  - cbn [guard_kind] in Hk. destruct (closed st); [discriminate|].
    destruct (lookup c (canv st)); [discriminate|]. reflexivity.
  - destruct (lookup g (canv st)); cbn [npages]; lia.
  - destruct (mem g (dirty st)); cbn [mark npages]; lia.
Qed.

Lemma pages_counted_from : forall t st st',
  run st t = Some st' -> npages st' = npages st + count_pages t.
Proof.
  induction t as [|x t IH]; intros st st' Hrun.
  - cbn [run] in Hrun. injection Hrun as Hrun. subst st'. cbn [count_pages]. lia.
  - apply run_cons_some in Hrun. destruct Hrun as [Hg Hrun].
    rewrite (IH _ _ Hrun), (npages_effect _ _ Hg). cbn [count_pages]. lia.
Qed.

Theorem pages_counted : forall t st, run pinit t = Some st -> npages st = count_pages t.
Proof.
  intros t st Hrun. rewrite (pages_counted_from _ _ _ Hrun). cbn [pinit npages]. lia.
Qed.

Corollary pages_of_counted : forall t st, run pinit t = Some st -> pages_of t = count_pages t.
Proof.
  intros t st Hrun. unfold pages_of, monitor. rewrite (monitor_state _ _ 0 _ Hrun).
  apply pages_counted. exact Hrun.
Qed.

(* ------------------------------------------------------------------ *)
(* 7. finiteness *)

Theorem accepted_all_finite : forall t st st',
  run st t = Some st' -> Forall (fun x => nums_ok (call_nums x) = true) t.
Proof.
  induction t as [|x t IH]; intros st st' Hrun; [constructor|].
  apply run_cons_some in Hrun. destruct Hrun as [Hg Hrun].
  apply guard_zero in Hg. destruct Hg as [_ [_ [Hn _]]].
  constructor; [exact Hn | eapply IH; exact Hrun].
Qed.

(* ------------------------------------------------------------------ *)
(* 8. groups: created by NewGroup on the canvas that consumes them, consumed at
      most once, and never abandoned with painting on them *)

Definition consumes_group (g : N) (x : call) : bool :=
  match call_group x with Some g' => N.eqb g' g | None => false end.

Definition paints (k : N) (x : call) : bool :=
  match x with
  | CPaint c _ | CDrawText c _ _ | CDrawImage c _ | CDrawGradient c _ => N.eqb c k
  | _ => false
  end.

Lemma pending_effect : forall st x, guard st x = 0 ->
  pending (effect st x) =
  match x with
  | CNewGroup k g _ => (g, k) :: pending st
  | _ => match call_group x with
         | Some g => filter (fun p => negb (N.eqb (fst p) g)) (pending st)
         | None => pending st
         end
  end.
Proof.
  intros st x Hg. apply guard_zero in Hg. destruct Hg as [_ [_ [_ Hk]]].
  destruct x; cbn [effect on mark consume pending call_group]; try reflexivity.
  - destruct (lookup c (canv st)); reflexivity.
  - cbn [guard_kind] in Hk. destruct (lookup g (canv st)); [discriminate | reflexivity].
  - destruct (mem g (dirty st)); reflexivity.
Qed.

Lemma dirty_effect_incl : forall st x k, mem k (dirty st) = true -> mem k (dirty (effect st x)) = true.
Proof.
  intros st x k Hm.
  assert (Hmark : forall s j, mem k (dirty s) = true -> mem k (dirty (mark s j)) = true).
  { intros s j H. unfold mark, mem. cbn [dirty existsb]. unfold mem in H. rewrite H. apply orb_true_r. }
  destruct x; cbn [effect]; try exact Hm; try (apply Hmark; exact Hm).
  - destruct (lookup c (canv st)); exact Hm.
  - destruct (lookup g (canv st)); exact Hm.
  - cbn [consume dirty]. destruct (mem g (dirty st)); [apply Hmark|]; exact Hm.
Qed.

Lemma dirty_effect_paints : forall st x k, paints k x = true -> mem k (dirty (effect st x)) = true.
Proof.
  intros st x k Hp.
  destruct x; cbn [paints] in Hp; try discriminate; apply N.eqb_eq in Hp; subst k;
    cbn [effect mark dirty]; unfold mem; cbn [existsb]; rewrite N.eqb_refl; reflexivity.
Qed.

Definition pend_inv (t : list call) (st : pstate) : Prop :=
  forall g c, In (g, c) (pending st) ->
  exists u a v, t = u ++ CNewGroup c g a :: v /\
                forallb (fun z => negb (consumes_group g z)) v = true.

Lemma pend_inv_step : forall t st x st',
  pend_inv t st -> step st x = Some st' -> pend_inv (t ++ [x]) st'.
Proof.
  intros t st x st' Hinv Hs. apply step_some in Hs. destruct Hs as [Hg Heq]. subst st'.
  intros g c Hin. rewrite (pending_effect _ _ Hg) in Hin.
  assert (Hold : In (g, c) (pending st) -> consumes_group g x = false ->
                 exists u a v, t ++ [x] = u ++ CNewGroup c g a :: v /\
                               forallb (fun z => negb (consumes_group g z)) v = true).
  { intros Hp Hnc. destruct (Hinv g c Hp) as [u [a [v [Ht Hv]]]].
    exists u, a, (v ++ [x]). split.
    - rewrite Ht, <- app_assoc. reflexivity.
    - rewrite forallb_app, Hv. cbn [forallb]. rewrite Hnc. reflexivity. }
  assert (Hfilter : forall g', call_group x = Some g' ->
            In (g, c) (filter (fun p => negb (N.eqb (fst p) g')) (pending st)) ->
            exists u a v, t ++ [x] = u ++ CNewGroup c g a :: v /\
                          forallb (fun z => negb (consumes_group g z)) v = true).
  { intros g' Hcg Hf. apply filter_In in Hf. destruct Hf as [Hp Hne]. cbn [fst] in Hne.
    apply Hold; [exact Hp|]. unfold consumes_group. rewrite Hcg.
    apply negb_true_iff in Hne. rewrite N.eqb_sym. exact Hne. }
  destruct x; cbn [call_group] in Hin, Hfilter;
    try (apply Hold; [exact Hin | reflexivity]);
    try (apply (Hfilter _ eq_refl); exact Hin).
  (* NewGroup *)
  destruct Hin as [Heq|Hin].
  - injection Heq as Hg' Hc'. subst g0 c0. exists t, a, []. split; reflexivity.
  - apply Hold; [exact Hin | reflexivity].
Qed.

Lemma run_pend_inv : forall t st, run pinit t = Some st -> pend_inv t st.
Proof.
  intros t st Hrun. change t with ([] ++ t).
  eapply (run_inv pend_inv pend_inv_step); [|exact Hrun].
  intros g c Hin. destruct Hin.
Qed.

(* a group handed to DrawWithOpacity / SetColorPattern / SetAlphaMask of canvas c
   was created by c.NewGroup and has not been consumed in between *)
Theorem group_before_consume : forall t1 x t2 st' c g,
  call_canvas x = Some c -> call_group x = Some g ->
  run pinit (t1 ++ x :: t2) = Some st' ->
  exists u a v, t1 = u ++ CNewGroup c g a :: v /\
                forallb (fun z => negb (consumes_group g z)) v = true.
Proof.
  intros t1 x t2 st' c g Hc Hcg Hrun. rewrite run_app in Hrun.
  destruct (run pinit t1) as [s1|] eqn:H1; [|discriminate].
  apply run_cons_some in Hrun. destruct Hrun as [Hg _].
  apply guard_zero in Hg. destruct Hg as [_ [_ [_ Hk]]].
  apply (run_pend_inv _ _ H1 g c). apply pmem_in.
  destruct x; cbn [call_group call_canvas] in Hcg, Hc; try discriminate;
    injection Hcg as Hcg; injection Hc as Hc; subst; cbn [guard_kind] in Hk;
    destruct (pmem g c (pending s1)); [reflexivity | discriminate | reflexivity | discriminate | reflexivity | discriminate].
Qed.


(* rule 13: in an accepted trace no painting is lost in an abandoned group *)
Definition dirty_inv (t : list call) (st : pstate) : Prop :=
  forall x k, In x t -> paints k x = true -> mem k (dirty st) = true.

Lemma dirty_inv_step : forall t st x st',
  dirty_inv t st -> step st x = Some st' -> dirty_inv (t ++ [x]) st'.
Proof.
  intros t st x st' Hinv Hs. apply step_some in Hs. destruct Hs as [_ Heq]. subst st'.
  intros y k Hin Hp. apply in_app_or in Hin. destruct Hin as [Hin|[Heq|[]]].
  - apply dirty_effect_incl. eapply Hinv; eassumption.
  - subst y. apply dirty_effect_paints. exact Hp.
Qed.

Definition created_inv (t : list call) (st : pstate) : Prop :=
  forall c g a, In (CNewGroup c g a) t ->
  (exists y, In y t /\ call_group y = Some g) \/ (exists c', In (g, c') (pending st)).

Lemma created_inv_step : forall t st x st',
  created_inv t st -> step st x = Some st' -> created_inv (t ++ [x]) st'.
Proof.
  intros t st x st' Hinv Hs. apply step_some in Hs. destruct Hs as [Hg Heq]. subst st'.
  intros c g a Hin. apply in_app_or in Hin. destruct Hin as [Hin|[Heq|[]]].
  - destruct (Hinv c g a Hin) as [[y [Hy Hcg]]|[c' Hp]].
    + left. exists y. split; [apply in_or_app; left; exact Hy | exact Hcg].
    + destruct (consumes_group g x) eqn:Hcons.
      * left. exists x. split; [apply in_or_app; right; left; reflexivity|].
        unfold consumes_group in Hcons. destruct (call_group x) as [g'|]; [|discriminate].
        apply N.eqb_eq in Hcons. subst g'. reflexivity.
      * right. exists c'. rewrite (pending_effect _ _ Hg).
        unfold consumes_group in Hcons.
        destruct x; cbn [call_group] in Hcons |- *; try exact Hp;
          try (apply filter_In; split; [exact Hp|]; cbn [fst];
               rewrite N.eqb_sym, Hcons; reflexivity).
        right. exact Hp.
  - subst x. right. exists c. rewrite (pending_effect _ _ Hg). left. reflexivity.
Qed.

Theorem accepted_painted_groups_consumed : forall t c g a x,
  accept t = true -> In (CNewGroup c g a) t -> In x t -> paints g x = true ->
  exists y, In y t /\ call_group y = Some g.
Proof.
  intros t c g a x Hacc Hnew Hx Hp. unfold accept in Hacc.
  destruct (run pinit t) as [st|] eqn:Hrun; [|discriminate].
  apply andb_true_iff in Hacc. destruct Hacc as [_ Hcomp].
  assert (Hd : dirty_inv t st).
  { change t with ([] ++ t). eapply (run_inv dirty_inv dirty_inv_step); [|exact Hrun].
    intros y k []. }
  assert (Hc : created_inv t st).
  { change t with ([] ++ t). eapply (run_inv created_inv created_inv_step); [|exact Hrun].
    intros c0 g0 a0 []. }
  destruct (Hc c g a Hnew) as [Hy|[c' Hpend]]; [exact Hy|]. exfalso.
  unfold complete in Hcomp.
  assert (Hin : In (g, c') (orphans st)).
  { unfold orphans. apply filter_In. split; [exact Hpend|]. cbn [fst]. eapply Hd; eassumption. }
  destruct (orphans st); [destruct Hin | discriminate].
Qed.

(* C16-style defect: painting goes on into a group that is never composited *)
Example orphan_group_rejected :
  accept [CAddPage 1 (K 4); CNewGroup 1 2 (K 4); CRect 2 (K 4); CPaint 2 4] = false.
Proof. vm_compute. reflexivity. Qed.
(* draw.go:247-258 on the unchanged tree: the group of an opacity < 1 box with a
   singular transform is created and abandoned EMPTY: accepted *)
Example empty_orphan_group_accepted :
  accept [CAddPage 1 (K 4); CNewGroup 1 2 (K 4); CRect 1 (K 4); CPaint 1 4] = true.
Proof. vm_compute. reflexivity. Qed.
Example group_consumed_twice_rejected :
  run pinit [CAddPage 1 (K 4); CNewGroup 1 2 (K 4); CDrawWithOpacity 1 2 (K 1); CDrawWithOpacity 1 2 (K 1)] = None.
Proof. vm_compute. reflexivity. Qed.

Print Assumptions run_app.
Print Assumptions protocol_prefix_closed.
Print Assumptions accepted_prefix_runs.
Print Assumptions monitor_sound.
Print Assumptions monitor_state.
Print Assumptions monitor_accept.
Print Assumptions path_before_paint.
Print Assumptions font_before_text.
Print Assumptions pages_counted.
Print Assumptions accepted_all_finite.
Print Assumptions group_before_consume.
Print Assumptions accepted_painted_groups_consumed.
