(* Draw/Emit.v -- model of the page loop of Document.Write
   (/repo/html/document/document.go:483-515), of addHyperlinks (409-423),
   scaleAnchors (425-429) and setMediaBoxes (557-581).

   Written against an arithmetic record (Base/F32.v): `exactQ` is the instance
   the theorems are about, `f32` the instance compared bit for bit with the
   values the recording backend received.  What a page paints (page.Paint) is
   an abstract call list here: draw.go is not modelled primitive by primitive.
   Model only; proofs in Draw/EmitProofs.v. *)
From Verif Require Export Base.F32 Geom.Matrix Draw.Links Draw.Protocol.
From Coq Require Export QArith List.
Export ListNotations.
Open Scope Q_scope.

(* a document.Page as far as Write reads it *)
Record epage := mkepage {
  ep_w : Q; ep_h : Q;                                  (* Width, Height *)
  ep_bl : Q; ep_bt : Q; ep_br : Q; ep_bb : Q;          (* Bleed.Left/Top/Right/Bottom *)
  ep_links : list link;                                (* pagedLinks[i] *)
  ep_anchors : list anchor                             (* pagedAnchors[i] *)
}.

Inductive boxkind := Media | Trim | BleedBox.

(* what the backend receives for one page, besides the painting *)
Record opage := mkopage {
  o_addpage : rect;                   (* the four arguments of AddPage *)
  o_flip : T;                         (* argument of the first Transform *)
  o_links : list link;                (* AddInternalLink / AddExternalLink / AddFileAnnotation *)
  o_anchors : list anchor;            (* pagedAnchors[i] after scaleAnchors *)
  o_boxes : list rect                 (* SetMediaBox, SetTrimBox, SetBleedBox *)
}.

Section WithArith.
Variable ar : arith.
Local Notation "x +. y" := (add ar x y) (at level 50, left associativity).
Local Notation "x -. y" := (sub ar x y) (at level 50, left associativity).
Local Notation "x *. y" := (mul ar x y) (at level 40, left associativity).
Local Notation "x /. y" := (div ar x y) (at level 40, left associativity).

(* :485  scale := zoom * 0.75 *)
Definition scale_of (zoom : Q) : Q := zoom *. (3 # 4).

(* utils.MinF *)
Definition minf (x y : Q) : Q := if Qlt_le_dec x y then x else y.

(* :412-413 *)
Definition scale_rect (m : T) (r : rect) : rect :=
  let '(x0, y0) := apply ar m (rx0 r) (ry0 r) in
  let '(x1, y1) := apply ar m (rx1 r) (ry1 r) in
  mkrect x0 y0 x1 y1.

Definition scale_link (m : T) (l : link) : link := mklink (ltyp l) (ltarget l) (scale_rect m (lrect l)).

(* :425-429 *)
Definition scale_anchor (m : T) (a : anchor) : anchor :=
  let '(x, y) := apply ar m (px (apos a)) (py (apos a)) in mkanchor (aname a) (mkpos x y).

(* :409-422: a link whose type is none of the three strings is not emitted *)
Definition emitted (l : link) : bool := match ltyp l with LOther => false | _ => true end.

(* :557-580 *)
Definition media_boxes (bl bt br bb : Q) (left top right bottom : Q) : list rect :=
  let bt := bt *. (3 # 4) in
  let bb := bb *. (3 # 4) in
  let bl := bl *. (3 # 4) in
  let br := br *. (3 # 4) in
  let trim_l := left +. bl in
  let trim_t := top +. bt in
  let trim_r := right -. br in
  let trim_b := bottom -. bb in
  [ mkrect left top right bottom;
    mkrect trim_l trim_t trim_r trim_b;
    mkrect (trim_l -. minf 10 bl) (trim_t -. minf 10 bt) (trim_r +. minf 10 br) (trim_b +. minf 10 bb) ].

(* :495-512 one iteration *)
Definition emit_page (zoom : Q) (p : epage) : opage :=
  let scale := scale_of zoom in
  let page_w := scale *. (ep_w p +. ep_bl p +. ep_br p) in        (* :496 *)
  let page_h := scale *. (ep_h p +. ep_bt p +. ep_bb p) in        (* :497 *)
  let left := (- scale) *. ep_bl p in                             (* :498 *)
  let top := (- scale) *. ep_bt p in                              (* :499 *)
  let right := left +. page_w in
  let bottom := top +. page_h in
  let m := mk scale 0 0 (- scale) 0 (ep_h p *. scale) in          (* :508 *)
  mkopage
    (mkrect (left /. scale) (top /. scale) ((right -. left) /. scale) ((bottom -. top) /. scale))  (* :503 *)
    (mk 1 0 0 (-1) 0 (ep_h p *. scale))                           (* :504 *)
    (map (scale_link m) (filter emitted (ep_links p)))            (* :510 *)
    (map (scale_anchor m) (ep_anchors p))                         (* :511 *)
    (media_boxes (ep_bl p) (ep_bt p) (ep_br p) (ep_bb p) left top right bottom).  (* :512 *)

(* :495 for i, page := range d.Pages *)
Definition emit (zoom : Q) (pages : list epage) : list opage := map (emit_page zoom) pages.

End WithArith.

(* ------------------------------------------------------------------ *)
(* The call sequence of Write, with the painting of each page abstract.
   Canvas numbers: page i is canvas i+1 when no page creates a group; in
   general the recorder numbers canvases in creation order, so the page
   canvases are passed explicitly. *)

Definition link_kind (l : link) : N :=
  match ltyp l with LInternal => 0%N | LExternal => 1%N | _ => 2%N end.

(* document.go:235-251 Page.Paint(dst, fc, 0, 0, scale, false) around the
   abstract body `paint` *)
Definition page_paint_calls (c : N) (paint : list call) : list call :=
  [CPush c; CTransform c (K 6)] ++ paint ++ [CPop c].

(* one iteration of :495-512 as calls *)
Definition page_calls (c : N) (nlinks : list N) (paint : list call) : list call :=
  [CAddPage c (K 4); CTransform c (K 6)]
  ++ page_paint_calls c paint
  ++ map (fun k => CPageLink c k (K 4)) nlinks
  ++ [CPageBox c (K 4); CPageBox c (K 4); CPageBox c (K 4)].

(* :515-540: CreateAnchors, SetAttachments, SetBookmarks, 8 metadata setters *)
Definition trailer_calls (nanchors nbookmarks : N) : list call :=
  [CDoc 0 (K (2 * nanchors)); CDoc 1 (K 0); CDoc 2 (K (2 * nbookmarks))]
  ++ repeat (CDoc 3 (K 0)) 8.

Record wpage := mkwpage { w_canvas : N; w_links : list N; w_paint : list call }.

Definition write_calls (nembed : nat) (pages : list wpage) (nanchors nbookmarks : N) : list call :=
  repeat CEmbed nembed
  ++ flat_map (fun p => page_calls (w_canvas p) (w_links p) (w_paint p)) pages
  ++ trailer_calls nanchors nbookmarks.

(* ------------------------------------------------------------------ *)
(* A small language of drawing programs covering the shapes of the emitters
   in draw.go / svg: every primitive builds its path before it paints or
   clips, and nests through OnNewStack.  `emit_prog c p` is the call list of
   program p on canvas c. *)
Inductive pathop := PMove | PLine | PCubic | PRect | PClose.
Inductive prog :=
| PSet (k : N)                         (* a state setter: colour, alpha, line width, dash, transform... *)
| PFill (first : pathop) (rest : list pathop) (op : N)   (* path then Paint; first is PMove or PRect *)
| PClipPath (first : pathop) (rest : list pathop) (eo : N)
| PStack (body : list prog)            (* OnNewStack(func(){ body }) *)
| PText (f : N)                        (* AddFont f; DrawText using f *)
| PImage.

Definition path_call (c : N) (o : pathop) : call :=
  match o with
  | PMove => CMoveTo c (K 2) | PLine => CLineTo c (K 2) | PCubic => CCubicTo c (K 6)
  | PRect => CRect c (K 4) | PClose => CClosePath c
  end.

Definition starts_path (o : pathop) : bool := match o with PMove | PRect => true | _ => false end.

Definition set_call (c k : N) : call :=
  match k with
  | 0%N => CSetColor c (K 4) | 1%N => CSetAlpha c (K 1) | 2%N => CSetLineWidth c (K 1)
  | 3%N => CSetDash c (K 1) | 4%N => CTransform c (K 6) | 5%N => CSetStrokeOptions c (K 1)
  | 6%N => CSetBlend c | _ => CSetTextPaint c
  end.

Fixpoint emit_prog (c : N) (p : prog) : list call :=
  match p with
  | PSet k => [set_call c k]
  | PFill f r op => map (path_call c) (f :: r) ++ [CPaint c op]
  | PClipPath f r eo => map (path_call c) (f :: r) ++ [CClip c eo]
  | PStack body =>
      CPush c :: (fix go (l : list prog) : list call :=
                    match l with [] => [] | q :: r => emit_prog c q ++ go r end) body ++ [CPop c]
  | PText f => [CAddFont c f; CDrawText c [f] (K 5)]
  | PImage => [CDrawImage c (K 2)]
  end.

Definition emit_progs (c : N) (l : list prog) : list call := flat_map (emit_prog c) l.

Fixpoint prog_ok (p : prog) : bool :=
  match p with
  | PFill f _ op => starts_path f && (op <? 6)%N
  | PClipPath f _ _ => starts_path f
  | PStack body => forallb prog_ok body
  | _ => true
  end.
