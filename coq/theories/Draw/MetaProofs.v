(* Draw/MetaProofs.v -- utils.GetHtmlMetadata (model: Draw/Meta.v) forwards the
   <title>/<meta>/<link rel=attachment> data of the DOM unchanged: every field
   of the record is characterised directly on the list of elements. *)
From Verif Require Import Draw.Links Draw.Meta Draw.LinksProofs.
From Coq Require Import List Bool NArith ZArith.
Import ListNotations.

(* ---- specification: each field read off the element list *)
Definition meta_named (k : name) (e : melem) : list (name * option Z) :=
  match e with
  | MMeta nm c d => if name_eqb (ascii_lower nm) k then [(c, d)] else []
  | _ => []
  end.
Definition contents_of (k : name) (els : list melem) : list name :=
  map fst (flat_map (meta_named k) els).
Definition dates_of (k : name) (els : list melem) : list (option Z) :=
  map snd (flat_map (meta_named k) els).
Definition titles_of (els : list melem) : list name :=
  flat_map (fun e => match e with MTitle t => [t] | _ => [] end) els.
Definition attachments_of (els : list melem) : list (name * name) :=
  flat_map (fun e => match e with MAttach u t => if is_empty u then [] else [(u, t)] | _ => [] end) els.

(* first non-empty string, [] if none *)
Fixpoint first_nonempty (l : list name) : name :=
  match l with [] => [] | x :: r => if is_empty x then first_nonempty r else x end.
(* first date that parsed *)
Fixpoint first_some (l : list (option Z)) : option Z :=
  match l with [] => None | Some d :: _ => Some d | None :: r => first_some r end.
(* keep the first occurrence of every string *)
Fixpoint dedup_from (seen : list name) (l : list name) : list name :=
  match l with
  | [] => []
  | x :: r => if in_set x seen then dedup_from seen r else x :: dedup_from (seen ++ [x]) r
  end.
Definition keyword_pieces (els : list melem) : list name :=
  map strip_ws (flat_map (split_comma []) (contents_of s_keywords els)).

Definition meta_spec (els : list melem) : meta :=
  mkmeta (first_nonempty (titles_of els))
         (first_nonempty (contents_of s_description els))
         (first_nonempty (contents_of s_generator els))
         (contents_of s_author els)
         (dedup_from [] (keyword_pieces els))
         (first_some (dates_of s_created els))
         (first_some (dates_of s_modified els))
         (attachments_of els).

(* ---- proof *)
Definition or_else (cur new : name) : name := if is_empty cur then new else cur.

Lemma first_nonempty_app : forall a b, first_nonempty (a ++ b) = or_else (first_nonempty a) (first_nonempty b).
Proof.
  induction a as [|x a IH]; intros b; cbn; [reflexivity|].
  destruct (is_empty x) eqn:E; [apply IH|]. unfold or_else. rewrite E. reflexivity.
Qed.

Lemma first_some_app : forall a b, first_some (a ++ b) = first_date (first_some a) (first_some b).
Proof. induction a as [|[d|] a IH]; intros b; cbn; auto. Qed.

Lemma add_keywords_dedup : forall l kws,
  add_keywords kws l = kws ++ dedup_from kws (map strip_ws l).
Proof.
  induction l as [|k r IH]; intros kws; cbn; [rewrite app_nil_r; reflexivity|].
  destruct (in_set (strip_ws k) kws); [apply IH|].
  rewrite IH, <- app_assoc. reflexivity.
Qed.

Lemma dedup_from_app : forall a b seen,
  dedup_from seen (a ++ b) = dedup_from seen a ++ dedup_from (seen ++ dedup_from seen a) b.
Proof.
  induction a as [|x a IH]; intros b seen; cbn; [rewrite app_nil_r; reflexivity|].
  destruct (in_set x seen); [apply IH|].
  cbn. rewrite IH. rewrite <- app_assoc. reflexivity.
Qed.

(* one step, field by field *)
Definition on_meta {A} (k : name) (f : A -> name -> option Z -> A) (acc : A) (e : melem) : A :=
  match e with
  | MMeta nm c d => if name_eqb (ascii_lower nm) k then f acc c d else acc
  | _ => acc
  end.

Ltac dispatch :=
  match goal with
  | |- context [ascii_lower ?nm] =>
      let n := fresh "n" in
      set (n := ascii_lower nm);
      destruct (name_eqb n s_keywords) eqn:E1;
      [apply name_eqb_eq in E1; rewrite ?E1; reflexivity|];
      destruct (name_eqb n s_author) eqn:E2;
      [apply name_eqb_eq in E2; rewrite ?E2; reflexivity|];
      destruct (name_eqb n s_description) eqn:E3;
      [apply name_eqb_eq in E3; rewrite ?E3; cbn; try reflexivity|];
      [..|destruct (name_eqb n s_generator) eqn:E4;
      [apply name_eqb_eq in E4; rewrite ?E4; cbn; try reflexivity|];
      [..|destruct (name_eqb n s_created) eqn:E5;
      [apply name_eqb_eq in E5; rewrite ?E5; reflexivity|];
      destruct (name_eqb n s_modified) eqn:E6;
      [apply name_eqb_eq in E6; rewrite ?E6; reflexivity|];
      reflexivity]]
  end.

Lemma step_title : forall m e,
  m_title (meta_step m e) = match e with MTitle t => or_else (m_title m) t | _ => m_title m end.
Proof.
  intros m e. destruct e as [t|nm c d|u t]; cbn -[name_eqb ascii_lower].
  - unfold or_else. destruct (is_empty (m_title m)); reflexivity.
  - dispatch; destruct (is_empty _); reflexivity.
  - destruct (is_empty u); reflexivity.
Qed.

Lemma step_description : forall m e,
  m_description (meta_step m e) = on_meta s_description (fun acc c _ => or_else acc c) (m_description m) e.
Proof.
  intros m e. destruct e as [t|nm c d|u t]; cbn -[name_eqb ascii_lower].
  - destruct (is_empty (m_title m)); reflexivity.
  - dispatch; unfold or_else; destruct (is_empty _); reflexivity.
  - destruct (is_empty u); reflexivity.
Qed.

Lemma step_generator : forall m e,
  m_generator (meta_step m e) = on_meta s_generator (fun acc c _ => or_else acc c) (m_generator m) e.
Proof.
  intros m e. destruct e as [t|nm c d|u t]; cbn -[name_eqb ascii_lower].
  - destruct (is_empty (m_title m)); reflexivity.
  - dispatch; unfold or_else; destruct (is_empty _); reflexivity.
  - destruct (is_empty u); reflexivity.
Qed.

Lemma step_authors : forall m e,
  m_authors (meta_step m e) = on_meta s_author (fun acc c _ => acc ++ [c]) (m_authors m) e.
Proof.
  intros m e. destruct e as [t|nm c d|u t]; cbn -[name_eqb ascii_lower].
  - destruct (is_empty (m_title m)); reflexivity.
  - dispatch; destruct (is_empty _); reflexivity.
  - destruct (is_empty u); reflexivity.
Qed.

Lemma step_keywords : forall m e,
  m_keywords (meta_step m e) =
  on_meta s_keywords (fun acc c _ => add_keywords acc (split_comma [] c)) (m_keywords m) e.
Proof.
  intros m e. destruct e as [t|nm c d|u t]; cbn -[name_eqb ascii_lower split_comma add_keywords].
  - destruct (is_empty (m_title m)); reflexivity.
  - dispatch; destruct (is_empty _); reflexivity.
  - destruct (is_empty u); reflexivity.
Qed.

Lemma step_created : forall m e,
  m_created (meta_step m e) = on_meta s_created (fun acc _ d => first_date acc d) (m_created m) e.
Proof.
  intros m e. destruct e as [t|nm c d|u t]; cbn -[name_eqb ascii_lower].
  - destruct (is_empty (m_title m)); reflexivity.
  - dispatch; destruct (is_empty _); reflexivity.
  - destruct (is_empty u); reflexivity.
Qed.

Lemma step_modified : forall m e,
  m_modified (meta_step m e) = on_meta s_modified (fun acc _ d => first_date acc d) (m_modified m) e.
Proof.
  intros m e. destruct e as [t|nm c d|u t]; cbn -[name_eqb ascii_lower].
  - destruct (is_empty (m_title m)); reflexivity.
  - dispatch; destruct (is_empty _); reflexivity.
  - destruct (is_empty u); reflexivity.
Qed.

Lemma step_attachments : forall m e,
  m_attachments (meta_step m e) =
  m_attachments m ++ attachments_of [e].
Proof.
  intros m e. destruct e as [t|nm c d|u t]; cbn -[name_eqb ascii_lower]; rewrite ?app_nil_r.
  - destruct (is_empty (m_title m)); reflexivity.
  - dispatch; destruct (is_empty _); reflexivity.
  - destruct (is_empty u); cbn; rewrite ?app_nil_r; reflexivity.
Qed.

Lemma fold_field : forall {A} (f : meta -> A) (g : A -> melem -> A),
  (forall m e, f (meta_step m e) = g (f m) e) ->
  forall els m, f (fold_left meta_step els m) = fold_left g els (f m).
Proof.
  intros A f g H els. induction els as [|e els IH]; intros m; cbn; [reflexivity|].
  rewrite IH, H. reflexivity.
Qed.

Lemma or_else_assoc : forall a b c, or_else (or_else a b) c = or_else a (or_else b c).
Proof. intros a b c. unfold or_else. destruct (is_empty a) eqn:E; [reflexivity | rewrite E; reflexivity]. Qed.

Lemma or_else_nil_r : forall a, or_else a [] = a.
Proof. intros a. unfold or_else. destruct (is_empty a) eqn:E; [apply is_empty_true in E; auto | reflexivity]. Qed.

Lemma or_else_single : forall c r, or_else (if is_empty c then [] else c) r = or_else c r.
Proof. intros c r. destruct (is_empty c) eqn:E; [|reflexivity]. unfold or_else. rewrite E. reflexivity. Qed.

Lemma first_date_assoc : forall a b c, first_date (first_date a b) c = first_date a (first_date b c).
Proof. intros [a|] b c; reflexivity. Qed.

Lemma fold_or_else : forall k els acc,
  fold_left (on_meta k (fun acc c (_ : option Z) => or_else acc c)) els acc =
  or_else acc (first_nonempty (contents_of k els)).
Proof.
  intros k els. induction els as [|e els IH]; intros acc; cbn [fold_left].
  - cbn. rewrite or_else_nil_r. reflexivity.
  - rewrite IH. unfold contents_of. cbn [flat_map]. rewrite map_app, first_nonempty_app.
    destruct e as [t|nm c d|u t]; cbn [on_meta meta_named map first_nonempty];
      try (unfold or_else at 3; cbn; reflexivity).
    destruct (name_eqb (ascii_lower nm) k); cbn [map first_nonempty fst].
    + rewrite or_else_assoc, or_else_single. reflexivity.
    + unfold or_else at 3. cbn. reflexivity.
Qed.

Lemma fold_authors : forall k els acc,
  fold_left (on_meta k (fun acc c (_ : option Z) => acc ++ [c])) els acc = acc ++ contents_of k els.
Proof.
  intros k els. induction els as [|e els IH]; intros acc; cbn [fold_left].
  - unfold contents_of. cbn. rewrite app_nil_r. reflexivity.
  - rewrite IH. unfold contents_of. cbn [flat_map]. rewrite map_app.
    destruct e as [t|nm c d|u t]; cbn [on_meta meta_named map app]; try reflexivity.
    destruct (name_eqb (ascii_lower nm) k); cbn [map app fst]; [rewrite <- app_assoc|]; reflexivity.
Qed.

Lemma add_keywords_app : forall l1 l2 kws,
  add_keywords (add_keywords kws l1) l2 = add_keywords kws (l1 ++ l2).
Proof.
  induction l1 as [|k l1 IH]; intros l2 kws; cbn; [reflexivity|].
  destruct (in_set (strip_ws k) kws); apply IH.
Qed.

Lemma fold_keywords : forall k els acc,
  fold_left (on_meta k (fun acc c (_ : option Z) => add_keywords acc (split_comma [] c))) els acc =
  add_keywords acc (flat_map (split_comma []) (contents_of k els)).
Proof.
  intros k els. induction els as [|e els IH]; intros acc; cbn [fold_left].
  - reflexivity.
  - rewrite IH. unfold contents_of. cbn [flat_map]. rewrite map_app, flat_map_app.
    destruct e as [t|nm c d|u t]; cbn [on_meta meta_named map flat_map app]; try reflexivity.
    destruct (name_eqb (ascii_lower nm) k); cbn [map flat_map app fst]; [|reflexivity].
    rewrite app_nil_r, add_keywords_app. reflexivity.
Qed.

Lemma fold_dates : forall k els acc,
  fold_left (on_meta k (fun acc (_ : name) d => first_date acc d)) els acc =
  first_date acc (first_some (dates_of k els)).
Proof.
  intros k els. induction els as [|e els IH]; intros acc; cbn [fold_left].
  - cbn. destruct acc; reflexivity.
  - rewrite IH. unfold dates_of. cbn [flat_map]. rewrite map_app, first_some_app.
    destruct e as [t|nm c d|u t]; cbn [on_meta meta_named map first_some]; try reflexivity.
    destruct (name_eqb (ascii_lower nm) k); cbn [map first_some snd]; [|reflexivity].
    rewrite first_date_assoc. f_equal. destruct d; reflexivity.
Qed.

Lemma fold_title : forall els acc,
  fold_left (fun acc e => match e with MTitle t => or_else acc t | _ => acc end) els acc =
  or_else acc (first_nonempty (titles_of els)).
Proof.
  induction els as [|e els IH]; intros acc; cbn [fold_left].
  - cbn. rewrite or_else_nil_r. reflexivity.
  - rewrite IH. unfold titles_of. cbn [flat_map]. rewrite first_nonempty_app.
    destruct e as [t|nm c d|u t]; cbn [first_nonempty]; try (unfold or_else at 3; cbn; reflexivity).
    rewrite or_else_assoc, or_else_single. reflexivity.
Qed.

Lemma fold_attachments : forall els acc,
  fold_left (fun acc e => acc ++ attachments_of [e]) els acc = acc ++ attachments_of els.
Proof.
  induction els as [|e els IH]; intros acc; cbn [fold_left].
  - cbn. rewrite app_nil_r. reflexivity.
  - rewrite IH. unfold attachments_of. cbn [flat_map]. rewrite app_nil_r, <- app_assoc. reflexivity.
Qed.

(* the record handed to the backend is the record read off the DOM *)
Theorem get_metadata_spec : forall els, get_metadata els = meta_spec els.
Proof.
  intros els. unfold get_metadata, meta_spec.
  assert (Heta : forall m, m = mkmeta (m_title m) (m_description m) (m_generator m) (m_authors m)
                                      (m_keywords m) (m_created m) (m_modified m) (m_attachments m))
    by (intros []; reflexivity).
  rewrite (Heta (fold_left meta_step els meta_init)).
  rewrite (fold_field m_title (fun acc e => match e with MTitle t => or_else acc t | _ => acc end) step_title), fold_title.
  rewrite (fold_field m_description (on_meta s_description (fun acc c _ => or_else acc c)) step_description), fold_or_else.
  rewrite (fold_field m_generator (on_meta s_generator (fun acc c _ => or_else acc c)) step_generator), fold_or_else.
  rewrite (fold_field m_authors (on_meta s_author (fun acc c _ => acc ++ [c])) step_authors), fold_authors.
  rewrite (fold_field m_keywords (on_meta s_keywords (fun acc c _ => add_keywords acc (split_comma [] c))) step_keywords), fold_keywords.
  rewrite (fold_field m_created (on_meta s_created (fun acc _ d => first_date acc d)) step_created), fold_dates.
  rewrite (fold_field m_modified (on_meta s_modified (fun acc _ d => first_date acc d)) step_modified), fold_dates.
  rewrite (fold_field m_attachments (fun acc e => acc ++ attachments_of [e]) step_attachments), fold_attachments.
  cbn [meta_init m_title m_description m_generator m_authors m_keywords m_created m_modified m_attachments].
  rewrite add_keywords_dedup. reflexivity.
Qed.

(* consequences in words: authors are all the author contents in order, nothing invented *)
Corollary authors_forwarded : forall els, m_authors (get_metadata els) = contents_of s_author els.
Proof. intros els. rewrite get_metadata_spec. reflexivity. Qed.

Corollary title_forwarded : forall els,
  m_title (get_metadata els) = first_nonempty (titles_of els).
Proof. intros els. rewrite get_metadata_spec. reflexivity. Qed.
