(* Draw/BookmarksProofs.v -- the model of makeBookmarkTree (Draw/Bookmarks.v)
   never panics on levels >= 1 and computes THE outline (Draw/BookmarkSpec.v).

   Main results (end of file):
     make_tree_ok, outline_unique, build_spec, make_tree_build,
     make_tree_no_panic, make_tree_panics_on_level_le_0, child_level_gt.  *)
From Verif Require Import Base.GoSem Draw.Bookmarks Draw.BookmarkSpec.
From Coq Require Import List ZArith Lia Bool ZifyBool ZifyNat.
Import ListNotations.
Local Open Scope Z_scope.

(* ------------------------------------------------------------------ *)
(* preorder                                                           *)
(* ------------------------------------------------------------------ *)

Lemma preorder_node_eq e ch : preorder_node (Node e ch) = e :: preorder ch.
Proof.
  (* the nested `fix go` of the model is literally flat_map preorder_node *)
  reflexivity.
Qed.

Lemma preorder_nil : preorder [] = [].
Proof. reflexivity. Qed.

Lemma preorder_cons n f : preorder (n :: f) = preorder_node n ++ preorder f.
Proof. reflexivity. Qed.

Lemma preorder_cons_node e ch f :
  preorder (Node e ch :: f) = e :: preorder ch ++ preorder f.
Proof. rewrite preorder_cons, preorder_node_eq. reflexivity. Qed.

Lemma preorder_app a b : preorder (a ++ b) = preorder a ++ preorder b.
Proof. unfold preorder. apply flat_map_app. Qed.

Lemma preorder_one e ch : preorder [Node e ch] = e :: preorder ch.
Proof. rewrite preorder_cons_node, preorder_nil, app_nil_r. reflexivity. Qed.

(* the entry of every root occurs in the flattening *)
Lemma roots_in_preorder f : Forall (fun c => In (node_entry c) (preorder f)) f.
Proof.
  induction f as [|[e ch] r IH]; [constructor|].
  constructor.
  - rewrite preorder_cons_node. cbn [node_entry]. left. reflexivity.
  - eapply Forall_impl; [|exact IH]. cbn beta. intros c Hc.
    rewrite preorder_cons_node. right. apply in_or_app. right. exact Hc.
Qed.

(* every descendant of a well-formed node is at least as deep as the node *)
Lemma node_ok_desc_levels n :
  node_ok n -> forall x, x < lvl n -> Forall (fun e => x < e_level e) (preorder_node n).
Proof.
  induction n as [e ch IH] using node_ind'.
  intros Hok x Hx. apply node_ok_inv in Hok. destruct Hok as [[_ Hch] Hdeep].
  rewrite preorder_node_eq. constructor; [exact Hx|].
  unfold lvl in Hx. cbn [node_entry] in Hx.
  induction ch as [|c r IHr]; [constructor|].
  rewrite preorder_cons. apply Forall_app.
  inversion IH as [|? ? IHc IHrest]; subst.
  inversion Hch as [|? ? Hc Hrest]; subst.
  inversion Hdeep as [|? ? Hdc Hdrest]; subst.
  split.
  - apply IHc; [exact Hc | lia].
  - apply IHr; assumption.
Qed.

Lemma forest_desc_levels ch x :
  Forall node_ok ch -> Forall (fun c => x < lvl c) ch ->
  Forall (fun e => x < e_level e) (preorder ch).
Proof.
  intros Hok Hd. induction ch as [|c r IH]; [constructor|].
  inversion Hok as [|? ? Hc Hr]; subst. inversion Hd as [|? ? Hdc Hdr]; subst.
  rewrite preorder_cons. apply Forall_app. split.
  - apply node_ok_desc_levels; assumption.
  - apply IH; assumption.
Qed.

(* ------------------------------------------------------------------ *)
(* span                                                               *)
(* ------------------------------------------------------------------ *)

Lemma span_spec {A} (p : A -> bool) l a b :
  span p l = (a, b) ->
  l = a ++ b /\ Forall (fun x => p x = true) a /\
  (b = [] \/ exists x b', b = x :: b' /\ p x = false).
Proof.
  revert a b. induction l as [|x r IH]; intros a b Hs; cbn [span] in Hs.
  - inversion Hs; subst. repeat split; [constructor | left; reflexivity].
  - destruct (p x) eqn:Hp.
    + destruct (span p r) as [a' b'] eqn:Hr. inversion Hs; subst.
      destruct (IH a' b eq_refl) as (Hl & Ha & Hb).
      repeat split.
      * cbn [app]. f_equal. exact Hl.
      * constructor; assumption.
      * exact Hb.
    + inversion Hs; subst. repeat split; [constructor|].
      right. exists x, r. split; [reflexivity | exact Hp].
Qed.

Lemma span_app {A} (p : A -> bool) a b :
  Forall (fun x => p x = true) a ->
  (b = [] \/ exists x b', b = x :: b' /\ p x = false) ->
  span p (a ++ b) = (a, b).
Proof.
  intros Ha Hb. induction Ha as [|x a' Hx Ha' IH].
  - cbn [app]. destruct Hb as [->|(x & b' & -> & Hx)]; [reflexivity|].
    cbn [span]. rewrite Hx. reflexivity.
  - cbn [app span]. rewrite Hx, IH. reflexivity.
Qed.

(* ------------------------------------------------------------------ *)
(* build satisfies the specification                                  *)
(* ------------------------------------------------------------------ *)

Lemma build_fuel_spec n :
  forall es, (length es <= n)%nat ->
  preorder (build_fuel n es) = es /\ outline_ok (build_fuel n es).
Proof.
  induction n as [|n IH]; intros es Hlen.
  - destruct es as [|e r]; [|cbn [length] in Hlen; lia].
    split; [reflexivity | exact outline_ok_nil].
  - destruct es as [|e rest]; [split; [reflexivity | exact outline_ok_nil]|].
    cbn [build_fuel].
    destruct (span (fun x => e_level e <? e_level x) rest) as [desc after] eqn:Hs.
    apply span_spec in Hs. destruct Hs as (Hrest & Hdesc & Hafter).
    assert (Hl : (length desc + length after = length rest)%nat)
      by (rewrite Hrest, app_length; reflexivity).
    cbn [length] in Hlen.
    destruct (IH desc ltac:(lia)) as (Hpd & Hod).
    destruct (IH after ltac:(lia)) as (Hpa & Hoa).
    split.
    + rewrite preorder_cons_node, Hpd, Hpa, Hrest. reflexivity.
    + destruct Hoa as [Hsa Hna]. split.
      * cbn [sib_noninc]. split; [|exact Hsa].
        unfold lvl at 2. cbn [node_entry].
        destruct Hafter as [->|(x & b' & -> & Hx)].
        { destruct n; constructor. }
        destruct n as [|n']; [cbn [length] in *; lia|].
        cbn [build_fuel] in Hsa |- *.
        destruct (span (fun x0 => e_level x <? e_level x0) b') as [d2 a2].
        cbn [sib_noninc] in Hsa. destruct Hsa as [Hall _].
        constructor.
        { unfold lvl. cbn [node_entry]. lia. }
        eapply Forall_impl; [|exact Hall]. cbn beta. intros y Hy.
        unfold lvl at 2 in Hy. cbn [node_entry] in Hy. lia.
      * constructor; [|exact Hna].
        apply node_ok_of_outline; [exact Hod|].
        pose proof (roots_in_preorder (build_fuel n desc)) as Hin.
        rewrite Hpd in Hin.
        eapply Forall_impl; [|exact Hin]. cbn beta. intros c Hc.
        rewrite Forall_forall in Hdesc. apply Hdesc in Hc. unfold lvl. lia.
Qed.

Theorem build_spec : forall es, preorder (build es) = es /\ outline_ok (build es).
Proof. intros es. apply build_fuel_spec. unfold build. lia. Qed.

(* ------------------------------------------------------------------ *)
(* uniqueness: (preorder, outline_ok) determine the forest            *)
(* ------------------------------------------------------------------ *)

Lemma outline_rebuild n :
  forall f, (length (preorder f) <= n)%nat -> outline_ok f ->
  build_fuel n (preorder f) = f.
Proof.
  induction n as [|n IH]; intros f Hlen Hok.
  - destruct f as [|[e ch] r]; [reflexivity|].
    rewrite preorder_cons_node in Hlen. cbn [length] in Hlen. lia.
  - destruct f as [|[e ch] r]; [reflexivity|].
    rewrite preorder_cons_node in Hlen |- *. cbn [length] in Hlen.
    rewrite app_length in Hlen.
    destruct Hok as [Hsib Hnodes]. cbn [sib_noninc] in Hsib.
    destruct Hsib as [Hall Hsr].
    inversion Hnodes as [|? ? Hn Hr]; subst.
    apply node_ok_inv in Hn. destruct Hn as [Hoch Hdeep].
    cbn [build_fuel].
    rewrite (span_app (fun x => e_level e <? e_level x) (preorder ch) (preorder r)).
    + rewrite (IH ch), (IH r); [reflexivity | lia | split; assumption | lia | exact Hoch].
    + pose proof (forest_desc_levels ch (e_level e) (proj2 Hoch) Hdeep) as Hd.
      eapply Forall_impl; [|exact Hd]. cbn beta. intros x Hx. lia.
    + destruct r as [|[e2 ch2] r2]; [left; reflexivity|].
      right. rewrite preorder_cons_node. eexists; eexists. split; [reflexivity|].
      inversion Hall as [|? ? Hle _]; subst.
      unfold lvl in Hle. cbn [node_entry] in Hle. lia.
Qed.

Lemma outline_is_build f : outline_ok f -> f = build (preorder f).
Proof. intros Hok. symmetry. apply outline_rebuild; [lia | exact Hok]. Qed.

Theorem outline_unique :
  forall f g, outline_ok f -> outline_ok g -> preorder f = preorder g -> f = g.
Proof.
  intros f g Hf Hg Hp.
  rewrite (outline_is_build f Hf), (outline_is_build g Hg), Hp. reflexivity.
Qed.

(* ------------------------------------------------------------------ *)
(* the arithmetic of skippedLevels / previousLevel                    *)
(* ------------------------------------------------------------------ *)

Definition levels (sp : list open_node) : list Z := map (fun oe => e_level (fst oe)) sp.
Definition hd0 (l : list Z) : Z := hd 0 l.

(* the skippedLevels slice (last element first) that corresponds to the levels
   of the open nodes (deepest first) *)
Fixpoint skips_of (ls : list Z) : list Z :=
  match ls with
  | [] => []
  | l :: rest => (l - hd0 rest - 1) :: skips_of rest
  end.

(* strictly decreasing down to something > 0 : deepest first, all >= 1 *)
Fixpoint sdec (ls : list Z) : Prop :=
  match ls with
  | [] => True
  | l :: rest => hd0 rest < l /\ sdec rest
  end.

Fixpoint take_while (p : Z -> bool) (l : list Z) : list Z :=
  match l with
  | [] => []
  | x :: r => if p x then x :: take_while p r else []
  end.

Fixpoint drop_while (p : Z -> bool) (l : list Z) : list Z :=
  match l with
  | [] => []
  | x :: r => if p x then drop_while p r else l
  end.

Lemma take_drop p l : l = take_while p l ++ drop_while p l.
Proof.
  induction l as [|x r IH]; [reflexivity|].
  cbn [take_while drop_while]. destruct (p x); [|reflexivity].
  cbn [app]. f_equal. exact IH.
Qed.

Lemma take_while_all p l : Forall (fun x => p x = true) (take_while p l).
Proof.
  induction l as [|x r IH]; [constructor|].
  cbn [take_while]. destruct (p x) eqn:Hp; constructor; assumption.
Qed.

Lemma firstn_take p l : firstn (length (take_while p l)) l = take_while p l.
Proof.
  induction l as [|x r IH]; [reflexivity|].
  cbn [take_while]. destruct (p x); [|reflexivity].
  cbn [length firstn]. f_equal. exact IH.
Qed.

Lemma skipn_take p l : skipn (length (take_while p l)) l = drop_while p l.
Proof.
  induction l as [|x r IH]; [reflexivity|].
  cbn [take_while drop_while]. destruct (p x); [|reflexivity].
  cbn [length skipn]. exact IH.
Qed.

Lemma take_drop_len p l :
  (length l = length (take_while p l) + length (drop_while p l))%nat.
Proof. rewrite (take_drop p l) at 1. apply app_length. Qed.

Lemma skips_len ls : length (skips_of ls) = length ls.
Proof. induction ls as [|l r IH]; [reflexivity|]. cbn [skips_of length]. lia. Qed.

Lemma skips_sum ls : zsum (skips_of ls) + zlen ls = hd0 ls.
Proof.
  unfold zlen. induction ls as [|l r IH]; [reflexivity|].
  cbn [skips_of zsum fold_right length hd0 hd].
  change (fold_right Z.add 0 (skips_of r)) with (zsum (skips_of r)). lia.
Qed.

Lemma drop_while_hd L ls : hd0 ls < L -> drop_while (fun l => L <=? l) ls = ls.
Proof.
  destruct ls as [|x r]; [reflexivity|]. cbn [hd0 hd drop_while]. intros Hx.
  destruct (Z.leb_spec L x); [lia | reflexivity].
Qed.

Lemma drop_while_hd_lt L ls : 1 <= L -> hd0 (drop_while (fun l => L <=? l) ls) < L.
Proof.
  intros HL. induction ls as [|x r IH]; [cbn; lia|].
  cbn [drop_while]. destruct (Z.leb_spec L x); [exact IH | cbn [hd0 hd]; lia].
Qed.

(* relation between the two cuts of a strictly decreasing list *)
Lemma drop_lt_le L ls :
  1 <= L -> sdec ls ->
  let rem1 := drop_while (fun l => L <? l) ls in
  let rem := drop_while (fun l => L <=? l) ls in
  (hd0 rem1 < L /\ rem1 = rem) \/ rem1 = L :: rem.
Proof.
  intros HL Hs. cbv zeta. induction ls as [|l r IH].
  - left. cbn. split; [lia | reflexivity].
  - cbn [sdec] in Hs. destruct Hs as [Hhd Hr].
    cbn [drop_while].
    destruct (Z.ltb_spec L l) as [Hlt|Hge]; destruct (Z.leb_spec L l) as [Hle|Hgt]; try lia.
    + apply IH. exact Hr.
    + right. assert (l = L) by lia. subst l.
      rewrite drop_while_hd by exact Hhd. reflexivity.
    + left. cbn [hd0 hd]. split; [lia | reflexivity].
Qed.

(* the loop of lines 370-374 *)
Lemma pop_loop_spec L pv ls :
  1 <= L ->
  forall fuel temp,
  temp = L + pv - hd0 ls -> (length ls < fuel)%nat ->
  pop_loop fuel temp pv (skips_of ls) =
  Ok (L + pv - hd0 (drop_while (fun l => L <? l) ls),
      skips_of (drop_while (fun l => L <? l) ls)).
Proof.
  intros HL. induction ls as [|l r IH]; intros fuel temp Ht Hf.
  - destruct fuel as [|f]; [cbn [length] in Hf; lia|].
    cbn [pop_loop skips_of drop_while hd0 hd] in *.
    destruct (Z.ltb_spec temp pv); [lia|]. subst temp. reflexivity.
  - destruct fuel as [|f]; [cbn [length] in Hf; lia|].
    cbn [length] in Hf. cbn [hd0 hd] in Ht.
    cbn [pop_loop skips_of drop_while].
    destruct (Z.ltb_spec temp pv) as [Hlt|Hge]; destruct (Z.ltb_spec L l) as [Hl|Hl]; try lia.
    + apply IH; lia.
    + cbn [hd0 hd skips_of]. subst temp. reflexivity.
Qed.

(* lines 365-378 as a function of (level, previousLevel, skippedLevels) *)
Definition sk_of (L pv : Z) (sk : list Z) : res (list Z) :=
  if L >? pv then Ok ((L - pv - 1) :: sk)
  else
    let* (temp, sk') := pop_loop (S (length sk)) L pv sk in
    if temp >? pv then Ok ((temp - pv - 1) :: sk') else Ok sk'.

Lemma step_unfold s e :
  step s e =
  let* sk := sk_of (e_level e) (prev s) (skipped s) in
  let depth := e_level e - zsum sk in
  if negb (depth =? zlen sk) || (depth <? 1) then Panic 396
  else
    let* (sp, rs) := insert_at depth e (spine s) (roots s) in
    Ok (mkst sk (e_level e) sp rs).
Proof. reflexivity. Qed.

Lemma sk_of_spec L ls :
  1 <= L -> sdec ls ->
  sk_of L (hd0 ls) (skips_of ls) = Ok (skips_of (L :: drop_while (fun l => L <=? l) ls)).
Proof.
  intros HL Hs. unfold sk_of.
  destruct (Z.gtb_spec L (hd0 ls)) as [Hgt|Hle].
  - rewrite drop_while_hd by lia. reflexivity.
  - rewrite (pop_loop_spec L (hd0 ls) ls HL) by (rewrite ?skips_len; lia).
    cbn [bind].
    destruct (drop_lt_le L ls HL Hs) as [[Hlt Heq]|Heq]; cbv zeta in *.
    + rewrite Heq in *.
      destruct (Z.gtb_spec (L + hd0 ls - hd0 (drop_while (fun l => L <=? l) ls)) (hd0 ls)); [|lia].
      cbn [skips_of]. do 2 f_equal. lia.
    + rewrite Heq. cbn [hd0 hd].
      destruct (Z.gtb_spec (L + hd0 ls - L) (hd0 ls)); [lia|]. reflexivity.
Qed.

(* ------------------------------------------------------------------ *)
(* closing open nodes                                                 *)
(* ------------------------------------------------------------------ *)

Fixpoint spine_pre (sp : list open_node) : list entry :=
  match sp with
  | [] => []
  | (e, ch) :: rest => spine_pre rest ++ e :: preorder ch
  end.

(* the entries consumed so far, in document order *)
Definition flat (sp : list open_node) (rs : list node) : list entry :=
  preorder rs ++ spine_pre sp.

Lemma close1_levels sp rs : levels (fst (close1 sp rs)) = tl (levels sp).
Proof.
  destruct sp as [|[e ch] rest]; [reflexivity|].
  cbn [close1]. destruct rest as [|[e' ch'] rest']; reflexivity.
Qed.

Lemma close1_flat sp rs :
  flat (fst (close1 sp rs)) (snd (close1 sp rs)) = flat sp rs.
Proof.
  destruct sp as [|[e ch] rest]; [reflexivity|].
  cbn [close1]. unfold flat. destruct rest as [|[e' ch'] rest']; cbn [attach fst snd spine_pre].
  - rewrite preorder_app, preorder_one, app_nil_r. reflexivity.
  - rewrite preorder_app, preorder_one. rewrite <- !app_assoc. reflexivity.
Qed.

Lemma close_n_S k sp rs :
  close_n (S k) sp rs = close_n k (fst (close1 sp rs)) (snd (close1 sp rs)).
Proof. cbn [close_n]. destruct (close1 sp rs). reflexivity. Qed.

Lemma close_n_levels k : forall sp rs,
  levels (fst (close_n k sp rs)) = skipn k (levels sp).
Proof.
  induction k as [|k IH]; intros sp rs; [reflexivity|].
  rewrite close_n_S, IH, close1_levels.
  destruct (levels sp); [destruct k|]; reflexivity.
Qed.

Lemma close_n_flat k : forall sp rs,
  flat (fst (close_n k sp rs)) (snd (close_n k sp rs)) = flat sp rs.
Proof.
  induction k as [|k IH]; intros sp rs; [reflexivity|].
  rewrite close_n_S, IH. apply close1_flat.
Qed.

(* shape invariant.  B is a lower bound for the levels of the children
   already attached to the deepest open node (of the roots when nothing is
   open).  Spine deepest first. *)
Fixpoint wf (B : Z) (sp : list open_node) (rs : list node) : Prop :=
  match sp with
  | [] => outline_ok rs /\ Forall (fun n => B <= lvl n) rs
  | (e, ch) :: rest =>
      outline_ok ch /\ Forall (fun n => e_level e < lvl n) ch /\
      Forall (fun n => B <= lvl n) ch /\
      hd0 (levels rest) < e_level e /\
      wf (e_level e) rest rs
  end.

Lemma wf_sdec sp : forall B rs, wf B sp rs -> sdec (levels sp).
Proof.
  induction sp as [|[e ch] rest IH]; intros B rs Hwf; [exact I|].
  cbn [wf] in Hwf. destruct Hwf as (_ & _ & _ & Hhd & Hrest).
  cbn [levels map fst sdec]. split; [exact Hhd | eapply IH; exact Hrest].
Qed.

Lemma sib_noninc_snoc ch x :
  sib_noninc ch -> Forall (fun n => lvl x <= lvl n) ch -> sib_noninc (ch ++ [x]).
Proof.
  induction ch as [|c r IH]; intros Hs Hall.
  - cbn. split; [constructor | exact I].
  - cbn [sib_noninc app] in *. destruct Hs as [Hc Hr].
    inversion Hall as [|? ? Hxc Hxr]; subst. split.
    + apply Forall_app. split; [exact Hc|]. constructor; [exact Hxc | constructor].
    + apply IH; assumption.
Qed.

Lemma outline_ok_snoc ch x :
  outline_ok ch -> Forall (fun n => lvl x <= lvl n) ch -> node_ok x ->
  outline_ok (ch ++ [x]).
Proof.
  intros [Hs Hn] Hall Hx. split.
  - apply sib_noninc_snoc; assumption.
  - apply Forall_app. split; [exact Hn|]. constructor; [exact Hx | constructor].
Qed.

Lemma Forall_snoc {A} (P : A -> Prop) l x : Forall P l -> P x -> Forall P (l ++ [x]).
Proof. intros Hl Hx. apply Forall_app. split; [exact Hl|]. constructor; [exact Hx | constructor]. Qed.

(* closing the deepest open node, when its level is >= B *)
Lemma close1_wf B sp rs :
  wf B sp rs -> B <= hd0 (levels sp) \/ sp = [] ->
  wf B (fst (close1 sp rs)) (snd (close1 sp rs)).
Proof.
  intros Hwf HB. destruct sp as [|[e ch] rest]; [exact Hwf|].
  destruct HB as [HB|HB]; [|discriminate]. cbn [levels map fst hd0 hd] in HB.
  cbn [wf] in Hwf. destruct Hwf as (Hoch & Hdeep & _ & Hhd & Hrest).
  pose proof (node_ok_of_outline e ch Hoch Hdeep) as Hnode.
  cbn [close1]. destruct rest as [|[e' ch'] rest']; cbn [attach fst snd].
  - cbn [wf] in *. destruct Hrest as [Hors Hbr]. split.
    + apply outline_ok_snoc; assumption.
    + apply Forall_snoc; [|unfold lvl; cbn [node_entry]; exact HB].
      eapply Forall_impl; [|exact Hbr]. cbn beta. intros n Hn. lia.
  - cbn [wf] in Hrest |- *. cbn [levels map fst hd0 hd] in Hhd.
    destruct Hrest as (Hoch' & Hdeep' & Hb' & Hhd' & Hrest').
    split; [|split; [|split; [|split; [exact Hhd' | exact Hrest']]]].
    + apply outline_ok_snoc; assumption.
    + apply Forall_snoc; [exact Hdeep'|]. unfold lvl; cbn [node_entry]. exact Hhd.
    + apply Forall_snoc; [|unfold lvl; cbn [node_entry]; exact HB].
      eapply Forall_impl; [|exact Hb']. cbn beta. intros n Hn. lia.
Qed.

Lemma close_n_wf B k : forall sp rs,
  wf B sp rs -> Forall (fun l => B <= l) (firstn k (levels sp)) ->
  wf B (fst (close_n k sp rs)) (snd (close_n k sp rs)).
Proof.
  induction k as [|k IH]; intros sp rs Hwf Hall; [exact Hwf|].
  rewrite close_n_S. apply IH.
  - apply close1_wf; [exact Hwf|].
    destruct sp as [|[e ch] rest]; [right; reflexivity|]. left.
    cbn [levels map fst firstn hd0 hd] in *. inversion Hall; subst. assumption.
  - rewrite close1_levels. destruct (levels sp) as [|l r]; [destruct k; constructor|].
    cbn [firstn tl] in *. inversion Hall; subst. assumption.
Qed.

Lemma insert_at_spec depth e sp rs k :
  1 <= depth -> depth - 1 = zlen sp - Z.of_nat k ->
  insert_at depth e sp rs =
  Ok ((e, []) :: fst (close_n k sp rs), snd (close_n k sp rs)).
Proof.
  intros Hd Hk. unfold insert_at, zlen in *.
  destruct (Z.ltb_spec (depth - 1) 0); [lia|].
  destruct (Z.ltb_spec (Z.of_nat (length sp)) (depth - 1)); [lia|].
  cbn [orb].
  replace (length sp - Z.to_nat (depth - 1))%nat with k by lia.
  destruct (close_n k sp rs). reflexivity.
Qed.

(* ------------------------------------------------------------------ *)
(* one step, the whole run                                            *)
(* ------------------------------------------------------------------ *)

Definition Inv (s : st) : Prop :=
  skipped s = skips_of (levels (spine s)) /\
  prev s = hd0 (levels (spine s)) /\
  forall B, wf B (spine s) (roots s).

Lemma Inv_init : Inv init.
Proof.
  split; [reflexivity|]. split; [reflexivity|].
  intros B. cbn [init spine roots wf]. split; [exact outline_ok_nil | constructor].
Qed.

Lemma step_ok s e :
  Inv s -> 1 <= e_level e ->
  exists s', step s e = Ok s' /\ Inv s' /\
             flat (spine s') (roots s') = flat (spine s) (roots s) ++ [e].
Proof.
  intros (Hsk & Hpv & Hwf) HL.
  set (L := e_level e) in *.
  set (ls := levels (spine s)) in *.
  pose proof (wf_sdec _ _ _ (Hwf 0)) as Hsd. fold ls in Hsd.
  set (p := fun l => L <=? l).
  set (rem := drop_while p ls).
  set (k := length (take_while p ls)).
  assert (Hlen : (length ls = k + length rem)%nat) by apply take_drop_len.
  assert (Hlsp : length (spine s) = length ls) by (unfold ls, levels; rewrite map_length; reflexivity).
  assert (Hfirst : firstn k ls = take_while p ls) by apply firstn_take.
  assert (Hskip : skipn k ls = rem) by apply skipn_take.
  rewrite step_unfold, Hsk, Hpv. fold ls L.
  rewrite (sk_of_spec L ls HL Hsd). cbn [bind]. fold p rem. cbv zeta.
  pose proof (skips_sum (L :: rem)) as Hsum. cbn [hd0 hd] in Hsum.
  assert (Hzl : zlen (skips_of (L :: rem)) = zlen (L :: rem))
    by (unfold zlen; rewrite skips_len; reflexivity).
  assert (Hz1 : zlen (L :: rem) = 1 + Z.of_nat (length rem))
    by (unfold zlen; cbn [length]; lia).
  destruct (Z.eqb_spec (L - zsum (skips_of (L :: rem))) (zlen (skips_of (L :: rem)))) as [Heq|Hne];
    [|lia].
  destruct (Z.ltb_spec (L - zsum (skips_of (L :: rem))) 1) as [Hlt|Hge]; [lia|].
  cbn [negb orb].
  rewrite (insert_at_spec _ e (spine s) (roots s) k) by (unfold zlen; lia).
  cbn [bind].
  eexists. split; [reflexivity|].
  pose proof (close_n_levels k (spine s) (roots s)) as Hlev. fold ls in Hlev. rewrite Hskip in Hlev.
  split; [split; [|split; [reflexivity|]]|]; cbn [skipped prev spine roots].
  - cbn [levels map fst]. fold (levels (fst (close_n k (spine s) (roots s)))). rewrite Hlev. reflexivity.
  - intros B. cbn [wf].
    split; [exact outline_ok_nil|]. split; [constructor|]. split; [constructor|]. split.
    + rewrite Hlev. unfold rem, p. apply drop_while_hd_lt. exact HL.
    + apply close_n_wf; [apply Hwf|]. fold ls. rewrite Hfirst.
      pose proof (take_while_all p ls) as Hall.
      eapply Forall_impl; [|exact Hall]. cbn beta. unfold p. intros l Hl. lia.
  - unfold flat at 1. cbn [spine_pre]. rewrite preorder_nil, app_assoc.
    f_equal. apply close_n_flat.
Qed.

Lemma run_ok es : forall s,
  Inv s -> Forall (fun e => 1 <= e_level e) es ->
  exists s', run s es = Ok s' /\ Inv s' /\
             flat (spine s') (roots s') = flat (spine s) (roots s) ++ es.
Proof.
  induction es as [|e r IH]; intros s Hinv Hall.
  - exists s. rewrite app_nil_r. split; [reflexivity|]. split; [exact Hinv | reflexivity].
  - inversion Hall as [|? ? He Hr]; subst.
    destruct (step_ok s e Hinv He) as (s1 & Hstep & Hinv1 & Hflat1).
    destruct (IH s1 Hinv1 Hr) as (s2 & Hrun & Hinv2 & Hflat2).
    exists s2. cbn [run]. rewrite Hstep. cbn [bind].
    split; [exact Hrun|]. split; [exact Hinv2|].
    rewrite Hflat2, Hflat1, <- app_assoc. reflexivity.
Qed.

Lemma sdec_pos ls : sdec ls -> Forall (fun l => 0 <= l) ls.
Proof.
  induction ls as [|l r IH]; intros Hs; [constructor|].
  cbn [sdec] in Hs. destruct Hs as [Hhd Hr]. specialize (IH Hr).
  constructor; [|exact IH].
  destruct r as [|l' r']; cbn [hd0 hd] in Hhd; [lia|]. inversion IH; subst. lia.
Qed.

Lemma Forall_firstn' {A} (P : A -> Prop) k : forall l, Forall P l -> Forall P (firstn k l).
Proof.
  induction k as [|k IH]; intros l Hl; [constructor|].
  destruct Hl as [|x r Hx Hr]; [constructor|].
  cbn [firstn]. constructor; [exact Hx | apply IH; exact Hr].
Qed.

Lemma close_all_ok sp rs :
  (forall B, wf B sp rs) ->
  preorder (close_all sp rs) = flat sp rs /\ outline_ok (close_all sp rs).
Proof.
  intros Hwf. unfold close_all.
  pose proof (close_n_flat (length sp) sp rs) as Hflat.
  pose proof (close_n_levels (length sp) sp rs) as Hlev.
  assert (Hw : wf 0 (fst (close_n (length sp) sp rs)) (snd (close_n (length sp) sp rs))).
  { apply close_n_wf; [apply Hwf|]. apply Forall_firstn'. apply sdec_pos.
    eapply wf_sdec. apply (Hwf 0). }
  replace (length sp) with (length (levels sp)) in Hlev at 2
    by (unfold levels; apply map_length).
  rewrite skipn_all in Hlev.
  destruct (fst (close_n (length sp) sp rs)) as [|x r] eqn:Hfst; [|discriminate].
  cbn [wf] in Hw. unfold flat in Hflat at 1. cbn [spine_pre] in Hflat.
  rewrite app_nil_r in Hflat. split; [exact Hflat | apply Hw].
Qed.

(* ------------------------------------------------------------------ *)
(* main results                                                       *)
(* ------------------------------------------------------------------ *)

Theorem make_tree_ok :
  forall es, Forall (fun e => 1 <= e_level e) es ->
  exists f, make_tree es = Ok f /\ preorder f = es /\ outline_ok f.
Proof.
  intros es Hall.
  destruct (run_ok es init Inv_init Hall) as (s & Hrun & (_ & _ & Hwf) & Hflat).
  destruct (close_all_ok _ _ Hwf) as [Hpre Hok].
  exists (close_all (spine s) (roots s)). unfold make_tree. rewrite Hrun. cbn [bind].
  split; [reflexivity|]. split; [|exact Hok]. rewrite Hpre, Hflat. reflexivity.
Qed.

Corollary make_tree_build :
  forall es, Forall (fun e => 1 <= e_level e) es -> make_tree es = Ok (build es).
Proof.
  intros es Hall. destruct (make_tree_ok es Hall) as (f & Hmk & Hpre & Hok).
  destruct (build_spec es) as [Hbp Hbo].
  rewrite Hmk. f_equal. apply outline_unique; [exact Hok | exact Hbo | congruence].
Qed.

Theorem make_tree_no_panic :
  forall es, Forall (fun e => 1 <= e_level e) es -> is_ok (make_tree es) = true.
Proof. intros es Hall. rewrite (make_tree_build es Hall). reflexivity. Qed.

Corollary child_level_gt :
  forall es f, make_tree es = Ok f -> Forall (fun e => 1 <= e_level e) es -> outline_ok f.
Proof.
  intros es f Hmk Hall. rewrite (make_tree_build es Hall) in Hmk.
  inversion Hmk; subst. apply build_spec.
Qed.

Corollary make_tree_preorder :
  forall es f, make_tree es = Ok f -> Forall (fun e => 1 <= e_level e) es -> preorder f = es.
Proof.
  intros es f Hmk Hall. rewrite (make_tree_build es Hall) in Hmk.
  inversion Hmk; subst. apply build_spec.
Qed.

(* the hypothesis on the levels is needed *)
Theorem make_tree_panics_on_level_le_0 :
  forall e, e_level e <= 0 -> exists s, make_tree [e] = Panic s.
Proof.
  intros e Hle. unfold make_tree. cbn [run]. rewrite step_unfold.
  cbn [init prev skipped spine roots]. unfold sk_of.
  destruct (Z.gtb_spec (e_level e) 0) as [Hgt|_]; [lia|].
  cbn [length pop_loop].
  destruct (Z.ltb_spec (e_level e) 0) as [Hneg|Hnn].
  - exists 380%N. reflexivity.
  - assert (Hz : e_level e = 0) by lia. rewrite Hz. exists 396%N. reflexivity.
Qed.

Print Assumptions make_tree_ok.
Print Assumptions outline_unique.
Print Assumptions build_spec.
Print Assumptions make_tree_build.
Print Assumptions make_tree_no_panic.
Print Assumptions make_tree_panics_on_level_le_0.
Print Assumptions child_level_gt.
Print Assumptions make_tree_preorder.
