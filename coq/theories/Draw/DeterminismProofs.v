(* Draw/DeterminismProofs.v -- proofs about the models of Draw/Determinism.v (C15). *)
From Verif Require Import Base.GoSem Draw.Determinism.
From Coq Require Import List NArith ZArith QArith Bool String Permutation Sorted Lia.
Import ListNotations.

(* ================================================================== *)
(** * A. byte strings *)

Lemma bytes_eqb_spec a b : reflect (a = b) (bytes_eqb a b).
Proof.
  revert b; induction a as [|x a IH]; intros [|y b]; cbn [bytes_eqb]; try (constructor; congruence).
  destruct (N.eqb_spec x y) as [->|Hxy]; cbn [andb].
  - destruct (IH b) as [->|Hab]; constructor; congruence.
  - constructor; congruence.
Qed.

Lemma bytes_eqb_refl a : bytes_eqb a a = true.
Proof. destruct (bytes_eqb_spec a a); congruence. Qed.

Lemma bytes_leb_refl a : bytes_leb a a = true.
Proof. induction a as [|x a IH]; cbn; [reflexivity|]. rewrite N.ltb_irrefl, N.eqb_refl. exact IH. Qed.

Lemma bytes_leb_total a b : bytes_leb a b = true \/ bytes_leb b a = true.
Proof.
  revert b; induction a as [|x a IH]; intros [|y b]; cbn; auto.
  destruct (N.ltb_spec x y) as [Hlt|Hge]; auto.
  destruct (N.ltb_spec y x) as [Hlt'|Hge']; auto.
  assert (x = y) as -> by lia. rewrite N.eqb_refl. apply IH.
Qed.

Lemma bytes_leb_antisym a b : bytes_leb a b = true -> bytes_leb b a = true -> a = b.
Proof.
  revert b; induction a as [|x a IH]; intros [|y b]; cbn; try congruence.
  destruct (N.ltb_spec x y) as [Hlt|Hge].
  - destruct (N.ltb_spec y x) as [Hlt'|Hge']; [lia|].
    destruct (N.eqb_spec y x); [lia|congruence].
  - destruct (N.eqb_spec x y) as [->|Hne]; [|congruence].
    rewrite N.ltb_irrefl, N.eqb_refl. intros H1 H2. f_equal. auto.
Qed.

Lemma bytes_leb_trans a b c : bytes_leb a b = true -> bytes_leb b c = true -> bytes_leb a c = true.
Proof.
  revert b c; induction a as [|x a IH]; intros [|y b] [|z c]; cbn; try congruence.
  destruct (N.ltb_spec x y) as [Hxy|Hxy].
  - intros _. destruct (N.ltb_spec y z) as [Hyz|Hyz].
    + intros _. destruct (N.ltb_spec x z); [reflexivity|lia].
    + destruct (N.eqb_spec y z) as [->|]; [|congruence]. intros _.
      destruct (N.ltb_spec x z); [reflexivity|lia].
  - destruct (N.eqb_spec x y) as [->|]; [|congruence]. intros Hab.
    destruct (N.ltb_spec y z) as [Hyz|Hyz]; [reflexivity|].
    destruct (N.eqb_spec y z) as [->|]; [|congruence]. eauto.
Qed.

(* ================================================================== *)
(** * B. sorting by a duplicate-free key is canonical *)

Section SortProofs.
  Context {A K : Type} (key : A -> K) (leb : K -> K -> bool).
  Hypothesis leb_total : forall a b, leb a b = true \/ leb b a = true.
  Hypothesis leb_trans : forall a b c, leb a b = true -> leb b c = true -> leb a c = true.
  Hypothesis leb_antisym : forall a b, leb a b = true -> leb b a = true -> a = b.

  Definition le_key (a b : A) : Prop := leb (key a) (key b) = true.

  Lemma insert_by_perm a l : Permutation (insert_by key leb a l) (a :: l).
  Proof.
    induction l as [|b r IH]; cbn; [reflexivity|].
    destruct (leb (key a) (key b)); [reflexivity|].
    rewrite IH. apply perm_swap.
  Qed.

  Lemma sort_by_perm l : Permutation (sort_by key leb l) l.
  Proof.
    induction l as [|a r IH]; cbn; [reflexivity|].
    rewrite insert_by_perm. now constructor.
  Qed.

  Lemma insert_by_sorted a l : StronglySorted le_key l -> StronglySorted le_key (insert_by key leb a l).
  Proof.
    induction l as [|b r IH]; intros Hs; cbn.
    - repeat constructor.
    - destruct (leb (key a) (key b)) eqn:E.
      + constructor; [assumption|]. constructor; [exact E|].
        inversion Hs as [|? ? _ Hall]; subst.
        eapply Forall_impl; [|exact Hall]. intros c Hc. unfold le_key in *. eauto.
      + inversion Hs as [|? ? Hr Hall]; subst. constructor; [auto|].
        assert (Hba : le_key b a). { unfold le_key. destruct (leb_total (key a) (key b)); congruence. }
        eapply Permutation_Forall; [symmetry; apply insert_by_perm|]. constructor; assumption.
  Qed.

  Lemma sort_by_sorted l : StronglySorted le_key (sort_by key leb l).
  Proof. induction l; cbn; [constructor|]. now apply insert_by_sorted. Qed.

  (* two sorted arrangements of the same duplicate-free-key content are equal *)
  Lemma sorted_perm_unique l l' :
    NoDup (map key l) -> StronglySorted le_key l -> StronglySorted le_key l' ->
    Permutation l l' -> l = l'.
  Proof.
    revert l'; induction l as [|a t IH]; intros l' Hnd Hs Hs' Hp.
    - apply Permutation_nil in Hp. now subst.
    - destruct l' as [|a' t']; [apply Permutation_sym, Permutation_nil in Hp; discriminate|].
      assert (Hin' : In a' (a :: t)) by (eapply Permutation_in; [symmetry; exact Hp|now left]).
      assert (Hin : In a (a' :: t')) by (eapply Permutation_in; [exact Hp|now left]).
      inversion Hs as [|? ? Hst Hall]; subst. inversion Hs' as [|? ? Hst' Hall']; subst.
      assert (Heq : a = a').
      { destruct Hin' as [->|Hin't]; [reflexivity|]. destruct Hin as [->|Hint']; [reflexivity|].
        rewrite Forall_forall in Hall, Hall'.
        assert (Hk : key a = key a') by (apply leb_antisym; [apply Hall|apply Hall']; assumption).
        exfalso. inversion Hnd as [|? ? Hni _]; subst. apply Hni. rewrite Hk. now apply in_map. }
      subst a'. f_equal. apply IH; auto.
      + now inversion Hnd.
      + eapply Permutation_cons_inv; exact Hp.
  Qed.

  (* the canonical-order lemma: sort (pi l) = sort l *)
  Theorem sort_by_perm_invariant l l' :
    NoDup (map key l) -> Permutation l l' -> sort_by key leb l = sort_by key leb l'.
  Proof.
    intros Hnd Hp. apply sorted_perm_unique.
    - eapply Permutation_NoDup; [|exact Hnd]. apply Permutation_map. symmetry. apply sort_by_perm.
    - apply sort_by_sorted.
    - apply sort_by_sorted.
    - rewrite sort_by_perm, Hp. symmetry. apply sort_by_perm.
  Qed.

  (* sorting a sorted list is the identity (the implementation's output, fed
     to the model as the map content, comes back unchanged iff it was sorted) *)
  Lemma sort_by_sorted_id l : NoDup (map key l) -> StronglySorted le_key l -> sort_by key leb l = l.
  Proof.
    intros Hnd Hs. symmetry. apply sorted_perm_unique; auto.
    - apply sort_by_sorted.
    - symmetry. apply sort_by_perm.
  Qed.
End SortProofs.

(* ================================================================== *)
(** * C. anchors *)

Definition anchors_nodup (p : list anchor) : Prop := NoDup (map a_name p).

Lemma sort_anchors_perm_invariant p p' :
  anchors_nodup p -> Permutation p p' -> sort_anchors p = sort_anchors p'.
Proof.
  apply sort_by_perm_invariant.
  - apply bytes_leb_total. - apply bytes_leb_trans. - apply bytes_leb_antisym.
Qed.

Lemma map_sort_anchors_perm pages pages' :
  Forall anchors_nodup pages -> Forall2 (@Permutation anchor) pages pages' ->
  map sort_anchors pages = map sort_anchors pages'.
Proof.
  intros Hnd Hp. induction Hp as [|p p' r r' Hpp _ IH]; cbn; [reflexivity|].
  inversion Hnd; subst. f_equal; [now apply sort_anchors_perm_invariant|auto].
Qed.

(* site_perm_invariant_anchors: whatever order the runtime iterates each
   page.anchors in, the lists handed to the backend and the set used to filter
   internal links are the same *)
Theorem resolve_anchors_perm_invariant pages pages' :
  Forall anchors_nodup pages -> Forall2 (@Permutation anchor) pages pages' ->
  resolve_anchors pages = resolve_anchors pages' /\
  forall t, link_kept pages t = link_kept pages' t.
Proof.
  intros Hnd Hp. unfold resolve_anchors, link_kept, resolved_names.
  rewrite (map_sort_anchors_perm _ _ Hnd Hp). auto.
Qed.

(* the unrepaired loop is order-sensitive: DESIGN section 6 #14 *)
Definition wit_a : anchor := An [97%N] 0 0.
Definition wit_b : anchor := An [98%N] 1 1.
Theorem resolve_anchors_unordered_refuted :
  exists p p', anchors_nodup p /\ Permutation p p' /\
    resolve_anchors_unordered [p] <> resolve_anchors_unordered [p'].
Proof.
  exists [wit_a; wit_b], [wit_b; wit_a]. split; [|split].
  - repeat constructor; cbn; intuition congruence.
  - apply perm_swap.
  - vm_compute. congruence.
Qed.

(* specification side of the repaired loop *)
Lemma page_anchors_sub seen l : forall a, In a (fst (page_anchors seen l)) -> In a l /\ mem_name (a_name a) seen = false.
Proof.
  revert seen; induction l as [|b r IH]; intros seen a; cbn; [tauto|].
  destruct (mem_name (a_name b) seen) eqn:E.
  - intros H. apply IH in H. tauto.
  - destruct (page_anchors (a_name b :: seen) r) as [o s] eqn:Ep. cbn.
    intros [<-|H]; [auto|].
    specialize (IH (a_name b :: seen) a). rewrite Ep in IH. cbn in IH. apply IH in H.
    destruct H as [H1 H2]. split; [auto|]. cbn in H2. apply orb_false_iff in H2. tauto.
Qed.

Lemma page_anchors_sublist_sorted R seen l :
  StronglySorted R l -> StronglySorted R (fst (page_anchors seen l)).
Proof.
  revert seen; induction l as [|b r IH]; intros seen Hs; cbn; [constructor|].
  inversion Hs as [|? ? Hr Hall]; subst.
  destruct (mem_name (a_name b) seen); [auto|].
  destruct (page_anchors (a_name b :: seen) r) as [o s] eqn:Ep. cbn.
  specialize (IH (a_name b :: seen) Hr). rewrite Ep in IH. cbn in IH.
  constructor; [exact IH|].
  rewrite Forall_forall in *. intros a Ha. apply Hall.
  pose proof (page_anchors_sub (a_name b :: seen) r a) as Hsub. rewrite Ep in Hsub. cbn in Hsub.
  now apply Hsub.
Qed.

Lemma resolve_iter_sorted seen pages :
  Forall (StronglySorted (le_key a_name bytes_leb)) pages ->
  Forall (StronglySorted (le_key a_name bytes_leb)) (fst (resolve_anchors_iter seen pages)).
Proof.
  revert seen; induction pages as [|p r IH]; intros seen Hs; cbn; [constructor|].
  inversion Hs; subst.
  destruct (page_anchors seen p) as [cur seen1] eqn:E1.
  destruct (resolve_anchors_iter seen1 r) as [rest seen2] eqn:E2. cbn.
  constructor.
  - pose proof (page_anchors_sublist_sorted (le_key a_name bytes_leb) seen p) as H. rewrite E1 in H. auto.
  - specialize (IH seen1). rewrite E2 in IH. auto.
Qed.

(* every page's anchor list is in increasing byte order of the names *)
Theorem resolve_anchors_sorted pages :
  Forall (StronglySorted (le_key a_name bytes_leb)) (resolve_anchors pages).
Proof.
  unfold resolve_anchors. apply resolve_iter_sorted.
  induction pages; cbn; constructor; auto.
  apply sort_by_sorted. - apply bytes_leb_total. - apply bytes_leb_trans.
Qed.

(* ================================================================== *)
(** * D. folds whose steps commute *)

Section FoldCommute.
  Context {S A : Type} (step : S -> A -> S) (eqS : S -> S -> Prop).
  Hypothesis eqS_refl : forall s, eqS s s.
  Hypothesis eqS_trans : forall s t u, eqS s t -> eqS t u -> eqS s u.
  Hypothesis step_compat : forall s s' a, eqS s s' -> eqS (step s a) (step s' a).

  Lemma fold_compat l : forall s s', eqS s s' -> eqS (fold_left step l s) (fold_left step l s').
  Proof. induction l as [|a r IH]; cbn; auto. Qed.

  (* commutation lemma: if distinct elements of the list commute (at every
     state), every permutation of the list folds to an equivalent state *)
  Theorem fold_perm_commute l l' :
    Permutation l l' -> NoDup l ->
    (forall a b s, In a l -> In b l -> a <> b -> eqS (step (step s a) b) (step (step s b) a)) ->
    forall s s', eqS s s' -> eqS (fold_left step l s) (fold_left step l' s').
  Proof.
    induction 1 as [|x l l' Hp IH|x y l|l l' l'' Hp1 IH1 Hp2 IH2]; intros Hnd Hc s s' Hs.
    - exact Hs.
    - cbn. apply IH.
      + now inversion Hnd.
      + intros a b t Ha Hb. apply Hc; now right.
      + now apply step_compat.
    - cbn. eapply eqS_trans.
      + apply fold_compat. apply Hc; [now left|right; now left|].
        inversion Hnd as [|? ? Hni _]; subst. intros ->. apply Hni. now left.
      + apply fold_compat. apply step_compat. now apply step_compat.
    - eapply eqS_trans; [apply IH1; auto|].
      apply IH2; auto.
      + eapply Permutation_NoDup; eauto.
      + intros a b t Ha Hb. apply Hc; eapply Permutation_in; try (symmetry; exact Hp1); assumption.
  Qed.
End FoldCommute.

(** ** keyed folds *)
Section KeyedFoldProofs.
  Context {K W A L : Type} (keqb : K -> K -> bool) (key : A -> K).
  Hypothesis keqb_spec : forall a b, reflect (a = b) (keqb a b).
  Context (f : A -> @store K W -> option W) (g : A -> @store K W -> list L).
  Context (frozen : K -> bool).
  (* the body reads the store only at its own key and at keys no body writes *)
  Definition agree_for (a : A) (s s' : @store K W) : Prop :=
    s (key a) = s' (key a) /\ forall k, frozen k = true -> s k = s' k.
  Hypothesis f_local : forall a s s', agree_for a s s' -> f a s = f a s'.
  Hypothesis g_local : forall a s s', agree_for a s s' -> g a s = g a s'.

  Definition keq (st st' : @store K W * list L) : Prop :=
    (forall k, fst st k = fst st' k) /\ (forall x, In x (snd st) <-> In x (snd st')).

  Lemma keq_refl st : keq st st. Proof. split; intros; tauto. Qed.
  Lemma keq_sym_store a b : keq a b -> keq b a.
  Proof. intros [H1 H2]. split; intros; [symmetry; apply H1|symmetry; apply H2]. Qed.
  Lemma keq_trans a b c : keq a b -> keq b c -> keq a c.
  Proof. intros [H1 H2] [H3 H4]. split; intros; [congruence|]. rewrite H2. apply H4. Qed.

  Lemma kstep_compat st st' a : keq st st' -> keq (kstep keqb key f g st a) (kstep keqb key f g st' a).
  Proof.
    intros [H1 H2]. unfold kstep, keq, kset. cbn [fst snd].
    assert (Hag : agree_for a (fst st) (fst st')) by (split; intros; apply H1).
    rewrite (f_local _ _ _ Hag), (g_local _ _ _ Hag). split.
    - intros k. destruct (keqb k (key a)); auto.
    - intros x. rewrite !in_app_iff, H2. tauto.
  Qed.

  Lemma kstep_commute a b st :
    key a <> key b -> frozen (key a) = false -> frozen (key b) = false ->
    keq (kstep keqb key f g (kstep keqb key f g st a) b) (kstep keqb key f g (kstep keqb key f g st b) a).
  Proof.
    intros Hab Hfa Hfb. unfold kstep, keq. cbn [fst snd].
    assert (Hb : agree_for b (kset keqb (fst st) (key a) (f a (fst st))) (fst st)).
    { unfold kset. split.
      - destruct (keqb_spec (key b) (key a)); [congruence|reflexivity].
      - intros k Hk. destruct (keqb_spec k (key a)); [congruence|reflexivity]. }
    assert (Ha : agree_for a (kset keqb (fst st) (key b) (f b (fst st))) (fst st)).
    { unfold kset. split.
      - destruct (keqb_spec (key a) (key b)); [congruence|reflexivity].
      - intros k Hk. destruct (keqb_spec k (key b)); [congruence|reflexivity]. }
    rewrite (f_local _ _ _ Hb), (g_local _ _ _ Hb), (f_local _ _ _ Ha), (g_local _ _ _ Ha).
    split.
    - intros k. unfold kset.
      destruct (keqb_spec k (key b)), (keqb_spec k (key a)); congruence.
    - intros x. rewrite !in_app_iff. tauto.
  Qed.

  (* site theorem for every range loop of this shape *)
  Theorem krange_perm_invariant l l' st :
    NoDup (map key l) -> (forall a, In a l -> frozen (key a) = false) ->
    Permutation l l' -> keq (krange keqb key f g l st) (krange keqb key f g l' st).
  Proof.
    intros Hnd Hfr Hp. unfold krange.
    apply (fold_perm_commute (kstep keqb key f g) keq keq_refl keq_trans kstep_compat l l' Hp).
    - eapply NoDup_map_inv; exact Hnd.
    - intros a b s Ha Hb Hne. apply kstep_commute; auto.
      intros Hk. clear -Hnd Ha Hb Hne Hk.
      induction l as [|c r IH]; [contradiction|]. cbn in Hnd. inversion Hnd as [|? ? Hni Hr]; subst.
      destruct Ha as [->|Ha], Hb as [->|Hb]; try congruence.
      + apply Hni. rewrite Hk. now apply in_map.
      + apply Hni. rewrite <- Hk. now apply in_map.
      + auto.
    - apply keq_refl.
  Qed.

  Lemma krange_compat l st st' : keq st st' -> keq (krange keqb key f g l st) (krange keqb key f g l st').
  Proof. apply (fold_compat (kstep keqb key f g) keq kstep_compat). Qed.

  (* entries whose body stores back the value it found are no-ops *)
  Lemma krange_filter (P : A -> bool) l st :
    (forall a st, P a = false -> keq (kstep keqb key f g st a) st) ->
    keq (krange keqb key f g l st) (krange keqb key f g (filter P l) st).
  Proof.
    intros Hno. revert st. induction l as [|a r IH]; intros st; cbn [filter]; [apply keq_refl|].
    destruct (P a) eqn:E.
    - cbn. apply IH.
    - unfold krange in *. cbn [fold_left]. eapply keq_trans; [|apply IH].
      apply krange_compat. now apply Hno.
  Qed.
End KeyedFoldProofs.

(** ** instance: pseudo-element styles *)
Section PseudoProofs.
  Context {casc style : Type}.
  Context (compute : N -> name -> casc -> option style -> option style -> style).
  Context (anchor_of : style -> name) (root : N) (is_page_type : N -> bool).

  Lemma pkey_eqb_spec a b : reflect (a = b) (pkey_eqb a b).
  Proof.
    destruct a as [e p], b as [e' p']. unfold pkey_eqb. cbn [fst snd].
    destruct (N.eqb_spec e e') as [->|]; cbn [andb]; [|constructor; congruence].
    destruct (bytes_eqb_spec p p') as [->|]; constructor; congruence.
  Qed.

  (* keys of real elements (and page types): read by the pass, changed by no body *)
  Definition pfrozen (k : pkey) : bool := negb (is_pseudo is_page_type k).

  Lemma pseudo_value_local (a : @pentry casc) (s s' : @store pkey style) :
    (forall k, pfrozen k = true -> s k = s' k) ->
    pseudo_value compute root a s = pseudo_value compute root a s'.
  Proof.
    destruct a as [[e p] c]. intros Hfr. unfold pseudo_value.
    rewrite (Hfr (e, [])), (Hfr (root, [])); auto.
  Qed.

  Lemma pseudo_f_local (a : @pentry casc) s s' :
    agree_for fst pfrozen a s s' ->
    pseudo_f compute root is_page_type a s = pseudo_f compute root is_page_type a s'.
  Proof.
    intros [Hown Hfr]. unfold pseudo_f. destruct (is_pseudo is_page_type (fst a)); [|exact Hown].
    f_equal. now apply pseudo_value_local.
  Qed.

  Lemma pseudo_g_local (a : @pentry casc) s s' :
    agree_for fst pfrozen a s s' ->
    pseudo_g compute anchor_of root is_page_type a s = pseudo_g compute anchor_of root is_page_type a s'.
  Proof.
    intros [Hown Hfr]. unfold pseudo_g. destruct (is_pseudo is_page_type (fst a)); [|reflexivity].
    now rewrite (pseudo_value_local a s s' Hfr).
  Qed.

  Lemma pseudo_noop (a : @pentry casc) st :
    is_pseudo is_page_type (fst a) = false ->
    keq (kstep pkey_eqb fst (pseudo_f compute root is_page_type)
               (pseudo_g compute anchor_of root is_page_type) st a) st.
  Proof.
    intros E. unfold kstep, keq, kset, pseudo_f, pseudo_g. rewrite E. cbn [fst snd app]. split.
    - intros k. destruct (pkey_eqb_spec k (fst a)) as [->|]; reflexivity.
    - tauto.
  Qed.

  (* style.go:129-136: the order in which the runtime visits out.cascadedStyles
     changes neither any computed style nor the collected anchor set *)
  Theorem pseudo_pass_perm_invariant (l l' : list (@pentry casc)) st :
    NoDup (map fst l) -> Permutation l l' ->
    keq (pseudo_pass compute anchor_of root is_page_type l st)
        (pseudo_pass compute anchor_of root is_page_type l' st).
  Proof.
    intros Hnd Hp. unfold pseudo_pass.
    set (P := fun a : @pentry casc => is_pseudo is_page_type (fst a)).
    eapply keq_trans; [apply (krange_filter pkey_eqb fst _ _ pfrozen pseudo_f_local pseudo_g_local P)|].
    { intros a st0 E. now apply pseudo_noop. }
    eapply keq_trans; [|apply keq_sym_store].
    2:{ apply (krange_filter pkey_eqb fst _ _ pfrozen pseudo_f_local pseudo_g_local P).
        intros a st0 E. now apply pseudo_noop. }
    apply (krange_perm_invariant pkey_eqb fst pkey_eqb_spec _ _ pfrozen pseudo_f_local pseudo_g_local).
    - clear -Hnd. induction l as [|a r IH]; cbn; [constructor|].
      inversion Hnd as [|? ? Hni Hr]; subst. destruct (P a); cbn; auto.
      constructor; auto. intros Hin. apply Hni. apply in_map_iff in Hin. destruct Hin as [x [Hx Hin]].
      apply filter_In in Hin. apply in_map_iff. exists x. tauto.
    - intros a Ha. apply filter_In in Ha. unfold pfrozen, P in *. destruct Ha as [_ ->]. reflexivity.
    - clear -Hp. induction Hp; cbn; try destruct (P x) eqn:Ex; try destruct (P y) eqn:Ey; auto.
      + apply perm_swap.
      + eapply perm_trans; eauto.
  Qed.
End PseudoProofs.

(** ** instances: SVG attribute cascade and `inherit` *)
Section SvgProofs.
  Context (not_inherited : name -> bool).
  Definition no_frozen : name -> bool := fun _ => false.

  Theorem svg_cascade_perm_invariant (l l' : list attr) child :
    NoDup (map fst l) -> Permutation l l' ->
    forall k, svg_cascade not_inherited l child k = svg_cascade not_inherited l' child k.
  Proof.
    intros Hnd Hp. unfold svg_cascade.
    apply (krange_perm_invariant bytes_eqb fst bytes_eqb_spec (cascade_f not_inherited)
             (fun _ _ => @nil unit) no_frozen); auto.
    intros a s s' [Hown _]. unfold cascade_f. now rewrite Hown.
  Qed.

  Theorem svg_inherit_perm_invariant parent (l l' : list attr) child :
    NoDup (map fst l) -> Permutation l l' ->
    forall k, svg_inherit parent l child k = svg_inherit parent l' child k.
  Proof.
    intros Hnd Hp. unfold svg_inherit.
    apply (krange_perm_invariant bytes_eqb fst bytes_eqb_spec (inherit_f parent)
             (fun _ _ => @nil unit) no_frozen); auto.
    intros a s s' [Hown _]. unfold inherit_f. now rewrite Hown.
  Qed.

  (* what the cascade computes, independent of any order: the SVG rule *)
  Lemma kset_other {W} (s : @store name W) k w k' : k' <> k -> kset bytes_eqb s k w k' = s k'.
  Proof. intros H. unfold kset. destruct (bytes_eqb_spec k' k); congruence. Qed.
  Lemma kset_same {W} (s : @store name W) k w : kset bytes_eqb s k w k = w.
  Proof. unfold kset. now rewrite bytes_eqb_refl. Qed.

  Lemma svg_cascade_notin l : forall child k, ~ In k (map fst l) -> svg_cascade not_inherited l child k = child k.
  Proof.
    unfold svg_cascade, krange.
    induction l as [|a r IH]; intros child k Hni; [reflexivity|].
    cbn [fold_left]. unfold kstep at 2. cbn [fst snd app].
    cbn in Hni. rewrite IH by tauto. apply kset_other. intros ->. tauto.
  Qed.

  Theorem svg_cascade_spec l child k v :
    NoDup (map fst l) -> In (k, v) l ->
    svg_cascade not_inherited l child k =
      if not_inherited k then child k else match child k with Some w => Some w | None => Some v end.
  Proof.
    unfold svg_cascade, krange. revert child.
    induction l as [|a r IH]; intros child Hnd Hin; [contradiction|].
    inversion Hnd as [|? ? Hni Hr]; subst. cbn [fold_left]. unfold kstep at 2. cbn [fst snd app].
    destruct Hin as [->|Hin].
    - cbn [fst] in *. fold (krange bytes_eqb fst (cascade_f not_inherited) (fun _ _ => @nil unit) r).
      pose proof (svg_cascade_notin r (kset bytes_eqb child k (cascade_f not_inherited (k, v) child)) k Hni) as H.
      unfold svg_cascade, krange in H. rewrite H, kset_same. reflexivity.
    - rewrite IH; auto.
      assert (Hk : k <> fst a) by (intros ->; apply Hni; apply in_map_iff; exists (fst a, v); auto).
      now rewrite (kset_other child (fst a) _ k Hk).
  Qed.
End SvgProofs.

