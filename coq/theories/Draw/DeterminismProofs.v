(* Draw/DeterminismProofs.v -- proofs about the models of Draw/Determinism.v (C15). *)
From Verif Require Import Base.GoSem Draw.Determinism.
From Coq Require Import List NArith ZArith QArith Bool String Permutation Sorted Lia.
Import ListNotations.

(* ================================================================== *)
(** * A. byte strings *)

Lemma bytes_eqb_spec a b : reflect (a = b) (bytes_eqb a b).
Proof.
  revert b; induction a as [|x a IH]; intros [|y b]; cbn [bytes_eqb]; try (constructor; congruence).
  destruct (N.eqb_spec x y) as [->|Hxy]; cbn [andb].
  - destruct (IH b) as [->|Hab]; constructor; congruence.
  - constructor; congruence.
Qed.

Lemma bytes_eqb_refl a : bytes_eqb a a = true.
Proof. destruct (bytes_eqb_spec a a); congruence. Qed.

Lemma bytes_leb_refl a : bytes_leb a a = true.
Proof. induction a as [|x a IH]; cbn; [reflexivity|]. rewrite N.ltb_irrefl, N.eqb_refl. exact IH. Qed.

Lemma bytes_leb_total a b : bytes_leb a b = true \/ bytes_leb b a = true.
Proof.
  revert b; induction a as [|x a IH]; intros [|y b]; cbn; auto.
  destruct (N.ltb_spec x y) as [Hlt|Hge]; auto.
  destruct (N.ltb_spec y x) as [Hlt'|Hge']; auto.
  assert (x = y) as -> by lia. rewrite N.eqb_refl. apply IH.
Qed.

Lemma bytes_leb_antisym a b : bytes_leb a b = true -> bytes_leb b a = true -> a = b.
Proof.
  revert b; induction a as [|x a IH]; intros [|y b]; cbn; try congruence.
  destruct (N.ltb_spec x y) as [Hlt|Hge].
  - destruct (N.ltb_spec y x) as [Hlt'|Hge']; [lia|].
    destruct (N.eqb_spec y x); [lia|congruence].
  - destruct (N.eqb_spec x y) as [->|Hne]; [|congruence].
    rewrite N.ltb_irrefl, N.eqb_refl. intros H1 H2. f_equal. auto.
Qed.

Lemma bytes_leb_trans a b c : bytes_leb a b = true -> bytes_leb b c = true -> bytes_leb a c = true.
Proof.
  revert b c; induction a as [|x a IH]; intros [|y b] [|z c]; cbn; try congruence.
  destruct (N.ltb_spec x y) as [Hxy|Hxy].
  - intros _. destruct (N.ltb_spec y z) as [Hyz|Hyz].
    + intros _. destruct (N.ltb_spec x z); [reflexivity|lia].
    + destruct (N.eqb_spec y z) as [->|]; [|congruence]. intros _.
      destruct (N.ltb_spec x z); [reflexivity|lia].
  - destruct (N.eqb_spec x y) as [->|]; [|congruence]. intros Hab.
    destruct (N.ltb_spec y z) as [Hyz|Hyz]; [reflexivity|].
    destruct (N.eqb_spec y z) as [->|]; [|congruence]. eauto.
Qed.

(* ================================================================== *)
(** * B. sorting by a duplicate-free key is canonical *)

Section SortProofs.
  Context {A K : Type} (key : A -> K) (leb : K -> K -> bool).
  Hypothesis leb_total : forall a b, leb a b = true \/ leb b a = true.
  Hypothesis leb_trans : forall a b c, leb a b = true -> leb b c = true -> leb a c = true.
  Hypothesis leb_antisym : forall a b, leb a b = true -> leb b a = true -> a = b.

  Definition le_key (a b : A) : Prop := leb (key a) (key b) = true.

  Lemma insert_by_perm a l : Permutation (insert_by key leb a l) (a :: l).
  Proof.
    induction l as [|b r IH]; cbn; [reflexivity|].
    destruct (leb (key a) (key b)); [reflexivity|].
    rewrite IH. apply perm_swap.
  Qed.

  Lemma sort_by_perm l : Permutation (sort_by key leb l) l.
  Proof.
    induction l as [|a r IH]; cbn; [reflexivity|].
    rewrite insert_by_perm. now constructor.
  Qed.

  Lemma insert_by_sorted a l : StronglySorted le_key l -> StronglySorted le_key (insert_by key leb a l).
  Proof.
    induction l as [|b r IH]; intros Hs; cbn.
    - repeat constructor.
    - destruct (leb (key a) (key b)) eqn:E.
      + constructor; [assumption|]. constructor; [exact E|].
        inversion Hs as [|? ? _ Hall]; subst.
        eapply Forall_impl; [|exact Hall]. intros c Hc. unfold le_key in *. eauto.
      + inversion Hs as [|? ? Hr Hall]; subst. constructor; [auto|].
        assert (Hba : le_key b a). { unfold le_key. destruct (leb_total (key a) (key b)); congruence. }
        eapply Permutation_Forall; [symmetry; apply insert_by_perm|]. constructor; assumption.
  Qed.

  Lemma sort_by_sorted l : StronglySorted le_key (sort_by key leb l).
  Proof. induction l; cbn; [constructor|]. now apply insert_by_sorted. Qed.

  (* two sorted arrangements of the same duplicate-free-key content are equal *)
  Lemma sorted_perm_unique l l' :
    NoDup (map key l) -> StronglySorted le_key l -> StronglySorted le_key l' ->
    Permutation l l' -> l = l'.
  Proof.
    revert l'; induction l as [|a t IH]; intros l' Hnd Hs Hs' Hp.
    - apply Permutation_nil in Hp. now subst.
    - destruct l' as [|a' t']; [apply Permutation_sym, Permutation_nil in Hp; discriminate|].
      assert (Hin' : In a' (a :: t)) by (eapply Permutation_in; [symmetry; exact Hp|now left]).
      assert (Hin : In a (a' :: t')) by (eapply Permutation_in; [exact Hp|now left]).
      inversion Hs as [|? ? Hst Hall]; subst. inversion Hs' as [|? ? Hst' Hall']; subst.
      assert (Heq : a = a').
      { destruct Hin' as [->|Hin't]; [reflexivity|]. destruct Hin as [->|Hint']; [reflexivity|].
        rewrite Forall_forall in Hall, Hall'.
        assert (Hk : key a = key a') by (apply leb_antisym; [apply Hall|apply Hall']; assumption).
        exfalso. inversion Hnd as [|? ? Hni _]; subst. apply Hni. rewrite Hk. now apply in_map. }
      subst a'. f_equal. apply IH; auto.
      + now inversion Hnd.
      + eapply Permutation_cons_inv; exact Hp.
  Qed.

  (* the canonical-order lemma: sort (pi l) = sort l *)
  Theorem sort_by_perm_invariant l l' :
    NoDup (map key l) -> Permutation l l' -> sort_by key leb l = sort_by key leb l'.
  Proof.
    intros Hnd Hp. apply sorted_perm_unique.
    - eapply Permutation_NoDup; [|exact Hnd]. apply Permutation_map. symmetry. apply sort_by_perm.
    - apply sort_by_sorted.
    - apply sort_by_sorted.
    - rewrite sort_by_perm, Hp. symmetry. apply sort_by_perm.
  Qed.

  (* sorting a sorted list is the identity (the implementation's output, fed
     to the model as the map content, comes back unchanged iff it was sorted) *)
  Lemma sort_by_sorted_id l : NoDup (map key l) -> StronglySorted le_key l -> sort_by key leb l = l.
  Proof.
    intros Hnd Hs. symmetry. apply sorted_perm_unique; auto.
    - apply sort_by_sorted.
    - symmetry. apply sort_by_perm.
  Qed.
End SortProofs.

(* ================================================================== *)
(** * C. anchors *)

Definition anchors_nodup (p : list anchor) : Prop := NoDup (map a_name p).

Lemma sort_anchors_perm_invariant p p' :
  anchors_nodup p -> Permutation p p' -> sort_anchors p = sort_anchors p'.
Proof.
  apply sort_by_perm_invariant.
  - apply bytes_leb_total. - apply bytes_leb_trans. - apply bytes_leb_antisym.
Qed.

Lemma map_sort_anchors_perm pages pages' :
  Forall anchors_nodup pages -> Forall2 (@Permutation anchor) pages pages' ->
  map sort_anchors pages = map sort_anchors pages'.
Proof.
  intros Hnd Hp. induction Hp as [|p p' r r' Hpp _ IH]; cbn; [reflexivity|].
  inversion Hnd; subst. f_equal; [now apply sort_anchors_perm_invariant|auto].
Qed.

(* site_perm_invariant_anchors: whatever order the runtime iterates each
   page.anchors in, the lists handed to the backend and the set used to filter
   internal links are the same *)
Theorem resolve_anchors_perm_invariant pages pages' :
  Forall anchors_nodup pages -> Forall2 (@Permutation anchor) pages pages' ->
  resolve_anchors pages = resolve_anchors pages' /\
  forall t, link_kept pages t = link_kept pages' t.
Proof.
  intros Hnd Hp. unfold resolve_anchors, link_kept, resolved_names.
  rewrite (map_sort_anchors_perm _ _ Hnd Hp). auto.
Qed.

(* the unrepaired loop is order-sensitive: DESIGN section 6 #14 *)
Definition wit_a : anchor := An [97%N] 0 0.
Definition wit_b : anchor := An [98%N] 1 1.
Theorem resolve_anchors_unordered_refuted :
  exists p p', anchors_nodup p /\ Permutation p p' /\
    resolve_anchors_unordered [p] <> resolve_anchors_unordered [p'].
Proof.
  exists [wit_a; wit_b], [wit_b; wit_a]. split; [|split].
  - repeat constructor; cbn; intuition congruence.
  - apply perm_swap.
  - vm_compute. congruence.
Qed.

(* specification side of the repaired loop *)
Lemma page_anchors_sub seen l : forall a, In a (fst (page_anchors seen l)) -> In a l /\ mem_name (a_name a) seen = false.
Proof.
  revert seen; induction l as [|b r IH]; intros seen a; cbn; [tauto|].
  destruct (mem_name (a_name b) seen) eqn:E.
  - intros H. apply IH in H. tauto.
  - destruct (page_anchors (a_name b :: seen) r) as [o s] eqn:Ep. cbn.
    intros [<-|H]; [auto|].
    specialize (IH (a_name b :: seen) a). rewrite Ep in IH. cbn in IH. apply IH in H.
    destruct H as [H1 H2]. split; [auto|]. cbn in H2. apply orb_false_iff in H2. tauto.
Qed.

Lemma page_anchors_sublist_sorted R seen l :
  StronglySorted R l -> StronglySorted R (fst (page_anchors seen l)).
Proof.
  revert seen; induction l as [|b r IH]; intros seen Hs; cbn; [constructor|].
  inversion Hs as [|? ? Hr Hall]; subst.
  destruct (mem_name (a_name b) seen); [auto|].
  destruct (page_anchors (a_name b :: seen) r) as [o s] eqn:Ep. cbn.
  specialize (IH (a_name b :: seen) Hr). rewrite Ep in IH. cbn in IH.
  constructor; [exact IH|].
  rewrite Forall_forall in *. intros a Ha. apply Hall.
  pose proof (page_anchors_sub (a_name b :: seen) r a) as Hsub. rewrite Ep in Hsub. cbn in Hsub.
  now apply Hsub.
Qed.

Lemma resolve_iter_sorted seen pages :
  Forall (StronglySorted (le_key a_name bytes_leb)) pages ->
  Forall (StronglySorted (le_key a_name bytes_leb)) (fst (resolve_anchors_iter seen pages)).
Proof.
  revert seen; induction pages as [|p r IH]; intros seen Hs; cbn; [constructor|].
  inversion Hs; subst.
  destruct (page_anchors seen p) as [cur seen1] eqn:E1.
  destruct (resolve_anchors_iter seen1 r) as [rest seen2] eqn:E2. cbn.
  constructor.
  - pose proof (page_anchors_sublist_sorted (le_key a_name bytes_leb) seen p) as H. rewrite E1 in H. auto.
  - specialize (IH seen1). rewrite E2 in IH. auto.
Qed.

(* every page's anchor list is in increasing byte order of the names *)
Theorem resolve_anchors_sorted pages :
  Forall (StronglySorted (le_key a_name bytes_leb)) (resolve_anchors pages).
Proof.
  unfold resolve_anchors. apply resolve_iter_sorted.
  induction pages; cbn; constructor; auto.
  apply sort_by_sorted. - apply bytes_leb_total. - apply bytes_leb_trans.
Qed.

(* ================================================================== *)
(** * D. folds whose steps commute *)

Section FoldCommute.
  Context {S A : Type} (step : S -> A -> S) (eqS : S -> S -> Prop).
  Hypothesis eqS_refl : forall s, eqS s s.
  Hypothesis eqS_trans : forall s t u, eqS s t -> eqS t u -> eqS s u.
  Hypothesis step_compat : forall s s' a, eqS s s' -> eqS (step s a) (step s' a).

  Lemma fold_compat l : forall s s', eqS s s' -> eqS (fold_left step l s) (fold_left step l s').
  Proof. induction l as [|a r IH]; cbn; auto. Qed.

  (* commutation lemma: if distinct elements of the list commute (at every
     state), every permutation of the list folds to an equivalent state *)
  Theorem fold_perm_commute l l' :
    Permutation l l' -> NoDup l ->
    (forall a b s, In a l -> In b l -> a <> b -> eqS (step (step s a) b) (step (step s b) a)) ->
    forall s s', eqS s s' -> eqS (fold_left step l s) (fold_left step l' s').
  Proof.
    induction 1 as [|x l l' Hp IH|x y l|l l' l'' Hp1 IH1 Hp2 IH2]; intros Hnd Hc s s' Hs.
    - exact Hs.
    - cbn. apply IH.
      + now inversion Hnd.
      + intros a b t Ha Hb. apply Hc; now right.
      + now apply step_compat.
    - cbn. eapply eqS_trans.
      + apply fold_compat. apply Hc; [now left|right; now left|].
        inversion Hnd as [|? ? Hni _]; subst. intros ->. apply Hni. now left.
      + apply fold_compat. apply step_compat. now apply step_compat.
    - eapply eqS_trans; [apply IH1; auto|].
      apply IH2; auto.
      + eapply Permutation_NoDup; eauto.
      + intros a b t Ha Hb. apply Hc; eapply Permutation_in; try (symmetry; exact Hp1); assumption.
  Qed.
End FoldCommute.

(** ** keyed folds *)
Section KeyedFoldProofs.
  Context {K W A L : Type} (keqb : K -> K -> bool) (key : A -> K).
  Hypothesis keqb_spec : forall a b, reflect (a = b) (keqb a b).
  Context (f : A -> @store K W -> option W) (g : A -> @store K W -> list L).
  Context (frozen : K -> bool).
  (* the body reads the store only at its own key and at keys no body writes *)
  Definition agree_for (a : A) (s s' : @store K W) : Prop :=
    s (key a) = s' (key a) /\ forall k, frozen k = true -> s k = s' k.
  Hypothesis f_local : forall a s s', agree_for a s s' -> f a s = f a s'.
  Hypothesis g_local : forall a s s', agree_for a s s' -> g a s = g a s'.

  Definition keq (st st' : @store K W * list L) : Prop :=
    (forall k, fst st k = fst st' k) /\ (forall x, In x (snd st) <-> In x (snd st')).

  Lemma keq_refl st : keq st st. Proof. split; intros; tauto. Qed.
  Lemma keq_sym_store a b : keq a b -> keq b a.
  Proof. intros [H1 H2]. split; intros; [symmetry; apply H1|symmetry; apply H2]. Qed.
  Lemma keq_trans a b c : keq a b -> keq b c -> keq a c.
  Proof. intros [H1 H2] [H3 H4]. split; intros; [congruence|]. rewrite H2. apply H4. Qed.

  Lemma kstep_compat st st' a : keq st st' -> keq (kstep keqb key f g st a) (kstep keqb key f g st' a).
  Proof.
    intros [H1 H2]. unfold kstep, keq, kset. cbn [fst snd].
    assert (Hag : agree_for a (fst st) (fst st')) by (split; intros; apply H1).
    rewrite (f_local _ _ _ Hag), (g_local _ _ _ Hag). split.
    - intros k. destruct (keqb k (key a)); auto.
    - intros x. rewrite !in_app_iff, H2. tauto.
  Qed.

  Lemma kstep_commute a b st :
    key a <> key b -> frozen (key a) = false -> frozen (key b) = false ->
    keq (kstep keqb key f g (kstep keqb key f g st a) b) (kstep keqb key f g (kstep keqb key f g st b) a).
  Proof.
    intros Hab Hfa Hfb. unfold kstep, keq. cbn [fst snd].
    assert (Hb : agree_for b (kset keqb (fst st) (key a) (f a (fst st))) (fst st)).
    { unfold kset. split.
      - destruct (keqb_spec (key b) (key a)); [congruence|reflexivity].
      - intros k Hk. destruct (keqb_spec k (key a)); [congruence|reflexivity]. }
    assert (Ha : agree_for a (kset keqb (fst st) (key b) (f b (fst st))) (fst st)).
    { unfold kset. split.
      - destruct (keqb_spec (key a) (key b)); [congruence|reflexivity].
      - intros k Hk. destruct (keqb_spec k (key b)); [congruence|reflexivity]. }
    rewrite (f_local _ _ _ Hb), (g_local _ _ _ Hb), (f_local _ _ _ Ha), (g_local _ _ _ Ha).
    split.
    - intros k. unfold kset.
      destruct (keqb_spec k (key b)), (keqb_spec k (key a)); congruence.
    - intros x. rewrite !in_app_iff. tauto.
  Qed.

  (* site theorem for every range loop of this shape *)
  Theorem krange_perm_invariant l l' st :
    NoDup (map key l) -> (forall a, In a l -> frozen (key a) = false) ->
    Permutation l l' -> keq (krange keqb key f g l st) (krange keqb key f g l' st).
  Proof.
    intros Hnd Hfr Hp. unfold krange.
    apply (fold_perm_commute (kstep keqb key f g) keq keq_refl keq_trans kstep_compat l l' Hp).
    - eapply NoDup_map_inv; exact Hnd.
    - intros a b s Ha Hb Hne. apply kstep_commute; auto.
      intros Hk. clear -Hnd Ha Hb Hne Hk.
      induction l as [|c r IH]; [contradiction|]. cbn in Hnd. inversion Hnd as [|? ? Hni Hr]; subst.
      destruct Ha as [->|Ha], Hb as [->|Hb]; try congruence.
      + apply Hni. rewrite Hk. now apply in_map.
      + apply Hni. rewrite <- Hk. now apply in_map.
      + auto.
    - apply keq_refl.
  Qed.

  Lemma krange_compat l st st' : keq st st' -> keq (krange keqb key f g l st) (krange keqb key f g l st').
  Proof. apply (fold_compat (kstep keqb key f g) keq kstep_compat). Qed.

  (* entries whose body stores back the value it found are no-ops *)
  Lemma krange_filter (P : A -> bool) l st :
    (forall a st, P a = false -> keq (kstep keqb key f g st a) st) ->
    keq (krange keqb key f g l st) (krange keqb key f g (filter P l) st).
  Proof.
    intros Hno. revert st. induction l as [|a r IH]; intros st; cbn [filter]; [apply keq_refl|].
    destruct (P a) eqn:E.
    - cbn. apply IH.
    - unfold krange in *. cbn [fold_left]. eapply keq_trans; [|apply IH].
      apply krange_compat. now apply Hno.
  Qed.
End KeyedFoldProofs.

(** ** instance: pseudo-element styles *)
Section PseudoProofs.
  Context {casc style : Type}.
  Context (compute : N -> name -> casc -> option style -> option style -> style).
  Context (anchor_of : style -> name) (root : N) (is_page_type : N -> bool).

  Lemma pkey_eqb_spec a b : reflect (a = b) (pkey_eqb a b).
  Proof.
    destruct a as [e p], b as [e' p']. unfold pkey_eqb. cbn [fst snd].
    destruct (N.eqb_spec e e') as [->|]; cbn [andb]; [|constructor; congruence].
    destruct (bytes_eqb_spec p p') as [->|]; constructor; congruence.
  Qed.

  (* keys of real elements (and page types): read by the pass, changed by no body *)
  Definition pfrozen (k : pkey) : bool := negb (is_pseudo is_page_type k).

  Lemma pseudo_value_local (a : @pentry casc) (s s' : @store pkey style) :
    (forall k, pfrozen k = true -> s k = s' k) ->
    pseudo_value compute root a s = pseudo_value compute root a s'.
  Proof.
    destruct a as [[e p] c]. intros Hfr. unfold pseudo_value.
    rewrite (Hfr (e, [])), (Hfr (root, [])); auto.
  Qed.

  Lemma pseudo_f_local (a : @pentry casc) s s' :
    agree_for fst pfrozen a s s' ->
    pseudo_f compute root is_page_type a s = pseudo_f compute root is_page_type a s'.
  Proof.
    intros [Hown Hfr]. unfold pseudo_f. destruct (is_pseudo is_page_type (fst a)); [|exact Hown].
    f_equal. now apply pseudo_value_local.
  Qed.

  Lemma pseudo_g_local (a : @pentry casc) s s' :
    agree_for fst pfrozen a s s' ->
    pseudo_g compute anchor_of root is_page_type a s = pseudo_g compute anchor_of root is_page_type a s'.
  Proof.
    intros [Hown Hfr]. unfold pseudo_g. destruct (is_pseudo is_page_type (fst a)); [|reflexivity].
    now rewrite (pseudo_value_local a s s' Hfr).
  Qed.

  Lemma pseudo_noop (a : @pentry casc) st :
    is_pseudo is_page_type (fst a) = false ->
    keq (kstep pkey_eqb fst (pseudo_f compute root is_page_type)
               (pseudo_g compute anchor_of root is_page_type) st a) st.
  Proof.
    intros E. unfold kstep, keq, kset, pseudo_f, pseudo_g. rewrite E. cbn [fst snd app]. split.
    - intros k. destruct (pkey_eqb_spec k (fst a)) as [->|]; reflexivity.
    - tauto.
  Qed.

  (* style.go:129-136: the order in which the runtime visits out.cascadedStyles
     changes neither any computed style nor the collected anchor set *)
  Theorem pseudo_pass_perm_invariant (l l' : list (@pentry casc)) st :
    NoDup (map fst l) -> Permutation l l' ->
    keq (pseudo_pass compute anchor_of root is_page_type l st)
        (pseudo_pass compute anchor_of root is_page_type l' st).
  Proof.
    intros Hnd Hp. unfold pseudo_pass.
    set (P := fun a : @pentry casc => is_pseudo is_page_type (fst a)).
    eapply keq_trans; [apply (krange_filter pkey_eqb fst _ _ pfrozen pseudo_f_local pseudo_g_local P)|].
    { intros a st0 E. now apply pseudo_noop. }
    eapply keq_trans; [|apply keq_sym_store].
    2:{ apply (krange_filter pkey_eqb fst _ _ pfrozen pseudo_f_local pseudo_g_local P).
        intros a st0 E. now apply pseudo_noop. }
    apply (krange_perm_invariant pkey_eqb fst pkey_eqb_spec _ _ pfrozen pseudo_f_local pseudo_g_local).
    - clear -Hnd. induction l as [|a r IH]; cbn; [constructor|].
      inversion Hnd as [|? ? Hni Hr]; subst. destruct (P a); cbn; auto.
      constructor; auto. intros Hin. apply Hni. apply in_map_iff in Hin. destruct Hin as [x [Hx Hin]].
      apply filter_In in Hin. apply in_map_iff. exists x. tauto.
    - intros a Ha. apply filter_In in Ha. unfold pfrozen, P in *. destruct Ha as [_ ->]. reflexivity.
    - clear -Hp. induction Hp; cbn; try destruct (P x) eqn:Ex; try destruct (P y) eqn:Ey; auto.
      + apply perm_swap.
      + eapply perm_trans; eauto.
  Qed.
End PseudoProofs.

(** ** instances: SVG attribute cascade and `inherit` *)
Section SvgProofs.
  Context (not_inherited : name -> bool).
  Definition no_frozen : name -> bool := fun _ => false.

  Theorem svg_cascade_perm_invariant (l l' : list attr) child :
    NoDup (map fst l) -> Permutation l l' ->
    forall k, svg_cascade not_inherited l child k = svg_cascade not_inherited l' child k.
  Proof.
    intros Hnd Hp. unfold svg_cascade.
    apply (krange_perm_invariant bytes_eqb fst bytes_eqb_spec (cascade_f not_inherited)
             (fun _ _ => @nil unit) no_frozen); auto.
    intros a s s' [Hown _]. unfold cascade_f. now rewrite Hown.
  Qed.

  Theorem svg_inherit_perm_invariant parent (l l' : list attr) child :
    NoDup (map fst l) -> Permutation l l' ->
    forall k, svg_inherit parent l child k = svg_inherit parent l' child k.
  Proof.
    intros Hnd Hp. unfold svg_inherit.
    apply (krange_perm_invariant bytes_eqb fst bytes_eqb_spec (inherit_f parent)
             (fun _ _ => @nil unit) no_frozen); auto.
    intros a s s' [Hown _]. unfold inherit_f. now rewrite Hown.
  Qed.

  (* what the cascade computes, independent of any order: the SVG rule *)
  Lemma kset_other {W} (s : @store name W) k w k' : k' <> k -> kset bytes_eqb s k w k' = s k'.
  Proof. intros H. unfold kset. destruct (bytes_eqb_spec k' k); congruence. Qed.
  Lemma kset_same {W} (s : @store name W) k w : kset bytes_eqb s k w k = w.
  Proof. unfold kset. now rewrite bytes_eqb_refl. Qed.

  Lemma svg_cascade_notin l : forall child k, ~ In k (map fst l) -> svg_cascade not_inherited l child k = child k.
  Proof.
    unfold svg_cascade, krange.
    induction l as [|a r IH]; intros child k Hni; [reflexivity|].
    cbn [fold_left]. unfold kstep at 2. cbn [fst snd app].
    cbn in Hni. rewrite IH by tauto. apply kset_other. intros ->. tauto.
  Qed.

  Theorem svg_cascade_spec l child k v :
    NoDup (map fst l) -> In (k, v) l ->
    svg_cascade not_inherited l child k =
      if not_inherited k then child k else match child k with Some w => Some w | None => Some v end.
  Proof.
    unfold svg_cascade, krange. revert child.
    induction l as [|a r IH]; intros child Hnd Hin; [contradiction|].
    inversion Hnd as [|? ? Hni Hr]; subst. cbn [fold_left]. unfold kstep at 2. cbn [fst snd app].
    destruct Hin as [->|Hin].
    - cbn [fst] in *. fold (krange bytes_eqb fst (cascade_f not_inherited) (fun _ _ => @nil unit) r).
      pose proof (svg_cascade_notin r (kset bytes_eqb child k (cascade_f not_inherited (k, v) child)) k Hni) as H.
      unfold svg_cascade, krange in H. rewrite H, kset_same. reflexivity.
    - rewrite IH; auto.
      assert (Hk : k <> fst a) by (intros ->; apply Hni; apply in_map_iff; exists (fst a, v); auto).
      now rewrite (kset_other child (fst a) _ k Hk).
  Qed.
End SvgProofs.

(* ================================================================== *)
(** * E. string-set / bookmark-label pass *)
Section RelabelProofs.
  Context (reparse : css_token -> name) (mlink : N).

  Definition lk_eqb (a b : lookup_key) : bool := N.eqb (lk_box a) (lk_box b) && token_eqb (lk_token a) (lk_token b).

  (* what the rest of layout and the backend can see of the state: the labels,
     and for every string name the values filed under it (layout.go:229-240) *)
  Definition rs_equiv (s s' : relabel_state) : Prop :=
    rs_src_label s = rs_src_label s' /\ rs_child_label s = rs_child_label s' /\
    forall n, strings_named n (rs_src_strings s) = strings_named n (rs_src_strings s').

  Lemma rs_equiv_refl s : rs_equiv s s. Proof. repeat split. Qed.
  Lemma rs_equiv_trans a b c : rs_equiv a b -> rs_equiv b c -> rs_equiv a c.
  Proof. intros (H1 & H2 & H3) (H4 & H5 & H6). split; [congruence|split; [congruence|intros n; now rewrite H3]]. Qed.

  Lemma strings_named_app n l1 l2 : strings_named n (l1 ++ l2) = strings_named n l1 ++ strings_named n l2.
  Proof. unfold strings_named. now rewrite filter_app, map_app. Qed.

  Lemma strings_named_remove_other n m l : n <> m ->
    strings_named n (remove_first_named m l) = strings_named n l.
  Proof.
    intros Hne. induction l as [|e r IH]; [reflexivity|]. cbn [remove_first_named].
    destruct (bytes_eqb_spec (fst e) m) as [He|He].
    - unfold strings_named. cbn [filter]. destruct (bytes_eqb_spec (fst e) n); [congruence|reflexivity].
    - unfold strings_named in *. cbn [filter]. destruct (bytes_eqb (fst e) n); cbn [map]; now rewrite IH.
  Qed.

  (* removing the first entry named m leaves, under m, the tail of what was there *)
  Lemma strings_named_remove_same m l :
    strings_named m (remove_first_named m l) = tl (strings_named m l).
  Proof.
    induction l as [|e r IH]; [reflexivity|]. cbn [remove_first_named].
    destruct (bytes_eqb_spec (fst e) m) as [He|He].
    - unfold strings_named. cbn [filter]. destruct (bytes_eqb_spec (fst e) m); [reflexivity|congruence].
    - unfold strings_named in *. cbn [filter]. destruct (bytes_eqb_spec (fst e) m); [congruence|exact IH].
  Qed.

  Lemma named_single_same n v : strings_named n [(n, v)] = [v].
  Proof. unfold strings_named. cbn. now rewrite bytes_eqb_refl. Qed.
  Lemma named_single_other n m v : n <> m -> strings_named n [(m, v)] = [].
  Proof. intros H. unfold strings_named. cbn. destruct (bytes_eqb_spec m n); [congruence|reflexivity]. Qed.

  Lemma relabel_step_compat s s' k : rs_equiv s s' -> rs_equiv (relabel_step reparse mlink s k) (relabel_step reparse mlink s' k).
  Proof.
    intros (H1 & H2 & H3). unfold relabel_step.
    destruct (negb (N.eqb (lk_box k) mlink)); [repeat split; auto|].
    destruct (lk_token k) as [| |n|n]; try (repeat split; auto; fail).
    - rewrite H2. destruct (bytes_eqb (rs_child_label s') []); repeat split; auto.
    - repeat split; auto. cbn [rs_src_strings]. intros m. rewrite !strings_named_app. f_equal.
      destruct (bytes_eqb_spec m n) as [->|Hne].
      + rewrite !strings_named_remove_same. now rewrite H3.
      + rewrite !strings_named_remove_other by assumption. apply H3.
  Qed.

  Lemma relabel_step_commute s a b : a <> b ->
    rs_equiv (relabel_step reparse mlink (relabel_step reparse mlink s a) b)
             (relabel_step reparse mlink (relabel_step reparse mlink s b) a).
  Proof.
    intros Hne. destruct a as [ba ta], b as [bb tb]. unfold relabel_step. cbn [lk_box lk_token].
    destruct (N.eqb_spec ba mlink) as [->|Ha]; cbn [negb]; [|apply rs_equiv_refl].
    destruct (N.eqb_spec bb mlink) as [->|Hb]; cbn [negb]; [|apply rs_equiv_refl].
    destruct ta as [| |na|na], tb as [| |nb|nb]; cbn [rs_child_label rs_src_label rs_src_strings];
      try apply rs_equiv_refl; try congruence.
    - destruct (bytes_eqb (rs_child_label s) []); cbn [rs_child_label rs_src_label rs_src_strings]; apply rs_equiv_refl.
    - destruct (bytes_eqb (rs_child_label s) []); cbn [rs_child_label rs_src_label rs_src_strings]; apply rs_equiv_refl.
    - assert (Hn : na <> nb) by congruence. assert (Hn' : nb <> na) by congruence.
      repeat split. cbn [rs_src_strings]. intros m.
      destruct (bytes_eqb_spec m na) as [->|Hma]; [|destruct (bytes_eqb_spec m nb) as [->|Hmb]];
        repeat first [ rewrite strings_named_app | rewrite strings_named_remove_same
                     | rewrite strings_named_remove_other by assumption
                     | rewrite named_single_same | rewrite named_single_other by assumption
                     | rewrite app_nil_r ]; reflexivity.
  Qed.

  (* layout.go:212-227: the order in which CounterLookupItems is visited does
     not change the labels nor what is filed under any string name *)
  Theorem relabel_pass_perm_invariant l l' s :
    NoDup l -> Permutation l l' ->
    rs_equiv (relabel_pass reparse mlink l s) (relabel_pass reparse mlink l' s).
  Proof.
    intros Hnd Hp. unfold relabel_pass.
    apply (fold_perm_commute (relabel_step reparse mlink) rs_equiv rs_equiv_refl rs_equiv_trans
             relabel_step_compat l l' Hp Hnd).
    - intros a b t _ _ Hne. now apply relabel_step_commute.
    - apply rs_equiv_refl.
  Qed.
End RelabelProofs.

(* ================================================================== *)
(** * F. brokenOutOfFlow *)

(* the unrepaired loop (pages.go:725 before 360d151) is order-sensitive as soon
   as placement looks at what is already placed: two left floats *)
Theorem reinsert_unordered_refuted :
  exists (l l' : list N), NoDup l /\ Permutation l l' /\
    reinsert_unordered place_left l <> reinsert_unordered place_left l'.
Proof.
  exists [50; 70]%N, [70; 50]%N. split; [|split].
  - repeat constructor; cbn; intuition congruence.
  - apply perm_swap.
  - vm_compute. congruence.
Qed.

Lemma Forall_filter_nil {A} (P : A -> bool) (l : list A) :
  filter P l = [] <-> Forall (fun x => P x = false) l.
Proof.
  induction l as [|x r IH]; cbn; [split; constructor|]. destruct (P x) eqn:E.
  - split; [discriminate|]. intros H. inversion H; congruence.
  - rewrite IH. split; [now constructor|]. intros H. now inversion H.
Qed.

Section OMapProofs.
  Context {V : Type}.
  Implicit Types (m : list (N * V)) (o : omap V).

  Lemma alist_get_in m k : NoDup (map fst m) -> forall v, alist_get m k = Some v <-> In (k, v) m.
  Proof.
    induction m as [|[k' v'] r IH]; intros Hnd v; cbn; [split; [discriminate|tauto]|].
    inversion Hnd as [|? ? Hni Hr]; subst.
    destruct (N.eqb_spec k k') as [->|Hne].
    - split; [intros [= ->]; now left|]. intros [[= ->]|Hin]; [reflexivity|].
      exfalso. apply Hni. apply in_map_iff. exists (k', v). auto.
    - rewrite IH by assumption. split; [tauto|]. intros [[= -> ->]|H]; [congruence|exact H].
  Qed.

  Lemma alist_get_none m k : alist_get m k = None <-> ~ In k (map fst m).
  Proof.
    induction m as [|[k' v'] r IH]; cbn; [tauto|].
    destruct (N.eqb_spec k k') as [->|Hne]; [split; [discriminate|tauto]|].
    rewrite IH. split; [intros H [Hk|Hk]; [congruence|tauto]|tauto].
  Qed.

  (* the Go map's internal order is invisible through lookups *)
  Lemma alist_get_perm m m' k : NoDup (map fst m) -> Permutation m m' -> alist_get m k = alist_get m' k.
  Proof.
    intros Hnd Hp.
    assert (Hnd' : NoDup (map fst m')) by (eapply Permutation_NoDup; [apply Permutation_map; exact Hp|exact Hnd]).
    destruct (alist_get m k) as [v|] eqn:E.
    - symmetry. apply alist_get_in; auto. eapply Permutation_in; [exact Hp|]. now apply alist_get_in.
    - symmetry. apply alist_get_none. apply alist_get_none in E. intros Hin. apply E.
      eapply Permutation_in; [symmetry; apply Permutation_map; exact Hp|exact Hin].
  Qed.

  (* site theorem (repaired): values() -- hence the order in which broken
     boxes are laid out again -- is a function of the key slice and of the map
     CONTENT; the runtime's order of the map does not reach it *)
  Theorem om_values_perm_invariant keys m m' :
    NoDup (map fst m) -> Permutation m m' -> om_values (OM keys m) = om_values (OM keys m').
  Proof.
    intros Hnd Hp. unfold om_values. cbn [om_keys om_map]. apply map_ext. intros k. now apply alist_get_perm.
  Qed.

  Lemma alist_remove_fst m k : map fst (alist_remove m k) = filter (fun k' => negb (N.eqb k' k)) (map fst m).
  Proof. unfold alist_remove. induction m as [|[k' v'] r IH]; cbn; [reflexivity|]. destruct (N.eqb k' k); cbn; now rewrite IH. Qed.

  Lemma NoDup_filter {A} (P : A -> bool) l : NoDup l -> NoDup (filter P l).
  Proof.
    induction 1 as [|x l Hni Hnd IH]; cbn; [constructor|]. destruct (P x); auto.
    constructor; auto. intros Hin. apply filter_In in Hin. tauto.
  Qed.

  Lemma om_set_wf o k v : om_wf o -> om_wf (om_set o k v).
  Proof.
    intros (Hk & Hm & Hiff). unfold om_set, om_wf. cbn [om_keys om_map alist_set map fst].
    rewrite alist_remove_fst. split; [|split].
    - destruct (alist_get (om_map o) k) eqn:E; [assumption|].
      apply alist_get_none in E. eapply Permutation_NoDup; [apply Permutation_cons_append|].
      constructor; [|assumption]. intros Hin. apply E. now apply Hiff.
    - constructor; [|now apply NoDup_filter].
      intros Hin. apply filter_In in Hin. destruct Hin as [_ Hin]. now rewrite N.eqb_refl in Hin.
    - intros x. cbn [In]. rewrite filter_In.
      destruct (alist_get (om_map o) k) eqn:E.
      + assert (Hin : In k (map fst (om_map o))).
        { destruct (alist_get (om_map o) k) eqn:E'; [|discriminate].
          apply alist_get_in in E'; auto. apply in_map_iff. exists (k, v1). auto. }
        rewrite Hiff. destruct (N.eqb_spec x k) as [->|Hne]; cbn; intuition congruence.
      + rewrite in_app_iff, Hiff. cbn [In]. destruct (N.eqb_spec x k) as [->|Hne]; cbn; intuition congruence.
  Qed.

  Lemma om_delete_wf o k : om_wf o -> om_wf (om_delete o k).
  Proof.
    intros (Hk & Hm & Hiff). unfold om_delete. destruct (alist_get (om_map o) k); [|repeat split; auto; apply Hiff].
    unfold om_wf. cbn [om_keys om_map]. rewrite alist_remove_fst. split; [|split]; try now apply NoDup_filter.
    intros x. rewrite !filter_In, Hiff. tauto.
  Qed.

  Lemma om_empty_wf : om_wf (@om_empty V).
  Proof. repeat split; cbn; try constructor; tauto. Qed.

  Lemma om_update_wf o other : om_wf o -> om_wf (om_update o other).
  Proof.
    unfold om_update. generalize (om_keys other) as ks. intros ks. revert o.
    induction ks as [|k r IH]; intros o Hwf; cbn; [exact Hwf|].
    apply IH. destruct (alist_get (om_map other) k); [now apply om_set_wf|exact Hwf].
  Qed.

  (* clear empties the map whatever order `range b.m` takes *)
  Lemma fold_remove_fst order m :
    map fst (fold_left alist_remove order m) = filter (fun k => negb (existsb (N.eqb k) order)) (map fst m).
  Proof.
    revert m; induction order as [|k r IH]; intros m; cbn [fold_left existsb].
    - generalize (map fst m) as ks. induction ks as [|x t IHt]; cbn; [reflexivity|]. now f_equal.
    - rewrite IH, alist_remove_fst. generalize (map fst m) as ks.
      induction ks as [|x t IHt]; cbn [filter]; [reflexivity|].
      cbn [existsb]. destruct (N.eqb x k) eqn:E; cbn [negb orb filter]; [exact IHt|].
      destruct (existsb (N.eqb x) r); cbn [negb]; [exact IHt|now f_equal].
  Qed.

  Theorem om_clear_empty o order :
    Permutation order (map fst (om_map o)) -> om_clear o order = om_empty.
  Proof.
    intros Hp. unfold om_clear, om_empty. f_equal.
    assert (H : map fst (fold_left alist_remove order (om_map o)) = []).
    { rewrite fold_remove_fst. apply (proj2 (Forall_filter_nil _ _)).
      - apply Forall_forall. intros x Hx. apply negb_false_iff. apply existsb_exists. exists x.
        split; [eapply Permutation_in; [symmetry; exact Hp|exact Hx]|apply N.eqb_refl]. }
    destruct (fold_left alist_remove order (om_map o)); [reflexivity|discriminate].
  Qed.

  (* Python-dict behaviour of the repaired type: a new key goes last, an
     existing key keeps its place and takes the new value *)
  Theorem om_set_new_appends o k v : om_wf o -> alist_get (om_map o) k = None ->
    om_values (om_set o k v) = om_values o ++ [Some v].
  Proof.
    intros (Hk & Hm & Hiff) E. unfold om_values, om_set. rewrite E. cbn [om_keys om_map].
    rewrite map_app. cbn [map alist_set alist_get]. rewrite N.eqb_refl. f_equal.
    apply map_ext_in. intros x Hx. destruct (N.eqb_spec x k) as [->|Hne].
    - exfalso. apply alist_get_none in E. apply E. now apply Hiff.
    - clear -Hne. induction (om_map o) as [|[k' v'] r IH]; cbn; [reflexivity|].
      destruct (N.eqb_spec k' k) as [->|Hk]; cbn.
      + destruct (N.eqb_spec x k); [congruence|exact IH].
      + destruct (N.eqb x k'); [reflexivity|exact IH].
  Qed.

  Theorem om_set_existing_keeps_place o k v : alist_get (om_map o) k <> None ->
    om_keys (om_set o k v) = om_keys o /\
    om_values (om_set o k v) = map (fun k' => if N.eqb k' k then Some v else alist_get (om_map o) k') (om_keys o).
  Proof.
    intros E. unfold om_values, om_set. destruct (alist_get (om_map o) k) eqn:E'; [|congruence].
    cbn [om_keys om_map]. split; [reflexivity|]. apply map_ext. intros x. cbn [alist_set alist_get].
    destruct (N.eqb_spec x k) as [->|Hne]; [reflexivity|].
    clear -Hne. induction (om_map o) as [|[k' v'] r IH]; cbn; [reflexivity|].
    destruct (N.eqb_spec k' k) as [->|Hk]; cbn.
    + destruct (N.eqb_spec x k); [congruence|exact IH].
    + destruct (N.eqb x k'); [reflexivity|exact IH].
  Qed.
End OMapProofs.


(* ================================================================== *)
(** * G. ResumeStack.Unpack *)

(* on a one-key stack (the contract of the Python original, which destructures
   `(k, v), = stack.items()`) the runtime has nothing to choose *)
Theorem unpack_single_perm_invariant (l l' : list (Z * rstack)) :
  List.length l = 1%nat -> Permutation l l' -> unpack l = unpack l'.
Proof.
  intros Hlen Hp. destruct l as [|e [|? ?]]; try discriminate.
  apply Permutation_length_1_inv in Hp. now subst.
Qed.

(* on a stack with several keys the faithful model is order-sensitive *)
Theorem unpack_multi_refuted :
  exists l l', NoDup (map fst l) /\ Permutation l l' /\ unpack l <> unpack l'.
Proof.
  exists [(0%Z, RStack []); (2%Z, RStack [])], [(2%Z, RStack []); (0%Z, RStack [])]. split; [|split].
  - repeat constructor; cbn; intuition congruence.
  - apply perm_swap.
  - cbn. congruence.
Qed.

(* whatever the runtime does, the result is one of the entries; panic iff empty *)
Theorem unpack_in l : match unpack l with
                      | Ok e => In e l
                      | Panic s => l = [] /\ s = unpack_site
                      | OutOfFuel => False end.
Proof. destruct l; cbn; auto. Qed.

(* ================================================================== *)
(** * H. non-interference *)
Section InterferenceProofs.
  Context {G C : Type}.
  Notation step := (@step G C).
  Notation threads := (@threads G C).

  Lemma run_alone_readonly (p : list step) g c :
    Forall readonly p -> fst (run_alone p g c) = g.
  Proof.
    unfold run_alone. revert g c. induction p as [|s r IH]; intros g c Hro; [reflexivity|].
    inversion Hro as [|? ? Hs Hr]; subst. cbn [fold_left fst snd].
    destruct (s g c) as [g' c'] eqn:E. cbn [fst snd].
    assert (g' = g) by (specialize (Hs g c); now rewrite E in Hs). subst g'. now apply IH.
  Qed.

  Lemma run_alone_app (p q : list step) g c :
    run_alone (p ++ q) g c = run_alone q (fst (run_alone p g c)) (snd (run_alone p g c)).
  Proof.
    unfold run_alone. rewrite fold_left_app.
    now rewrite <- surjective_pairing.
  Qed.

  (* the invariant that relates a machine state to the sequential runs:
     thread i has executed `done_i`, its context is what running `done_i` alone
     from the initial context gives, and done_i ++ remaining_i is its program *)
  Definition thread_inv (g0 : G) (init : C * list step) (dn : list step) (t : C * list step) : Prop :=
    dn ++ snd t = snd init /\ fst t = snd (run_alone dn g0 (fst init)).

  Inductive inv (g0 : G) : list (C * list step) -> list (list step) -> threads -> Prop :=
  | inv_nil : inv g0 [] [] []
  | inv_cons i d t is_ ds ts : thread_inv g0 i d t -> inv g0 is_ ds ts -> inv g0 (i :: is_) (d :: ds) (t :: ts).

  Definition all_readonly (progs : list (C * list step)) : Prop :=
    Forall (fun p => Forall readonly (snd p)) progs.

  Lemma fire_inv g0 progs : all_readonly progs ->
    forall i ds ts, inv g0 progs ds ts ->
    exists ds', fire i g0 ts = (g0, snd (fire i g0 ts)) /\ inv g0 progs ds' (snd (fire i g0 ts)).
  Proof.
    intros Hro i ds ts Hinv. revert i. induction Hinv as [|p d t ps ds ts Ht Hinv IH]; intros i.
    - exists []. destruct i; cbn; split; auto; constructor.
    - inversion Hro as [|? ? Hp Hps]; subst. destruct i as [|j].
      + destruct t as [c [|s r]].
        * exists (d :: ds). cbn. split; [reflexivity|]. now constructor.
        * cbn [fire]. destruct (s g0 c) as [g' c'] eqn:E. cbn [snd].
          destruct Ht as [Happ Hc]. cbn [fst snd] in *.
          assert (Hs : readonly s).
          { rewrite Forall_forall in Hp. apply Hp. rewrite <- Happ. apply in_or_app. right. now left. }
          assert (g' = g0) by (specialize (Hs g0 c); now rewrite E in Hs). subst g'.
          exists ((d ++ [s]) :: ds). split; [reflexivity|]. constructor; [|assumption].
          split; cbn [fst snd].
          -- now rewrite <- app_assoc.
          -- rewrite run_alone_app. unfold run_alone at 1. cbn [fold_left fst snd].
             assert (Hd : Forall readonly d).
             { rewrite Forall_forall in *. intros x Hx. apply Hp. rewrite <- Happ. apply in_or_app. now left. }
             rewrite (run_alone_readonly d g0 (fst p) Hd), <- Hc, E. reflexivity.
      + specialize (IH Hps j). destruct IH as [ds' [Hf Hi]].
        destruct t as [c q]. cbn [fire].
        destruct q; destruct (fire j g0 ts) as [g' ts'] eqn:Ef; cbn [snd] in *;
          injection Hf as ->; exists (d :: ds'); (split; [reflexivity|now constructor]).
  Qed.

  Lemma exec_inv g0 progs : all_readonly progs ->
    forall sched ds ts, inv g0 progs ds ts ->
    exists ds', fst (exec sched g0 ts) = g0 /\ inv g0 progs ds' (snd (exec sched g0 ts)).
  Proof.
    intros Hro sched. induction sched as [|i r IH]; intros ds ts Hinv; cbn [exec].
    - exists ds. auto.
    - destruct (fire_inv g0 progs Hro i ds ts Hinv) as [ds' [Hf Hi]].
      rewrite Hf. apply (IH ds'). exact Hi.
  Qed.

  Lemma inv_start g0 progs : inv g0 progs (map (fun _ => []) progs) (start progs).
  Proof.
    unfold start. induction progs as [|p r IH]; cbn; constructor; auto.
    split; reflexivity.
  Qed.

  Lemma inv_finished g0 progs ds ts : inv g0 progs ds ts -> finished ts ->
    map fst ts = map (fun p => snd (run_alone (snd p) g0 (fst p))) progs.
  Proof.
    induction 1 as [|p d t ps ds ts [Happ Hc] Hinv IH]; intros Hfin; [reflexivity|].
    inversion Hfin as [|? ? Ht Hts]; subst. cbn [map]. f_equal; [|auto].
    rewrite Ht, app_nil_r in Happ. now subst d.
  Qed.

  (* NON-INTERFERENCE: if no step of any render writes the global state, then
     under EVERY schedule the globals stay what they were and, once every
     render has finished, each render's context is exactly what it obtains when
     run alone -- in particular the same under any two schedules *)
  Theorem noninterference (g0 : G) (progs : list (C * list step)) (sched : list nat) :
    all_readonly progs ->
    let '(g, ts) := exec sched g0 (start progs) in
    g = g0 /\
    (finished ts -> map fst ts = map (fun p => snd (run_alone (snd p) g0 (fst p))) progs).
  Proof.
    intros Hro. destruct (exec sched g0 (start progs)) as [g ts] eqn:E.
    destruct (exec_inv g0 progs Hro sched _ _ (inv_start g0 progs)) as [ds' [Hg Hi]].
    rewrite E in Hg, Hi. cbn [fst snd] in *. split; [exact Hg|].
    intros Hfin. eapply inv_finished; eauto.
  Qed.

  (* rendering one after the other (any earlier renders = history) gives each
     render the same context as rendering it alone *)
  Theorem sequential_is_alone (g0 : G) (progs : list (C * list step)) :
    all_readonly progs ->
    run_sequentially g0 progs = (g0, map (fun p => snd (run_alone (snd p) g0 (fst p))) progs).
  Proof.
    intros Hro. induction progs as [|[c p] r IH]; [reflexivity|].
    inversion Hro as [|? ? Hp Hr]; subst. cbn [run_sequentially map fst snd].
    pose proof (run_alone_readonly p g0 c Hp) as Hg.
    destruct (run_alone p g0 c) as [g' c'] eqn:E. cbn [fst snd] in *. subst g'.
    rewrite (IH Hr). reflexivity.
  Qed.

  (* the diamond: steps of two different renders commute *)
  Definition ts_readonly (ts : threads) : Prop := Forall (fun t => Forall readonly (snd t)) ts.

  Lemma fire_ro ts : ts_readonly ts -> forall i g,
    fst (fire i g ts) = g /\ ts_readonly (snd (fire i g ts)).
  Proof.
    induction 1 as [|t r Ht Hr IH]; intros i g.
    - destruct i; cbn; split; auto; constructor.
    - destruct t as [c q]. destruct i as [|k].
      + destruct q as [|s q]; cbn [fire]; [split; [reflexivity|now constructor]|].
        inversion Ht as [|? ? Hs Hq]; subst. destruct (s g c) as [g' c'] eqn:E. cbn [fst snd].
        split; [specialize (Hs g c); now rewrite E in Hs|]. constructor; assumption.
      + specialize (IH k g). destruct IH as [Hg Hro].
        destruct q; cbn [fire]; destruct (fire k g r) as [g' r'] eqn:E; cbn [fst snd] in *;
          (split; [assumption|now constructor]).
  Qed.

  Lemma fire_S k g t (us : threads) :
    fire (S k) g (t :: us) = (fst (fire k g us), t :: snd (fire k g us)).
  Proof. destruct t as [c q]. cbn [fire]. destruct q; destruct (fire k g us); reflexivity. Qed.

  Lemma exec2 i j g (ts : threads) :
    exec [i; j] g ts = fire j (fst (fire i g ts)) (snd (fire i g ts)).
  Proof.
    cbn [exec]. destruct (fire i g ts) as [g1 t1]. cbn [fst snd]. destruct (fire j g1 t1); reflexivity.
  Qed.

  (* firing thread 0 only looks at / changes the head *)
  Lemma fire_O_head g c q (us vs : threads) :
    Forall readonly q ->
    fire O g ((c, q) :: us) = (g, hd (c, q) (snd (fire O g ((c, q) :: us))) :: us) /\
    hd (c, q) (snd (fire O g ((c, q) :: vs))) = hd (c, q) (snd (fire O g ((c, q) :: us))).
  Proof.
    intros Hq. destruct q as [|s q]; cbn [fire]; [split; reflexivity|].
    inversion Hq as [|? ? Hs _]; subst. destruct (s g c) as [g1 c1] eqn:Es.
    assert (g1 = g) by (specialize (Hs g c); now rewrite Es in Hs). subst g1. cbn. split; reflexivity.
  Qed.

  Theorem fire_commute ts : ts_readonly ts -> forall i j g, i <> j ->
    exec [i; j] g ts = exec [j; i] g ts.
  Proof.
    induction 1 as [|t r Ht Hr IH]; intros i j g Hij.
    - destruct i, j; reflexivity.
    - rewrite !exec2. destruct t as [c q]. cbn [snd] in Ht.
      destruct i as [|i'], j as [|j']; [congruence| | |].
      + pose proof (fire_ro r Hr j' g) as [Hg _].
        destruct (fire_O_head g c q r (snd (fire j' g r)) Ht) as [H1 H2].
        destruct (fire_O_head g c q (snd (fire j' g r)) r Ht) as [H3 _].
        rewrite H1. cbn [fst snd]. rewrite !fire_S. cbn [fst snd]. rewrite Hg, H3. cbn [fst snd].
        now rewrite H2.
      + pose proof (fire_ro r Hr i' g) as [Hg _].
        destruct (fire_O_head g c q r (snd (fire i' g r)) Ht) as [H1 H2].
        destruct (fire_O_head g c q (snd (fire i' g r)) r Ht) as [H3 _].
        rewrite H1. cbn [fst snd]. rewrite !fire_S. cbn [fst snd]. rewrite Hg, H3. cbn [fst snd].
        now rewrite H2.
      + assert (Hij' : i' <> j') by congruence.
        specialize (IH i' j' g Hij'). rewrite !exec2 in IH.
        rewrite !fire_S. cbn [fst snd]. rewrite !fire_S. now rewrite IH.
  Qed.
End InterferenceProofs.

(* the hypothesis is needed: with one step that writes the global state two
   schedules give different contexts (and neither is the run-alone context) *)
Definition bump : @step N N := fun g c => ((g + 1)%N, g).
Theorem interference_with_global_write :
  exists (progs : list (N * list (@step N N))) s1 s2,
    let r1 := exec s1 0%N (start progs) in
    let r2 := exec s2 0%N (start progs) in
    finished (snd r1) /\ finished (snd r2) /\ map fst (snd r1) <> map fst (snd r2).
Proof.
  exists [(7%N, [bump]); (7%N, [bump])], [0%nat; 1%nat], [1%nat; 0%nat].
  cbn. repeat split; try (repeat constructor); congruence.
Qed.

(* ================================================================== *)
(** * I. shared state that is written: benign steps, memo caches *)
Section BenignProofs.
  Context {G C : Type}.
  Variable I : G -> Prop.
  Notation step := (@step G C).
  Notation threads := (@threads G C).

  Lemma run_alone_benign (p : list step) : Forall (benign I) p ->
    forall g c, I g ->
      I (fst (run_alone p g c)) /\ forall g', I g' -> snd (run_alone p g' c) = snd (run_alone p g c).
  Proof.
    unfold run_alone. induction p as [|s r IH]; intros Hb g c Hg; cbn [fold_left fst snd].
    - split; auto.
    - inversion Hb as [|? ? Hs Hr]; subst.
      destruct (Hs g c Hg) as [Hi Heq].
      destruct (s g c) as [g1 c1] eqn:E. cbn [fst snd] in *.
      destruct (IH Hr g1 c1 Hi) as [Hi' Heq'].
      split; [exact Hi'|].
      intros g' Hg'. destruct (s g' c) as [g2 c2] eqn:E2.
      specialize (Heq g' Hg'). rewrite E2 in Heq. cbn [snd] in Heq. subst c2.
      destruct (Hs g' c Hg') as [Hi2 _]. rewrite E2 in Hi2. cbn [fst] in Hi2.
      cbn [fst snd]. now apply Heq'.
  Qed.

  Definition all_benign (progs : list (C * list step)) : Prop :=
    Forall (fun p => Forall (benign I) (snd p)) progs.

  Definition bthread_inv (g0 : G) (init : C * list step) (dn : list step) (t : C * list step) : Prop :=
    dn ++ snd t = snd init /\ fst t = snd (run_alone dn g0 (fst init)).

  Inductive binv (g0 : G) : list (C * list step) -> list (list step) -> threads -> Prop :=
  | binv_nil : binv g0 [] [] []
  | binv_cons i d t is_ ds ts : bthread_inv g0 i d t -> binv g0 is_ ds ts -> binv g0 (i :: is_) (d :: ds) (t :: ts).

  Lemma fire_binv g0 progs : I g0 -> all_benign progs ->
    forall i g ds ts, I g -> binv g0 progs ds ts ->
    exists ds', I (fst (fire i g ts)) /\ binv g0 progs ds' (snd (fire i g ts)).
  Proof.
    intros Hg0 Hb i g ds ts Hg Hinv. revert i. induction Hinv as [|p d t ps ds ts Ht Hinv IH]; intros i.
    - exists []. destruct i; cbn; split; auto; constructor.
    - inversion Hb as [|? ? Hp Hps]; subst. destruct i as [|j].
      + destruct t as [c [|s r]].
        * exists (d :: ds). cbn. split; [assumption|]. now constructor.
        * cbn [fire]. destruct (s g c) as [g' c'] eqn:E. cbn [fst snd].
          destruct Ht as [Happ Hc]. cbn [fst snd] in *.
          assert (Hs : benign I s).
          { rewrite Forall_forall in Hp. apply Hp. rewrite <- Happ. apply in_or_app. right. now left. }
          assert (Hd : Forall (benign I) d).
          { rewrite Forall_forall in *. intros x Hx. apply Hp. rewrite <- Happ. apply in_or_app. now left. }
          destruct (Hs g c Hg) as [Hi' Heq]. rewrite E in Hi'. cbn [fst] in Hi'.
          exists ((d ++ [s]) :: ds). split; [exact Hi'|]. constructor; [|assumption].
          split; cbn [fst snd].
          -- now rewrite <- app_assoc.
          -- rewrite run_alone_app. unfold run_alone at 1. cbn [fold_left fst snd].
             destruct (run_alone_benign d Hd g0 (fst p) Hg0) as [Hgd _].
             rewrite <- Hc.
             specialize (Heq _ Hgd). rewrite Heq, E. reflexivity.
      + specialize (IH Hps j). destruct IH as [ds' [Hf Hi]].
        destruct t as [c q]. cbn [fire].
        destruct q; destruct (fire j g ts) as [g' ts'] eqn:Ef; cbn [fst snd] in *;
          exists (d :: ds'); (split; [assumption|now constructor]).
  Qed.

  Lemma exec_binv g0 progs : I g0 -> all_benign progs ->
    forall sched g ds ts, I g -> binv g0 progs ds ts ->
    exists ds', I (fst (exec sched g ts)) /\ binv g0 progs ds' (snd (exec sched g ts)).
  Proof.
    intros Hg0 Hb sched. induction sched as [|i r IH]; intros g ds ts Hg Hinv; cbn [exec].
    - exists ds. auto.
    - destruct (fire_binv g0 progs Hg0 Hb i g ds ts Hg Hinv) as [ds' [Hf Hi]].
      destruct (fire i g ts) as [g1 ts1]. cbn [fst snd] in *. apply (IH g1 ds'); assumption.
  Qed.

  Lemma binv_start g0 progs : binv g0 progs (map (fun _ => []) progs) (start progs).
  Proof.
    unfold start. induction progs as [|p r IH]; cbn; constructor; auto.
    split; reflexivity.
  Qed.

  Lemma binv_finished g0 progs ds ts : binv g0 progs ds ts -> finished ts ->
    map fst ts = map (fun p => snd (run_alone (snd p) g0 (fst p))) progs.
  Proof.
    induction 1 as [|p d t ps ds ts [Happ Hc] Hinv IH]; intros Hfin; [reflexivity|].
    inversion Hfin as [|? ? Ht Hts]; subst. cbn [map]. f_equal; [|auto].
    rewrite Ht, app_nil_r in Happ. now subst d.
  Qed.

  (* NON-INTERFERENCE WITH A BENIGN SHARED STATE: the renders may write the
     shared state (a cache), every step keeps the invariant and computes the
     same thing from any state satisfying it.  Then under EVERY schedule the
     invariant holds at the end and each finished render has the context it
     obtains alone -- alone from the initial state g0 or from ANY other state
     g1 satisfying the invariant (a fresh process: the empty cache) *)
  Theorem benign_noninterference (g0 g1 : G) (progs : list (C * list step)) (sched : list nat) :
    I g0 -> I g1 -> all_benign progs ->
    let '(g, ts) := exec sched g0 (start progs) in
    I g /\
    (finished ts -> map fst ts = map (fun p => snd (run_alone (snd p) g1 (fst p))) progs).
  Proof.
    intros Hg0 Hg1 Hb. destruct (exec sched g0 (start progs)) as [g ts] eqn:E.
    destruct (exec_binv g0 progs Hg0 Hb sched g0 _ _ Hg0 (binv_start g0 progs)) as [ds' [Hg Hi]].
    rewrite E in Hg, Hi. cbn [fst snd] in *. split; [exact Hg|].
    intros Hfin. rewrite (binv_finished g0 progs ds' ts Hi Hfin).
    apply map_ext_in. intros [c p] Hin. cbn [fst snd].
    unfold all_benign in Hb. rewrite Forall_forall in Hb. specialize (Hb _ Hin). cbn [snd] in Hb.
    destruct (run_alone_benign p Hb g1 c Hg1) as [_ Heq]. now apply Heq.
  Qed.

  Theorem benign_sequential_is_alone (g0 g1 : G) (progs : list (C * list step)) :
    I g0 -> I g1 -> all_benign progs ->
    I (fst (run_sequentially g0 progs)) /\
    snd (run_sequentially g0 progs) = map (fun p => snd (run_alone (snd p) g1 (fst p))) progs.
  Proof.
    intros Hg0 Hg1 Hb. revert g0 Hg0. induction progs as [|[c p] r IH]; intros g0 Hg0; [split; auto|].
    inversion Hb as [|? ? Hp Hr]; subst. cbn [run_sequentially map fst snd] in *.
    destruct (run_alone_benign p Hp g0 c Hg0) as [Hi Heq].
    destruct (run_alone p g0 c) as [g' c'] eqn:E. cbn [fst snd] in *.
    destruct (IH Hr g' Hi) as [Hi2 Hs].
    destruct (run_sequentially g' r) as [g'' cs] eqn:E2. cbn [fst snd] in *. split; [exact Hi2|].
    f_equal; [|exact Hs]. specialize (Heq g1 Hg1). now rewrite Heq.
  Qed.
End BenignProofs.

Section MemoProofs.
  Context {K V C : Type}.
  Variable keqb : K -> K -> bool.
  Hypothesis keqb_eq : forall a b, keqb a b = true <-> a = b.
  Variable f : K -> V.

  Lemma cache_ok_nil : cache_ok keqb f [].
  Proof. intros k v H. discriminate. Qed.

  (* a step that goes through the memo cache is benign for "every cached value
     is the value of the pure function": it computes use (f k) whatever the
     cache holds, and a miss stores f k *)
  Theorem memo_step_benign (k : K) (use : V -> C -> C) :
    benign (cache_ok keqb f) (@memo_step K V C keqb f k use).
  Proof.
    assert (Hval : forall g c, cache_ok keqb f g -> snd (memo_step keqb f k use g c) = use (f k) c).
    { intros g c Hg. unfold memo_step. destruct (mlookup keqb g k) as [v|] eqn:E; cbn [snd]; [|reflexivity].
      now rewrite (Hg k v E). }
    intros g c Hg. split.
    - unfold memo_step. destruct (mlookup keqb g k) as [v|] eqn:E; cbn [fst]; [exact Hg|].
      intros k' v' H. cbn [mlookup] in H. destruct (keqb k k') eqn:Ek.
      + apply keqb_eq in Ek. subst k'. now injection H as <-.
      + now apply Hg.
    - intros g' Hg'. now rewrite !Hval.
  Qed.
End MemoProofs.

Section MemoTransparent.
  Context {K V C : Type}.
  Variable keqb : K -> K -> bool.
  Hypothesis keqb_eq : forall a b, keqb a b = true <-> a = b.
  Variable f : K -> V.
  Lemma run_alone_memo (kus : list (K * (V -> C -> C))) : forall (g : @mcache K V) (c : C), cache_ok keqb f g ->
    snd (run_alone (map (fun ku => memo_step keqb f (fst ku) (snd ku)) kus) g c)
    = fold_left (fun c ku => snd ku (f (fst ku)) c) kus c.
  Proof.
    unfold run_alone. induction kus as [|[k u] r IH]; intros g c Hg; [reflexivity|].
    cbn [map fold_left fst snd].
    destruct (memo_step_benign keqb keqb_eq f k u g c Hg) as [Hi _].
    assert (Hv : snd (memo_step keqb f k u g c) = u (f k) c).
    { unfold memo_step. destruct (mlookup keqb g k) as [v|] eqn:E; cbn [snd]; [|reflexivity]. now rewrite (Hg k v E). }
    destruct (memo_step keqb f k u g c) as [g1 c1]. cbn [fst snd] in *. subst c1. now apply IH.
  Qed.

  (* A MEMO CACHE OF A PURE FUNCTION IS TRANSPARENT: renders that go through a
     shared cache of f, under every schedule and from any consistent initial
     cache (empty in a fresh process, filled by earlier renders otherwise), end
     with the context the cache-free computation gives *)
  Theorem memo_cache_transparent (progs : list (C * list (K * (V -> C -> C)))) (sched : list nat) (g0 : @mcache K V) :
    cache_ok keqb f g0 ->
    let '(g, ts) := exec sched g0 (start (map (memo_prog keqb f) progs)) in
    cache_ok keqb f g /\ (finished ts -> map fst ts = map (pure_result f) progs).
  Proof.
    intros Hg0.
    assert (Hb : all_benign (cache_ok keqb f) (map (memo_prog keqb f) progs)).
    { unfold all_benign. rewrite Forall_forall. intros p Hp. apply in_map_iff in Hp. destruct Hp as [[c kus] [<- _]].
      cbn [memo_prog snd fst]. rewrite Forall_forall. intros s Hs. apply in_map_iff in Hs. destruct Hs as [[k u] [<- _]].
      now apply memo_step_benign. }
    pose proof (benign_noninterference (cache_ok keqb f) g0 [] (map (memo_prog keqb f) progs) sched Hg0 (cache_ok_nil keqb f) Hb) as H.
    destruct (exec sched g0 (start (map (memo_prog keqb f) progs))) as [g ts]. destruct H as [Hg Hf]. split; [exact Hg|].
    intros Hfin. rewrite (Hf Hfin), map_map. apply map_ext. intros [c kus]. cbn [memo_prog fst snd pure_result].
    apply run_alone_memo. apply cache_ok_nil.
  Qed.
End MemoTransparent.

(** * J. the two misuses of shared state: a cache whose value is not a function
    of its key alone, a store through a pointer into a shared table *)
Theorem ratio_step_local_readonly {K V C G} keqb measure k use :
  readonly (@ratio_step_local K V C G keqb measure k use).
Proof. intros g [m c]. cbn. destruct (mlookup keqb m k); reflexivity. Qed.

(* with a cache of its own, filled with its own measures, a render gets its own measure *)
Theorem ratio_step_local_value {K V C G} keqb measure k use (g : G) m (c : C) :
  cache_ok keqb measure m ->
  snd (snd (@ratio_step_local K V C G keqb measure k use g (m, c))) = use (measure k) c.
Proof.
  intros Hm. cbn. destruct (mlookup keqb m k) as [v|] eqn:E; cbn; [|reflexivity]. now rewrite (Hm k v E).
Qed.

(* the shared variant: a second render whose fonts measure the same description
   differently gets the first render's ratio -- its result depends on history *)
Theorem ratio_step_shared_refuted :
  exists (m1 m2 : N -> N) (k : N),
    let r1 := (0%N, [ratio_step_shared N.eqb m1 k (fun v _ => v)]) in
    let r2 := (0%N, [ratio_step_shared N.eqb m2 k (fun v _ => v)]) in
    snd (run_sequentially [] [r1; r2]) <> [snd (run_alone (snd r1) [] 0%N); snd (run_alone (snd r2) [] 0%N)].
Proof. exists (fun _ => 5%N), (fun _ => 8%N), 1%N. vm_compute. congruence. Qed.

Theorem iterate_copy_readonly id v : readonly (iterate_copy id v).
Proof. intros g c. reflexivity. Qed.

Theorem iterate_inplace_refuted :
  exists g id v,
    let p := (0%N, [iterate_inplace id v]) in
    snd (run_sequentially g [p; p]) <> [snd (run_alone (snd p) g 0%N); snd (run_alone (snd p) g 0%N)].
Proof. exists [(3%N, 4%N)], 3%N, 2%N. vm_compute. congruence. Qed.

