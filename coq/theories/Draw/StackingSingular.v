(* Draw/StackingSingular.v -- non-invertible transforms (draw.go:245-259).

   A box whose transform matrix has determinant 0 paints nothing: neither itself
   nor its sub-tree (`singular_paints_nothing`, for the model of
   drawStackingContext; `not_displayed_paints_nothing` for the specification).
   And it changes nothing else (`singular_confined`): the events painted for a
   tree are exactly the events painted for the same tree with every singular
   matrix replaced by an invertible one (`regular`: the same stacking contexts,
   since a transform forms a stacking context whatever its matrix), in the same
   order, minus the events that name a box of the sub-tree of a singular box
   (`hidden_ids`).  In particular everything that follows a singular box in the
   stacking order is still painted.                                             *)
From Verif Require Import Base.GoSem Base.SortStable Draw.Stacking Draw.PaintSpec Draw.StackingProofs Draw.StackingOnce.
From Coq Require Import List ZArith NArith Bool Lia Permutation.
Import ListNotations.

(* ------------------------------------------------------------------ the model *)

Theorem singular_paints_nothing c : singular (ctx_info c) = true -> paint c = Ok [].
Proof.
  destruct c as [i kids z neg zero pos blocks floats bac]. cbn [ctx_info]. intros Hs.
  rewrite paint_unfold, Hs. reflexivity.
Qed.

Theorem not_displayed_paints_nothing forms_ctx level zsort n real b :
  css_not_displayed (binfo_of b) = true -> spec_ctx forms_ctx level zsort n real b = [].
Proof. intros Hs. destruct n; [reflexivity|]. cbn [spec_ctx]. cbv zeta. rewrite Hs. reflexivity. Qed.

(* ------------------------------------------------------------------ the same tree, invertible *)

Definition regular_info (i : binfo) : binfo :=
  mkB (bid i) (bkind i) (bpos i) (bz i) (bfloat i) (bopac i) (btrans i) (bclip i) (bvis i) false.

Fixpoint regular (b : box) : box :=
  match b with Box i cs => Box (regular_info i) (map regular cs) end.

(* the ids of the sub-trees of the boxes that are not displayed *)
Fixpoint hidden_ids (b : box) : list N :=
  match b with
  | Box i cs => if css_not_displayed i then ids (Box i cs) else flat_map hidden_ids cs
  end.

Definition inb (x : N) (l : list N) : bool := existsb (N.eqb x) l.

Lemma inb_in x l : inb x l = true <-> In x l.
Proof.
  unfold inb. rewrite existsb_exists. split.
  - intros [y [Hy E]]. apply N.eqb_eq in E. subst y. exact Hy.
  - intros H. exists x. split; [exact H|apply N.eqb_refl].
Qed.

Lemma inb_false x l : inb x l = false <-> ~ In x l.
Proof.
  rewrite <- inb_in. destruct (inb x l); split.
  - discriminate.
  - intros H. exfalso. apply H. reflexivity.
  - intros _. discriminate.
  - reflexivity.
Qed.

Definition keep (U : list N) (e : event) : bool := negb (inb (ev_id e) U).

Lemma regular_displayed i : css_not_displayed (regular_info i) = false.
Proof. unfold css_not_displayed. cbn [regular_info bsing]. apply andb_false_r. Qed.

Lemma classify_regular i : PaintSpec.classify impl_forms_ctx (regular_info i) = PaintSpec.classify impl_forms_ctx i.
Proof. reflexivity. Qed.

Lemma cl_regular c : PaintSpec.cl impl_forms_ctx (regular c) = PaintSpec.cl impl_forms_ctx c.
Proof. destruct c as [i cs]. reflexivity. Qed.

Lemma info_regular c : binfo_of (regular c) = regular_info (binfo_of c).
Proof. destruct c; reflexivity. Qed.

Lemma ids_regular b : ids (regular b) = ids b.
Proof.
  induction b as [i cs IH] using box_ind'. rewrite Forall_forall in IH.
  cbn [regular]. rewrite !ids_box. cbn [regular_info bid]. f_equal.
  rewrite flat_map_concat_map, map_map, <- flat_map_concat_map.
  apply flat_map_ext_in. exact IH.
Qed.

Lemma hidden_incl b : incl (hidden_ids b) (ids b).
Proof.
  induction b as [i cs IH] using box_ind'. rewrite Forall_forall in IH.
  cbn [hidden_ids]. destruct (css_not_displayed i); [apply incl_refl|].
  intros k Hk. rewrite ids_box. right. apply in_flat_map in Hk. destruct Hk as [c [Hc Hk]].
  apply in_flat_map. exists c. split; [exact Hc|exact (IH c Hc k Hk)].
Qed.

(* the collectors of Appendix E do not look at the matrix *)
Lemma flat_map_map {A B C} (g : A -> B) (f : B -> list C) l :
  flat_map f (map g l) = flat_map (fun a => f (g a)) l.
Proof. induction l as [|a r IH]; simpl; [reflexivity|]. rewrite IH. reflexivity. Qed.

Lemma hoisted_regular b : hoisted impl_forms_ctx (regular b) = map regular (hoisted impl_forms_ctx b).
Proof.
  induction b as [i cs IH] using box_ind'. rewrite Forall_forall in IH.
  cbn [regular hoisted]. rewrite flat_map_map, map_flat_map.
  apply flat_map_ext_in. intros c Hc. rewrite cl_regular, (IH c Hc).
  destruct (PaintSpec.cl impl_forms_ctx c); reflexivity.
Qed.

Lemma flow_desc_regular sel b :
  flow_desc impl_forms_ctx sel (regular b) = map regular (flow_desc impl_forms_ctx sel b).
Proof.
  induction b as [i cs IH] using box_ind'. rewrite Forall_forall in IH.
  cbn [regular flow_desc]. rewrite flat_map_map, map_flat_map.
  apply flat_map_ext_in. intros c Hc. rewrite cl_regular, (IH c Hc), info_regular.
  destruct (PaintSpec.cl impl_forms_ctx c); try reflexivity.
  cbn [regular_info bkind]. rewrite map_app. destruct (sel (bkind (binfo_of c))); reflexivity.
Qed.

Lemma flow_floats_regular b :
  flow_floats impl_forms_ctx (regular b) = map regular (flow_floats impl_forms_ctx b).
Proof.
  induction b as [i cs IH] using box_ind'. rewrite Forall_forall in IH.
  cbn [regular flow_floats]. rewrite flat_map_map, map_flat_map.
  apply flat_map_ext_in. intros c Hc. rewrite cl_regular, (IH c Hc).
  destruct (PaintSpec.cl impl_forms_ctx c); reflexivity.
Qed.

Lemma flow_all_regular b :
  flow_all impl_forms_ctx (regular b) = map regular (flow_all impl_forms_ctx b).
Proof.
  induction b as [i cs IH] using box_ind'. rewrite Forall_forall in IH.
  cbn [regular flow_all map]. f_equal. rewrite flat_map_map, map_flat_map.
  apply flat_map_ext_in. intros c Hc. rewrite cl_regular, (IH c Hc).
  destruct (PaintSpec.cl impl_forms_ctx c); reflexivity.
Qed.

(* ------------------------------------------------------------------ where the hidden ids are *)
Section Confined.
  Variable U : list N.    (* the hidden ids of the whole tree *)

  (* inside the sub-tree of b, U is exactly what b hides; with unique ids *)
  Definition good (b : box) : Prop :=
    forall id, In id (ids b) -> (In id U <-> In id (hidden_ids b)).
  Definition G (b : box) : Prop := NoDup (ids b) /\ good b.

  Notation CLS := (PaintSpec.cl impl_forms_ctx).
  Notation displayed := (fun b : box => css_not_displayed (binfo_of b) = false).

  Lemma G_child i cs c : G (Box i cs) -> css_not_displayed i = false -> In c cs -> G c.
  Proof.
    intros [Hnd Hg] Hd Hc. split; [exact (ids_child_nodup i cs c Hnd Hc)|].
    intros id Hid.
    assert (Hin : In id (ids (Box i cs))).
    { rewrite ids_box. right. apply in_flat_map. exists c. split; assumption. }
    rewrite (Hg id Hin). cbn [hidden_ids]. rewrite Hd. split.
    - intros Hk. apply in_flat_map in Hk. destruct Hk as [c' [Hc' Hk]].
      rewrite ids_box in Hnd. inversion Hnd as [|x l _ Hnd']. subst.
      assert (c' = c).
      { apply (flat_map_same ids cs c' c id Hnd' Hc' Hc); [exact (hidden_incl c' id Hk)|exact Hid]. }
      subst c'. exact Hk.
    - intros Hk. apply in_flat_map. exists c. split; assumption.
  Qed.

  Lemma root_kept b : G b -> css_not_displayed (binfo_of b) = false -> ~ In (bid (binfo_of b)) U.
  Proof.
    destruct b as [i cs]. cbn [binfo_of]. intros [Hnd Hg] Hd HU.
    apply (Hg (bid i)) in HU; [|rewrite ids_box; left; reflexivity].
    cbn [hidden_ids] in HU. rewrite Hd in HU.
    rewrite ids_box in Hnd. inversion Hnd as [|x l Hnot _]. subst. apply Hnot.
    apply in_flat_map in HU. destruct HU as [c [Hc Hk]].
    apply in_flat_map. exists c. split; [exact Hc|exact (hidden_incl c _ Hk)].
  Qed.

  Lemma hidden_all b : G b -> css_not_displayed (binfo_of b) = true ->
    forall id, In id (ids b) -> In id U.
  Proof.
    destruct b as [i cs]. cbn [binfo_of]. intros [_ Hg] Hd id Hid.
    apply (Hg id Hid). cbn [hidden_ids]. rewrite Hd. exact Hid.
  Qed.

  Lemma keep_root b e : G b -> css_not_displayed (binfo_of b) = false ->
    ev_id e = bid (binfo_of b) -> keep U e = true.
  Proof.
    intros HG Hd He. unfold keep. rewrite He. apply negb_true_iff. apply inb_false.
    exact (root_kept b HG Hd).
  Qed.

  (* a box that does not form a stacking context has no transform: it is displayed *)
  Lemma pseudo_displayed i : impl_forms_ctx i = false -> css_not_displayed i = false.
  Proof.
    unfold impl_forms_ctx, css_forms_ctx, css_not_displayed. rewrite !orb_false_iff.
    intros [[_ Ht] _]. rewrite Ht. reflexivity.
  Qed.

  Lemma class_displayed c :
    match CLS c with CReal => True | _ => css_not_displayed (binfo_of c) = false end.
  Proof.
    destruct c as [i cs]. unfold PaintSpec.cl. cbn [binfo_of]. unfold PaintSpec.classify.
    destruct (impl_forms_ctx i) eqn:E; [exact I|].
    pose proof (pseudo_displayed i E) as Hd.
    destruct (bpos i); [exact Hd|]. destruct (bfloat i); [exact Hd|].
    destruct (css_atomic_inline_container (bkind i)); exact Hd.
  Qed.

  Lemma flow_displayed c : CLS c = CFlow -> css_not_displayed (binfo_of c) = false.
  Proof. intros E. pose proof (class_displayed c) as H. rewrite E in H. exact H. Qed.

  (* the boxes the ten steps talk about are reached through displayed boxes only *)
  Lemma hoisted_G b : G b -> css_not_displayed (binfo_of b) = false ->
    forall d, In d (hoisted impl_forms_ctx b) -> G d.
  Proof.
    induction b as [i cs IH] using box_ind'. rewrite Forall_forall in IH.
    cbn [binfo_of]. intros HG Hd d Hin. cbn [hoisted] in Hin.
    apply in_flat_map in Hin. destruct Hin as [c [Hc Hin]].
    pose proof (G_child i cs c HG Hd Hc) as HGc. pose proof (class_displayed c) as Hcd.
    destruct (CLS c).
    - destruct Hin as [<-|[]]. exact HGc.
    - destruct Hin as [<-|Hin]; [exact HGc|]. exact (IH c Hc HGc Hcd d Hin).
    - exact (IH c Hc HGc Hcd d Hin).
    - exact (IH c Hc HGc Hcd d Hin).
    - exact (IH c Hc HGc Hcd d Hin).
  Qed.

  Lemma flow_desc_G sel b : G b -> css_not_displayed (binfo_of b) = false ->
    forall d, In d (flow_desc impl_forms_ctx sel b) -> G d /\ css_not_displayed (binfo_of d) = false.
  Proof.
    induction b as [i cs IH] using box_ind'. rewrite Forall_forall in IH.
    cbn [binfo_of]. intros HG Hd d Hin. cbn [flow_desc] in Hin.
    apply in_flat_map in Hin. destruct Hin as [c [Hc Hin]].
    pose proof (G_child i cs c HG Hd Hc) as HGc. pose proof (class_displayed c) as Hcd.
    destruct (CLS c); try (destruct Hin; fail).
    apply in_app_or in Hin. destruct Hin as [Hin|Hin]; [|exact (IH c Hc HGc Hcd d Hin)].
    destruct (sel _); [|destruct Hin]. destruct Hin as [<-|[]]. split; assumption.
  Qed.

  Lemma flow_floats_G b : G b -> css_not_displayed (binfo_of b) = false ->
    forall d, In d (flow_floats impl_forms_ctx b) -> G d.
  Proof.
    induction b as [i cs IH] using box_ind'. rewrite Forall_forall in IH.
    cbn [binfo_of]. intros HG Hd d Hin. cbn [flow_floats] in Hin.
    apply in_flat_map in Hin. destruct Hin as [c [Hc Hin]].
    pose proof (G_child i cs c HG Hd Hc) as HGc. pose proof (class_displayed c) as Hcd.
    destruct (CLS c); try (destruct Hin; fail).
    - destruct Hin as [<-|[]]. exact HGc.
    - exact (IH c Hc HGc Hcd d Hin).
  Qed.

  Lemma flow_all_G b : G b -> css_not_displayed (binfo_of b) = false ->
    forall d, In d (flow_all impl_forms_ctx b) -> G d /\ css_not_displayed (binfo_of d) = false.
  Proof.
    induction b as [i cs IH] using box_ind'. rewrite Forall_forall in IH.
    intros HG Hd d Hin. cbn [flow_all] in Hin. destruct Hin as [<-|Hin]; [split; assumption|].
    cbn [binfo_of] in Hd.
    apply in_flat_map in Hin. destruct Hin as [c [Hc Hin]].
    pose proof (G_child i cs c HG Hd Hc) as HGc. pose proof (class_displayed c) as Hcd.
    destruct (CLS c); try (destruct Hin; fail).
    exact (IH c Hc HGc Hcd d Hin).
  Qed.

  (* ---------------------------------------------------------------- filtering *)
  Variable zsort : list box -> list box.
  Hypothesis zsort_ok : z_then_tree_order css_level zsort.
  Notation SP := (spec_ctx impl_forms_ctx css_level zsort).
  Notation K := (filter (keep U)).

  Lemma filter_flat_map {A B} (p : B -> bool) (f : A -> list B) l :
    filter p (flat_map f l) = flat_map (fun a => filter p (f a)) l.
  Proof. induction l as [|a r IH]; simpl; [reflexivity|]. rewrite filter_app, IH. reflexivity. Qed.

  Lemma filter_none {A} (p : A -> bool) l : (forall a, In a l -> p a = false) -> filter p l = [].
  Proof.
    induction l as [|a r IH]; intros H; simpl; [reflexivity|].
    rewrite (H a (or_introl eq_refl)). apply IH. intros x Hx. apply H. right. exact Hx.
  Qed.

  Lemma filter_all {A} (p : A -> bool) l : (forall a, In a l -> p a = true) -> filter p l = l.
  Proof.
    induction l as [|a r IH]; intros H; simpl; [reflexivity|].
    rewrite (H a (or_introl eq_refl)). f_equal. apply IH. intros x Hx. apply H. right. exact Hx.
  Qed.

  Lemma filter_map_regular (p : box -> bool) l :
    (forall d, p (regular d) = p d) -> filter p (map regular l) = map regular (filter p l).
  Proof.
    intros Hp. induction l as [|a r IH]; simpl; [reflexivity|]. rewrite Hp, IH.
    destruct (p a); reflexivity.
  Qed.

  Lemma K_wrap e on id l : ~ In id U -> K (wrap e on id l) = wrap e on id (K l).
  Proof.
    intros Hid. unfold wrap. destruct on; [|reflexivity].
    assert (Hk : forall x, ev_id x = id -> keep U x = true).
    { intros x Hx. unfold keep. rewrite Hx. apply negb_true_iff. apply inb_false. exact Hid. }
    cbn [filter]. rewrite (Hk (Push e id) eq_refl). f_equal.
    rewrite filter_app. cbn [filter]. rewrite (Hk (Pop e id) eq_refl). reflexivity.
  Qed.

  Lemma zsort_regular l : zsort (map regular l) = map regular (zsort l).
  Proof.
    rewrite !(zsort_isort zsort zsort_ok). rewrite isort_map. f_equal.
    apply isort_ext. intros a _. rewrite info_regular. reflexivity.
  Qed.

  Lemma level_regular d : blevel css_level (regular d) = blevel css_level d.
  Proof. unfold blevel. rewrite info_regular. reflexivity. Qed.

  Lemma forms_regular d : impl_forms_ctx (binfo_of (regular d)) = impl_forms_ctx (binfo_of d).
  Proof. rewrite info_regular. reflexivity. Qed.

  Section Step.
    Variable n : nat.
    Hypothesis IH : forall real d, G d -> SP n real d = K (SP n real (regular d)).
    Let atomic := fun d => SP n false d.

    (* sub-contexts *)
    Lemma subs_K (r : box -> bool) l :
      (forall d, r (regular d) = r d) -> (forall d, In d l -> G d) ->
      flat_map (fun d => SP n (r d) d) l = K (flat_map (fun d => SP n (r d) d) (map regular l)).
    Proof.
      intros Hr Hl. rewrite flat_map_map, filter_flat_map. apply flat_map_ext_in.
      intros d Hd. rewrite Hr. apply IH. apply Hl. exact Hd.
    Qed.

    Lemma inline_K c : G c ->
      inline_paint impl_forms_ctx atomic c = K (inline_paint impl_forms_ctx atomic (regular c)).
    Proof.
      induction c as [i cs IHc] using box_ind'. rewrite Forall_forall in IHc. intros HG.
      cbn [regular inline_paint].
      change (PaintSpec.classify impl_forms_ctx (regular_info i)) with (PaintSpec.classify impl_forms_ctx i).
      cbn [regular_info bkind bid].
      pose proof (class_displayed (Box i cs)) as Hcd. unfold PaintSpec.cl in Hcd. cbn [binfo_of] in Hcd.
      destruct (PaintSpec.classify impl_forms_ctx i) eqn:Ec; try reflexivity.
      - (* atomic *) exact (IH false (Box i cs) HG).
      - (* flow *)
        assert (Hk : forall e, ev_id e = bid i -> keep U e = true).
        { intros e He. exact (keep_root (Box i cs) e HG Hcd He). }
        destruct (css_text (bkind i)).
        { cbn [filter]. rewrite (Hk (Content (bid i)) eq_refl). reflexivity. }
        destruct (css_replaced (bkind i)).
        { cbn [filter]. rewrite (Hk (Bg (bid i)) eq_refl), (Hk (Border (bid i)) eq_refl), (Hk (Content (bid i)) eq_refl).
          reflexivity. }
        cbn [filter]. rewrite (Hk (Bg (bid i)) eq_refl), (Hk (Border (bid i)) eq_refl). do 2 f_equal.
        rewrite flat_map_map, filter_flat_map. apply flat_map_ext_in.
        intros c Hc. apply (IHc c Hc). exact (G_child i cs c HG Hcd Hc).
    Qed.

    Lemma block_content_K x : G x -> css_not_displayed (binfo_of x) = false ->
      block_content impl_forms_ctx atomic x = K (block_content impl_forms_ctx atomic (regular x)).
    Proof.
      destruct x as [i cs]. cbn [binfo_of]. intros HG Hd. cbn [regular block_content regular_info bkind bid].
      destruct (css_replaced (bkind i)).
      { cbn [filter]. rewrite (keep_root (Box i cs) (Content (bid i)) HG Hd eq_refl). reflexivity. }
      rewrite flat_map_map, filter_flat_map. apply flat_map_ext_in. intros c Hc.
      rewrite cl_regular, info_regular. cbn [regular_info bkind].
      destruct (PaintSpec.cl impl_forms_ctx c); try reflexivity.
      destruct (css_line_box (bkind (binfo_of c))); [|reflexivity].
      apply inline_K. exact (G_child i cs c HG Hd Hc).
    Qed.

    Lemma block_decoration_K d : G d -> css_not_displayed (binfo_of d) = false ->
      block_decoration d = K (block_decoration (regular d)).
    Proof.
      intros HG Hd. unfold block_decoration. rewrite info_regular. cbn [regular_info bkind bid].
      destruct (css_table (bkind (binfo_of d))); cbn [filter].
      - rewrite (keep_root d (TableLayers (bid (binfo_of d))) HG Hd eq_refl). reflexivity.
      - rewrite (keep_root d (Bg (bid (binfo_of d))) HG Hd eq_refl),
                (keep_root d (Border (bid (binfo_of d))) HG Hd eq_refl). reflexivity.
    Qed.
  End Step.

  Lemma spec_ids n real b e : In e (SP n real b) -> In (ev_id e) (ids b).
  Proof. apply (spec_ctx_ids zsort zsort_ok). Qed.

  Lemma confined_ctx n : forall real b, G b -> SP n real b = K (SP n real (regular b)).
  Proof.
    induction n as [|n IH]; intros real b HG; [reflexivity|].
    destruct (css_not_displayed (binfo_of b)) eqn:Hd.
    { (* not displayed: nothing on the left; on the right every event names a hidden box *)
      rewrite (not_displayed_paints_nothing _ _ _ _ _ _ Hd). symmetry. apply filter_none.
      intros e He. apply spec_ids in He. rewrite ids_regular in He.
      unfold keep. apply negb_false_iff. apply inb_in. exact (hidden_all b HG Hd _ He). }
    destruct b as [i cs]. cbn [binfo_of] in Hd. set (b := Box i cs) in *.
    assert (Hroot : ~ In (bid i) U) by exact (root_kept b HG Hd).
    assert (Hk : forall e, ev_id e = bid i -> keep U e = true).
    { intros e He. exact (keep_root b e HG Hd He). }
    set (atomic := fun d => SP n false d).
    (* the hoisted boxes *)
    set (H := if real then hoisted impl_forms_ctx b else []).
    assert (HH : (if real then hoisted impl_forms_ctx (regular b) else []) = map regular H).
    { unfold H. destruct real; [apply hoisted_regular|reflexivity]. }
    assert (HHG : forall d, In d H -> G d).
    { unfold H. destruct real; [exact (hoisted_G b HG Hd)|intros d []]. }
    assert (Hsub : forall (p : box -> bool), (forall d, p (regular d) = p d) ->
              forall (srt : list box -> list box),
              (forall l, srt (map regular l) = map regular (srt l)) ->
              (forall l x, In x (srt l) -> In x l) ->
              flat_map (fun d => SP n (impl_forms_ctx (binfo_of d)) d) (srt (filter p H))
              = K (flat_map (fun d => SP n (impl_forms_ctx (binfo_of d)) d) (srt (filter p (map regular H))))).
    { intros p Hp srt Hsrt Hin. rewrite (filter_map_regular p H Hp), Hsrt.
      apply (subs_K n IH (fun d => impl_forms_ctx (binfo_of d))); [exact forms_regular|].
      intros d Hd'. apply HHG. apply Hin in Hd'. apply filter_In in Hd'. tauto. }
    assert (Hzin : forall l x, In x (zsort l) -> In x l).
    { intros l x Hx. exact (Permutation_in _ (zsort_perm zsort zsort_ok l) Hx). }
    unfold b. cbn [spec_ctx]. cbv zeta. cbn [binfo_of regular].
    rewrite Hd, regular_displayed. cbn [regular_info bid bkind bopac btrans bclip].
    fold b. change (Box (regular_info i) (map regular cs)) with (regular b).
    fold atomic. rewrite HH. fold H.
    rewrite !K_wrap by exact Hroot. f_equal. f_equal.
    rewrite !filter_app. f_equal; [|f_equal].
    - (* steps 1-2 *)
      destruct (css_paints_box_decoration (bkind i)); [|reflexivity].
      cbn [filter]. rewrite (Hk (Bg (bid i)) eq_refl), (Hk (Border (bid i)) eq_refl). reflexivity.
    - (* the clipped content: steps 3-9 *)
      rewrite K_wrap by exact Hroot. f_equal. rewrite !filter_app.
      f_equal; [|f_equal; [|f_equal; [|f_equal; [|f_equal; [|f_equal]]]]].
      + (* 3 *)
        apply (Hsub (fun d => impl_forms_ctx (binfo_of d) && (blevel css_level d <? 0)%Z)).
        * intros d. rewrite forms_regular, level_regular. reflexivity.
        * exact zsort_regular.
        * exact Hzin.
      + (* 4 *)
        rewrite flow_desc_regular, flat_map_map, filter_flat_map. apply flat_map_ext_in.
        intros d Hdd. destruct (flow_desc_G _ b HG Hd d Hdd) as [HGd Hdd'].
        exact (block_decoration_K d HGd Hdd').
      + (* 5 *)
        rewrite flow_floats_regular.
        apply (subs_K n IH (fun _ => false)); [reflexivity|].
        intros d Hdd. exact (flow_floats_G b HG Hd d Hdd).
      + (* 6 *)
        destruct (css_inline_box (bkind i)); [|reflexivity].
        unfold b. cbn [regular inline_root_paint regular_info bid]. cbn [filter].
        rewrite (Hk (Bg (bid i)) eq_refl), (Hk (Border (bid i)) eq_refl). do 2 f_equal.
        rewrite flat_map_map, filter_flat_map. apply flat_map_ext_in.
        intros c Hc. apply (inline_K n IH). exact (G_child i cs c HG Hd Hc).
      + (* 7 *)
        cbn [flat_map]. rewrite filter_app. f_equal.
        * exact (block_content_K n IH b HG Hd).
        * rewrite flow_desc_regular, flat_map_map, filter_flat_map. apply flat_map_ext_in.
          intros d Hdd. destruct (flow_desc_G _ b HG Hd d Hdd) as [HGd Hdd'].
          exact (block_content_K n IH d HGd Hdd').
      + (* 8 *)
        assert (Hp8 : forall d, (fun d => negb (impl_forms_ctx (binfo_of d)) || (blevel css_level d =? 0)%Z) (regular d)
                                = (fun d => negb (impl_forms_ctx (binfo_of d)) || (blevel css_level d =? 0)%Z) d).
        { intros d. cbv beta. rewrite forms_regular, level_regular. reflexivity. }
        exact (Hsub _ Hp8 (fun l => l) (fun l => eq_refl) (fun l x Hx => Hx)).
      + (* 9 *)
        apply (Hsub (fun d => impl_forms_ctx (binfo_of d) && (0 <? blevel css_level d)%Z)).
        * intros d. rewrite forms_regular, level_regular. reflexivity.
        * exact zsort_regular.
        * exact Hzin.
    - (* 10 *)
      rewrite flow_all_regular, map_map. symmetry.
      transitivity (map (fun x => Outline (bid (binfo_of (regular x)))) (flow_all impl_forms_ctx b)).
      + apply filter_all. intros e He. apply in_map_iff in He.
        destruct He as [d [<- Hdd]]. destruct (flow_all_G b HG Hd d Hdd) as [HGd Hdd'].
        apply (keep_root d _ HGd Hdd'). cbn [ev_id]. rewrite info_regular. reflexivity.
      + apply map_ext. intros d. rewrite info_regular. reflexivity.
  Qed.
End Confined.

(* ------------------------------------------------------------------ the property *)

Lemma height_regular b : height (regular b) = height b.
Proof.
  induction b as [i cs IH] using box_ind'. rewrite Forall_forall in IH. cbn [regular height]. f_equal.
  induction cs as [|c r IHr]; [reflexivity|]. cbn [map fold_right].
  rewrite (IH c (or_introl eq_refl)). f_equal. apply IHr. intros x Hx. apply IH. right. exact Hx.
Qed.

(* Boxes with a singular transform hide their sub-tree and nothing else: the paint
   sequence is the one of the same tree with invertible matrices, minus the events
   of the hidden sub-trees; the relative order of everything else is unchanged. *)
Theorem singular_confined :
  forall zsort, z_then_tree_order css_level zsort ->
  forall b, NoDup (ids b) ->
  spec_paint impl_forms_ctx css_level zsort b =
  filter (keep (hidden_ids b)) (spec_paint impl_forms_ctx css_level zsort (regular b)).
Proof.
  intros zsort Hz b Hnd. unfold spec_paint. rewrite height_regular.
  apply (confined_ctx (hidden_ids b) zsort Hz). split; [exact Hnd|].
  intros id _. reflexivity.
Qed.

(* the same for the model of drawStackingContext *)
Corollary paint_singular_confined :
  forall zsort, z_then_tree_order css_level zsort ->
  forall b, wf_shape b = true -> NoDup (ids b) ->
  paint (from_box b) =
  Ok (filter (keep (hidden_ids b)) (spec_paint impl_forms_ctx css_level zsort (regular b))).
Proof.
  intros zsort Hz b Hwf Hnd. rewrite (paint_order_spec zsort Hz b Hwf).
  f_equal. exact (singular_confined zsort Hz b Hnd).
Qed.

(* what is hidden: the ids of the sub-trees of the boxes that are not displayed *)
Lemma hidden_ids_spec b id :
  In id (hidden_ids b) <->
  exists x, In x (boxes b) /\ css_not_displayed (binfo_of x) = true /\ In id (ids x).
Proof.
  induction b as [i cs IH] using box_ind'. rewrite Forall_forall in IH.
  cbn [hidden_ids]. destruct (css_not_displayed i) eqn:Hd.
  - split.
    + intros Hid. exists (Box i cs). split; [left; reflexivity|]. split; [exact Hd|exact Hid].
    + intros [x [Hx [_ Hid]]]. destruct Hx as [<-|Hx]; [exact Hid|].
      exact (ids_sub (Box i cs) x Hx id Hid).
  - split.
    + intros Hid. apply in_flat_map in Hid. destruct Hid as [c [Hc Hid]].
      apply (IH c Hc) in Hid. destruct Hid as [x [Hx [Hxd Hxi]]].
      exists x. split; [|split; assumption]. right.
      destruct Hx as [<-|Hx]; [exact (subs_child i cs c Hc)|].
      exact (subs_trans x c (Box i cs) Hx (subs_child i cs c Hc)).
    + intros [x [Hx [Hxd Hxi]]]. destruct Hx as [<-|Hx].
      { cbn [binfo_of] in Hxd. congruence. }
      cbn [subs] in Hx. apply in_flat_map in Hx. destruct Hx as [c [Hc Hx]].
      apply in_flat_map. exists c. split; [exact Hc|]. apply (IH c Hc).
      exists x. split; [exact Hx|split; assumption].
Qed.

(* in particular: an event naming a box outside every singular sub-tree is painted
   iff it is painted in the regular tree *)
Corollary painted_outside_singular :
  forall zsort, z_then_tree_order css_level zsort ->
  forall b, NoDup (ids b) ->
  forall e, ~ In (ev_id e) (hidden_ids b) ->
  (In e (spec_paint impl_forms_ctx css_level zsort b) <->
   In e (spec_paint impl_forms_ctx css_level zsort (regular b))).
Proof.
  intros zsort Hz b Hnd e He. rewrite (singular_confined zsort Hz b Hnd), filter_In.
  unfold keep. apply inb_false in He. rewrite He. cbn [negb]. tauto.
Qed.

(* and nothing of a singular sub-tree is *)
Corollary hidden_not_painted :
  forall zsort, z_then_tree_order css_level zsort ->
  forall b, NoDup (ids b) ->
  forall e, In e (spec_paint impl_forms_ctx css_level zsort b) -> ~ In (ev_id e) (hidden_ids b).
Proof.
  intros zsort Hz b Hnd e He. rewrite (singular_confined zsort Hz b Hnd) in He.
  apply filter_In in He. destruct He as [_ Hk]. unfold keep in Hk.
  apply negb_true_iff in Hk. apply inb_false. exact Hk.
Qed.

Print Assumptions singular_paints_nothing.
Print Assumptions not_displayed_paints_nothing.
Print Assumptions singular_confined.
Print Assumptions paint_singular_confined.
Print Assumptions hidden_ids_spec.
Print Assumptions painted_outside_singular.
Print Assumptions hidden_not_painted.
