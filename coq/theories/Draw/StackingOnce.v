(* Draw/StackingOnce.v -- no event of the Appendix E specification is issued
   twice (every_box_painted_once), and its consequences. *)
From Verif Require Import Base.GoSem Base.SortStable Draw.Stacking Draw.PaintSpec Draw.StackingProofs.
From Coq Require Import List ZArith NArith Bool Lia Sorted Permutation.
Import ListNotations.

(* ------------------------------------------------------------------ lists *)

Lemma nodup_app {A} (l1 l2 : list A) :
  NoDup l1 -> NoDup l2 -> (forall x, In x l1 -> ~ In x l2) -> NoDup (l1 ++ l2).
Proof.
  induction l1 as [|a r IH]; intros H1 H2 Hd; simpl; [exact H2|].
  inversion H1; subst. constructor.
  - intros Hin. apply in_app_or in Hin. destruct Hin as [Hin|Hin]; [contradiction|].
    exact (Hd a (or_introl eq_refl) Hin).
  - apply IH; auto. intros x Hx. apply Hd. right. exact Hx.
Qed.

Lemma nodup_app_l {A} (l1 l2 : list A) : NoDup (l1 ++ l2) -> NoDup l1.
Proof.
  induction l1 as [|a r IH]; intros H; [constructor|]. simpl in H. inversion H; subst.
  constructor; [intros Hin; apply H2; apply in_or_app; left; exact Hin|auto].
Qed.

Lemma nodup_app_r {A} (l1 l2 : list A) : NoDup (l1 ++ l2) -> NoDup l2.
Proof. induction l1 as [|a r IH]; intros H; [exact H|]. simpl in H. inversion H; auto. Qed.

Lemma nodup_app_disj {A} (l1 l2 : list A) : NoDup (l1 ++ l2) -> forall x, In x l1 -> ~ In x l2.
Proof.
  induction l1 as [|a r IH]; intros H x Hx; [destruct Hx|]. simpl in H. inversion H; subst.
  destruct Hx as [<-|Hx]; [intros Hin; apply H2; apply in_or_app; right; exact Hin|auto].
Qed.

(* a list of events is NoDup and names only ids of S *)
Definition fits (S : list N) (l : list event) : Prop :=
  NoDup l /\ forall e, In e l -> In (ev_id e) S.

Lemma fits_nil S : fits S [].
Proof. split; [constructor|intros e []]. Qed.

Lemma fits_incl S S' l : incl S S' -> fits S l -> fits S' l.
Proof. intros Hi [H1 H2]. split; [exact H1|intros e He; apply Hi; auto]. Qed.

Lemma fits_app S1 S2 l1 l2 :
  NoDup (S1 ++ S2) -> fits S1 l1 -> fits S2 l2 -> fits (S1 ++ S2) (l1 ++ l2).
Proof.
  intros HS [N1 I1] [N2 I2]. split.
  - apply nodup_app; auto. intros x H1 H2.
    exact (nodup_app_disj _ _ HS _ (I1 x H1) (I2 x H2)).
  - intros e He. apply in_or_app. apply in_app_or in He. destruct He; [left|right]; auto.
Qed.

Lemma fits_flat_map {A} (S : A -> list N) (f : A -> list event) l :
  NoDup (flat_map S l) -> (forall a, In a l -> fits (S a) (f a)) ->
  fits (flat_map S l) (flat_map f l).
Proof.
  induction l as [|a r IH]; intros HS H; simpl; [apply fits_nil|].
  simpl in HS. apply fits_app; [exact HS|apply H; left; reflexivity|].
  apply IH; [exact (nodup_app_r _ _ HS)|intros x Hx; apply H; right; exact Hx].
Qed.

Lemma fits_perm S l l' : Permutation l l' -> fits S l -> fits S l'.
Proof.
  intros P [H1 H2]. split; [exact (Permutation_NoDup P H1)|].
  intros e He. apply H2. exact (Permutation_in _ (Permutation_sym P) He).
Qed.

Lemma fits_permS S S' l : Permutation S S' -> fits S l -> fits S' l.
Proof. intros P. apply fits_incl. intros x Hx. exact (Permutation_in _ P Hx). Qed.

(* ------------------------------------------------------------------ ids of sub-trees *)

Notation CL := (PaintSpec.cl impl_forms_ctx).
Definition bids (l : list box) : list N := map (fun x => bid (binfo_of x)) l.
(* ids a child contributes to the pseudo context of its parent *)
Definition obid (c : box) : list N :=
  match CL c with CReal | CPos => [] | _ => bids (own c) end.

Lemma map_flat_map {A B C} (f : B -> C) (g : A -> list B) l :
  map f (flat_map g l) = flat_map (fun a => map f (g a)) l.
Proof. induction l as [|a r IH]; simpl; [reflexivity|]. rewrite map_app, IH. reflexivity. Qed.

Lemma flat_map_ext_in {A B} (f g : A -> list B) l :
  (forall a, In a l -> f a = g a) -> flat_map f l = flat_map g l.
Proof.
  induction l as [|a r IH]; intros H; simpl; [reflexivity|].
  rewrite (H a (or_introl eq_refl)), IH; [reflexivity|]. intros x Hx. apply H. right. exact Hx.
Qed.

Lemma ids_box i cs : ids (Box i cs) = bid i :: flat_map ids cs.
Proof.
  unfold ids, boxes. cbn [subs map binfo_of]. f_equal. rewrite map_flat_map. reflexivity.
Qed.

Lemma own_box i cs : bids (own (Box i cs)) = bid i :: flat_map obid cs.
Proof.
  unfold bids. cbn [own map binfo_of]. f_equal. rewrite map_flat_map.
  apply flat_map_ext_in. intros c _. unfold obid. destruct (CL c); reflexivity.
Qed.

Lemma own_in_boxes b : incl (own b) (boxes b).
Proof.
  induction b as [i cs IH] using box_ind'. rewrite Forall_forall in IH.
  intros x Hx. cbn [own] in Hx. destruct Hx as [<-|Hx]; [left; reflexivity|right].
  apply in_flat_map in Hx. destruct Hx as [c [Hc Hx]]. cbn [subs]. apply in_flat_map.
  exists c. split; [exact Hc|]. apply (IH c Hc). destruct (CL c); solve [destruct Hx|exact Hx].
Qed.

Lemma obid_ids c : incl (obid c) (ids c).
Proof.
  intros k Hk. unfold obid in Hk. unfold ids.
  assert (H : In k (bids (own c)) -> In k (bids (boxes c))).
  { unfold bids. intros H. apply in_map_iff in H. destruct H as [x [<- Hx]].
    apply (in_map (fun x => bid (binfo_of x))). apply own_in_boxes. exact Hx. }
  destruct (CL c); solve [destruct Hk|apply H; exact Hk].
Qed.

Lemma nodup_flat_map_incl {A} (S S' : A -> list N) l :
  (forall a, In a l -> incl (S a) (S' a)) -> (forall a, In a l -> NoDup (S a)) ->
  NoDup (flat_map S' l) -> NoDup (flat_map S l).
Proof.
  induction l as [|a r IH]; intros Hi Hn H; simpl; [constructor|]. simpl in H.
  apply nodup_app.
  - apply Hn. left. reflexivity.
  - apply IH; [intros; apply Hi; right; auto|intros; apply Hn; right; auto|exact (nodup_app_r _ _ H)].
  - intros x H1 H2. apply (nodup_app_disj _ _ H x); [apply (Hi a (or_introl eq_refl)); exact H1|].
    apply in_flat_map in H2. destruct H2 as [c [Hc H2]]. apply in_flat_map. exists c.
    split; [exact Hc|]. apply (Hi c (or_intror Hc)). exact H2.
Qed.

Lemma nodup_flat_map_in {A} (S : A -> list N) l a :
  NoDup (flat_map S l) -> In a l -> NoDup (S a).
Proof.
  induction l as [|x r IH]; intros H Ha; [destruct Ha|]. simpl in H.
  destruct Ha as [->|Ha]; [exact (nodup_app_l _ _ H)|exact (IH (nodup_app_r _ _ H) Ha)].
Qed.

Lemma ids_child_nodup i cs c : NoDup (ids (Box i cs)) -> In c cs -> NoDup (ids c).
Proof.
  rewrite ids_box. intros H Hc. inversion H; subst. exact (nodup_flat_map_in ids cs c H3 Hc).
Qed.

Lemma own_nodup b : NoDup (ids b) -> NoDup (bids (own b)).
Proof.
  intros H. pose proof (boxes_partition b) as P.
  apply (Permutation_map (fun x => bid (binfo_of x))) in P. rewrite map_app in P.
  exact (nodup_app_l _ _ (Permutation_NoDup P H)).
Qed.

Lemma obid_nodup c : NoDup (ids c) -> NoDup (obid c).
Proof.
  intros H. unfold obid. destruct (CL c); solve [constructor|apply own_nodup; exact H].
Qed.

Lemma obid_children_nodup i cs : NoDup (ids (Box i cs)) -> NoDup (flat_map obid cs).
Proof.
  intros H. pose proof H as H'. rewrite ids_box in H'. inversion H'; subst.
  apply (nodup_flat_map_incl obid ids cs); [intros; apply obid_ids| |exact H3].
  intros a Ha. apply obid_nodup. exact (ids_child_nodup i cs a H Ha).
Qed.

Lemma ids_sub_nodup b d : NoDup (ids b) -> In d (subs b) -> NoDup (ids d).
Proof.
  induction b as [i cs IH] using box_ind'. rewrite Forall_forall in IH. intros H Hd.
  cbn [subs] in Hd. apply in_flat_map in Hd. destruct Hd as [c [Hc Hd]].
  pose proof (ids_child_nodup i cs c H Hc) as Hn.
  destruct Hd as [<-|Hd]; [exact Hn|exact (IH c Hc Hn Hd)].
Qed.

Ltac nodup_concrete := repeat constructor; simpl; intuition discriminate.

Lemma fits_one k l : NoDup l -> (forall e, In e l -> ev_id e = k) -> fits [k] l.
Proof. intros H1 H2. split; [exact H1|intros e He; left; symmetry; auto]. Qed.

Lemma perm3 {A B} (f g h : A -> list B) l :
  Permutation (flat_map (fun a => f a ++ g a ++ h a) l) (flat_map f l ++ flat_map g l ++ flat_map h l).
Proof.
  rewrite (perm_flat_map_app f (fun a => g a ++ h a)). apply Permutation_app_head.
  apply perm_flat_map_app.
Qed.

Lemma wf_nonparent_nil i cs : wf_shape (Box i cs) = true -> is_parent (bkind i) = false -> cs = [].
Proof.
  intros Hwf Hp. destruct (wf_leaf i cs Hwf) as [H|H]; [simpl in H; congruence|exact H].
Qed.

(* ------------------------------------------------------------------ the flow region of a (pseudo) context *)
Section Flow.
  Variable atomic : box -> list event.
  Hypothesis Hat : forall d, wf_shape d = true -> NoDup (ids d) -> fits (bids (own d)) (atomic d).

  Definition IPa := inline_paint impl_forms_ctx atomic.
  Definition Fl c := flat_map atomic (flow_floats impl_forms_ctx c).
  Definition Om c := map (fun d => Outline (bid (binfo_of d))) (flow_all impl_forms_ctx c).
  Definition fF c := match CL c with CFloat => atomic c | CFlow => Fl c | _ => [] end.
  Definition fO c := match CL c with CFlow => Om c | _ => [] end.

  Lemma Fl_box i cs : Fl (Box i cs) = flat_map fF cs.
  Proof.
    unfold Fl. cbn [flow_floats]. rewrite flat_map_flat_map. apply flat_map_ext_in.
    intros c _. unfold fF. destruct (CL c); simpl; try reflexivity. apply app_nil_r.
  Qed.

  Lemma Om_box i cs : Om (Box i cs) = Outline (bid i) :: flat_map fO cs.
  Proof.
    unfold Om. cbn [flow_all map binfo_of]. f_equal. rewrite map_flat_map.
    apply flat_map_ext_in. intros c _. unfold fO. destruct (CL c); reflexivity.
  Qed.

  (* what a line / inline box, its floats and its outlines contribute *)
  Lemma inline_chunk c : wf_shape c = true -> NoDup (ids c) ->
    fits (obid c) (IPa c ++ fF c ++ fO c).
  Proof.
    induction c as [i cs IH] using box_ind'. rewrite Forall_forall in IH. intros Hwf Hnd.
    unfold obid, fF, fO, IPa. cbn [inline_paint].
    change (PaintSpec.classify impl_forms_ctx i) with (CL (Box i cs)).
    destruct (CL (Box i cs)) eqn:E; simpl app; try apply fits_nil.
    - rewrite app_nil_r. apply Hat; assumption.
    - rewrite app_nil_r. apply Hat; assumption.
    - rewrite own_box, Fl_box, Om_box.
      assert (Hleaf : is_parent (bkind i) = false ->
                fits (bid i :: flat_map obid cs)
                  ((if css_text (bkind i) then [Content (bid i)]
                    else [Bg (bid i); Border (bid i); Content (bid i)]) ++ flat_map fF cs ++ Outline (bid i) :: flat_map fO cs)).
      { intros Hp. rewrite (wf_nonparent_nil i cs Hwf Hp). simpl.
        apply fits_one; destruct (css_text (bkind i)); try nodup_concrete;
          intros e He; simpl in He; intuition (subst; reflexivity). }
      destruct (css_text (bkind i)) eqn:Et.
      { apply Hleaf. destruct (bkind i); try discriminate; reflexivity. }
      destruct (css_replaced (bkind i)) eqn:Er.
      { apply Hleaf. destruct (bkind i); try discriminate; reflexivity. }
      fold IPa.
      apply (fits_perm _ ([Bg (bid i); Border (bid i); Outline (bid i)]
                          ++ flat_map (fun c => IPa c ++ fF c ++ fO c) cs)).
      { rewrite perm3. simpl. do 2 constructor. rewrite app_assoc.
        rewrite (app_assoc (flat_map IPa cs)). apply Permutation_middle. }
      change (bid i :: flat_map obid cs) with ([bid i] ++ flat_map obid cs).
      apply fits_app.
      + simpl. rewrite <- own_box. apply own_nodup. exact Hnd.
      + apply fits_one; [nodup_concrete|]. intros e He; simpl in He; intuition (subst; reflexivity).
      + apply fits_flat_map; [exact (obid_children_nodup i cs Hnd)|].
        intros c Hc. apply IH; [exact Hc| |exact (ids_child_nodup i cs c Hnd Hc)].
        pose proof (wf_children i cs Hwf) as Hw. rewrite Forall_forall in Hw. auto.
  Qed.

  Definition sel7 (k : kind) : bool := css_block_level k || css_cell k.
  Definition BCa := block_content impl_forms_ctx atomic.
  Definition Dd c := flat_map block_decoration (flow_desc impl_forms_ctx css_block_level c).
  Definition Wd c := flat_map BCa (flow_desc impl_forms_ctx sel7 c).
  Definition fL c := match CL c with
                     | CFlow => if css_line_box (bkind (binfo_of c)) then IPa c else []
                     | _ => [] end.
  Definition fD c := match CL c with
                     | CFlow => (if css_block_level (bkind (binfo_of c)) then block_decoration c else []) ++ Dd c
                     | _ => [] end.
  Definition fW c := match CL c with
                     | CFlow => (if sel7 (bkind (binfo_of c)) then BCa c else []) ++ Wd c
                     | _ => [] end.

  Lemma fd_box (g : box -> list event) s i cs :
    flat_map g (flow_desc impl_forms_ctx s (Box i cs)) =
    flat_map (fun c => match CL c with
                       | CFlow => (if s (bkind (binfo_of c)) then g c else [])
                                  ++ flat_map g (flow_desc impl_forms_ctx s c)
                       | _ => [] end) cs.
  Proof.
    cbn [flow_desc]. rewrite flat_map_flat_map. apply flat_map_ext_in. intros c _.
    destruct (CL c); try reflexivity. rewrite flat_map_app.
    destruct (s _); simpl; [rewrite app_nil_r|]; reflexivity.
  Qed.

  Lemma Dd_box i cs : Dd (Box i cs) = flat_map fD cs.
  Proof. unfold Dd. rewrite fd_box. reflexivity. Qed.
  Lemma Wd_box i cs : Wd (Box i cs) = flat_map fW cs.
  Proof. unfold Wd. rewrite fd_box. reflexivity. Qed.
  Lemma BCa_box i cs :
    BCa (Box i cs) = if css_replaced (bkind i) then [Content (bid i)] else flat_map fL cs.
  Proof. reflexivity. Qed.

  Lemma wf_line_children i cs : wf_shape (Box i cs) = true -> is_line (bkind i) = true ->
    forall c, In c cs -> inline_ok c = true.
  Proof.
    intros Hwf Hl. simpl in Hwf. rewrite !andb_true_iff in Hwf. destruct Hwf as [[[_ _] H2] _].
    rewrite Hl in H2. simpl in H2. rewrite forallb_forall in H2. exact H2.
  Qed.

  Lemma flat_map_nil {A B} (f : A -> list B) l : (forall a, In a l -> f a = []) -> flat_map f l = [].
  Proof.
    induction l as [|a r IH]; intros H; simpl; [reflexivity|].
    rewrite (H a (or_introl eq_refl)), IH; [reflexivity|]. intros x Hx. apply H. right. exact Hx.
  Qed.

  (* no block, cell or line box in the flow below a line / inline box *)
  Lemma line_no_blocks s c : wf_shape c = true ->
    s KInline = false -> s KText = false -> s KInlineReplaced = false ->
    is_line (bkind (binfo_of c)) = true \/ is_parent (bkind (binfo_of c)) = false ->
    flow_desc impl_forms_ctx s c = [].
  Proof.
    intros Hwf S1 S2 S3. induction c as [i cs IH] using box_ind'. rewrite Forall_forall in IH.
    intros [Hl|Hp]; [|rewrite (wf_nonparent_nil i cs Hwf Hp); reflexivity].
    cbn [flow_desc]. apply flat_map_nil. intros c Hc.
    pose proof (wf_line_children i cs Hwf Hl c Hc) as Hok.
    pose proof (wf_children i cs Hwf) as Hw. rewrite Forall_forall in Hw.
    unfold inline_ok in Hok. destruct (CL c) eqn:E; try reflexivity.
    rewrite (IH c Hc (Hw c Hc)).
    - destruct (bkind (binfo_of c)); try discriminate; rewrite ?S1, ?S2, ?S3; reflexivity.
    - destruct (bkind (binfo_of c)); try discriminate; [left|right|right]; reflexivity.
  Qed.

  Lemma fits_drop S l1 l2 : fits S (l1 ++ l2) -> fits S l2.
  Proof.
    intros [H1 H2]. split; [exact (nodup_app_r _ _ H1)|].
    intros e He. apply H2. apply in_or_app. right. exact He.
  Qed.

  Lemma perm4 {A B} (f g h k : A -> list B) l :
    Permutation (flat_map (fun a => f a ++ g a ++ h a ++ k a) l)
                (flat_map f l ++ flat_map g l ++ flat_map h l ++ flat_map k l).
  Proof.
    rewrite (perm_flat_map_app f (fun a => g a ++ h a ++ k a)). apply Permutation_app_head.
    apply perm3.
  Qed.

  Lemma perm5 {A B} (f g h k m : A -> list B) l :
    Permutation (flat_map (fun a => f a ++ g a ++ h a ++ k a ++ m a) l)
                (flat_map f l ++ flat_map g l ++ flat_map h l ++ flat_map k l ++ flat_map m l).
  Proof.
    rewrite (perm_flat_map_app f (fun a => g a ++ h a ++ k a ++ m a)). apply Permutation_app_head.
    apply perm4.
  Qed.

  Lemma perm_rot {A} (l d f x : list A) : Permutation (l ++ d ++ f ++ x) (d ++ f ++ l ++ x).
  Proof.
    replace (l ++ d ++ f ++ x) with ((l ++ (d ++ f)) ++ x) by (rewrite <- !app_assoc; reflexivity).
    replace (d ++ f ++ l ++ x) with (((d ++ f) ++ l) ++ x) by (rewrite <- !app_assoc; reflexivity).
    apply Permutation_app_tail. apply Permutation_app_comm.
  Qed.

  (* the events of the root of a flow chunk *)
  Lemma fits_root_deco i cs :
    fits [bid i] ((if css_block_level (bkind i) then block_decoration (Box i cs) else [])
                  ++ [Outline (bid i)]).
  Proof.
    unfold block_decoration. cbn [binfo_of].
    apply fits_one; destruct (css_block_level (bkind i)), (css_table (bkind i)); try nodup_concrete;
      intros e He; simpl in He; intuition (subst; reflexivity).
  Qed.

  (* what an in-flow child of a block contributes to steps 4, 5, 7 and 10 *)
  Lemma block_chunk c : wf_shape c = true -> NoDup (ids c) ->
    fits (obid c) (fL c ++ fD c ++ fF c ++ fW c ++ fO c).
  Proof.
    induction c as [i cs IH] using box_ind'. rewrite Forall_forall in IH. intros Hwf Hnd.
    pose proof (wf_children i cs Hwf) as Hw. rewrite Forall_forall in Hw.
    unfold obid, fL, fD, fF, fW, fO.
    destruct (CL (Box i cs)) eqn:E; cbn [app]; try apply fits_nil.
    { rewrite app_nil_r. apply Hat; assumption. }
    cbn [binfo_of].
    destruct (css_line_box (bkind i)) eqn:El.
    { assert (Hk : bkind i = KLine) by (destruct (bkind i); try discriminate; reflexivity).
      unfold Dd, Wd.
      rewrite !(line_no_blocks _ (Box i cs) Hwf); try reflexivity;
        try (left; cbn [binfo_of]; rewrite Hk; reflexivity).
      rewrite Hk. simpl.
      pose proof (inline_chunk (Box i cs) Hwf Hnd) as H. unfold obid, fF, fO in H.
      rewrite E in H. exact H. }
    cbn [app]. rewrite own_box, Dd_box, Fl_box, Wd_box, Om_box, BCa_box.
    destruct (css_replaced (bkind i)) eqn:Er.
    { assert (Hp : is_parent (bkind i) = false) by (destruct (bkind i); try discriminate; reflexivity).
      rewrite (wf_nonparent_nil i cs Hwf Hp). simpl. unfold block_decoration, sel7. cbn [binfo_of].
      apply fits_one; destruct (bkind i); try discriminate; simpl; try nodup_concrete;
        intros e He; simpl in He; intuition (subst; reflexivity). }
    change (bid i :: flat_map obid cs) with ([bid i] ++ flat_map obid cs).
    assert (HS : NoDup ([bid i] ++ flat_map obid cs)).
    { simpl. rewrite <- own_box. apply own_nodup. exact Hnd. }
    pose proof (fits_root_deco i cs) as Hroot.
    set (R1 := if css_block_level (bkind i) then block_decoration (Box i cs) else []) in *.
    destruct (sel7 (bkind i)).
    - apply (fits_perm _ ((R1 ++ [Outline (bid i)])
                ++ flat_map (fun c => fL c ++ fD c ++ fF c ++ fW c ++ fO c) cs)).
      { rewrite perm5. rewrite <- !app_assoc. apply Permutation_app_head. simpl.
        etransitivity; [apply perm_skip; apply perm_rot|].
        rewrite !app_assoc. apply Permutation_middle. }
      apply fits_app; [exact HS|exact Hroot|].
      apply fits_flat_map; [exact (obid_children_nodup i cs Hnd)|].
      intros c Hc. apply IH; [exact Hc|auto|exact (ids_child_nodup i cs c Hnd Hc)].
    - apply (fits_perm _ ((R1 ++ [Outline (bid i)])
                ++ flat_map (fun c => fD c ++ fF c ++ fW c ++ fO c) cs)).
      { rewrite perm4. rewrite <- !app_assoc. apply Permutation_app_head. simpl.
        rewrite !app_assoc. apply Permutation_middle. }
      apply fits_app; [exact HS|exact Hroot|].
      apply fits_flat_map; [exact (obid_children_nodup i cs Hnd)|].
      intros c Hc. apply (fits_drop _ (fL c)).
      apply IH; [exact Hc|auto|exact (ids_child_nodup i cs c Hnd Hc)].
  Qed.

  Lemma line_no_lines i cs : wf_shape (Box i cs) = true -> is_line (bkind i) = true ->
    flat_map fL cs = [].
  Proof.
    intros Hwf Hl. apply flat_map_nil. intros c Hc.
    pose proof (wf_line_children i cs Hwf Hl c Hc) as Hok. unfold inline_ok in Hok. unfold fL.
    destruct (CL c); try reflexivity. destruct (bkind (binfo_of c)); try discriminate; reflexivity.
  Qed.

  (* the group effects of the root of a context *)
  Definition PP (i : binfo) : list event :=
    (if bopac i then [Push EOpacity (bid i); Pop EOpacity (bid i)] else [])
    ++ (if btrans i && css_transformable (bkind i) then [Push ETransform (bid i); Pop ETransform (bid i)] else [])
    ++ (if bclip i && negb (is_page (bkind i)) then [Push EClip (bid i); Pop EClip (bid i)] else []).

  Definition decor (i : binfo) : list event :=
    if css_paints_box_decoration (bkind i) then [Bg (bid i); Border (bid i)] else [].

  Lemma fits_root_ctx i (X : list event) :
    (X = [] \/ X = [Content (bid i)] \/
     (css_paints_box_decoration (bkind i) = false /\ X = [Bg (bid i); Border (bid i)])) ->
    fits [bid i] (PP i ++ decor i ++ X ++ [Outline (bid i)]).
  Proof.
    intros HX. unfold PP, decor.
    apply fits_one.
    - destruct HX as [->|[->|[Hk ->]]]; [| |rewrite Hk];
        destruct (bopac i), (btrans i && css_transformable (bkind i)),
          (bclip i && negb (is_page (bkind i)));
        try destruct (css_paints_box_decoration (bkind i)); nodup_concrete.
    - intros e He. rewrite !in_app_iff in He.
      assert (Hin : forall (c : bool) (l : list event), (forall x, In x l -> ev_id x = bid i) ->
                In e (if c then l else []) -> ev_id e = bid i).
      { intros c l Hl H. destruct c; [auto|destruct H]. }
      destruct He as [[He|[He|He]]|[He|[He|He]]].
      + refine (Hin _ _ _ He); simpl; intuition (subst; reflexivity).
      + refine (Hin _ _ _ He); simpl; intuition (subst; reflexivity).
      + refine (Hin _ _ _ He); simpl; intuition (subst; reflexivity).
      + refine (Hin _ _ _ He); simpl; intuition (subst; reflexivity).
      + destruct HX as [->|[->|[_ ->]]]; simpl in He; intuition (subst; reflexivity).
      + simpl in He; intuition (subst; reflexivity).
  Qed.

  (* everything the (pseudo) stacking context of a box paints itself: group
     effects, steps 1-2, 4, 5, 6, 7 and 10 *)
  Lemma ctx_flow i cs : wf_shape (Box i cs) = true -> NoDup (ids (Box i cs)) ->
    fits (bids (own (Box i cs)))
      (PP i ++ decor i ++ Dd (Box i cs) ++ Fl (Box i cs)
       ++ (if css_inline_box (bkind i) then inline_root_paint impl_forms_ctx atomic (Box i cs) else [])
       ++ (BCa (Box i cs) ++ Wd (Box i cs)) ++ Om (Box i cs)).
  Proof.
    intros Hwf Hnd.
    pose proof (wf_children i cs Hwf) as Hw. rewrite Forall_forall in Hw.
    assert (HS : NoDup ([bid i] ++ flat_map obid cs)).
    { simpl. rewrite <- own_box. apply own_nodup. exact Hnd. }
    rewrite own_box, Fl_box, Om_box, BCa_box.
    change (bid i :: flat_map obid cs) with ([bid i] ++ flat_map obid cs).
    destruct (css_replaced (bkind i)) eqn:Er.
    { assert (Hp : is_parent (bkind i) = false) by (destruct (bkind i); try discriminate; reflexivity).
      assert (Hi : css_inline_box (bkind i) = false) by (destruct (bkind i); try discriminate; reflexivity).
      rewrite Hi, (wf_nonparent_nil i cs Hwf Hp).
      exact (fits_root_ctx i [Content (bid i)] (or_intror (or_introl eq_refl))). }
    destruct (css_inline_box (bkind i)) eqn:Ei.
    - assert (Hk : bkind i = KInline) by (destruct (bkind i); try discriminate; reflexivity).
      assert (Hl : is_line (bkind i) = true) by (rewrite Hk; reflexivity).
      unfold Dd, Wd. rewrite !(line_no_blocks _ (Box i cs) Hwf); try reflexivity; try (left; exact Hl).
      rewrite (line_no_lines i cs Hwf Hl). cbn [inline_root_paint flat_map app]. fold IPa.
      apply (fits_perm _ ((PP i ++ decor i ++ [Bg (bid i); Border (bid i)] ++ [Outline (bid i)])
                          ++ flat_map (fun c => IPa c ++ fF c ++ fO c) cs)).
      { rewrite perm3, <- !app_assoc. do 2 apply Permutation_app_head.
        etransitivity; [|apply Permutation_app_comm]. simpl. do 2 constructor.
        rewrite <- app_assoc. simpl. etransitivity; [|apply Permutation_middle].
        constructor. apply Permutation_app_head. apply Permutation_app_comm. }
      change (bid i :: flat_map obid cs) with ([bid i] ++ flat_map obid cs).
      apply fits_app; [exact HS| |].
      + apply fits_root_ctx. right. right. split; [rewrite Hk|]; reflexivity.
      + apply fits_flat_map; [exact (obid_children_nodup i cs Hnd)|].
        intros c Hc. apply inline_chunk; [auto|exact (ids_child_nodup i cs c Hnd Hc)].
    - rewrite Dd_box, Wd_box.
      apply (fits_perm _ ((PP i ++ decor i ++ [] ++ [Outline (bid i)])
                          ++ flat_map (fun c => fL c ++ fD c ++ fF c ++ fW c ++ fO c) cs)).
      { rewrite perm5, <- !app_assoc. do 2 apply Permutation_app_head. simpl.
        etransitivity; [apply perm_skip; apply perm_rot|].
        rewrite !app_assoc. apply Permutation_middle. }
      change (bid i :: flat_map obid cs) with ([bid i] ++ flat_map obid cs).
      apply fits_app; [exact HS| |].
      + apply fits_root_ctx. left. reflexivity.
      + apply fits_flat_map; [exact (obid_children_nodup i cs Hnd)|].
        intros c Hc. apply block_chunk; [auto|exact (ids_child_nodup i cs c Hnd Hc)].
  Qed.
End Flow.

(* ------------------------------------------------------------------ rearranging concatenations *)
Lemma pull_next {A} (x r h r' : list A) :
  Permutation r (h ++ r') -> Permutation (x ++ r) (h ++ x ++ r').
Proof. intros P. rewrite P. apply Permutation_app_swap_app. Qed.
Lemma pull_last {A} (h : list A) : Permutation h (h ++ []).
Proof. rewrite app_nil_r. reflexivity. Qed.
Lemma perm_step {A} (L h L' R : list A) :
  Permutation L (h ++ L') -> Permutation L' R -> Permutation L (h ++ R).
Proof. intros P1 P2. rewrite P1. apply Permutation_app_head. exact P2. Qed.
Ltac pull := first [ apply Permutation_refl | apply pull_last | (eapply pull_next; pull) ].
Ltac perm_apps :=
  rewrite <- ?app_assoc;
  repeat (eapply perm_step; [solve [pull]|]);
  rewrite ?app_nil_r; reflexivity.

Lemma wrap_perm e on id l :
  Permutation (wrap e on id l) ((if on then [Push e id; Pop e id] else []) ++ l).
Proof.
  unfold wrap. destruct on; [|reflexivity]. simpl. constructor.
  change (Pop e id :: l) with ([Pop e id] ++ l). apply Permutation_app_comm.
Qed.

Lemma three_way_perm (f : box -> bool) (lv : box -> Z) (H : list box) :
  Permutation (filter (fun d => f d && (lv d <? 0)%Z) H
               ++ filter (fun d => negb (f d) || (lv d =? 0)%Z) H
               ++ filter (fun d => f d && (0 <? lv d)%Z) H) H.
Proof.
  induction H as [|d r IH]; [constructor|]. simpl.
  assert (Hfin : forall X, Permutation (d :: filter (fun d => f d && (lv d <? 0)%Z) r
               ++ filter (fun d => negb (f d) || (lv d =? 0)%Z) r
               ++ filter (fun d => f d && (0 <? lv d)%Z) r) X -> Permutation X (d :: r)).
  { intros X PX. rewrite <- PX. constructor. exact IH. }
  apply Hfin.
  destruct (f d); simpl;
    [destruct (Z.ltb_spec (lv d) 0); destruct (Z.eqb_spec (lv d) 0); destruct (Z.ltb_spec 0 (lv d));
      try lia; simpl|];
    first [reflexivity | apply Permutation_middle | (rewrite !app_assoc; apply Permutation_middle)].
Qed.

Goal forall (a b c d : list nat), Permutation (a ++ (b ++ c) ++ d) ((d ++ b) ++ a ++ c).
Proof. intros. perm_apps. Qed.

(* ------------------------------------------------------------------ no event is issued twice *)
Section Once.
  Variable zsort : list box -> list box.
  Hypothesis zsort_ok : z_then_tree_order css_level zsort.
  Notation SP := (spec_ctx impl_forms_ctx css_level zsort).

  Lemma zsort_perm l : Permutation (zsort l) l.
  Proof.
    rewrite (zsort_isort zsort zsort_ok). symmetry.
    apply (isort_perm (fun b => css_level (binfo_of b))).
  Qed.

  (* the territory of a (pseudo) context *)
  Definition tids (real : bool) (b : box) : list N := if real then ids b else bids (own b).

  Lemma tids_terr d : tids (impl_forms_ctx (binfo_of d)) d = bids (terr d).
  Proof. unfold tids, terr. destruct (impl_forms_ctx _); reflexivity. Qed.

  Theorem spec_ctx_fits n : forall real b, wf_shape b = true -> NoDup (ids b) ->
    fits (tids real b) (SP n real b).
  Proof.
    induction n as [|n IHn]; intros real b Hwf Hnd; [apply fits_nil|].
    destruct b as [i cs]. cbn [spec_ctx]. cbv zeta. cbn [binfo_of].
    destruct (css_not_displayed i); [apply fits_nil|].
    set (b := Box i cs) in *.
    set (H := if real then hoisted impl_forms_ctx b else []).
    set (sub := fun d => SP n (impl_forms_ctx (binfo_of d)) d).
    set (atomic := fun d => SP n false d).
    assert (Hat : forall d, wf_shape d = true -> NoDup (ids d) -> fits (bids (own d)) (atomic d)).
    { intros d H1 H2. exact (IHn false d H1 H2). }
    assert (HH : forall d, In d H -> In d (subs b)).
    { intros d Hd. subst H. destruct real; [exact (hoisted_subs b d Hd)|destruct Hd]. }
    assert (Hsub : forall d, In d H -> fits (bids (terr d)) (sub d)).
    { intros d Hd. rewrite <- tids_terr. apply IHn.
      - exact (subs_wf b d Hwf (HH d Hd)).
      - exact (ids_sub_nodup b d Hnd (HH d Hd)). }
    assert (HT : Permutation (tids real b) (bids (own b) ++ flat_map (fun d => bids (terr d)) H)).
    { subst H. unfold tids. destruct real; [|simpl; rewrite app_nil_r; reflexivity].
      unfold ids. rewrite (boxes_partition b). unfold bids. rewrite map_app, map_flat_map. reflexivity. }
    assert (HS : NoDup (bids (own b) ++ flat_map (fun d => bids (terr d)) H)).
    { apply (Permutation_NoDup HT). unfold tids. destruct real; [exact Hnd|apply own_nodup; exact Hnd]. }
    assert (PH : Permutation
              (flat_map sub (zsort (filter (fun d => impl_forms_ctx (binfo_of d) && (blevel css_level d <? 0)%Z) H))
               ++ flat_map sub (filter (fun d => negb (impl_forms_ctx (binfo_of d)) || (blevel css_level d =? 0)%Z) H)
               ++ flat_map sub (zsort (filter (fun d => impl_forms_ctx (binfo_of d) && (0 <? blevel css_level d)%Z) H)))
              (flat_map sub H)).
    { rewrite <- !flat_map_app. apply Permutation_flat_map. rewrite !zsort_perm.
      exact (three_way_perm (fun d => impl_forms_ctx (binfo_of d)) (blevel css_level) H). }
    apply (fits_permS _ _ _ (Permutation_sym HT)).
    pose proof (ctx_flow atomic Hat i cs Hwf Hnd) as HF. fold b in HF.
    assert (HALL := fits_app _ _ _ _ HS HF
                      (fits_flat_map (fun d => bids (terr d)) sub H (nodup_app_r _ _ HS) Hsub)).
    refine (fits_perm _ _ _ _ HALL).
    rewrite <- PH. rewrite !wrap_perm. unfold PP, decor, Dd, Fl, Wd, Om, BCa, sel7.
    cbn [flat_map]. perm_apps.
  Qed.

  Corollary spec_ctx_nodup n real b : wf_shape b = true -> NoDup (ids b) -> NoDup (SP n real b).
  Proof. intros H1 H2. exact (proj1 (spec_ctx_fits n real b H1 H2)). Qed.
End Once.

(* every_box_painted_once *)
Theorem every_box_painted_once :
  forall zsort, z_then_tree_order css_level zsort ->
  forall b, wf_shape b = true -> NoDup (ids b) ->
  NoDup (spec_paint impl_forms_ctx css_level zsort b).
Proof. intros zsort Hz b H1 H2. unfold spec_paint. apply spec_ctx_nodup; assumption. Qed.
Print Assumptions every_box_painted_once.

(* ------------------------------------------------------------------ where the group effects are *)
Section FlowPush.
  Variable atomic : box -> list event.
  Hypothesis Hnp : forall d, impl_forms_ctx (binfo_of d) = false ->
    forall x, In x (atomic d) -> is_push_pop x = false.

  Lemma ip_nopush c : forall x, In x (IPa atomic c) -> is_push_pop x = false.
  Proof.
    induction c as [i cs IH] using box_ind'. rewrite Forall_forall in IH. intros x Hx.
    unfold IPa in Hx. cbn [inline_paint] in Hx.
    change (PaintSpec.classify impl_forms_ctx i) with (CL (Box i cs)) in Hx.
    destruct (CL (Box i cs)) eqn:E; try (destruct Hx; fail).
    - apply (Hnp (Box i cs)); [apply cl_notreal_forms; congruence|exact Hx].
    - destruct (css_text (bkind i)); [simpl in Hx; intuition (subst; reflexivity)|].
      destruct (css_replaced (bkind i)); [simpl in Hx; intuition (subst; reflexivity)|].
      destruct Hx as [<-|[<-|Hx]]; try reflexivity.
      apply in_flat_map in Hx. destruct Hx as [c [Hc Hx]]. exact (IH c Hc x Hx).
  Qed.

  Lemma bc_nopush b : forall x, In x (BCa atomic b) -> is_push_pop x = false.
  Proof.
    destruct b as [i cs]. intros x Hx. rewrite BCa_box in Hx.
    destruct (css_replaced (bkind i)); [simpl in Hx; intuition (subst; reflexivity)|].
    apply in_flat_map in Hx. destruct Hx as [c [Hc Hx]]. unfold fL in Hx.
    destruct (CL c); try (destruct Hx; fail).
    destruct (css_line_box _); [exact (ip_nopush c x Hx)|destruct Hx].
  Qed.

  Lemma flow_floats_cl b d : In d (flow_floats impl_forms_ctx b) -> CL d = CFloat.
  Proof.
    induction b as [i cs IH] using box_ind'. rewrite Forall_forall in IH. intros Hd.
    cbn [flow_floats] in Hd. apply in_flat_map in Hd. destruct Hd as [c [Hc Hd]].
    destruct (CL c) eqn:E; try (destruct Hd; fail).
    - destruct Hd as [<-|[]]. exact E.
    - exact (IH c Hc Hd).
  Qed.

  Lemma flow_nopush i cs : forall x,
    In x (decor i ++ Dd (Box i cs) ++ Fl atomic (Box i cs)
          ++ (if css_inline_box (bkind i) then inline_root_paint impl_forms_ctx atomic (Box i cs) else [])
          ++ (BCa atomic (Box i cs) ++ Wd atomic (Box i cs)) ++ Om (Box i cs)) ->
    is_push_pop x = false.
  Proof.
    intros x Hx. rewrite !in_app_iff in Hx. destruct Hx as [Hx|[Hx|[Hx|[Hx|[[Hx|Hx]|Hx]]]]].
    - unfold decor in Hx. destruct (css_paints_box_decoration _); simpl in Hx; intuition (subst; reflexivity).
    - unfold Dd in Hx. apply in_flat_map in Hx. destruct Hx as [d [_ Hx]]. unfold block_decoration in Hx.
      destruct (css_table _); simpl in Hx; intuition (subst; reflexivity).
    - unfold Fl in Hx. apply in_flat_map in Hx. destruct Hx as [d [Hd Hx]].
      apply (Hnp d); [|exact Hx]. apply cl_notreal_forms. rewrite (flow_floats_cl _ d Hd). discriminate.
    - destruct (css_inline_box _); [|destruct Hx]. cbn [inline_root_paint] in Hx.
      destruct Hx as [<-|[<-|Hx]]; try reflexivity.
      apply in_flat_map in Hx. destruct Hx as [c [_ Hx]]. exact (ip_nopush c x Hx).
    - exact (bc_nopush _ x Hx).
    - unfold Wd in Hx. apply in_flat_map in Hx. destruct Hx as [d [_ Hx]]. exact (bc_nopush d x Hx).
    - unfold Om in Hx. apply in_map_iff in Hx. destruct Hx as [d [<- _]]. reflexivity.
  Qed.
End FlowPush.

(* ------------------------------------------------------------------ more list tools *)
Lemma split_unique {A} (L a1 a2 b1 b2 : list A) x :
  NoDup L -> L = a1 ++ x :: a2 -> L = b1 ++ x :: b2 -> a1 = b1 /\ a2 = b2.
Proof.
  intros HN E1 E2. subst L. revert b1 E2 HN.
  induction a1 as [|a r IH]; intros b1 E2 HN.
  - destruct b1 as [|b r']; simpl in E2.
    + inversion E2. split; reflexivity.
    + inversion E2; subst. simpl in HN. inversion HN; subst. exfalso. apply H1.
      apply in_or_app. right. left. reflexivity.
  - destruct b1 as [|b r']; simpl in E2.
    + inversion E2; subst. simpl in HN. inversion HN; subst. exfalso. apply H1.
      apply in_or_app. right. left. reflexivity.
    + inversion E2; subst. simpl in HN. inversion HN; subst.
      destruct (IH r' H1 H3) as [-> ->]. split; reflexivity.
Qed.

Lemma split2_unique {A} (L a1 a2 a3 b1 b2 b3 : list A) p q :
  NoDup L -> L = a1 ++ p :: a2 ++ q :: a3 -> L = b1 ++ p :: b2 ++ q :: b3 ->
  a1 = b1 /\ a2 = b2 /\ a3 = b3.
Proof.
  intros HN E1 E2. destruct (split_unique L a1 _ b1 _ p HN E1 E2) as [-> E3]. split; [reflexivity|].
  assert (HN2 : NoDup (a2 ++ q :: a3)).
  { rewrite E1 in HN. apply nodup_app_r in HN. inversion HN; assumption. }
  exact (split_unique _ a2 a3 b2 b3 q HN2 eq_refl E3).
Qed.

Definition infix {A} (s L : list A) : Prop := exists X Y, L = X ++ s ++ Y.

Lemma infix_app_l {A} (s a b : list A) : infix s a -> infix s (a ++ b).
Proof. intros [X [Y ->]]. exists X, (Y ++ b). rewrite <- !app_assoc. reflexivity. Qed.
Lemma infix_app_r {A} (s a b : list A) : infix s b -> infix s (a ++ b).
Proof. intros [X [Y ->]]. exists (a ++ X), Y. rewrite <- !app_assoc. reflexivity. Qed.
Lemma infix_flat_map {A B} (f : A -> list B) l a : In a l -> infix (f a) (flat_map f l).
Proof.
  intros Ha. apply in_split in Ha. destruct Ha as [l1 [l2 ->]].
  exists (flat_map f l1), (flat_map f l2). rewrite flat_map_app. reflexivity.
Qed.
Lemma infix_wrap s e on id l : infix s l -> infix s (wrap e on id l).
Proof.
  intros H. unfold wrap. destruct on; [|exact H].
  change (Push e id :: l ++ [Pop e id]) with ([Push e id] ++ l ++ [Pop e id]).
  apply infix_app_r. apply infix_app_l. exact H.
Qed.

Lemma flat_map_same {A} (S : A -> list N) l a a' k :
  NoDup (flat_map S l) -> In a l -> In a' l -> In k (S a) -> In k (S a') -> a = a'.
Proof.
  induction l as [|x r IH]; intros HN Ha Ha' Hk Hk'; [destruct Ha|]. simpl in HN.
  assert (Hr : forall y, In y r -> In k (S y) -> In k (flat_map S r)).
  { intros y Hy H. apply in_flat_map. exists y. split; assumption. }
  destruct Ha as [->|Ha]; destruct Ha' as [->|Ha']; try reflexivity.
  - exfalso. exact (nodup_app_disj _ _ HN k Hk (Hr a' Ha' Hk')).
  - exfalso. exact (nodup_app_disj _ _ HN k Hk' (Hr a Ha Hk)).
  - exact (IH (nodup_app_r _ _ HN) Ha Ha' Hk Hk').
Qed.

Section Bracket.
  Variable zsort : list box -> list box.
  Hypothesis zsort_ok : z_then_tree_order css_level zsort.
  Notation SP := (spec_ctx impl_forms_ctx css_level zsort).

  Lemma zsort_nil : zsort [] = [].
  Proof. apply Permutation_nil. symmetry. apply (zsort_perm zsort zsort_ok). Qed.

  Lemma forms_false_flags i : impl_forms_ctx i = false ->
    bopac i = false /\ btrans i = false /\ bclip i = false.
  Proof.
    unfold impl_forms_ctx, css_forms_ctx. rewrite !orb_false_iff. tauto.
  Qed.

  (* a pseudo stacking context has no group effect *)
  Lemma no_push_pseudo n : forall d, impl_forms_ctx (binfo_of d) = false ->
    forall x, In x (SP n false d) -> is_push_pop x = false.
  Proof.
    induction n as [|n IH]; intros d Hf x Hx; [destruct Hx|].
    destruct d as [i cs]. cbn [binfo_of] in Hf. destruct (forms_false_flags i Hf) as [Ho [Ht Hc]].
    cbn [spec_ctx] in Hx. cbv zeta in Hx. cbn [binfo_of] in Hx. unfold css_not_displayed in Hx.
    rewrite Ho, Ht, Hc in Hx. cbn [andb wrap filter] in Hx. unfold wrap in Hx.
    rewrite zsort_nil in Hx. cbn [flat_map app] in Hx.
    apply (flow_nopush (fun d => SP n false d) IH i cs x).
    unfold decor, Dd, Fl, Wd, Om, BCa, sel7.
    rewrite !in_app_iff in *. cbn [In] in Hx. tauto.
  Qed.

  (* a box with a non-invertible transform paints nothing *)
  Lemma spec_ctx_not_displayed n real b : css_not_displayed (binfo_of b) = true -> SP n real b = [].
  Proof. intros Hs. destruct n; [reflexivity|]. cbn [spec_ctx]. cbv zeta. rewrite Hs. reflexivity. Qed.

  Lemma ctx_decomp n (real : bool) i cs :
    let b := Box i cs in
    css_not_displayed i = false ->
    wf_shape b = true -> NoDup (ids b) ->
    let H : list box := if real then hoisted impl_forms_ctx b else [] in
    let sub := fun d => SP n (impl_forms_ctx (binfo_of d)) d in
    let atomic := fun d => SP n false d in
    let rest := decor i ++ Dd b ++ Fl atomic b
                ++ (if css_inline_box (bkind i) then inline_root_paint impl_forms_ctx atomic b else [])
                ++ (BCa atomic b ++ Wd atomic b) ++ Om b in
    Permutation (SP (S n) real b) ((PP i ++ rest) ++ flat_map sub H)
    /\ fits (bids (own b)) (PP i ++ rest)
    /\ NoDup (bids (own b) ++ flat_map (fun d => bids (terr d)) H)
    /\ (forall d, In d H -> In d (subs b) /\ fits (bids (terr d)) (sub d))
    /\ (forall x, In x rest -> is_push_pop x = false).
  Proof.
    intros b Hsg Hwf Hnd H sub atomic rest.
    assert (Hat : forall d, wf_shape d = true -> NoDup (ids d) -> fits (bids (own d)) (atomic d)).
    { intros d H1 H2. exact (spec_ctx_fits zsort zsort_ok n false d H1 H2). }
    assert (HH : forall d, In d H -> In d (subs b)).
    { intros d Hd. subst H. destruct real; [exact (hoisted_subs b d Hd)|destruct Hd]. }
    assert (HT : Permutation (tids real b) (bids (own b) ++ flat_map (fun d => bids (terr d)) H)).
    { subst H. unfold tids. destruct real; [|simpl; rewrite app_nil_r; reflexivity].
      unfold ids. rewrite (boxes_partition b). unfold bids. rewrite map_app, map_flat_map. reflexivity. }
    split; [|split; [|split; [|split]]].
    - assert (PH : Permutation
              (flat_map sub (zsort (filter (fun d => impl_forms_ctx (binfo_of d) && (blevel css_level d <? 0)%Z) H))
               ++ flat_map sub (filter (fun d => negb (impl_forms_ctx (binfo_of d)) || (blevel css_level d =? 0)%Z) H)
               ++ flat_map sub (zsort (filter (fun d => impl_forms_ctx (binfo_of d) && (0 <? blevel css_level d)%Z) H)))
              (flat_map sub H)).
      { rewrite <- !flat_map_app. apply Permutation_flat_map. rewrite !(zsort_perm zsort zsort_ok).
        exact (three_way_perm (fun d => impl_forms_ctx (binfo_of d)) (blevel css_level) H). }
      cbn [spec_ctx]. cbv zeta. cbn [binfo_of]. change (css_not_displayed (binfo_of b)) with (css_not_displayed i). rewrite Hsg. fold b. fold H. fold sub. fold atomic.
      rewrite <- PH. rewrite !wrap_perm. subst rest. unfold PP, decor, Dd, Fl, Wd, Om, BCa, sel7.
      cbn [flat_map]. perm_apps.
    - exact (ctx_flow atomic Hat i cs Hwf Hnd).
    - apply (Permutation_NoDup HT). unfold tids. destruct real; [exact Hnd|apply own_nodup; exact Hnd].
    - intros d Hd. split; [exact (HH d Hd)|]. rewrite <- tids_terr. apply (spec_ctx_fits zsort zsort_ok).
      + exact (subs_wf b d Hwf (HH d Hd)).
      + exact (ids_sub_nodup b d Hnd (HH d Hd)).
    - intros x Hx. exact (flow_nopush atomic (no_push_pseudo n) i cs x Hx).
  Qed.

  Lemma sub_infix n (real : bool) i cs d :
    let b := Box i cs in
    css_not_displayed i = false ->
    In d (if real then hoisted impl_forms_ctx b else []) ->
    infix (SP n (impl_forms_ctx (binfo_of d)) d) (SP (S n) real b).
  Proof.
    intros b Hsg Hd. set (H := if real then hoisted impl_forms_ctx b else []) in *.
    cbn [spec_ctx]. cbv zeta. cbn [binfo_of]. change (css_not_displayed (binfo_of b)) with (css_not_displayed i). rewrite Hsg. fold b. fold H.
    set (sub := fun d => SP n (impl_forms_ctx (binfo_of d)) d).
    change (SP n (impl_forms_ctx (binfo_of d)) d) with (sub d).
    apply (Permutation_in _ (Permutation_sym
             (three_way_perm (fun d => impl_forms_ctx (binfo_of d)) (blevel css_level) H))) in Hd.
    do 2 apply infix_wrap. apply infix_app_r. apply infix_app_l. apply infix_wrap.
    apply in_app_or in Hd. destruct Hd as [Hd|Hd]; [|apply in_app_or in Hd; destruct Hd as [Hd|Hd]].
    - apply infix_app_l. apply infix_flat_map.
      exact (Permutation_in _ (Permutation_sym (zsort_perm zsort zsort_ok _)) Hd).
    - do 5 apply infix_app_r. apply infix_app_l. apply infix_flat_map. exact Hd.
    - do 6 apply infix_app_r. apply infix_flat_map.
      exact (Permutation_in _ (Permutation_sym (zsort_perm zsort zsort_ok _)) Hd).
  Qed.

  Lemma map_inj_in {A B} (f : A -> B) l x y :
    NoDup (map f l) -> In x l -> In y l -> f x = f y -> x = y.
  Proof.
    induction l as [|a r IH]; intros HN Hx Hy E; [destruct Hx|]. simpl in HN. inversion HN; subst.
    destruct Hx as [->|Hx]; destruct Hy as [->|Hy]; try reflexivity.
    - exfalso. apply H1. rewrite E. apply in_map. exact Hy.
    - exfalso. apply H1. rewrite <- E. apply in_map. exact Hx.
    - exact (IH H2 Hx Hy E).
  Qed.

  Lemma subtree_ids_incl d id : incl (subtree_ids d id) (ids d).
  Proof.
    intros k Hk. unfold subtree_ids in Hk. apply in_flat_map in Hk. destruct Hk as [x [Hx Hk]].
    destruct (N.eqb _ _); [|destruct Hk]. unfold ids in *. apply in_map_iff in Hk.
    destruct Hk as [y [<- Hy]]. apply (in_map (fun x => bid (binfo_of x))).
    destruct Hx as [<-|Hx]; [exact Hy|]. exact (in_boxes_sub d x y Hx Hy).
  Qed.

  Lemma subtree_ids_sub b d id : NoDup (ids b) -> In d (boxes b) -> In id (ids d) ->
    incl (subtree_ids b id) (subtree_ids d id).
  Proof.
    intros HN Hd Hid k Hk. unfold subtree_ids in *. apply in_flat_map in Hk.
    destruct Hk as [x [Hx Hk]]. destruct (N.eqb_spec (bid (binfo_of x)) id) as [E|E]; [|destruct Hk].
    unfold ids in Hid. apply in_map_iff in Hid. destruct Hid as [y [Ey Hy]].
    assert (Hyb : In y (boxes b)).
    { destruct Hd as [<-|Hd]; [exact Hy|]. exact (in_boxes_sub b d y Hd Hy). }
    assert (x = y).
    { apply (map_inj_in (fun x => bid (binfo_of x)) (boxes b)); [exact HN|exact Hx|exact Hyb|congruence]. }
    subst y. apply in_flat_map. exists x. split; [exact Hy|]. rewrite <- E, N.eqb_refl. exact Hk.
  Qed.

  Definition allowed (e : effect) (id : N) (x : event) : Prop :=
    match x with
    | Push _ i | Pop _ i => i = id
    | Bg i | Border i => e = EClip /\ i = id
    | Outline _ => e = EClip
    | _ => False
    end.

  Definition eflag (e : effect) (bo bt bc : bool) : bool :=
    match e with EOpacity => bo | ETransform => bt | EClip => bc end.

  Lemma root_bracket (bo bt bc : bool) id dec C OUT e l1 l2 l3 :
    let L := wrap EOpacity bo id (wrap ETransform bt id (dec ++ wrap EClip bc id C ++ OUT)) in
    NoDup L -> (forall x, In x dec -> x = Bg id \/ x = Border id) ->
    (forall x, In x OUT -> exists k, x = Outline k) ->
    eflag e bo bt bc = true ->
    L = l1 ++ Push e id :: l2 ++ Pop e id :: l3 ->
    forall x, In x (l1 ++ l3) -> allowed e id x.
  Proof.
    intros L HN Hdec Hout Hf HE.
    set (a1 := if bo then [Push EOpacity id] else []).
    set (c1 := if bo then [Pop EOpacity id] else []).
    set (a2 := if bt then [Push ETransform id] else []).
    set (c2 := if bt then [Pop ETransform id] else []).
    assert (Ha1 : forall x, In x a1 -> allowed e id x) by (subst a1; destruct bo; simpl; intuition (subst; reflexivity)).
    assert (Hc1 : forall x, In x c1 -> allowed e id x) by (subst c1; destruct bo; simpl; intuition (subst; reflexivity)).
    assert (Ha2 : forall x, In x a2 -> allowed e id x) by (subst a2; destruct bt; simpl; intuition (subst; reflexivity)).
    assert (Hc2 : forall x, In x c2 -> allowed e id x) by (subst c2; destruct bt; simpl; intuition (subst; reflexivity)).
    destruct e; simpl in Hf; subst.
    - assert (E : L = (a1 ++ a2 ++ dec) ++ Push EClip id :: C ++ Pop EClip id :: (OUT ++ c2 ++ c1)).
      { subst L a1 a2 c1 c2. unfold wrap. destruct bo, bt; repeat (rewrite <- app_assoc; simpl); rewrite ?app_nil_r; reflexivity. }
      destruct (split2_unique L _ _ _ _ _ _ _ _ HN HE E) as [-> [_ ->]].
      intros x Hx. rewrite !in_app_iff in Hx. destruct Hx as [[Hx|[Hx|Hx]]|[Hx|[Hx|Hx]]]; auto.
      + destruct (Hdec x Hx) as [ -> | -> ]; simpl; auto.
      + destruct (Hout x Hx) as [k ->]. reflexivity.
    - assert (E : L = [] ++ Push EOpacity id :: _ ++ Pop EOpacity id :: []) by reflexivity.
      destruct (split2_unique L _ _ _ _ _ _ _ _ HN HE E) as [-> [_ ->]]. intros x [].
    - assert (E : L = a1 ++ Push ETransform id :: (dec ++ wrap EClip bc id C ++ OUT) ++ Pop ETransform id :: c1).
      { subst L a1 c1. unfold wrap. destruct bo; repeat (rewrite <- app_assoc; simpl); rewrite ?app_nil_r; reflexivity. }
      destruct (split2_unique L _ _ _ _ _ _ _ _ HN HE E) as [-> [_ ->]].
      intros x Hx. rewrite in_app_iff in Hx. destruct Hx; auto.
  Qed.

  Lemma nodup_infix_out {A} (X s Y : list A) x :
    NoDup (X ++ s ++ Y) -> In x (X ++ Y) -> ~ In x s.
  Proof.
    intros HN Hx Hs. apply in_app_or in Hx. destruct Hx as [Hx|Hx].
    - apply (nodup_app_disj _ _ HN x Hx). apply in_or_app. left. exact Hs.
    - apply nodup_app_r in HN. exact (nodup_app_disj _ _ HN x Hs Hx).
  Qed.

  (* the events of the territory of a hoisted box are all painted by its context *)
  Lemma hoisted_exclusive n (real : bool) i cs d X Y :
    let b := Box i cs in
    css_not_displayed i = false ->
    wf_shape b = true -> NoDup (ids b) ->
    In d (if real then hoisted impl_forms_ctx b else []) ->
    SP (S n) real b = X ++ SP n (impl_forms_ctx (binfo_of d)) d ++ Y ->
    forall x, In x (X ++ Y) -> ~ In (ev_id x) (bids (terr d)).
  Proof.
    intros b Hsg Hwf Hnd Hd HE x Hx Hid.
    pose proof (ctx_decomp n real i cs Hsg Hwf Hnd) as HD. cbv zeta in HD. fold b in HD.
    destruct HD as [P [HF [HS [Hsub _]]]].
    pose proof (spec_ctx_nodup zsort zsort_ok (S n) real b Hwf Hnd) as HN.
    rewrite HE in HN. pose proof (nodup_infix_out _ _ _ x HN Hx) as Hout.
    assert (HxL : In x (SP (S n) real b)).
    { rewrite HE. apply in_app_or in Hx. rewrite !in_app_iff. tauto. }
    apply (Permutation_in _ P) in HxL. apply in_app_or in HxL. destruct HxL as [HxL|HxL].
    - apply (nodup_app_disj _ _ HS (ev_id x)); [exact (proj2 HF x HxL)|].
      apply in_flat_map. exists d. split; [exact Hd|exact Hid].
    - apply in_flat_map in HxL. destruct HxL as [d' [Hd' Hx']].
      assert (d' = d).
      { apply (flat_map_same (fun d => bids (terr d)) _ d' d (ev_id x) (nodup_app_r _ _ HS) Hd' Hd);
          [exact (proj2 (proj2 (Hsub d' Hd')) x Hx')|exact Hid]. }
      subst d'. exact (Hout Hx').
  Qed.

  Lemma pp_push i e id : In (Push e id) (PP i) ->
    id = bid i /\ eflag e (bopac i) (btrans i && css_transformable (bkind i))
                          (bclip i && negb (is_page (bkind i))) = true.
  Proof.
    unfold PP. rewrite !in_app_iff.
    destruct (bopac i), (btrans i && css_transformable (bkind i)), (bclip i && negb (is_page (bkind i)));
      simpl; intros H; decompose [or] H; try contradiction; try discriminate;
      match goal with E : _ = Push _ _ |- _ => inversion E; subst; split; reflexivity end.
  Qed.

  Theorem bracket_all n : forall real b, wf_shape b = true -> NoDup (ids b) ->
    forall e id l1 l2 l3, SP n real b = l1 ++ Push e id :: l2 ++ Pop e id :: l3 ->
    forall x, In x (l1 ++ l3) -> In (ev_id x) (subtree_ids b id) -> allowed e id x.
  Proof.
    induction n as [|n IH]; intros real b Hwf Hnd e id l1 l2 l3 HE x Hx Hid.
    { destruct l1; discriminate. }
    destruct b as [i cs]. set (b := Box i cs) in *.
    destruct (css_not_displayed i) eqn:Hsg.
    { rewrite (spec_ctx_not_displayed (S n) real b Hsg) in HE. destruct l1; discriminate. }
    pose proof (ctx_decomp n real i cs Hsg Hwf Hnd) as HD. cbv zeta in HD. fold b in HD.
    destruct HD as [P [HF [HS [Hsub Hnp]]]].
    pose proof (spec_ctx_nodup zsort zsort_ok (S n) real b Hwf Hnd) as HN.
    assert (Hpush : In (Push e id) (SP (S n) real b)).
    { rewrite HE. apply in_or_app. right. left. reflexivity. }
    apply (Permutation_in _ P) in Hpush. apply in_app_or in Hpush.
    destruct Hpush as [Hpush|Hpush]; [apply in_app_or in Hpush; destruct Hpush as [Hpush|Hpush]|].
    - (* a group effect of the root *)
      destruct (pp_push i e id Hpush) as [-> Hf].
      cbn [spec_ctx] in HE, HN. cbv zeta in HE, HN. cbn [binfo_of] in HE, HN.
      change (css_not_displayed (binfo_of b)) with (css_not_displayed i) in HE, HN. rewrite Hsg in HE, HN.
      eapply root_bracket; [exact HN| | |exact Hf|exact HE|exact Hx].
      + intros y Hy. destruct (css_paints_box_decoration _); simpl in Hy; intuition.
      + intros y Hy. apply in_map_iff in Hy. destruct Hy as [d [<- _]]. eexists. reflexivity.
    - specialize (Hnp _ Hpush). discriminate.
    - (* a group effect of a hoisted context *)
      apply in_flat_map in Hpush. destruct Hpush as [d [Hd Hpush]].
      destruct (Hsub d Hd) as [Hds Hfd].
      destruct (impl_forms_ctx (binfo_of d)) eqn:Ef;
        [|specialize (no_push_pseudo n d Ef _ Hpush); discriminate].
      pose proof (sub_infix n real i cs d Hsg Hd) as [X [Y HXY]]. fold b in HXY. rewrite Ef in HXY.
      pose proof (hoisted_exclusive n real i cs d X Y Hsg Hwf Hnd Hd) as Hex. fold b in Hex.
      rewrite Ef in Hex. specialize (Hex HXY).
      assert (Hterr : bids (terr d) = ids d) by (unfold terr; rewrite Ef; reflexivity).
      rewrite Hterr in Hex, Hfd.
      assert (Hidd : In id (ids d)) by exact (proj2 Hfd _ Hpush).
      destruct (in_split _ _ Hpush) as [m1 [m2 Hm]].
      assert (E1 : SP (S n) real b = (X ++ m1) ++ Push e id :: (m2 ++ Y)).
      { rewrite HXY, Hm. rewrite <- !app_assoc. reflexivity. }
      destruct (split_unique _ _ _ _ _ _ HN HE E1) as [-> E2].
      assert (Hpop : In (Pop e id) m2).
      { assert (H0 : In (Pop e id) (m2 ++ Y)) by (rewrite <- E2; apply in_elt).
        apply in_app_or in H0. destruct H0 as [H0|H0]; [exact H0|].
        exfalso. apply (Hex (Pop e id)); [apply in_or_app; right; exact H0|exact Hidd]. }
      destruct (in_split _ _ Hpop) as [m3 [m4 Hm2]].
      assert (HN2 : NoDup (m2 ++ Y)).
      { rewrite E1 in HN. apply nodup_app_r in HN. inversion HN; assumption. }
      assert (E3 : m2 ++ Y = m3 ++ Pop e id :: (m4 ++ Y)).
      { rewrite Hm2. rewrite <- app_assoc. reflexivity. }
      destruct (split_unique _ _ _ _ _ _ HN2 (eq_sym E2) E3) as [-> ->].
      assert (Hinc : In (ev_id x) (ids d)).
      { apply (subtree_ids_incl d id).
        apply (subtree_ids_sub b d id Hnd (or_intror Hds) Hidd). exact Hid. }
      rewrite !in_app_iff in Hx. destruct Hx as [[Hx|Hx]|[Hx|Hx]].
      + exfalso. apply (Hex x); [apply in_or_app; left; exact Hx|exact Hinc].
      + apply (IH true d (subs_wf b d Hwf Hds) (ids_sub_nodup b d Hnd Hds) e id m1 m3 m4).
        * rewrite Hm, Hm2. reflexivity.
        * apply in_or_app. left. exact Hx.
        * exact (subtree_ids_sub b d id Hnd (or_intror Hds) Hidd _ Hid).
      + apply (IH true d (subs_wf b d Hwf Hds) (ids_sub_nodup b d Hnd Hds) e id m1 m3 m4).
        * rewrite Hm, Hm2. reflexivity.
        * apply in_or_app. right. exact Hx.
        * exact (subtree_ids_sub b d id Hnd (or_intror Hds) Hidd _ Hid).
      + exfalso. apply (Hex x); [apply in_or_app; right; exact Hx|exact Hinc].
  Qed.
End Bracket.

(* effects_bracket_subtree, the "all" half *)
Theorem effects_bracket_subtree_all :
  forall zsort, z_then_tree_order css_level zsort ->
  forall b, wf_shape b = true -> NoDup (ids b) ->
  forall e id l1 l2 l3,
  spec_paint impl_forms_ctx css_level zsort b = l1 ++ Push e id :: l2 ++ Pop e id :: l3 ->
  forall x, In x (l1 ++ l3) -> In (ev_id x) (subtree_ids b id) ->
  match x with
  | Push _ i | Pop _ i => i = id
  | Bg i | Border i => e = EClip /\ i = id
  | Outline _ => e = EClip
  | _ => False
  end.
Proof.
  intros zsort Hz b Hwf Hnd e id l1 l2 l3 HE x Hx Hid.
  exact (bracket_all zsort Hz _ true b Hwf Hnd e id l1 l2 l3 HE x Hx Hid).
Qed.
Print Assumptions effects_bracket_subtree_all.

(* ------------------------------------------------------------------ per-box order *)
(* y must not come after x *)
Definition badb (x y : event) : bool :=
  match x, y with
  | Outline a, Bg b | Outline a, Border b | Outline a, Content b => N.eqb a b
  | Content a, Bg b | Content a, Border b => N.eqb a b
  | _, _ => false
  end.

Definition relevant (e : event) : bool :=
  match e with Bg _ | Border _ | Content _ | Outline _ => true | _ => false end.

Fixpoint M (l : list event) : Prop :=
  match l with
  | [] => True
  | a :: r => (forall y, In y r -> badb a y = false) /\ M r
  end.

Definition subk (k : N) (l : list event) : list event :=
  filter (fun e => relevant e && N.eqb (ev_id e) k) l.

Lemma badb_same x y : badb x y = true -> relevant x = true /\ relevant y = true /\ ev_id x = ev_id y.
Proof.
  destruct x, y; simpl; try discriminate; intros H; apply N.eqb_eq in H; subst; auto.
Qed.

Lemma M_app l1 l2 :
  M (l1 ++ l2) <-> M l1 /\ M l2 /\ (forall x y, In x l1 -> In y l2 -> badb x y = false).
Proof.
  induction l1 as [|a r IH]; simpl.
  - intuition.
  - rewrite IH. split.
    + intros [H1 [H2 [H3 H4]]]. repeat split; auto.
      * intros y Hy. apply H1. apply in_or_app. left. exact Hy.
      * intros x y [<-|Hx] Hy; [apply H1; apply in_or_app; right; exact Hy|auto].
    + intros [[H1 H2] [H3 H4]]. repeat split; auto.
      intros y Hy. apply in_app_or in Hy. destruct Hy; auto.
Qed.

Lemma M_filter p l : M l -> M (filter p l).
Proof.
  induction l as [|a r IH]; simpl; [auto|]. intros [H1 H2].
  destruct (p a); simpl; [|auto]. split; [|auto].
  intros y Hy. apply filter_In in Hy. apply H1. tauto.
Qed.

Lemma M_of_subk l : (forall k, M (subk k l)) -> M l.
Proof.
  induction l as [|a r IH]; intros H; simpl; [exact I|]. split.
  - intros y Hy. destruct (badb a y) eqn:E; [|reflexivity]. exfalso.
    destruct (badb_same a y E) as [Ra [Ry Eid]].
    specialize (H (ev_id a)). unfold subk in H. simpl in H. rewrite Ra, N.eqb_refl in H. simpl in H.
    destruct H as [H _]. rewrite (H y) in E; [discriminate|].
    apply filter_In. split; [exact Hy|]. rewrite Ry, <- Eid, N.eqb_refl. reflexivity.
  - apply IH. intros k. specialize (H k). unfold subk in *. simpl in H.
    destruct (relevant a && (ev_id a =? k)%N); [exact (proj2 H)|exact H].
Qed.

Lemma subk_app k l1 l2 : subk k (l1 ++ l2) = subk k l1 ++ subk k l2.
Proof. apply filter_app. Qed.

Lemma subk_out k l : (forall e, In e l -> ev_id e <> k) -> subk k l = [].
Proof.
  induction l as [|a r IH]; intros H; [reflexivity|]. unfold subk in *. simpl.
  destruct (N.eqb_spec (ev_id a) k) as [E|E]; [exfalso; exact (H a (or_introl eq_refl) E)|].
  rewrite andb_false_r. apply IH. intros e He. apply H. right. exact He.
Qed.

Lemma subk_flat_map_out {A} k (S : A -> list N) (f : A -> list event) l :
  (forall a, In a l -> forall e, In e (f a) -> In (ev_id e) (S a)) ->
  ~ In k (flat_map S l) -> subk k (flat_map f l) = [].
Proof.
  intros Hf Hk. apply subk_out. intros e He E. apply Hk. apply in_flat_map in He.
  destruct He as [a [Ha He]]. apply in_flat_map. exists a. split; [exact Ha|].
  rewrite <- E. exact (Hf a Ha e He).
Qed.

Lemma subk_flat_map_in {A} k (S : A -> list N) (f : A -> list event) l a0 :
  NoDup (flat_map S l) ->
  (forall a, In a l -> forall e, In e (f a) -> In (ev_id e) (S a)) ->
  In a0 l -> In k (S a0) -> subk k (flat_map f l) = subk k (f a0).
Proof.
  intros HN Hf Ha0 Hk. destruct (in_split _ _ Ha0) as [l1 [l2 ->]].
  rewrite flat_map_app in HN. simpl in HN.
  rewrite flat_map_app. simpl. rewrite !subk_app.
  rewrite (subk_flat_map_out k S f l1), (subk_flat_map_out k S f l2).
  - rewrite app_nil_r. reflexivity.
  - intros a Ha. apply Hf. apply in_or_app. right. right. exact Ha.
  - intros Hin. apply nodup_app_r in HN. exact (nodup_app_disj _ _ HN k Hk Hin).
  - intros a Ha. apply Hf. apply in_or_app. left. exact Ha.
  - intros Hin. apply (nodup_app_disj _ _ HN k Hin). apply in_or_app. left. exact Hk.
Qed.

(* contexts with disjoint territories *)
Lemma M_flat_map {A} (S : A -> list N) (f : A -> list event) l :
  NoDup (flat_map S l) ->
  (forall a, In a l -> (forall e, In e (f a) -> In (ev_id e) (S a)) /\ M (f a)) ->
  M (flat_map f l).
Proof.
  induction l as [|a r IH]; intros HN H; simpl; [exact I|]. simpl in HN.
  apply M_app. split; [exact (proj2 (H a (or_introl eq_refl)))|]. split.
  - apply IH; [exact (nodup_app_r _ _ HN)|]. intros x Hx. apply H. right. exact Hx.
  - intros x y Hx Hy. destruct (badb x y) eqn:E; [|reflexivity]. exfalso.
    destruct (badb_same x y E) as [_ [_ Eid]].
    apply in_flat_map in Hy. destruct Hy as [c [Hc Hy]].
    apply (nodup_app_disj _ _ HN (ev_id x)).
    + exact (proj1 (H a (or_introl eq_refl)) x Hx).
    + apply in_flat_map. exists c. split; [exact Hc|]. rewrite Eid.
      exact (proj1 (H c (or_intror Hc)) y Hy).
Qed.

Lemma M_remove A B C : M (A ++ B ++ C) -> M (A ++ C).
Proof.
  rewrite !M_app. intros [HA [[HB [HC _]] Hx]]. repeat split; auto.
  intros x y Hx' Hy. apply Hx; [exact Hx'|apply in_or_app; right; exact Hy].
Qed.

Lemma M_remove4 a b x c : M (a ++ b ++ x ++ c) -> M (a ++ b ++ c).
Proof. rewrite (app_assoc a b (x ++ c)), (app_assoc a b c). apply M_remove. Qed.

Ltac M_concrete := simpl; repeat split; intros ? ?HyM; simpl in HyM; intuition (subst; reflexivity).

Section FlowOrd.
  Variable atomic : box -> list event.
  Hypothesis Hat : forall d, wf_shape d = true -> NoDup (ids d) -> fits (bids (own d)) (atomic d).
  Hypothesis HatM : forall d, wf_shape d = true -> NoDup (ids d) -> M (atomic d).
  Notation IPa' := (IPa atomic).
  Notation fF' := (fF atomic).
  Notation fL' := (fL atomic).
  Notation fW' := (fW atomic).

  Lemma foot_I c : wf_shape c = true -> NoDup (ids c) ->
    forall e, In e (IPa' c) \/ In e (fF' c) \/ In e (fO c) -> In (ev_id e) (obid c).
  Proof.
    intros Hwf Hnd e He. apply (proj2 (inline_chunk atomic Hat c Hwf Hnd)).
    rewrite !in_app_iff. exact He.
  Qed.

  Lemma foot_B c : wf_shape c = true -> NoDup (ids c) ->
    forall e, In e (fL' c) \/ In e (fD c) \/ In e (fF' c) \/ In e (fW' c) \/ In e (fO c) ->
    In (ev_id e) (obid c).
  Proof.
    intros Hwf Hnd e He. apply (proj2 (block_chunk atomic Hat c Hwf Hnd)).
    rewrite !in_app_iff. exact He.
  Qed.

  Lemma root_not_child i cs k : NoDup (ids (Box i cs)) -> In k (flat_map obid cs) -> bid i <> k.
  Proof.
    intros Hnd Hk E. apply own_nodup in Hnd. rewrite own_box in Hnd. inversion Hnd; subst. contradiction.
  Qed.

  Lemma subk_root_out k id (l : list event) :
    id <> k -> (forall e, In e l -> ev_id e = id) -> subk k l = [].
  Proof. intros Hne Hl. apply subk_out. intros e He E. rewrite (Hl e He) in E. contradiction. Qed.

  Lemma inline_M c : wf_shape c = true -> NoDup (ids c) -> M (fF' c ++ IPa' c ++ fO c).
  Proof.
    induction c as [i cs IH] using box_ind'. rewrite Forall_forall in IH. intros Hwf Hnd.
    pose proof (wf_children i cs Hwf) as Hw. rewrite Forall_forall in Hw.
    unfold fF, fO, IPa. cbn [inline_paint].
    change (PaintSpec.classify impl_forms_ctx i) with (CL (Box i cs)).
    destruct (CL (Box i cs)) eqn:E; cbn [app]; try exact I.
    - rewrite app_nil_r. apply HatM; assumption.
    - rewrite app_nil_r. apply HatM; assumption.
    - rewrite Fl_box, Om_box.
      assert (Hleaf : is_parent (bkind i) = false ->
                M (flat_map fF' cs ++ (if css_text (bkind i) then [Content (bid i)]
                    else [Bg (bid i); Border (bid i); Content (bid i)]) ++ Outline (bid i) :: flat_map fO cs)).
      { intros Hp. rewrite (wf_nonparent_nil i cs Hwf Hp). destruct (css_text (bkind i)); M_concrete. }
      destruct (css_text (bkind i)) eqn:Et.
      { apply Hleaf. destruct (bkind i); try discriminate; reflexivity. }
      destruct (css_replaced (bkind i)) eqn:Er.
      { apply Hleaf. destruct (bkind i); try discriminate; reflexivity. }
      fold IPa'.
      change (flat_map fF' cs ++ (Bg (bid i) :: Border (bid i) :: flat_map IPa' cs) ++ Outline (bid i) :: flat_map fO cs)
        with (flat_map fF' cs ++ [Bg (bid i); Border (bid i)] ++ flat_map IPa' cs ++ [Outline (bid i)] ++ flat_map fO cs).
      apply M_of_subk. intros k. rewrite !subk_app.
      assert (HS := obid_children_nodup i cs Hnd).
      assert (Hfoot : forall c, In c cs -> wf_shape c = true /\ NoDup (ids c)).
      { intros c Hc. split; [auto|exact (ids_child_nodup i cs c Hnd Hc)]. }
      destruct (in_dec N.eq_dec k (flat_map obid cs)) as [Hin|Hout].
      + pose proof (root_not_child i cs k Hnd Hin) as Hne.
        apply in_flat_map in Hin. destruct Hin as [c0 [Hc0 Hk]].
        rewrite (subk_flat_map_in k obid fF' cs c0 HS), (subk_flat_map_in k obid IPa' cs c0 HS),
          (subk_flat_map_in k obid fO cs c0 HS); try assumption;
          try (intros c Hc e He; destruct (Hfoot c Hc); apply (foot_I c); tauto).
        rewrite (subk_root_out k (bid i) [Bg (bid i); Border (bid i)]), (subk_root_out k (bid i) [Outline (bid i)]);
          try assumption; try (intros e He; simpl in He; intuition (subst; reflexivity)).
        cbn [app]. rewrite <- !subk_app. apply M_filter. destruct (Hfoot c0 Hc0). apply IH; assumption.
      + rewrite (subk_flat_map_out k obid fF' cs), (subk_flat_map_out k obid IPa' cs),
          (subk_flat_map_out k obid fO cs); try assumption;
          try (intros c Hc e He; destruct (Hfoot c Hc); apply (foot_I c); tauto).
        cbn [app]. rewrite app_nil_r. rewrite <- subk_app. apply M_filter. M_concrete.
  Qed.

  Lemma deco_ids i cs e :
    In e (if css_block_level (bkind i) then block_decoration (Box i cs) else []) -> ev_id e = bid i.
  Proof.
    unfold block_decoration. cbn [binfo_of].
    destruct (css_block_level (bkind i)), (css_table (bkind i)); simpl; intuition (subst; reflexivity).
  Qed.

  Lemma deco_M i cs :
    M ((if css_block_level (bkind i) then block_decoration (Box i cs) else []) ++ [Outline (bid i)]).
  Proof.
    unfold block_decoration. cbn [binfo_of].
    destruct (css_block_level (bkind i)), (css_table (bkind i)); M_concrete.
  Qed.

  Lemma block_M c : wf_shape c = true -> NoDup (ids c) ->
    M (fD c ++ fF' c ++ fL' c ++ fW' c ++ fO c).
  Proof.
    induction c as [i cs IH] using box_ind'. rewrite Forall_forall in IH. intros Hwf Hnd.
    pose proof (wf_children i cs Hwf) as Hw. rewrite Forall_forall in Hw.
    unfold fL, fD, fF, fW, fO.
    destruct (CL (Box i cs)) eqn:E; cbn [app]; try exact I.
    { rewrite app_nil_r. apply HatM; assumption. }
    cbn [binfo_of].
    destruct (css_line_box (bkind i)) eqn:El.
    { assert (Hk : bkind i = KLine) by (destruct (bkind i); try discriminate; reflexivity).
      unfold Dd, Wd.
      rewrite !(line_no_blocks _ (Box i cs) Hwf); try reflexivity;
        try (left; cbn [binfo_of]; rewrite Hk; reflexivity).
      rewrite Hk. simpl.
      pose proof (inline_M (Box i cs) Hwf Hnd) as H. unfold fF, fO in H. rewrite E in H. exact H. }
    cbn [app]. rewrite Dd_box, Fl_box, Wd_box, Om_box, BCa_box.
    destruct (css_replaced (bkind i)) eqn:Er.
    { assert (Hp : is_parent (bkind i) = false) by (destruct (bkind i); try discriminate; reflexivity).
      rewrite (wf_nonparent_nil i cs Hwf Hp). simpl. unfold block_decoration, sel7. cbn [binfo_of].
      destruct (bkind i); try discriminate; M_concrete. }
    set (R1 := if css_block_level (bkind i) then block_decoration (Box i cs) else []).
    change (Outline (bid i) :: flat_map fO cs) with ([Outline (bid i)] ++ flat_map fO cs).
    assert (HS := obid_children_nodup i cs Hnd).
    assert (Hfoot : forall c, In c cs -> forall e,
              In e (fL' c) \/ In e (fD c) \/ In e (fF' c) \/ In e (fW' c) \/ In e (fO c) ->
              In (ev_id e) (obid c)).
    { intros c Hc. apply foot_B; [auto|exact (ids_child_nodup i cs c Hnd Hc)]. }
    assert (HR1 : forall e, In e R1 -> ev_id e = bid i) by (intros e; apply deco_ids).
    assert (HO : forall e, In e [Outline (bid i)] -> ev_id e = bid i)
      by (intros e He; simpl in He; intuition (subst; reflexivity)).
    apply M_of_subk. intros k.
    destruct (in_dec N.eq_dec k (flat_map obid cs)) as [Hin|Hout].
    - pose proof (root_not_child i cs k Hnd Hin) as Hne.
      apply in_flat_map in Hin. destruct Hin as [c0 [Hc0 Hk]].
      pose proof (IH c0 Hc0 (Hw c0 Hc0) (ids_child_nodup i cs c0 Hnd Hc0)) as HM0.
      destruct (sel7 (bkind i)); rewrite !subk_app;
        rewrite ?(subk_flat_map_in k obid fD cs c0 HS), ?(subk_flat_map_in k obid fF' cs c0 HS),
          ?(subk_flat_map_in k obid fL' cs c0 HS), ?(subk_flat_map_in k obid fW' cs c0 HS),
          ?(subk_flat_map_in k obid fO cs c0 HS); try assumption;
        try (intros c Hc e He; apply (Hfoot c Hc); tauto);
        rewrite (subk_root_out k (bid i) R1 Hne HR1), (subk_root_out k (bid i) _ Hne HO);
        cbn [app subk filter]; rewrite <- !subk_app; apply M_filter; [rewrite <- app_assoc; exact HM0|].
      exact (M_remove4 _ _ _ _ HM0).
    - destruct (sel7 (bkind i)); rewrite !subk_app;
        rewrite ?(subk_flat_map_out k obid fD cs), ?(subk_flat_map_out k obid fF' cs),
          ?(subk_flat_map_out k obid fL' cs), ?(subk_flat_map_out k obid fW' cs),
          ?(subk_flat_map_out k obid fO cs); try assumption;
        try (intros c Hc e He; apply (Hfoot c Hc); tauto);
        cbn [app]; rewrite ?app_nil_r; rewrite <- !subk_app; apply M_filter; cbn [app]; apply deco_M.
  Qed.

  Lemma ctx_flow_M i cs : wf_shape (Box i cs) = true -> NoDup (ids (Box i cs)) ->
    M (decor i ++ Dd (Box i cs) ++ Fl atomic (Box i cs)
       ++ (if css_inline_box (bkind i) then inline_root_paint impl_forms_ctx atomic (Box i cs) else [])
       ++ (BCa atomic (Box i cs) ++ Wd atomic (Box i cs)) ++ Om (Box i cs)).
  Proof.
    intros Hwf Hnd.
    pose proof (wf_children i cs Hwf) as Hw. rewrite Forall_forall in Hw.
    assert (HS := obid_children_nodup i cs Hnd).
    assert (HfI : forall c, In c cs -> forall e,
              In e (IPa' c) \/ In e (fF' c) \/ In e (fO c) -> In (ev_id e) (obid c)).
    { intros c Hc. apply foot_I; [auto|exact (ids_child_nodup i cs c Hnd Hc)]. }
    assert (HfB : forall c, In c cs -> forall e,
              In e (fL' c) \/ In e (fD c) \/ In e (fF' c) \/ In e (fW' c) \/ In e (fO c) ->
              In (ev_id e) (obid c)).
    { intros c Hc. apply foot_B; [auto|exact (ids_child_nodup i cs c Hnd Hc)]. }
    assert (Hdec : forall e, In e (decor i) -> ev_id e = bid i).
    { unfold decor. destruct (css_paints_box_decoration _); simpl; intuition (subst; reflexivity). }
    rewrite Fl_box, Om_box, BCa_box.
    destruct (css_replaced (bkind i)) eqn:Er.
    { assert (Hp : is_parent (bkind i) = false) by (destruct (bkind i); try discriminate; reflexivity).
      assert (Hi : css_inline_box (bkind i) = false) by (destruct (bkind i); try discriminate; reflexivity).
      rewrite Hi, (wf_nonparent_nil i cs Hwf Hp). unfold decor.
      destruct (css_paints_box_decoration _); M_concrete. }
    change (Outline (bid i) :: flat_map fO cs) with ([Outline (bid i)] ++ flat_map fO cs).
    assert (HO : forall e, In e [Outline (bid i)] -> ev_id e = bid i)
      by (intros e He; simpl in He; intuition (subst; reflexivity)).
    destruct (css_inline_box (bkind i)) eqn:Ei.
    - assert (Hk : bkind i = KInline) by (destruct (bkind i); try discriminate; reflexivity).
      assert (Hl : is_line (bkind i) = true) by (rewrite Hk; reflexivity).
      unfold Dd, Wd. rewrite !(line_no_blocks _ (Box i cs) Hwf); try reflexivity; try (left; exact Hl).
      rewrite (line_no_lines atomic i cs Hwf Hl). cbn [inline_root_paint flat_map app]. fold IPa'.
      unfold decor. rewrite Hk. cbn [css_paints_box_decoration app].
      change (Bg (bid i) :: Border (bid i) :: flat_map IPa' cs ++ Outline (bid i) :: flat_map fO cs)
        with ([Bg (bid i); Border (bid i)] ++ flat_map IPa' cs ++ [Outline (bid i)] ++ flat_map fO cs).
      assert (HBB : forall e, In e [Bg (bid i); Border (bid i)] -> ev_id e = bid i)
        by (intros e He; simpl in He; intuition (subst; reflexivity)).
      apply M_of_subk. intros k. rewrite !subk_app.
      destruct (in_dec N.eq_dec k (flat_map obid cs)) as [Hin|Hout].
      + pose proof (root_not_child i cs k Hnd Hin) as Hne.
        apply in_flat_map in Hin. destruct Hin as [c0 [Hc0 Hk0]].
        rewrite (subk_flat_map_in k obid fF' cs c0 HS), (subk_flat_map_in k obid IPa' cs c0 HS),
          (subk_flat_map_in k obid fO cs c0 HS); try assumption;
          try (intros c Hc e He; apply (HfI c Hc); tauto).
        rewrite (subk_root_out k (bid i) _ Hne HBB), (subk_root_out k (bid i) _ Hne HO).
        cbn [app]. rewrite <- !subk_app. apply M_filter.
        apply inline_M; [auto|exact (ids_child_nodup i cs c0 Hnd Hc0)].
      + rewrite (subk_flat_map_out k obid fF' cs), (subk_flat_map_out k obid IPa' cs),
          (subk_flat_map_out k obid fO cs); try assumption;
          try (intros c Hc e He; apply (HfI c Hc); tauto).
        cbn [app]. rewrite ?app_nil_r. rewrite <- !subk_app. apply M_filter. M_concrete.
    - rewrite Dd_box, Wd_box.
      apply M_of_subk. intros k. rewrite !subk_app. change (subk k []) with (@nil event).
      destruct (in_dec N.eq_dec k (flat_map obid cs)) as [Hin|Hout].
      + pose proof (root_not_child i cs k Hnd Hin) as Hne.
        apply in_flat_map in Hin. destruct Hin as [c0 [Hc0 Hk0]].
        rewrite (subk_flat_map_in k obid fD cs c0 HS), (subk_flat_map_in k obid fF' cs c0 HS),
          (subk_flat_map_in k obid fL' cs c0 HS), (subk_flat_map_in k obid fW' cs c0 HS),
          (subk_flat_map_in k obid fO cs c0 HS); try assumption;
          try (intros c Hc e He; apply (HfB c Hc); tauto).
        rewrite (subk_root_out k (bid i) _ Hne Hdec), (subk_root_out k (bid i) _ Hne HO).
        cbn [app]. rewrite <- !subk_app. apply M_filter. rewrite <- app_assoc.
        apply block_M; [auto|exact (ids_child_nodup i cs c0 Hnd Hc0)].
      + rewrite (subk_flat_map_out k obid fD cs), (subk_flat_map_out k obid fF' cs),
          (subk_flat_map_out k obid fL' cs), (subk_flat_map_out k obid fW' cs),
          (subk_flat_map_out k obid fO cs); try assumption;
          try (intros c Hc e He; apply (HfB c Hc); tauto).
        cbn [app]. rewrite ?app_nil_r. rewrite <- !subk_app. apply M_filter.
        unfold decor. destruct (css_paints_box_decoration _); M_concrete.
  Qed.
End FlowOrd.

Lemma subk_wrap k e on id l : subk k (wrap e on id l) = subk k l.
Proof.
  unfold wrap. destruct on; [|reflexivity].
  change (Push e id :: l ++ [Pop e id]) with ([Push e id] ++ l ++ [Pop e id]).
  rewrite !subk_app. simpl. rewrite app_nil_r. reflexivity.
Qed.

Section Order.
  Variable zsort : list box -> list box.
  Hypothesis zsort_ok : z_then_tree_order css_level zsort.
  Notation SP := (spec_ctx impl_forms_ctx css_level zsort).

  Lemma spec_ctx_unfold n (real : bool) i cs :
    let b := Box i cs in
    let H : list box := if real then hoisted impl_forms_ctx b else [] in
    let sub := fun d => SP n (impl_forms_ctx (binfo_of d)) d in
    let atomic := fun d => SP n false d in
    css_not_displayed i = false ->
    SP (S n) real b =
    wrap EOpacity (bopac i) (bid i)
      (wrap ETransform (btrans i && css_transformable (bkind i)) (bid i)
        (decor i ++ wrap EClip (bclip i && negb (is_page (bkind i))) (bid i)
           (flat_map sub (zsort (filter (fun d => impl_forms_ctx (binfo_of d) && (blevel css_level d <? 0)%Z) H))
            ++ Dd b ++ Fl atomic b
            ++ (if css_inline_box (bkind i) then inline_root_paint impl_forms_ctx atomic b else [])
            ++ (BCa atomic b ++ Wd atomic b)
            ++ flat_map sub (filter (fun d => negb (impl_forms_ctx (binfo_of d)) || (blevel css_level d =? 0)%Z) H)
            ++ flat_map sub (zsort (filter (fun d => impl_forms_ctx (binfo_of d) && (0 <? blevel css_level d)%Z) H)))
         ++ Om b)).
  Proof.
    intros b H sub atomic Hsg. cbn [spec_ctx]. cbv zeta.
    change (css_not_displayed (binfo_of b)) with (css_not_displayed i). rewrite Hsg. reflexivity.
  Qed.

  Theorem spec_ctx_M n : forall real b, wf_shape b = true -> NoDup (ids b) -> M (SP n real b).
  Proof.
    induction n as [|n IH]; intros real b Hwf Hnd; [exact I|].
    destruct b as [i cs].
    destruct (css_not_displayed i) eqn:Hsg.
    { rewrite (spec_ctx_not_displayed zsort (Datatypes.S n) real (Box i cs) Hsg). exact I. }
    pose proof (ctx_decomp zsort zsort_ok n real i cs Hsg Hwf Hnd) as HD. cbv zeta in HD.
    destruct HD as [_ [HF [HS [Hsub _]]]].
    rewrite (spec_ctx_unfold n real i cs Hsg). cbv zeta.
    set (b := Box i cs) in *.
    set (H := if real then hoisted impl_forms_ctx b else []) in *.
    set (sub := fun d => SP n (impl_forms_ctx (binfo_of d)) d) in *.
    set (atomic := fun d => SP n false d) in *.
    set (S := fun d => bids (terr d)) in *.
    set (neg := zsort (filter (fun d => impl_forms_ctx (binfo_of d) && (blevel css_level d <? 0)%Z) H)).
    set (mid := filter (fun d => negb (impl_forms_ctx (binfo_of d)) || (blevel css_level d =? 0)%Z) H).
    set (pos := zsort (filter (fun d => impl_forms_ctx (binfo_of d) && (0 <? blevel css_level d)%Z) H)).
    set (P6 := if css_inline_box (bkind i) then inline_root_paint impl_forms_ctx atomic b else []) in *.
    assert (PH : Permutation (neg ++ mid ++ pos) H).
    { subst neg pos. rewrite !(zsort_perm zsort zsort_ok).
      exact (three_way_perm (fun d => impl_forms_ctx (binfo_of d)) (blevel css_level) H). }
    assert (HinH : forall d, In d (neg ++ mid ++ pos) -> In d H).
    { intros d Hd. exact (Permutation_in _ PH Hd). }
    assert (Hfoot : forall d, In d H -> forall e, In e (sub d) -> In (ev_id e) (S d)).
    { intros d Hd. exact (proj2 (proj2 (Hsub d Hd))). }
    assert (HSH : NoDup (flat_map S (neg ++ mid ++ pos))).
    { apply (Permutation_NoDup (Permutation_flat_map S (Permutation_sym PH))).
      exact (nodup_app_r _ _ HS). }
    apply M_of_subk. intros k.
    rewrite !subk_wrap, !subk_app, subk_wrap, !subk_app.
    destruct (in_dec N.eq_dec k (flat_map S H)) as [Hin|Hout].
    - (* k belongs to a hoisted context *)
      assert (Hflow : forall l, incl l (PP i ++ decor i ++ Dd b ++ Fl atomic b ++ P6
                                        ++ (BCa atomic b ++ Wd atomic b) ++ Om b) -> subk k l = []).
      { intros l Hl. apply subk_out. intros e He E.
        apply (nodup_app_disj _ _ HS k); [rewrite <- E; exact (proj2 HF e (Hl e He))|exact Hin]. }
      rewrite (Hflow (decor i)), (Hflow (Dd b)), (Hflow (Fl atomic b)), (Hflow P6),
        (Hflow (BCa atomic b)), (Hflow (Wd atomic b)), (Hflow (Om b));
        try (intros e He; rewrite !in_app_iff; tauto).
      cbn [app]. rewrite ?app_nil_r. rewrite <- !subk_app. apply M_filter.
      rewrite <- !flat_map_app. apply (M_flat_map S); [exact HSH|].
      intros d Hd. pose proof (HinH d Hd) as HdH. split; [exact (Hfoot d HdH)|].
      destruct (Hsub d HdH) as [Hds _]. apply IH.
      + exact (subs_wf b d Hwf Hds).
      + exact (ids_sub_nodup b d Hnd Hds).
    - (* k belongs to the flow of the context *)
      assert (Hhoist : forall l, incl l H -> subk k (flat_map sub l) = []).
      { intros l Hl. apply (subk_flat_map_out k S).
        - intros d Hd. exact (Hfoot d (Hl d Hd)).
        - intros Hk. apply Hout. apply in_flat_map in Hk. destruct Hk as [d [Hd Hk]].
          apply in_flat_map. exists d. split; [exact (Hl d Hd)|exact Hk]. }
      rewrite (Hhoist neg), (Hhoist mid), (Hhoist pos);
        try (intros d Hd; apply HinH; rewrite !in_app_iff; tauto).
      cbn [app]. rewrite ?app_nil_r. rewrite <- !subk_app. apply M_filter.
      assert (HM : M (decor i ++ Dd b ++ Fl atomic b ++ P6 ++ (BCa atomic b ++ Wd atomic b) ++ Om b)).
      { apply (ctx_flow_M atomic).
        + intros d H1 H2. exact (spec_ctx_fits zsort zsort_ok n false d H1 H2).
        + intros d H1 H2. exact (IH false d H1 H2).
        + exact Hwf.
        + exact Hnd. }
      repeat rewrite <- app_assoc in HM. repeat rewrite <- app_assoc. exact HM.
  Qed.
End Order.

(* per_box_order *)
Theorem per_box_order :
  forall zsort, z_then_tree_order css_level zsort ->
  forall b, wf_shape b = true -> NoDup (ids b) ->
  forall id l1 l2,
  (spec_paint impl_forms_ctx css_level zsort b = l1 ++ Outline id :: l2 ->
     ~ In (Bg id) l2 /\ ~ In (Border id) l2 /\ ~ In (Content id) l2)
  /\ (spec_paint impl_forms_ctx css_level zsort b = l1 ++ Content id :: l2 ->
     ~ In (Bg id) l2 /\ ~ In (Border id) l2).
Proof.
  intros zsort Hz b Hwf Hnd id l1 l2.
  pose proof (spec_ctx_M zsort Hz (S (height b)) true b Hwf Hnd) as HM.
  fold (spec_paint impl_forms_ctx css_level zsort b) in HM.
  assert (Hbad : forall x y, spec_paint impl_forms_ctx css_level zsort b = l1 ++ x :: l2 ->
            In y l2 -> badb x y = false).
  { intros x y E Hy. rewrite E in HM. apply M_app in HM. destruct HM as [_ [[H _] _]]. exact (H y Hy). }
  split; intros E; repeat split; intros Hin; specialize (Hbad _ _ E Hin); simpl in Hbad;
    rewrite N.eqb_refl in Hbad; discriminate.
Qed.
Print Assumptions per_box_order.
