(* Draw/Stacking.v -- executable model of /repo/html/document/stacking.go
   (construction of the stacking-context tree) and of drawStackingContext /
   drawInlineLevel / drawOutlines in /repo/html/document/draw.go (the order in
   which the pieces of a page reach the backend).  No proofs in this file.

   Input: the laid-out box tree of a page in abstract form (`box`): what the
   anchored code consults of a box is its Go type (`kind`), four style
   predicates (position != static, z-index, float != none, opacity < 1,
   transform != none, overflow != visible) and its children.
   Output: the list of paint events in the order they are issued.           *)
From Verif Require Export Base.GoSem Base.SortStable.
From Coq Require Import List ZArith NArith Bool.
Import ListNotations.

(* ------------------------------------------------------------------ boxes *)

(* concrete Go box types (html/boxes/stubs.go), as far as the anchored code
   distinguishes them *)
Inductive kind :=
| KBlock            (* BlockBox (also TableCaptionBox, FootnoteAreaBox) *)
| KFlex             (* FlexBox / GridBox: block-level flex|grid container *)
| KTable            (* TableBox / InlineTableBox *)
| KBlockReplaced    (* BlockReplacedBox *)
| KTableCell        (* TableCellBox *)
| KInline           (* InlineBox *)
| KInlineBlock      (* InlineBlockBox *)
| KInlineFlex       (* InlineFlexBox *)
| KInlineReplaced   (* InlineReplacedBox / ReplacedBox *)
| KLine             (* LineBox *)
| KText             (* TextBox *)
| KMargin           (* MarginBox *)
| KPage             (* PageBox *)
| KOther.           (* any other ParentBox: table rows, row groups, ... *)

Record binfo := mkB {
  bid : N;               (* identity of the box (for the events) *)
  bkind : kind;
  bpos : bool;           (* style.GetPosition().String != "static" *)
  bz : option Z;         (* style.GetZIndex(): None = auto *)
  bfloat : bool;         (* box.IsFloated() *)
  bopac : bool;          (* style.GetOpacity() < 1 *)
  btrans : bool;         (* len(style.GetTransform()) != 0 *)
  bclip : bool;          (* style.GetOverflow() != "visible" *)
  bvis : N;              (* not used by the model: which events of this box are
                            observable (bit 0 bg, 1 border, 2 content, 3 outline) *)
  bsing : bool           (* the matrix getMatrix computes for the box has determinant 0
                            (scale(0), matrix(1,2,2,4,0,0) ...); only read when btrans *)
}.

Inductive box := Box (i : binfo) (cs : list box).

Definition binfo_of (b : box) : binfo := let 'Box i _ := b in i.
Definition children (b : box) : list box := let 'Box _ cs := b in cs.

(* the Go type lattice (BoxType.IsInstance) restricted to what is consulted *)
Definition block_level (k : kind) : bool :=      (* bo.BlockLevelT *)
  match k with KBlock | KFlex | KTable | KBlockReplaced => true | _ => false end.
Definition table_cell (k : kind) : bool := match k with KTableCell => true | _ => false end.
Definition inline_block_or_flex (k : kind) : bool :=   (* InlineBlockT || InlineFlexT *)
  match k with KInlineBlock | KInlineFlex => true | _ => false end.
Definition is_inline (k : kind) : bool := match k with KInline => true | _ => false end.
Definition is_linebox (k : kind) : bool := match k with KLine => true | _ => false end.
Definition is_text (k : kind) : bool := match k with KText => true | _ => false end.
Definition is_replaced (k : kind) : bool :=       (* bo.ReplacedBoxITF *)
  match k with KBlockReplaced | KInlineReplaced => true | _ => false end.
Definition is_table (k : kind) : bool := match k with KTable => true | _ => false end.
Definition is_page (k : kind) : bool := match k with KPage => true | _ => false end.
Definition is_parent (k : kind) : bool :=         (* bo.ParentT *)
  match k with KText | KBlockReplaced | KInlineReplaced => false | _ => true end.
Definition is_line (k : kind) : bool :=           (* layout.IsLine: LineT || InlineT *)
  match k with KLine | KInline => true | _ => false end.
(* draw.go:264-266  BlockT || MarginT || InlineBlockT || TableCellT || FlexContainerT || ReplacedT *)
Definition point2 (k : kind) : bool :=
  match k with
  | KBlock | KMargin | KInlineBlock | KTableCell | KFlex | KInlineFlex
  | KBlockReplaced | KInlineReplaced => true
  | _ => false
  end.

(* stacking.go:119-122: the box defines a (real) stacking context *)
Definition creates_ctx (i : binfo) : bool :=
  (bpos i && match bz i with Some _ => true | None => false end)
  || bopac i || btrans i || bclip i.

(* draw.go:252-258: getMatrix (document.go:42, never for an InlineBox) returns a
   matrix that is not invertible: drawStackingContext returns before painting anything *)
Definition singular (i : binfo) : bool :=
  btrans i && negb (is_inline (bkind i)) && bsing i.

(* ------------------------------------------------- the stacking-context tree *)

(* a box of the "normal" tree after dispatch (children replaced), or a
   StackingContext value standing in the tree (inline-block kept in place) *)
Inductive node :=
| NBox (i : binfo) (kids : list node)
| NSub (c : ctx)
with ctx :=
| Ctx (i : binfo) (kids : list node)     (* self.box *)
      (z : Z)                            (* self.zIndex *)
      (neg zero pos : list ctx)          (* negativeZContexts, zeroZContexts, positiveZContexts *)
      (blocks : list node)               (* blockLevelBoxes *)
      (floats : list ctx)                (* floatContexts *)
      (bac : list node).                 (* blocksAndCells *)

Definition ctx_z (c : ctx) : Z := let 'Ctx _ _ z _ _ _ _ _ _ := c in z.
Definition ctx_info (c : ctx) : binfo := let 'Ctx i _ _ _ _ _ _ _ _ := c in i.

(* stacking.go:32-73 NewStackingContext (line numbers of /repo at commit a25f3fa) *)
Definition new_context (i : binfo) (kids : list node) (childContexts : list ctx)
           (blocks : list node) (floats : list ctx) (bac : list node) : ctx :=
  (* 45-53: partition by sign, in the order of childContexts *)
  let neg := filter (fun c => (ctx_z c <? 0)%Z) childContexts in
  let zero := filter (fun c => (ctx_z c =? 0)%Z) childContexts in
  let pos := filter (fun c => negb (ctx_z c <? 0)%Z && negb (ctx_z c =? 0)%Z) childContexts in
  (* 54-59: sort.SliceStable by zIndex (contract: Base/SortStable.v) *)
  let neg := isort ctx_z neg in
  let pos := isort ctx_z pos in
  (* 63-71 *)
  let z := match bz i with
           | None => 0%Z
           | Some k => if bpos i then k else 0%Z       (* position static: z-index does not apply *)
           end in
  Ctx i kids z neg zero pos blocks floats bac.

(* the accumulators of one NewStackingContextFromBox activation; `a_ctxs` is
   the slice `deref childContexts` points to (the local `children` or the caller's) *)
Record acc := mkAcc {
  a_blocks : list node;
  a_bac : list node;
  a_floats : list ctx;
  a_ctxs : list ctx
}.

(* stacking.go:87-93: append(a[:i], append([]T{item}, a[i:]...)...) ; every call
   site passes an index <= len(a) (a length read earlier from a list that only grows) *)
Definition insert_at {A} (i : nat) (x : A) (l : list A) : list A :=
  firstn i l ++ x :: skipn i l.

(* a box that is not dispatched (non-parent box returned as is, 177-179) *)
Fixpoint plain (b : box) : node :=
  match b with Box i cs => NBox i (map plain cs) end.

(* stacking.go:95-193, body of NewStackingContextFromBox after the children of
   the box have been dispatched by `dk` (176-191), given the incoming shared
   list (Some l: childContexts != nil, None: childContexts = &children).
   Returns the context and the final content of (deref childContexts).              *)
Definition from_inner (dk : acc -> list node * acc) (i : binfo) (plain_kids : list node)
           (shared : option (list ctx)) : ctx * list ctx :=
  let st0 := mkAcc [] [] [] (match shared with Some l => l | None => [] end) in
  let '(kids, st) := if is_parent (bkind i) then dk st0 else (plain_kids, st0) in
  let children := match shared with Some _ => [] | None => a_ctxs st end in   (* 96-99 *)
  (new_context i kids children (a_blocks st) (a_floats st) (a_bac st), a_ctxs st).

(* stacking.go:112-174 `dispatch`; result None = Go's nil (box removed from the
   normal tree).  AbsolutePlaceholder unwrapping (113-114) is done by the
   projection (the abstract tree has the laid-out box in place).             *)
Fixpoint dispatch (b : box) (st : acc) {struct b} : option node * acc :=
  match b with
  | Box i cs =>
    let dk := (fix dk (l : list box) (st : acc) {struct l} : list node * acc :=
                 match l with
                 | [] => ([], st)
                 | c :: r =>
                   let '(o, st1) := dispatch c st in                      (* 183 *)
                   let '(ns, st2) := dk r st1 in
                   (match o with Some n => n :: ns | None => ns end, st2) (* 184-186 *)
                 end) in
    let inner := from_inner (dk cs) i (map plain cs) in
    if creates_ctx i then                                                  (* 119-122 *)
      (* 126: (deref childContexts) = append(ptr childContexts, NewStackingContextFromBox(box, page, nil)) *)
      (None, mkAcc (a_blocks st) (a_bac st) (a_floats st) (a_ctxs st ++ [fst (inner None)]))
    else if bpos i then                                                    (* 128 *)
      (* 129-131: panic("expected auto z-index") is unreachable: creates_ctx i = false
         and bpos i = true force bz i = None (StackingProofs.dispatch_panic_unreachable) *)
      let index := length (a_ctxs st) in                                   (* 135 *)
      let '(c, ctxs) := inner (Some (a_ctxs st)) in                        (* 136 *)
      (None, mkAcc (a_blocks st) (a_bac st) (a_floats st) (insert_at index c ctxs))
    else if bfloat i then                                                  (* 137-138 *)
      let '(c, ctxs) := inner (Some (a_ctxs st)) in
      (None, mkAcc (a_blocks st) (a_bac st) (a_floats st ++ [c]) ctxs)
    else if inline_block_or_flex (bkind i) then                            (* 139-143 *)
      let '(c, ctxs) := inner (Some (a_ctxs st)) in
      (Some (NSub c), mkAcc (a_blocks st) (a_bac st) (a_floats st) ctxs)
    else
      (* 145-158 *)
      let blocksIndex := if block_level (bkind i) then Some (length (a_blocks st)) else None in
      let bacIndex := if block_level (bkind i) then Some (length (a_bac st))
                      else if table_cell (bkind i) then Some (length (a_bac st)) else None in
      (* 160: box = dispatchChildren(box) *)
      let '(kids, st1) := if is_parent (bkind i) then dk cs st else (map plain cs, st) in
      let n := NBox i kids in
      (* 163-168 *)
      let blocks := match blocksIndex with Some k => insert_at k n (a_blocks st1) | None => a_blocks st1 end in
      let bac := match bacIndex with Some k => insert_at k n (a_bac st1) | None => a_bac st1 end in
      (Some n, mkAcc blocks bac (a_floats st1) (a_ctxs st1))
  end.

(* 176-191 dispatchChildren's loop *)
Fixpoint dispatch_list (l : list box) (st : acc) : list node * acc :=
  match l with
  | [] => ([], st)
  | c :: r =>
    let '(o, st1) := dispatch c st in
    let '(ns, st2) := dispatch_list r st1 in
    (match o with Some n => n :: ns | None => ns end, st2)
  end.

(* NewStackingContextFromBox(box, page, childContexts) *)
Definition from_box_shared (b : box) (shared : option (list ctx)) : ctx * list ctx :=
  match b with Box i cs => from_inner (dispatch_list cs) i (map plain cs) shared end.

(* NewStackingContextFromBox(box, page, nil) *)
Definition from_box (b : box) : ctx := fst (from_box_shared b None).

(* stacking.go:75-85 NewStackingContextFromPage *)
Definition from_page (pi : binfo) (page_children : list box) : ctx :=
  new_context pi [] (map from_box page_children) [] [] [].

(* ------------------------------------------------------------------ painting *)

Inductive effect := EClip | EOpacity | ETransform.

Inductive event :=
| Bg (id : N)             (* drawBackground of the box *)
| Border (id : N)         (* drawBorder of the box *)
| Content (id : N)        (* drawText / drawReplacedbox *)
| Outline (id : N)        (* the box's own outline in drawOutlines *)
| Push (e : effect) (id : N)   (* Clip / NewGroup / Transform declared by box id becomes active *)
| Pop (e : effect) (id : N)
| TableLayers (id : N)    (* drawTable (not modelled further) *)
| CanvasBg (id : N).      (* the canvas background (propagated from box id) *)

Definition rl := res (list event).

(* sequential composition of drawing calls *)
Definition seqM {A} (f : A -> rl) : list A -> rl :=
  fix go (l : list A) : rl :=
    match l with
    | [] => Ok []
    | a :: r => let* x := f a in let* y := go r in Ok (x ++ y)
    end.

Definition app2 (a b : rl) : rl := let* x := a in let* y := b in Ok (x ++ y).
Infix "+++" := app2 (at level 60, right associativity).

(* panic sites *)
Definition site_1514 : N := 1514.   (* draw.go: expected InlineBlock or InlineFlex *)
Definition site_1545 : N := 1545.   (* draw.go: unexpected box *)
Definition site_nilbox : N := 311.  (* block.Box() on a StackingContext value: nil embedded interface *)

(* draw.go:1243-1268 drawOutlines: the box, then its classical children *)
Fixpoint outlines (n : node) : list event :=
  match n with
  | NBox i kids => Outline (bid i) :: flat_map outlines kids
  | NSub _ => []                                   (* 1264: !IsClassical *)
  end.

Definition last_is_line (kids : list node) : bool :=
  match last (map Some kids) None with
  | Some (NBox i _) => is_linebox (bkind i)
  | _ => false
  end.

(* draw.go:209-342 drawStackingContext and 1511-1548 drawInlineLevel *)
Fixpoint paint (c : ctx) : rl :=
  match c with
  | Ctx i kids z neg zero pos blocks floats bac =>
    let id := bid i in
    let k := bkind i in
    (* 216-243 (viewport overflow on the root element, `clip` property): not modelled *)
    (* 245-250: originalDst := ctx.dst; if opacity < 1 { ctx.dst = ctx.dst.NewGroup(...) }
       252-258: if mat, ok := getMatrix(box_); ok { if mat.Determinant() != 0 { Transform }
                else { return } }
       The early return leaves the closure of 211 before anything is painted: no
       background, border, descendant context, content or outline of the sub-tree.
       When opacity < 1 the group created at 248 is never passed to DrawWithOpacity
       (334-340 are skipped): it is abandoned EMPTY, nothing reaches the page from it.
       drawStackingContext has a value receiver: the assignment of 248 changes the
       callee's copy of ctx only, so the callers (283-328 of the parent activation)
       go on painting on THEIR ctx.dst: what follows in the stacking order is painted
       exactly as if this context were not there.  Hence: no event at all.          *)
    if singular i then Ok [] else
    let opac := bopac i in                                            (* 246-250 *)
    let trans := btrans i && negb (is_inline k) in                    (* 252, getMatrix document.go:42 *)
    let clip := bclip i && negb (is_page k) in                        (* 274 *)
    let dil_child := fun child : node =>                             (* 1528-1538 loop body *)
      match child with
      | NBox ci _ => if is_text (bkind ci) then Ok [Content (bid ci)]
                     else draw_inline_level child
      | NSub _ => draw_inline_level child
      end in
    let step7 := fun (bi : binfo) (bkids : list node) =>              (* 309-317 *)
      if is_replaced (bkind bi) then Ok [Content (bid bi)]
      else if last_is_line bkids then seqM draw_inline_level bkids
      else Ok [] in
    Ok ((if opac then [Push EOpacity id] else []) ++
        (if trans then [Push ETransform id] else []) ++
        (if point2 k then [Bg id; Border id] else []))                (* 264-270 *)
    +++ Ok (if clip then [Push EClip id] else [])                     (* 272-280 *)
    +++ seqM paint neg                                                (* 283-285 *)
    +++ seqM (fun b => match b with                                   (* 288-295 *)
                       | NBox bi _ => if is_table (bkind bi) then Ok [TableLayers (bid bi)]
                                      else Ok [Bg (bid bi); Border (bid bi)]
                       | NSub _ => Panic site_nilbox
                       end) blocks
    +++ seqM paint floats                                             (* 298-300 *)
    (* 303-305 drawInlineLevel(box_) on an InlineBox (never a StackingContext value):
       1519-1520 then, IsLine being true, the loop 1528-1538 *)
    +++ (if is_inline k then Ok [Bg id; Border id] +++ seqM dil_child kids else Ok [])
    +++ step7 i kids                                                  (* 308: box_ first *)
    +++ seqM (fun b => match b with
                       | NBox bi bkids => step7 bi bkids
                       | NSub _ => Panic site_nilbox
                       end) bac
    +++ seqM paint zero                                               (* 321-323 *)
    +++ seqM paint pos                                                (* 326-328 *)
    +++ Ok ((if clip then [Pop EClip id] else []) ++                  (* 329 *)
            outlines (NBox i kids) ++                                 (* 332 *)
            (if trans then [Pop ETransform id] else []) ++
            (if opac then [Pop EOpacity id] else []))                 (* 334-340 *)
  end
with draw_inline_level (n : node) : rl :=
  match n with
  | NSub c =>                                                         (* 1512-1516 *)
    if inline_block_or_flex (bkind (ctx_info c)) then paint c else Panic site_1514
  | NBox i kids =>
    let id := bid i in
    let k := bkind i in
    Ok [Bg id; Border id] +++                                         (* 1519-1520 *)
    (if is_line k then                                                (* 1523-1538 *)
       seqM (fun child => match child with
                          | NBox ci _ => if is_text (bkind ci) then Ok [Content (bid ci)]   (* 1533-1534 *)
                                         else draw_inline_level child
                          | NSub _ => draw_inline_level child
                          end) kids
     else if is_replaced k then Ok [Content id]                       (* 1539-1540 *)
     else if is_text k then Ok [Content id]                           (* 1541-1543 *)
     else Panic site_1545)                                            (* 1545 *)
  end.

(* draw.go:199-206 drawPage: page background, canvas background, page border,
   then the page's stacking context *)
Definition paint_page (pi : binfo) (canvas : N) (page_children : list box) : rl :=
  Ok [Bg (bid pi); CanvasBg canvas; Border (bid pi)] +++ paint (from_page pi page_children).

Definition paint_box (b : box) : rl := paint (from_box b).
