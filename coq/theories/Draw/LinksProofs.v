(* Draw/LinksProofs.v -- the model of Draw/Links.v meets Draw/LinksSpec.v. *)
From Verif Require Import Draw.Links Draw.LinksSpec.
From Coq Require Import List Permutation Bool NArith Lia.
Import ListNotations.

(* ---------------------------------------------------------------- lists *)
Lemma NoDup_app_snoc : forall {A} (l : list A) x, NoDup l -> ~ In x l -> NoDup (l ++ [x]).
Proof.
  induction l as [|a l IH]; intros x Hnd Hx; cbn.
  - constructor; [intros []|constructor].
  - inversion Hnd as [|? ? Ha Hl]; subst. constructor.
    + rewrite in_app_iff. cbn. intros [H|[H|[]]]; [contradiction|]. subst. apply Hx. left. reflexivity.
    + apply IH; [assumption|]. intros H. apply Hx. right. assumption.
Qed.

Lemma NoDup_app_intro : forall {A} (l1 l2 : list A),
  NoDup l1 -> NoDup l2 -> (forall x, In x l1 -> In x l2 -> False) -> NoDup (l1 ++ l2).
Proof.
  induction l1 as [|a l1 IH]; intros l2 H1 H2 Hd; cbn; [assumption|].
  inversion H1 as [|? ? Ha Hl]; subst. constructor.
  - rewrite in_app_iff. intros [H|H]; [contradiction|]. apply (Hd a); [left; reflexivity | assumption].
  - apply IH; [assumption | assumption |]. intros x Hx1 Hx2. apply (Hd x); [right; assumption | assumption].
Qed.

Lemma NoDup_map_filter : forall {A B} (f : A -> B) (p : A -> bool) (l : list A),
  NoDup (map f l) -> NoDup (map f (filter p l)).
Proof.
  induction l as [|a l IH]; intros H; cbn; [constructor|].
  cbn in H. inversion H as [|? ? Ha Hl]; subst.
  destruct (p a); cbn; [|auto]. constructor; [|auto].
  intros Hin. apply Ha. apply in_map_iff in Hin. destruct Hin as [x [Hx1 Hx2]].
  apply filter_In in Hx2. apply in_map_iff. exists x. tauto.
Qed.

(* ---------------------------------------------------------------- names *)
Lemma name_eqb_eq : forall a b, name_eqb a b = true <-> a = b.
Proof.
  induction a as [|x a IH]; destruct b as [|y b]; cbn; split; intros H; try discriminate; auto.
  - apply andb_true_iff in H. destruct H as [H1 H2].
    apply N.eqb_eq in H1. apply IH in H2. congruence.
  - inversion H; subst. rewrite N.eqb_refl. cbn. apply IH. reflexivity.
Qed.

Lemma name_eqb_refl : forall a, name_eqb a a = true.
Proof. intros a. apply name_eqb_eq. reflexivity. Qed.

Lemma name_eqb_neq : forall a b, name_eqb a b = false <-> a <> b.
Proof.
  intros a b. split.
  - intros H E. apply name_eqb_eq in E. congruence.
  - intros H. destruct (name_eqb a b) eqn:E; auto. apply name_eqb_eq in E. contradiction.
Qed.

Lemma is_empty_true : forall n, is_empty n = true <-> n = [].
Proof. destruct n; cbn; split; intros; congruence. Qed.

Lemma in_set_In : forall n s, in_set n s = true <-> In n s.
Proof.
  intros n s. unfold in_set. rewrite existsb_exists. split.
  - intros [x [Hx He]]. apply name_eqb_eq in He. subst. assumption.
  - intros H. exists n. split; [assumption | apply name_eqb_refl].
Qed.

Lemma in_set_false : forall n s, in_set n s = false <-> ~ In n s.
Proof.
  intros n s. rewrite <- in_set_In. destruct (in_set n s); split; intros H; congruence.
Qed.

Lemma has_name_In : forall n m, has_name n m = true <-> In n (map aname m).
Proof.
  intros n m. unfold has_name. rewrite existsb_exists, in_map_iff. split.
  - intros [a [Ha He]]. apply name_eqb_eq in He. exists a. auto.
  - intros [a [He Ha]]. exists a. split; [assumption|]. apply name_eqb_eq. assumption.
Qed.

(* ---------------------------------------------------------------- gather *)
Lemma gather_snoc : forall bs b, gather (bs ++ [b]) = gather_box (gather bs) b.
Proof. intros bs b. unfold gather. rewrite fold_left_app. reflexivity. Qed.

Lemma gather_links : forall bs, g_links (gather bs) = page_links bs.
Proof.
  induction bs as [|b bs IH] using rev_ind; [reflexivity|].
  rewrite gather_snoc. unfold page_links in *. rewrite flat_map_app. cbn [flat_map].
  rewrite app_nil_r. rewrite <- IH. unfold gather_box, box_link. cbn [g_links].
  destruct (b_link b) as [[ty t]|]; [|rewrite app_nil_r; reflexivity].
  destruct (b_textline b); [rewrite app_nil_r; reflexivity | reflexivity].
Qed.

Definition new_anchor (b : box) : anchor := mkanchor (b_anchor b) (b_pos b).

Lemma gather_anchors_snoc : forall bs b,
  g_anchors (gather (bs ++ [b])) =
  if negb (is_empty (b_anchor b)) && negb (has_name (b_anchor b) (g_anchors (gather bs)))
  then g_anchors (gather bs) ++ [new_anchor b] else g_anchors (gather bs).
Proof.
  intros bs b. rewrite gather_snoc. unfold gather_box. cbn [g_anchors].
  destruct (negb (is_empty (b_anchor b)) && negb (has_name (b_anchor b) (g_anchors (gather bs)))); reflexivity.
Qed.

(* names of the gathered anchors = non-empty anchor names of the boxes *)
Lemma gather_names : forall bs n,
  In n (map aname (g_anchors (gather bs))) <-> n <> [] /\ exists b, In b bs /\ b_anchor b = n.
Proof.
  induction bs as [|b bs IH] using rev_ind; intros n.
  - cbn. split; [tauto|]. intros [_ [b [[] _]]].
  - rewrite gather_anchors_snoc.
    destruct (is_empty (b_anchor b)) eqn:Ee; cbn [negb andb].
    + apply is_empty_true in Ee. rewrite IH. split.
      * intros [Hn [b0 [Hin He]]]. split; [assumption|]. exists b0. split; [apply in_or_app; auto | assumption].
      * intros [Hn [b0 [Hin He]]]. split; [assumption|]. apply in_app_or in Hin.
        destruct Hin as [Hin|[Hin|[]]]; [eauto|]. subst b0. congruence.
    + assert (Hne : b_anchor b <> []) by (intros E; apply is_empty_true in E; congruence).
      destruct (has_name (b_anchor b) (g_anchors (gather bs))) eqn:Eh; cbn [negb].
      * apply has_name_In in Eh. rewrite IH. split.
        -- intros [Hn [b0 [Hin He]]]. split; [assumption|]. exists b0. split; [apply in_or_app; auto | assumption].
        -- intros [Hn [b0 [Hin He]]]. split; [assumption|]. apply in_app_or in Hin.
           destruct Hin as [Hin|[Hin|[]]]; [eauto|]. subst b0.
           apply IH in Eh. destruct Eh as [_ [b1 [H1 H2]]]. exists b1. split; congruence.
      * rewrite map_app, in_app_iff, IH. cbn. split.
        -- intros [[Hn [b0 [Hin He]]]|[He|[]]].
           ++ split; [assumption|]. exists b0. split; [apply in_or_app; auto | assumption].
           ++ subst n. split; [assumption|]. exists b. split; [apply in_or_app; cbn; auto | reflexivity].
        -- intros [Hn [b0 [Hin He]]]. apply in_app_or in Hin. destruct Hin as [Hin|[Hin|[]]].
           ++ left. split; [assumption|]. eauto.
           ++ subst b0. right. left. assumption.
Qed.

Lemma gather_nodup : forall bs, NoDup (map aname (g_anchors (gather bs))).
Proof.
  induction bs as [|b bs IH] using rev_ind; [constructor|].
  rewrite gather_anchors_snoc.
  destruct (negb (is_empty (b_anchor b)) && negb (has_name (b_anchor b) (g_anchors (gather bs)))) eqn:E; [|assumption].
  apply andb_true_iff in E. destruct E as [_ E]. apply negb_true_iff in E.
  rewrite map_app. cbn. apply NoDup_app_snoc; [assumption|].
  intros H. apply has_name_In in H. congruence.
Qed.

Lemma snoc_split : forall {A} (post pre : list A) b0 bs b,
  pre ++ b0 :: post = bs ++ [b] ->
  (post = [] /\ pre = bs /\ b0 = b) \/ (exists post', post = post' ++ [b] /\ bs = pre ++ b0 :: post').
Proof.
  intros A post. induction post as [|x post' _] using rev_ind; intros pre b0 bs b H.
  - left. apply app_inj_tail in H. destruct H. auto.
  - right. exists post'.
    assert (H' : (pre ++ b0 :: post') ++ [x] = bs ++ [b]) by (rewrite <- app_assoc; exact H).
    apply app_inj_tail in H'. destruct H' as [H1 H2]. subst. auto.
Qed.

Lemma first_in_page_snoc : forall bs b n b0,
  first_in_page bs n b0 -> first_in_page (bs ++ [b]) n b0.
Proof.
  intros bs b n b0 [pre [post [H1 [H2 H3]]]]. exists pre, (post ++ [b]).
  split; [|auto]. subst bs. rewrite <- app_assoc. reflexivity.
Qed.

Lemma gather_anchor_iff : forall bs a,
  In a (g_anchors (gather bs)) <->
  aname a <> [] /\ exists b, first_in_page bs (aname a) b /\ apos a = b_pos b.
Proof.
  induction bs as [|b bs IH] using rev_ind; intros a.
  - cbn. split; [tauto|]. intros [_ [b [[pre [post [H _]]] _]]].
    apply app_cons_not_nil in H. contradiction.
  - rewrite gather_anchors_snoc. split.
    + intros Hin.
      assert (Hcases : In a (g_anchors (gather bs)) \/
                       (a = new_anchor b /\ b_anchor b <> [] /\ has_name (b_anchor b) (g_anchors (gather bs)) = false)).
      { destruct (is_empty (b_anchor b)) eqn:Ee; cbn [negb andb] in Hin; [auto|].
        destruct (has_name (b_anchor b) (g_anchors (gather bs))) eqn:Eh; cbn [negb] in Hin; [auto|].
        apply in_app_or in Hin. destruct Hin as [Hin|[Hin|[]]]; [auto|]. right.
        split; [auto|]. split; [|reflexivity]. intros E. apply is_empty_true in E. congruence. }
      destruct Hcases as [Hold|[Ha [Hne Hh]]].
      * apply IH in Hold. destruct Hold as [Hn [b0 [Hf Hp]]]. split; [assumption|].
        exists b0. split; [apply first_in_page_snoc; assumption | assumption].
      * subst a. cbn [new_anchor aname apos]. split; [assumption|]. exists b. split; [|reflexivity].
        exists bs, []. split; [reflexivity|]. split; [reflexivity|].
        apply Forall_forall. intros b' Hb' E.
        assert (Hin' : In (b_anchor b) (map aname (g_anchors (gather bs)))).
        { apply gather_names. split; [assumption|]. exists b'. auto. }
        apply has_name_In in Hin'. congruence.
    + intros [Hn [b0 [[pre [post [Hsplit [Hname Hpre]]]] Hp]]].
      symmetry in Hsplit. apply snoc_split in Hsplit. destruct Hsplit as [[Hpost [Hpre' Hb0]]|[post' [Hpost Hbs]]].
      * subst pre b0.
        assert (Hh : has_name (b_anchor b) (g_anchors (gather bs)) = false).
        { destruct (has_name (b_anchor b) (g_anchors (gather bs))) eqn:Eh; [|reflexivity].
          apply has_name_In in Eh. apply gather_names in Eh. destruct Eh as [_ [b1 [H1 H2]]].
          rewrite Forall_forall in Hpre. exfalso. apply (Hpre b1 H1). congruence. }
        rewrite Hh. assert (He : is_empty (b_anchor b) = false).
        { destruct (is_empty (b_anchor b)) eqn:E; [|reflexivity]. apply is_empty_true in E. congruence. }
        rewrite He. cbn [negb andb]. apply in_or_app. right. left.
        destruct a as [an ap]. cbn in *. unfold new_anchor. congruence.
      * assert (Hold : In a (g_anchors (gather bs))).
        { apply IH. split; [assumption|]. exists b0. split; [|assumption].
          exists pre, post'. auto. }
        destruct (negb (is_empty (b_anchor b)) && negb (has_name (b_anchor b) (g_anchors (gather bs))));
          [apply in_or_app; auto | assumption].
Qed.

(* ---------------------------------------------------------------- page_anchors *)
Lemma page_anchors_spec : forall it seen,
  NoDup (map aname it) ->
  fst (page_anchors seen it) = filter (fun a => negb (in_set (aname a) seen)) it /\
  (forall n, In n (snd (page_anchors seen it)) <-> In n seen \/ In n (map aname it)).
Proof.
  induction it as [|a r IH]; intros seen Hnd.
  - cbn. split; [reflexivity|]. intros n. tauto.
  - cbn [map] in Hnd. inversion Hnd as [|? ? Ha Hr]; subst.
    cbn [page_anchors filter].
    destruct (in_set (aname a) seen) eqn:Es; cbn [negb].
    + destruct (IH seen Hr) as [IH1 IH2]. split; [assumption|].
      intros n. rewrite IH2. cbn [map In]. apply in_set_In in Es. split.
      * intros [H|H]; auto.
      * intros [H|[H|H]]; auto. subst. auto.
    + destruct (IH (aname a :: seen) Hr) as [IH1 IH2].
      destruct (page_anchors (aname a :: seen) r) as [cur seen'] eqn:Ep. cbn [fst snd] in *.
      split.
      * f_equal. rewrite IH1. apply filter_ext_in. intros x Hx.
        unfold in_set. cbn [existsb]. fold (in_set (aname x) seen).
        replace (name_eqb (aname x) (aname a)) with false; [reflexivity|].
        symmetry. apply name_eqb_neq. intros E. apply Ha. rewrite <- E. apply in_map. assumption.
      * intros n. rewrite IH2. cbn [map In]. tauto.
Qed.

(* ---------------------------------------------------------------- paged_anchors *)
Definition names_of (p : page) : list name := map aname (p_anchors p).

Lemma paged_anchors_spec : forall pages seen,
  Forall (fun p => NoDup (names_of p)) pages ->
  let '(anchors, seenF) := paged_anchors seen pages in
  length anchors = length pages /\
  (forall n, In n seenF <-> In n seen \/ In n (map aname (concat anchors))) /\
  (forall n, In n seenF <-> In n seen \/ exists p, In p pages /\ In n (names_of p)) /\
  (forall j a, In a (nth j anchors []) <->
     exists p, nth_error pages j = Some p /\ In a (p_anchors p) /\ ~ In (aname a) seen /\
       forall i p', (i < j)%nat -> nth_error pages i = Some p' -> ~ In (aname a) (names_of p')) /\
  NoDup (map aname (concat anchors)).
Proof.
  induction pages as [|p ps IH]; intros seen Hnd.
  - cbn. split; [reflexivity|]. split; [intros n; tauto|]. split.
    + intros n. split; [auto|]. intros [H|[p [[] _]]]. assumption.
    + split; [|constructor]. intros j a. split.
      * destruct j; intros [].
      * intros [p [H _]]. destruct j; discriminate.
  - inversion Hnd as [|? ? Hp Hps]; subst.
    cbn [paged_anchors].
    destruct (page_anchors_spec (p_anchors p) seen Hp) as [Hcur Hseen'].
    destruct (page_anchors seen (p_anchors p)) as [cur seen'] eqn:Epa. cbn [fst snd] in *.
    specialize (IH seen' Hps).
    destruct (paged_anchors seen' ps) as [rest seenF] eqn:Eps.
    destruct IH as [IHlen [IHs1 [IHs2 [IHnth IHnd]]]].
    assert (Hcur_in : forall a, In a cur <-> In a (p_anchors p) /\ ~ In (aname a) seen).
    { intros a. rewrite Hcur, filter_In. rewrite negb_true_iff, in_set_false. tauto. }
    split; [cbn; congruence|]. split; [|split; [|split]].
    + intros n. rewrite IHs1, Hseen'. cbn [concat]. rewrite map_app, in_app_iff.
      split.
      * intros [[H|H]|H]; auto.
        destruct (in_dec (list_eq_dec N.eq_dec) n seen) as [Hin|Hnin]; [auto|].
        right. left. unfold names_of in *. apply in_map_iff in H. destruct H as [a [Ha1 Ha2]].
        apply in_map_iff. exists a. split; [assumption|]. apply Hcur_in. split; [assumption|]. rewrite Ha1. assumption.
      * intros [H|[H|H]]; auto.
        left. right. apply in_map_iff in H. destruct H as [a [Ha1 Ha2]].
        apply Hcur_in in Ha2. apply in_map_iff. exists a. tauto.
    + intros n. rewrite IHs2, Hseen'. split.
      * intros [[H|H]|[p' [H1 H2]]]; auto.
        -- right. exists p. split; [left; reflexivity | assumption].
        -- right. exists p'. split; [right; assumption | assumption].
      * intros [H|[p' [[H1|H1] H2]]]; auto.
        -- subst p'. auto.
        -- right. exists p'. auto.
    + intros j a. destruct j as [|j]; cbn [nth nth_error].
      * rewrite Hcur_in. split.
        -- intros [H1 H2]. exists p. split; [reflexivity|]. split; [assumption|]. split; [assumption|].
           intros i p' Hi. lia.
        -- intros [p' [E [H1 [H2 _]]]]. inversion E; subst. auto.
      * rewrite IHnth. split.
        -- intros [p' [E [H1 [H2 H3]]]]. exists p'. split; [assumption|]. split; [assumption|].
           assert (Hns : ~ In (aname a) seen /\ ~ In (aname a) (names_of p)).
           { split; intros H; apply H2; apply Hseen'; auto. }
           split; [tauto|]. intros i p'' Hi Ei. destruct i as [|i]; cbn in Ei.
           ++ inversion Ei; subst. tauto.
           ++ apply (H3 i); [lia | assumption].
        -- intros [p' [E [H1 [H2 H3]]]]. exists p'. split; [assumption|]. split; [assumption|]. split.
           ++ intros H. apply Hseen' in H. destruct H as [H|H]; [contradiction|].
              apply (H3 0%nat p); [lia | reflexivity | assumption].
           ++ intros i p'' Hi Ei. apply (H3 (S i)); [lia | assumption].
    + cbn [concat]. rewrite map_app. apply NoDup_app_intro; [| assumption |].
      * rewrite Hcur. apply NoDup_map_filter. assumption.
      * intros n H1 H2.
        assert (Hs : In n seenF) by (apply IHs1; auto).
        assert (Hs' : In n seen') by (apply Hseen'; right;
          apply in_map_iff in H1; destruct H1 as [a [Ha1 Ha2]]; apply Hcur_in in Ha2;
          apply in_map_iff; exists a; tauto).
        (* every anchor of rest is outside seen' *)
        apply in_map_iff in H2. destruct H2 as [a [Ha1 Ha2]].
        apply in_concat in Ha2. destruct Ha2 as [l [Hl Hal]].
        apply In_nth with (d := []) in Hl. destruct Hl as [k [Hk Ek]].
        assert (Hnth : In a (nth k rest [])) by (rewrite Ek; assumption).
        apply IHnth in Hnth. destruct Hnth as [_ [_ [_ [Hnot _]]]]. apply Hnot. congruence.
Qed.
