(* Draw/LinksProofs.v -- the model of Draw/Links.v meets Draw/LinksSpec.v. *)
From Verif Require Import Draw.Links Draw.LinksSpec.
From Coq Require Import List Permutation Bool NArith Lia.
Import ListNotations.

(* ---------------------------------------------------------------- lists *)
Lemma NoDup_app_snoc : forall {A} (l : list A) x, NoDup l -> ~ In x l -> NoDup (l ++ [x]).
Proof.
  induction l as [|a l IH]; intros x Hnd Hx; cbn.
  - constructor; [intros []|constructor].
  - inversion Hnd as [|? ? Ha Hl]; subst. constructor.
    + rewrite in_app_iff. cbn. intros [H|[H|[]]]; [contradiction|]. subst. apply Hx. left. reflexivity.
    + apply IH; [assumption|]. intros H. apply Hx. right. assumption.
Qed.

Lemma NoDup_app_intro : forall {A} (l1 l2 : list A),
  NoDup l1 -> NoDup l2 -> (forall x, In x l1 -> In x l2 -> False) -> NoDup (l1 ++ l2).
Proof.
  induction l1 as [|a l1 IH]; intros l2 H1 H2 Hd; cbn; [assumption|].
  inversion H1 as [|? ? Ha Hl]; subst. constructor.
  - rewrite in_app_iff. intros [H|H]; [contradiction|]. apply (Hd a); [left; reflexivity | assumption].
  - apply IH; [assumption | assumption |]. intros x Hx1 Hx2. apply (Hd x); [right; assumption | assumption].
Qed.

Lemma NoDup_map_filter : forall {A B} (f : A -> B) (p : A -> bool) (l : list A),
  NoDup (map f l) -> NoDup (map f (filter p l)).
Proof.
  induction l as [|a l IH]; intros H; cbn; [constructor|].
  cbn in H. inversion H as [|? ? Ha Hl]; subst.
  destruct (p a); cbn; [|auto]. constructor; [|auto].
  intros Hin. apply Ha. apply in_map_iff in Hin. destruct Hin as [x [Hx1 Hx2]].
  apply filter_In in Hx2. apply in_map_iff. exists x. tauto.
Qed.

(* ---------------------------------------------------------------- names *)
Lemma name_eqb_eq : forall a b, name_eqb a b = true <-> a = b.
Proof.
  induction a as [|x a IH]; destruct b as [|y b]; cbn; split; intros H; try discriminate; auto.
  - apply andb_true_iff in H. destruct H as [H1 H2].
    apply N.eqb_eq in H1. apply IH in H2. congruence.
  - inversion H; subst. rewrite N.eqb_refl. cbn. apply IH. reflexivity.
Qed.

Lemma name_eqb_refl : forall a, name_eqb a a = true.
Proof. intros a. apply name_eqb_eq. reflexivity. Qed.

Lemma name_eqb_neq : forall a b, name_eqb a b = false <-> a <> b.
Proof.
  intros a b. split.
  - intros H E. apply name_eqb_eq in E. congruence.
  - intros H. destruct (name_eqb a b) eqn:E; auto. apply name_eqb_eq in E. contradiction.
Qed.

Lemma is_empty_true : forall n, is_empty n = true <-> n = [].
Proof. destruct n; cbn; split; intros; congruence. Qed.

Lemma in_set_In : forall n s, in_set n s = true <-> In n s.
Proof.
  intros n s. unfold in_set. rewrite existsb_exists. split.
  - intros [x [Hx He]]. apply name_eqb_eq in He. subst. assumption.
  - intros H. exists n. split; [assumption | apply name_eqb_refl].
Qed.

Lemma in_set_false : forall n s, in_set n s = false <-> ~ In n s.
Proof.
  intros n s. rewrite <- in_set_In. destruct (in_set n s); split; intros H; congruence.
Qed.

Lemma has_name_In : forall n m, has_name n m = true <-> In n (map aname m).
Proof.
  intros n m. unfold has_name. rewrite existsb_exists, in_map_iff. split.
  - intros [a [Ha He]]. apply name_eqb_eq in He. exists a. auto.
  - intros [a [He Ha]]. exists a. split; [assumption|]. apply name_eqb_eq. assumption.
Qed.

(* ---------------------------------------------------------------- gather *)
Lemma gather_snoc : forall bs b, gather (bs ++ [b]) = gather_box (gather bs) b.
Proof. intros bs b. unfold gather. rewrite fold_left_app. reflexivity. Qed.

Lemma gather_links : forall bs, g_links (gather bs) = page_links bs.
Proof.
  induction bs as [|b bs IH] using rev_ind; [reflexivity|].
  rewrite gather_snoc. unfold page_links in *. rewrite flat_map_app. cbn [flat_map].
  rewrite app_nil_r. rewrite <- IH. unfold gather_box, box_link. cbn [g_links].
  destruct (b_link b) as [[ty t]|]; [|rewrite app_nil_r; reflexivity].
  destruct (b_textline b); [rewrite app_nil_r; reflexivity | reflexivity].
Qed.

Definition new_anchor (b : box) : anchor := mkanchor (b_anchor b) (b_pos b).

Lemma gather_anchors_snoc : forall bs b,
  g_anchors (gather (bs ++ [b])) =
  if negb (is_empty (b_anchor b)) && negb (has_name (b_anchor b) (g_anchors (gather bs)))
  then g_anchors (gather bs) ++ [new_anchor b] else g_anchors (gather bs).
Proof.
  intros bs b. rewrite gather_snoc. unfold gather_box. cbn [g_anchors].
  destruct (negb (is_empty (b_anchor b)) && negb (has_name (b_anchor b) (g_anchors (gather bs)))); reflexivity.
Qed.

(* names of the gathered anchors = non-empty anchor names of the boxes *)
Lemma gather_names : forall bs n,
  In n (map aname (g_anchors (gather bs))) <-> n <> [] /\ exists b, In b bs /\ b_anchor b = n.
Proof.
  induction bs as [|b bs IH] using rev_ind; intros n.
  - cbn. split; [tauto|]. intros [_ [b [[] _]]].
  - rewrite gather_anchors_snoc.
    destruct (is_empty (b_anchor b)) eqn:Ee; cbn [negb andb].
    + apply is_empty_true in Ee. rewrite IH. split.
      * intros [Hn [b0 [Hin He]]]. split; [assumption|]. exists b0. split; [apply in_or_app; auto | assumption].
      * intros [Hn [b0 [Hin He]]]. split; [assumption|]. apply in_app_or in Hin.
        destruct Hin as [Hin|[Hin|[]]]; [eauto|]. subst b0. congruence.
    + assert (Hne : b_anchor b <> []) by (intros E; apply is_empty_true in E; congruence).
      destruct (has_name (b_anchor b) (g_anchors (gather bs))) eqn:Eh; cbn [negb].
      * apply has_name_In in Eh. rewrite IH. split.
        -- intros [Hn [b0 [Hin He]]]. split; [assumption|]. exists b0. split; [apply in_or_app; auto | assumption].
        -- intros [Hn [b0 [Hin He]]]. split; [assumption|]. apply in_app_or in Hin.
           destruct Hin as [Hin|[Hin|[]]]; [eauto|]. subst b0.
           apply IH in Eh. destruct Eh as [_ [b1 [H1 H2]]]. exists b1. split; congruence.
      * rewrite map_app, in_app_iff, IH. cbn. split.
        -- intros [[Hn [b0 [Hin He]]]|[He|[]]].
           ++ split; [assumption|]. exists b0. split; [apply in_or_app; auto | assumption].
           ++ subst n. split; [assumption|]. exists b. split; [apply in_or_app; cbn; auto | reflexivity].
        -- intros [Hn [b0 [Hin He]]]. apply in_app_or in Hin. destruct Hin as [Hin|[Hin|[]]].
           ++ left. split; [assumption|]. eauto.
           ++ subst b0. right. left. assumption.
Qed.

Lemma gather_nodup : forall bs, NoDup (map aname (g_anchors (gather bs))).
Proof.
  induction bs as [|b bs IH] using rev_ind; [constructor|].
  rewrite gather_anchors_snoc.
  destruct (negb (is_empty (b_anchor b)) && negb (has_name (b_anchor b) (g_anchors (gather bs)))) eqn:E; [|assumption].
  apply andb_true_iff in E. destruct E as [_ E]. apply negb_true_iff in E.
  rewrite map_app. cbn. apply NoDup_app_snoc; [assumption|].
  intros H. apply has_name_In in H. congruence.
Qed.

Lemma snoc_split : forall {A} (post pre : list A) b0 bs b,
  pre ++ b0 :: post = bs ++ [b] ->
  (post = [] /\ pre = bs /\ b0 = b) \/ (exists post', post = post' ++ [b] /\ bs = pre ++ b0 :: post').
Proof.
  intros A post. induction post as [|x post' _] using rev_ind; intros pre b0 bs b H.
  - left. apply app_inj_tail in H. destruct H. auto.
  - right. exists post'.
    assert (H' : (pre ++ b0 :: post') ++ [x] = bs ++ [b]) by (rewrite <- app_assoc; exact H).
    apply app_inj_tail in H'. destruct H' as [H1 H2]. subst. auto.
Qed.

Lemma first_in_page_snoc : forall bs b n b0,
  first_in_page bs n b0 -> first_in_page (bs ++ [b]) n b0.
Proof.
  intros bs b n b0 [pre [post [H1 [H2 H3]]]]. exists pre, (post ++ [b]).
  split; [|auto]. subst bs. rewrite <- app_assoc. reflexivity.
Qed.

Lemma gather_anchor_iff : forall bs a,
  In a (g_anchors (gather bs)) <->
  aname a <> [] /\ exists b, first_in_page bs (aname a) b /\ apos a = b_pos b.
Proof.
  induction bs as [|b bs IH] using rev_ind; intros a.
  - cbn. split; [tauto|]. intros [_ [b [[pre [post [H _]]] _]]].
    apply app_cons_not_nil in H. contradiction.
  - rewrite gather_anchors_snoc. split.
    + intros Hin.
      assert (Hcases : In a (g_anchors (gather bs)) \/
                       (a = new_anchor b /\ b_anchor b <> [] /\ has_name (b_anchor b) (g_anchors (gather bs)) = false)).
      { destruct (is_empty (b_anchor b)) eqn:Ee; cbn [negb andb] in Hin; [auto|].
        destruct (has_name (b_anchor b) (g_anchors (gather bs))) eqn:Eh; cbn [negb] in Hin; [auto|].
        apply in_app_or in Hin. destruct Hin as [Hin|[Hin|[]]]; [auto|]. right.
        split; [auto|]. split; [|reflexivity]. intros E. apply is_empty_true in E. congruence. }
      destruct Hcases as [Hold|[Ha [Hne Hh]]].
      * apply IH in Hold. destruct Hold as [Hn [b0 [Hf Hp]]]. split; [assumption|].
        exists b0. split; [apply first_in_page_snoc; assumption | assumption].
      * subst a. cbn [new_anchor aname apos]. split; [assumption|]. exists b. split; [|reflexivity].
        exists bs, []. split; [reflexivity|]. split; [reflexivity|].
        apply Forall_forall. intros b' Hb' E.
        assert (Hin' : In (b_anchor b) (map aname (g_anchors (gather bs)))).
        { apply gather_names. split; [assumption|]. exists b'. auto. }
        apply has_name_In in Hin'. congruence.
    + intros [Hn [b0 [[pre [post [Hsplit [Hname Hpre]]]] Hp]]].
      symmetry in Hsplit. apply snoc_split in Hsplit. destruct Hsplit as [[Hpost [Hpre' Hb0]]|[post' [Hpost Hbs]]].
      * subst pre b0.
        assert (Hh : has_name (b_anchor b) (g_anchors (gather bs)) = false).
        { destruct (has_name (b_anchor b) (g_anchors (gather bs))) eqn:Eh; [|reflexivity].
          apply has_name_In in Eh. apply gather_names in Eh. destruct Eh as [_ [b1 [H1 H2]]].
          rewrite Forall_forall in Hpre. exfalso. apply (Hpre b1 H1). congruence. }
        rewrite Hh. assert (He : is_empty (b_anchor b) = false).
        { destruct (is_empty (b_anchor b)) eqn:E; [|reflexivity]. apply is_empty_true in E. congruence. }
        rewrite He. cbn [negb andb]. apply in_or_app. right. left.
        destruct a as [an ap]. cbn in *. unfold new_anchor. congruence.
      * assert (Hold : In a (g_anchors (gather bs))).
        { apply IH. split; [assumption|]. exists b0. split; [|assumption].
          exists pre, post'. auto. }
        destruct (negb (is_empty (b_anchor b)) && negb (has_name (b_anchor b) (g_anchors (gather bs))));
          [apply in_or_app; auto | assumption].
Qed.

(* ---------------------------------------------------------------- page_anchors *)
Lemma page_anchors_spec : forall it seen,
  NoDup (map aname it) ->
  fst (page_anchors seen it) = filter (fun a => negb (in_set (aname a) seen)) it /\
  (forall n, In n (snd (page_anchors seen it)) <-> In n seen \/ In n (map aname it)).
Proof.
  induction it as [|a r IH]; intros seen Hnd.
  - cbn. split; [reflexivity|]. intros n. tauto.
  - cbn [map] in Hnd. inversion Hnd as [|? ? Ha Hr]; subst.
    cbn [page_anchors filter].
    destruct (in_set (aname a) seen) eqn:Es; cbn [negb].
    + destruct (IH seen Hr) as [IH1 IH2]. split; [assumption|].
      intros n. rewrite IH2. cbn [map In]. apply in_set_In in Es. split.
      * intros [H|H]; auto.
      * intros [H|[H|H]]; auto. subst. auto.
    + destruct (IH (aname a :: seen) Hr) as [IH1 IH2].
      destruct (page_anchors (aname a :: seen) r) as [cur seen'] eqn:Ep. cbn [fst snd] in *.
      split.
      * f_equal. rewrite IH1. apply filter_ext_in. intros x Hx.
        unfold in_set. cbn [existsb]. fold (in_set (aname x) seen).
        replace (name_eqb (aname x) (aname a)) with false; [reflexivity|].
        symmetry. apply name_eqb_neq. intros E. apply Ha. rewrite <- E. apply in_map. assumption.
      * intros n. rewrite IH2. cbn [map In]. tauto.
Qed.

(* ---------------------------------------------------------------- paged_anchors *)
Definition names_of (p : page) : list name := map aname (p_anchors p).

Lemma paged_anchors_spec : forall pages seen,
  Forall (fun p => NoDup (names_of p)) pages ->
  let '(anchors, seenF) := paged_anchors seen pages in
  length anchors = length pages /\
  (forall n, In n seenF <-> In n seen \/ In n (map aname (concat anchors))) /\
  (forall n, In n seenF <-> In n seen \/ exists p, In p pages /\ In n (names_of p)) /\
  (forall j a, In a (nth j anchors []) <->
     exists p, nth_error pages j = Some p /\ In a (p_anchors p) /\ ~ In (aname a) seen /\
       forall i p', (i < j)%nat -> nth_error pages i = Some p' -> ~ In (aname a) (names_of p')) /\
  NoDup (map aname (concat anchors)).
Proof.
  induction pages as [|p ps IH]; intros seen Hnd.
  - cbn. split; [reflexivity|]. split; [intros n; tauto|]. split.
    + intros n. split; [auto|]. intros [H|[p [[] _]]]. assumption.
    + split; [|constructor]. intros j a. split.
      * destruct j; intros [].
      * intros [p [H _]]. destruct j; discriminate.
  - inversion Hnd as [|? ? Hp Hps]; subst.
    cbn [paged_anchors].
    destruct (page_anchors_spec (p_anchors p) seen Hp) as [Hcur Hseen'].
    destruct (page_anchors seen (p_anchors p)) as [cur seen'] eqn:Epa. cbn [fst snd] in *.
    specialize (IH seen' Hps).
    destruct (paged_anchors seen' ps) as [rest seenF] eqn:Eps.
    destruct IH as [IHlen [IHs1 [IHs2 [IHnth IHnd]]]].
    assert (Hcur_in : forall a, In a cur <-> In a (p_anchors p) /\ ~ In (aname a) seen).
    { intros a. rewrite Hcur, filter_In. rewrite negb_true_iff, in_set_false. tauto. }
    split; [cbn; congruence|]. split; [|split; [|split]].
    + intros n. rewrite IHs1, Hseen'. cbn [concat]. rewrite map_app, in_app_iff.
      split.
      * intros [[H|H]|H]; auto.
        destruct (in_dec (list_eq_dec N.eq_dec) n seen) as [Hin|Hnin]; [auto|].
        right. left. unfold names_of in *. apply in_map_iff in H. destruct H as [a [Ha1 Ha2]].
        apply in_map_iff. exists a. split; [assumption|]. apply Hcur_in. split; [assumption|]. rewrite Ha1. assumption.
      * intros [H|[H|H]]; auto.
        left. right. apply in_map_iff in H. destruct H as [a [Ha1 Ha2]].
        apply Hcur_in in Ha2. apply in_map_iff. exists a. tauto.
    + intros n. rewrite IHs2, Hseen'. split.
      * intros [[H|H]|[p' [H1 H2]]]; auto.
        -- right. exists p. split; [left; reflexivity | assumption].
        -- right. exists p'. split; [right; assumption | assumption].
      * intros [H|[p' [[H1|H1] H2]]]; auto.
        -- subst p'. auto.
        -- right. exists p'. auto.
    + intros j a. destruct j as [|j]; cbn [nth nth_error].
      * rewrite Hcur_in. split.
        -- intros [H1 H2]. exists p. split; [reflexivity|]. split; [assumption|]. split; [assumption|].
           intros i p' Hi. lia.
        -- intros [p' [E [H1 [H2 _]]]]. inversion E; subst. auto.
      * rewrite IHnth. split.
        -- intros [p' [E [H1 [H2 H3]]]]. exists p'. split; [assumption|]. split; [assumption|].
           assert (Hns : ~ In (aname a) seen /\ ~ In (aname a) (names_of p)).
           { split; intros H; apply H2; apply Hseen'; auto. }
           split; [tauto|]. intros i p'' Hi Ei. destruct i as [|i]; cbn in Ei.
           ++ inversion Ei; subst. tauto.
           ++ apply (H3 i); [lia | assumption].
        -- intros [p' [E [H1 [H2 H3]]]]. exists p'. split; [assumption|]. split; [assumption|]. split.
           ++ intros H. apply Hseen' in H. destruct H as [H|H]; [contradiction|].
              apply (H3 0%nat p); [lia | reflexivity | assumption].
           ++ intros i p'' Hi Ei. apply (H3 (S i)); [lia | assumption].
    + cbn [concat]. rewrite map_app. apply NoDup_app_intro; [| assumption |].
      * rewrite Hcur. apply NoDup_map_filter. assumption.
      * intros n H1 H2.
        assert (Hs : In n seenF) by (apply IHs1; auto).
        assert (Hs' : In n seen') by (apply Hseen'; right;
          apply in_map_iff in H1; destruct H1 as [a [Ha1 Ha2]]; apply Hcur_in in Ha2;
          apply in_map_iff; exists a; tauto).
        (* every anchor of rest is outside seen' *)
        apply in_map_iff in H2. destruct H2 as [a [Ha1 Ha2]].
        apply in_concat in Ha2. destruct Ha2 as [l [Hl Hal]].
        apply In_nth with (d := []) in Hl. destruct Hl as [k [Hk Ek]].
        assert (Hnth : In a (nth k rest [])) by (rewrite Ek; assumption).
        apply IHnth in Hnth. destruct Hnth as [_ [_ [_ [Hnot _]]]]. apply Hnot. congruence.
Qed.

(* ---------------------------------------------------------------- Forall2 helpers *)
Lemma Forall2_nth_l : forall {A B} (R : A -> B -> Prop) l l' i a,
  Forall2 R l l' -> nth_error l i = Some a -> exists b, nth_error l' i = Some b /\ R a b.
Proof.
  intros A B R l l' i a H. revert i a. induction H as [|x y l l' Hxy H IH]; intros i a E.
  - destruct i; discriminate.
  - destruct i as [|i]; cbn in *.
    + inversion E; subst. eauto.
    + apply IH. assumption.
Qed.

Lemma Forall2_nth_r : forall {A B} (R : A -> B -> Prop) l l' i b,
  Forall2 R l l' -> nth_error l' i = Some b -> exists a, nth_error l i = Some a /\ R a b.
Proof.
  intros A B R l l' i b H. revert i b. induction H as [|x y l l' Hxy H IH]; intros i b E.
  - destruct i; discriminate.
  - destruct i as [|i]; cbn in *.
    + inversion E; subst. eauto.
    + apply IH. assumption.
Qed.

Lemma Forall2_len : forall {A B} (R : A -> B -> Prop) l l', Forall2 R l l' -> length l = length l'.
Proof. intros A B R l l' H. induction H; cbn; congruence. Qed.

Lemma Forall2_In_l : forall {A B} (R : A -> B -> Prop) l l' a,
  Forall2 R l l' -> In a l -> exists b, In b l' /\ R a b.
Proof.
  intros A B R l l' a H Hin. apply In_nth_error in Hin. destruct Hin as [i Hi].
  destruct (Forall2_nth_l R l l' i a H Hi) as [b [Hb1 Hb2]]. exists b. split; [|assumption].
  eapply nth_error_In. eassumption.
Qed.

Lemma Forall2_In_r : forall {A B} (R : A -> B -> Prop) l l' b,
  Forall2 R l l' -> In b l' -> exists a, In a l /\ R a b.
Proof.
  intros A B R l l' b H Hin. apply In_nth_error in Hin. destruct Hin as [i Hi].
  destruct (Forall2_nth_r R l l' i b H Hi) as [a [Ha1 Ha2]]. exists a. split; [|assumption].
  eapply nth_error_In. eassumption.
Qed.

(* ---------------------------------------------------------------- pages built from boxes *)
Lemma page_for_in : forall bs p a, page_for bs p -> (In a (p_anchors p) <-> In a (g_anchors (gather bs))).
Proof.
  intros bs p a [Hp _]. split; intros H.
  - eapply Permutation_in; eassumption.
  - eapply Permutation_in; [apply Permutation_sym|]; eassumption.
Qed.

Lemma page_for_names : forall bs p n, page_for bs p ->
  (In n (names_of p) <-> n <> [] /\ exists b, In b bs /\ b_anchor b = n).
Proof.
  intros bs p n Hp. rewrite <- gather_names. unfold names_of. destruct Hp as [Hp _]. split; intros H.
  - eapply Permutation_in; [apply Permutation_map|]; eassumption.
  - eapply Permutation_in; [apply Permutation_map; apply Permutation_sym|]; eassumption.
Qed.

Lemma page_for_nodup : forall bs p, page_for bs p -> NoDup (names_of p).
Proof.
  intros bs p [Hp _]. unfold names_of.
  eapply Permutation_NoDup; [apply Permutation_map; apply Permutation_sym; eassumption|].
  apply gather_nodup.
Qed.

Lemma definedb_spec : forall bpages n, definedb bpages n = true <-> defined bpages n.
Proof.
  intros bpages n. unfold definedb, defined. rewrite andb_true_iff, negb_true_iff, existsb_exists.
  split.
  - intros [He [bs [Hbs Hex]]]. apply existsb_exists in Hex. destruct Hex as [b [Hb Hn]].
    apply name_eqb_eq in Hn. split.
    + intros E. apply is_empty_true in E. congruence.
    + exists bs, b. auto.
  - intros [Hn [bs [b [Hbs [Hb He]]]]]. split.
    + destruct (is_empty n) eqn:E; [|reflexivity]. apply is_empty_true in E. contradiction.
    + exists bs. split; [assumption|]. apply existsb_exists. exists b. split; [assumption|].
      apply name_eqb_eq. assumption.
Qed.

Lemma filter_links_forall2 : forall (f g : link -> bool) bpages pages,
  pages_for bpages pages -> (forall l, g l = f l) ->
  Forall2 (fun bs out => out = filter f (page_links bs)) bpages
          (map (fun p => filter g (p_links p)) pages).
Proof.
  intros f g bpages pages HF Hfg.
  induction HF as [|bs p bpages' pages' Hbp HF IH]; cbn; constructor.
  - destruct Hbp as [_ Hl]. rewrite Hl, gather_links. apply filter_ext. assumption.
  - apply IH.
Qed.

(* all the facts about resolve, for pages obtained from boxes *)
Lemma resolve_facts : forall bpages pages, pages_for bpages pages ->
  let '(links, anchors) := resolve pages in
  anchors_are_first_defs bpages anchors /\
  NoDup (map aname (concat anchors)) /\
  (forall n, defined bpages n <-> In n (map aname (concat anchors))) /\
  only_dangling_dropped bpages links.
Proof.
  intros bpages pages HF. unfold resolve.
  assert (Hnd : Forall (fun p => NoDup (names_of p)) pages).
  { apply Forall_forall. intros p Hp. destruct (Forall2_In_r _ _ _ _ HF Hp) as [bs [_ Hbs]].
    eapply page_for_nodup. eassumption. }
  pose proof (paged_anchors_spec pages [] Hnd) as Hspec.
  destruct (paged_anchors [] pages) as [anchors seenF].
  destruct Hspec as [Hlen [Hs1 [Hs2 [Hnth Hnodup]]]].
  assert (Hdef : forall n, defined bpages n <-> In n seenF).
  { intros n. rewrite Hs2. unfold defined. split.
    - intros [Hn [bs [b [Hbs [Hb He]]]]]. right.
      destruct (Forall2_In_l _ _ _ _ HF Hbs) as [p [Hp Hbp]]. exists p. split; [assumption|].
      eapply page_for_names; [eassumption|]. split; [assumption|]. eauto.
    - intros [[]|[p [Hp Hn]]].
      destruct (Forall2_In_r _ _ _ _ HF Hp) as [bs [Hbs Hbp]].
      apply (page_for_names bs p n Hbp) in Hn. destruct Hn as [Hn [b [Hb He]]].
      split; [assumption|]. exists bs, b. auto. }
  split; [|split; [assumption|split]].
  - split.
    + rewrite Hlen. symmetry. eapply Forall2_len. eassumption.
    + intros j a. rewrite Hnth. split.
      * intros [p [Ej [Hin [_ Hbefore]]]].
        destruct (Forall2_nth_r _ _ _ _ _ HF Ej) as [bs [Ebs Hbp]].
        apply (page_for_in bs p a Hbp) in Hin. apply gather_anchor_iff in Hin.
        destruct Hin as [Hne [b [Hfirst Hpos]]]. exists b. split; [|assumption].
        split; [assumption|]. exists bs. split; [assumption|]. split; [assumption|].
        intros i bs' Hi Ei. destruct (Forall2_nth_l _ _ _ _ _ HF Ei) as [p' [Ep' Hbp']].
        specialize (Hbefore i p' Hi Ep'). apply Forall_forall. intros b' Hb' E.
        apply Hbefore. eapply page_for_names; [eassumption|]. split; [assumption|]. eauto.
      * intros [b [[Hne [bs [Ebs [Hfirst Hbefore]]]] Hpos]].
        destruct (Forall2_nth_l _ _ _ _ _ HF Ebs) as [p [Ep Hbp]].
        exists p. split; [assumption|]. split.
        -- apply (page_for_in bs p a Hbp). apply gather_anchor_iff. split; [assumption|]. eauto.
        -- split; [intros []|]. intros i p' Hi Ep' Hin.
           destruct (Forall2_nth_r _ _ _ _ _ HF Ep') as [bs' [Ebs' Hbp']].
           apply (page_for_names bs' p' _ Hbp') in Hin. destruct Hin as [_ [b' [Hb' E]]].
           specialize (Hbefore i bs' Hi Ebs'). rewrite Forall_forall in Hbefore.
           apply (Hbefore b' Hb'). assumption.
  - intros n. rewrite Hdef, Hs1. cbn. tauto.
  - assert (Hkeep : forall l, keep_link seenF l = keep_spec bpages l).
    { intros l. unfold keep_link, keep_spec. destruct (ltyp l); try reflexivity.
      destruct (definedb bpages (ltarget l)) eqn:E.
      - apply in_set_In. apply Hdef. apply definedb_spec. assumption.
      - apply in_set_false. intros H. apply Hdef in H. apply definedb_spec in H. congruence. }
    unfold only_dangling_dropped. apply filter_links_forall2; assumption.
Qed.

(* ---------------------------------------------------------------- first definitions are unique *)
Lemma first_in_page_fun : forall bs n b b',
  first_in_page bs n b -> first_in_page bs n b' -> b = b'.
Proof.
  intros bs n b b' [pre [post [H1 [H2 H3]]]] [pre' [post' [H1' [H2' H3']]]].
  subst bs. revert pre' H1' H3'. induction pre as [|x pre IH]; intros pre' H1' H3'.
  - destruct pre' as [|y pre']; cbn in H1'.
    + inversion H1'. reflexivity.
    + inversion H1'; subst. inversion H3' as [|? ? Hy _]; subst. contradiction.
  - destruct pre' as [|y pre']; cbn in H1'.
    + inversion H1'; subst. inversion H3 as [|? ? Hx _]; subst. contradiction.
    + inversion H1'; subst. inversion H3; subst. inversion H3'; subst. eapply IH; eassumption.
Qed.

Lemma first_in_page_in : forall bs n b, first_in_page bs n b -> In b bs /\ b_anchor b = n.
Proof. intros bs n b [pre [post [H1 [H2 _]]]]. subst bs. split; [apply in_elt | assumption]. Qed.

Lemma first_def_fun : forall bpages n j b j' b',
  first_def bpages n j b -> first_def bpages n j' b' -> j = j' /\ b = b'.
Proof.
  intros bpages n j b j' b' [_ [bs [E [Hf Hb]]]] [_ [bs' [E' [Hf' Hb']]]].
  destruct (Nat.lt_trichotomy j j') as [Hlt|[Heq|Hgt]].
  - exfalso. specialize (Hb' j bs Hlt E). apply first_in_page_in in Hf. destruct Hf as [Hin Hn].
    rewrite Forall_forall in Hb'. apply (Hb' b Hin). assumption.
  - subst j'. rewrite E in E'. inversion E'; subst. split; [reflexivity|].
    eapply first_in_page_fun; eassumption.
  - exfalso. specialize (Hb j' bs' Hgt E'). apply first_in_page_in in Hf'. destruct Hf' as [Hin Hn].
    rewrite Forall_forall in Hb. apply (Hb b' Hin). assumption.
Qed.

Lemma Forall2_fun_eq : forall {A B} (F : A -> B) l ls ls',
  Forall2 (fun a b => b = F a) l ls -> Forall2 (fun a b => b = F a) l ls' -> ls = ls'.
Proof.
  intros A B F l ls ls' H. revert ls'. induction H as [|a b l ls Hb H IH]; intros ls' H';
    inversion H'; subst; [reflexivity|]. f_equal. apply IH. assumption.
Qed.

(* ---------------------------------------------------------------- theorems *)
Theorem resolve_anchors_first_defs : forall bpages pages, pages_for bpages pages ->
  anchors_are_first_defs bpages (snd (resolve pages)) /\
  NoDup (map aname (concat (snd (resolve pages)))).
Proof.
  intros bpages pages HF. pose proof (resolve_facts bpages pages HF) as H.
  destruct (resolve pages) as [links anchors]. cbn. tauto.
Qed.

Theorem resolve_only_dangling_dropped : forall bpages pages, pages_for bpages pages ->
  only_dangling_dropped bpages (fst (resolve pages)).
Proof.
  intros bpages pages HF. pose proof (resolve_facts bpages pages HF) as H.
  destruct (resolve pages) as [links anchors]. cbn. tauto.
Qed.

Theorem resolve_links_consistent : forall bpages pages, pages_for bpages pages ->
  each_internal_link_has_unique_first_anchor bpages (fst (resolve pages)) (snd (resolve pages)).
Proof.
  intros bpages pages HF. pose proof (resolve_facts bpages pages HF) as H.
  destruct (resolve pages) as [links anchors]. cbn [fst snd].
  destruct H as [[Hlen Hiff] [Hnd [Hdef Hdrop]]].
  intros i out l Ei Hl Hint.
  destruct (Forall2_nth_r _ _ _ _ _ Hdrop Ei) as [bs [Ebs Hout]]. subst out.
  apply filter_In in Hl. destruct Hl as [_ Hkeep]. unfold keep_spec in Hkeep. rewrite Hint in Hkeep.
  apply definedb_spec in Hkeep. apply Hdef in Hkeep.
  apply in_map_iff in Hkeep. destruct Hkeep as [a [Ha Hin]].
  apply in_concat in Hin. destruct Hin as [la [Hla Hain]].
  apply In_nth with (d := []) in Hla. destruct Hla as [j [Hj Ej]].
  assert (Hnth : In a (nth j anchors [])) by (rewrite Ej; assumption).
  pose proof Hnth as Hfd. apply Hiff in Hfd. destruct Hfd as [b [Hfd Hpos]].
  exists j, a, b. split; [assumption|]. split; [assumption|]. rewrite <- Ha.
  split; [assumption|]. split; [assumption|].
  intros j' a' Hin' Hname'. apply Hiff in Hin'. destruct Hin' as [b' [Hfd' Hpos']].
  rewrite Hname' in Hfd'.
  destruct (first_def_fun _ _ _ _ _ _ Hfd' Hfd) as [Hj' Hb']. split; [assumption|]. subst b'.
  destruct a as [an ap], a' as [an' ap']. cbn in *. congruence.
Qed.

(* the enumeration order of the page maps only permutes the anchors of each page *)
Theorem resolve_order_irrelevant : forall bpages pages pages',
  pages_for bpages pages -> pages_for bpages pages' ->
  fst (resolve pages) = fst (resolve pages') /\
  Forall2 (fun l l' => forall a, In a l <-> In a l') (snd (resolve pages)) (snd (resolve pages')).
Proof.
  intros bpages pages pages' HF HF'.
  pose proof (resolve_facts bpages pages HF) as H. pose proof (resolve_facts bpages pages' HF') as H'.
  destruct (resolve pages) as [links anchors]. destruct (resolve pages') as [links' anchors'].
  cbn [fst snd]. destruct H as [[Hlen Hiff] [_ [_ Hdrop]]]. destruct H' as [[Hlen' Hiff'] [_ [_ Hdrop']]].
  split.
  - unfold only_dangling_dropped in *.
    exact (Forall2_fun_eq (fun bs => filter (keep_spec bpages) (page_links bs)) bpages links links' Hdrop Hdrop').
  - assert (Hl : length anchors = length anchors') by congruence.
    clear - Hl Hiff Hiff'.
    assert (Hn : forall j a, In a (nth j anchors []) <-> In a (nth j anchors' [])).
    { intros j a. rewrite Hiff, Hiff'. tauto. }
    clear Hiff Hiff'. revert anchors' Hl Hn. induction anchors as [|x anchors IH]; intros [|y anchors'] Hl Hn;
      try discriminate; constructor.
    + intros a. apply (Hn 0%nat a).
    + apply IH; [cbn in Hl; congruence|]. intros j a. apply (Hn (S j) a).
Qed.

(* the model's own enumeration (insertion order) is one of them *)
Lemma pages_for_self : forall bpages,
  pages_for bpages (map (fun bs => let g := gather bs in page_of g (g_anchors g)) bpages).
Proof.
  induction bpages as [|bs bpages IH]; cbn; constructor; [|assumption].
  split; cbn; [apply Permutation_refl | reflexivity].
Qed.
