(* Draw/ProtocolMore.v -- monotonicity laws of the backend protocol automaton. *)
From Verif Require Import Draw.Protocol.
From Coq Require Import Lia.
Open Scope N_scope.

Lemma effect_closed_mono : forall st c, closed st = true -> closed (effect st c) = true.
Proof.
  intros st c Hc. destruct c; cbn [effect]; try exact Hc; cbn; try exact Hc; try reflexivity.
  all: try (destruct (lookup _ (canv st)); cbn; exact Hc).
  destruct (mem g (dirty st)); cbn; exact Hc.
Qed.

Lemma effect_npages_mono : forall st c, npages st <= npages (effect st c).
Proof.
  intros st c. destruct c; cbn [effect]; cbn; try lia.
  all: try (destruct (lookup _ (canv st)); cbn; lia).
  destruct (mem g (dirty st)); cbn; lia.
Qed.

Theorem run_closed_mono : forall t st st',
  run st t = Some st' -> closed st = true -> closed st' = true.
Proof.
  induction t as [|c r IH]; intros st st' Hr Hc; cbn [run] in Hr.
  - inversion Hr; subst; exact Hc.
  - unfold step in Hr. destruct (guard st c =? 0); [|discriminate].
    eapply IH; [exact Hr|]. apply effect_closed_mono; exact Hc.
Qed.

Theorem run_npages_mono : forall t st st',
  run st t = Some st' -> npages st <= npages st'.
Proof.
  induction t as [|c r IH]; intros st st' Hr; cbn [run] in Hr.
  - inversion Hr; subst; lia.
  - unfold step in Hr. destruct (guard st c =? 0); [|discriminate].
    apply IH in Hr. pose proof (effect_npages_mono st c). lia.
Qed.

(* once a document-level call has been accepted, no later AddPage is accepted *)
Theorem no_addpage_after_doc : forall t st st' k a,
  run st t = Some st' -> closed st = true -> run st (t ++ [CAddPage k a]) = None.
Proof.
  induction t as [|c r IH]; intros st st' k a Hr Hc; cbn [run app] in *.
  - unfold step, guard. cbn [call_canvas call_group exists_canvas negb call_nums].
    destruct (nums_ok a); cbn; [|reflexivity]. unfold guard_kind. rewrite Hc. reflexivity.
  - unfold step in *. destruct (guard st c =? 0); [|discriminate].
    eapply IH; [exact Hr|]. apply effect_closed_mono; exact Hc.
Qed.
