(* Draw/Meta.v -- model of utils.GetHtmlMetadata (/repo/utils/html.go:316-391)
   and of the metadata calls of Document.Write (document.go:520-540).

   The DOM is a recorded input (x/net/html is trusted): the harness dumps, in
   document order, the <title>, <meta> and <link rel=attachment> elements of
   the tree x/net/html produced, and the model computes the record the backend
   must receive.  Dates: parseW3cDate (a regular expression + time.Date) is not
   modelled; each <meta> carries the instant an independent parser found in
   its content (None when it is not a W3C date).  Model only. *)
From Verif Require Export Draw.Links.
From Coq Require Export List NArith ZArith Bool.
Export ListNotations.

Inductive melem :=
| MTitle (text : name)                          (* text-node children concatenated (html.go:168) *)
| MMeta (nm content : name) (date : option Z)   (* name= and content= attributes as written *)
| MAttach (url title : name).                   (* <link rel~=attachment href title>, url resolved *)

Record meta := mkmeta {
  m_title : name; m_description : name; m_generator : name;
  m_authors : list name; m_keywords : list name;
  m_created : option Z; m_modified : option Z;
  m_attachments : list (name * name)
}.

(* utils.AsciiLower on bytes *)
Definition lower_byte (c : N) : N := if (65 <=? c)%N && (c <=? 90)%N then (c + 32)%N else c.
Definition ascii_lower (s : name) : name := map lower_byte s.

(* htmlWhitespace = " \t\n\f\r" *)
Definition is_ws (c : N) : bool :=
  (c =? 32)%N || (c =? 9)%N || (c =? 10)%N || (c =? 12)%N || (c =? 13)%N.

Fixpoint trim_left (s : name) : name :=
  match s with c :: r => if is_ws c then trim_left r else s | [] => [] end.
(* strings.Trim(s, htmlWhitespace) *)
Definition strip_ws (s : name) : name := rev (trim_left (rev (trim_left s))).

(* strings.Split(s, ","): never empty *)
Fixpoint split_comma (cur : name) (s : name) : list name :=
  match s with
  | [] => [rev cur]
  | c :: r => if (c =? 44)%N then rev cur :: split_comma [] r else split_comma (c :: cur) r
  end.

(* html.go:337-343 *)
Fixpoint add_keywords (kws : list name) (l : list name) : list name :=
  match l with
  | [] => kws
  | k :: r => let k := strip_ws k in
              if in_set k kws then add_keywords kws r else add_keywords (kws ++ [k]) r
  end.

Definition s_keywords : name := [107;101;121;119;111;114;100;115]%N.
Definition s_author : name := [97;117;116;104;111;114]%N.
Definition s_description : name := [100;101;115;99;114;105;112;116;105;111;110]%N.
Definition s_generator : name := [103;101;110;101;114;97;116;111;114]%N.
Definition s_created : name := [100;99;116;101;114;109;115;46;99;114;101;97;116;101;100]%N.
Definition s_modified : name := [100;99;116;101;114;109;115;46;109;111;100;105;102;105;101;100]%N.

Definition first_date (cur new : option Z) : option Z :=
  match cur with Some _ => cur | None => new end.

(* html.go:326-378, one element *)
Definition meta_step (m : meta) (e : melem) : meta :=
  match e with
  | MTitle t =>
      if is_empty (m_title m)
      then mkmeta t (m_description m) (m_generator m) (m_authors m) (m_keywords m) (m_created m) (m_modified m) (m_attachments m)
      else m
  | MMeta nm content date =>
      let nm := ascii_lower nm in
      if name_eqb nm s_keywords then
        mkmeta (m_title m) (m_description m) (m_generator m) (m_authors m)
               (add_keywords (m_keywords m) (split_comma [] content)) (m_created m) (m_modified m) (m_attachments m)
      else if name_eqb nm s_author then
        mkmeta (m_title m) (m_description m) (m_generator m) (m_authors m ++ [content])
               (m_keywords m) (m_created m) (m_modified m) (m_attachments m)
      else if name_eqb nm s_description then
        if is_empty (m_description m)
        then mkmeta (m_title m) content (m_generator m) (m_authors m) (m_keywords m) (m_created m) (m_modified m) (m_attachments m)
        else m
      else if name_eqb nm s_generator then
        if is_empty (m_generator m)
        then mkmeta (m_title m) (m_description m) content (m_authors m) (m_keywords m) (m_created m) (m_modified m) (m_attachments m)
        else m
      else if name_eqb nm s_created then
        mkmeta (m_title m) (m_description m) (m_generator m) (m_authors m) (m_keywords m)
               (first_date (m_created m) date) (m_modified m) (m_attachments m)
      else if name_eqb nm s_modified then
        mkmeta (m_title m) (m_description m) (m_generator m) (m_authors m) (m_keywords m)
               (m_created m) (first_date (m_modified m) date) (m_attachments m)
      else m
  | MAttach url title =>
      if is_empty url then m
      else mkmeta (m_title m) (m_description m) (m_generator m) (m_authors m) (m_keywords m)
                  (m_created m) (m_modified m) (m_attachments m ++ [(url, title)])
  end.

Definition meta_init : meta := mkmeta [] [] [] [] [] None None [].
Definition get_metadata (els : list melem) : meta := fold_left meta_step els meta_init.
