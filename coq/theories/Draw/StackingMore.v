(* Draw/StackingMore.v -- z-index applies only to positioned boxes
   (stacking.go 63-71 and 119-122), stated on the model of Draw/Stacking.v. *)
From Verif Require Import Base.GoSem Base.SortStable Draw.Stacking.
From Coq Require Import List ZArith NArith Bool.
Import ListNotations.

(* the same box with another computed z-index *)
Definition with_z (i : binfo) (z : option Z) : binfo :=
  mkB (bid i) (bkind i) (bpos i) z (bfloat i) (bopac i) (btrans i) (bclip i) (bvis i) (bsing i).

(* a box that is not positioned always gets stacking level 0 *)
Lemma nonpositioned_level_zero i kids cc blocks floats bac :
  bpos i = false -> ctx_z (new_context i kids cc blocks floats bac) = 0%Z.
Proof.
  intros Hpos. unfold new_context. cbn [ctx_z]. rewrite Hpos. destruct (bz i); reflexivity.
Qed.

(* whether a non-positioned box creates a stacking context does not depend on its z-index *)
Lemma nonpositioned_creates_ctx_z_irrelevant i z :
  bpos i = false -> creates_ctx (with_z i z) = creates_ctx i.
Proof.
  intros Hpos. unfold creates_ctx, with_z. cbn [bpos bz bopac btrans bclip]. rewrite Hpos. reflexivity.
Qed.

(* the context built for a non-positioned box is the same whatever its z-index, up to the stored style *)
Lemma nonpositioned_new_context_z_irrelevant i z kids cc blocks floats bac :
  bpos i = false ->
  new_context (with_z i z) kids cc blocks floats bac =
  match new_context i kids cc blocks floats bac with
  | Ctx _ k lv neg zero pos bl fl ba => Ctx (with_z i z) k lv neg zero pos bl fl ba
  end.
Proof.
  intros Hpos. unfold new_context, with_z. cbn [bpos bz]. rewrite Hpos.
  destruct z; destruct (bz i); reflexivity.
Qed.

(* a positioned box with an integer z-index gets exactly that level *)
Lemma positioned_level i k kids cc blocks floats bac :
  bpos i = true -> bz i = Some k -> ctx_z (new_context i kids cc blocks floats bac) = k.
Proof.
  intros Hpos Hz. unfold new_context. cbn [ctx_z]. rewrite Hpos, Hz. reflexivity.
Qed.
