(* Draw/Protocol.v -- the contract of /repo/backend (document.go, graphics.go)
   as an automaton over backend calls.

   A `call` is one method call received by an implementation of
   backend.Document / Page / Canvas / GraphicState.  Canvases (pages and
   groups) are numbered in creation order by the recorder.  Float arguments are
   abstracted to their finiteness (`nums`): their values are irrelevant to the
   protocol, and NaN / infinities cannot be printed as rationals anyway.

   `guard st c` is 0 when `c` is legal in state `st`, otherwise the code of the
   rule it breaks; `effect st c` is the state after `c`.  `step` is the strict
   automaton (None on the first illegal call), `accept` runs it over a trace.
   `monitor` runs the same guard/effect pair to the end and returns every
   illegal call with its code (used on recorded traces so that one diagnosed
   violation does not hide the others).

   Rules (from the comments of backend/graphics.go and the property text):
     1  call on a canvas that does not exist (or a group that was never created)
     2  a non-finite float argument
     3  Paint without a current path          ("painting ... preceded by path construction")
     4  Clip without a current path
     5  LineTo / CubicTo without a current point ("A current point must be defined")
     6  ClosePath without a current point
     7  Pop without a matching Push (OnNewStack balance)
     8  DrawText on a canvas using a font that no AddFont has registered ON THAT CANVAS
        (a page and every group returned by NewGroup are separate canvases with
        their own resources: backend/graphics.go AddFont is a Canvas method)
     9  AddPage / NewGroup re-using an existing canvas number
     10 AddPage after the document level calls (CreateAnchors, SetBookmarks, metadata) started
     11 Paint with both fill rules (FillEvenOdd and FillNonZero are mutually exclusive)
     12 DrawWithOpacity / SetColorPattern / SetAlphaMask on canvas c with a canvas g that is
        not a group created by c.NewGroup and not consumed yet (a page, a group of
        another canvas, a group composited twice)
     13 (final condition, like the OnNewStack balance) a group that received painting
        was never passed to DrawWithOpacity / SetColorPattern / SetAlphaMask: what was
        painted on it is lost.  An orphan group that received no painting is
        harmless (draw.go:247-258 creates one for opacity < 1 with a singular transform).
   Model only; lemmas in Draw/ProtocolProofs.v. *)
From Coq Require Export List NArith Bool.
Export ListNotations.
Open Scope N_scope.

Inductive fnum := Fin | NaN | PInf | NInf.
Inductive nums := K (n : N) | Bad (l : list fnum).

Definition is_fin (x : fnum) : bool := match x with Fin => true | _ => false end.
Definition nums_ok (a : nums) : bool :=
  match a with K _ => true | Bad l => forallb is_fin l end.

Inductive call :=
(* backend.Document *)
| CAddPage (c : N) (a : nums)
| CEmbed
| CDoc (k : N) (a : nums)            (* 0 CreateAnchors 1 SetAttachments 2 SetBookmarks 3 metadata *)
(* backend.Page *)
| CPageLink (c : N) (k : N) (a : nums)   (* 0 internal 1 external 2 file annotation *)
| CPageBox (c : N) (a : nums)            (* media / trim / bleed box *)
(* backend.Canvas *)
| CSetBBox (c : N) (a : nums)
| CPush (c : N) | CPop (c : N)           (* entry / exit of an OnNewStack closure *)
| CNewGroup (c g : N) (a : nums)
| CDrawWithOpacity (c g : N) (a : nums)
| CPaint (c : N) (op : N)                (* bit set: 1 stroke, 2 fill even-odd, 4 fill non-zero *)
| CRect (c : N) (a : nums)
| CMoveTo (c : N) (a : nums)
| CLineTo (c : N) (a : nums)
| CCubicTo (c : N) (a : nums)
| CClosePath (c : N)
| CAddFont (c : N) (f : N)
| CDrawText (c : N) (fs : list N) (a : nums)
| CDrawImage (c : N) (a : nums)
| CDrawGradient (c : N) (a : nums)
(* backend.GraphicState *)
| CSetAlphaMask (c g : N)
| CClip (c : N) (evenodd : N)
| CSetAlpha (c : N) (a : nums)
| CSetColor (c : N) (a : nums)
| CSetColorPattern (c g : N) (a : nums)
| CSetBlend (c : N)
| CSetLineWidth (c : N) (a : nums)
| CSetDash (c : N) (a : nums)
| CSetStrokeOptions (c : N) (a : nums)
| CTransform (c : N) (a : nums)
| CSetTextPaint (c : N).

Record cstate := mkc { depth : N; haspath : bool; haspoint : bool }.
Record pstate := mkp {
  canv : list (N * cstate);
  fonts : list (N * N);       (* (canvas, font): the AddFont calls received, per canvas *)
  npages : N;
  closed : bool;
  pending : list (N * N);     (* (group, parent): results of NewGroup not consumed yet *)
  dirty : list N              (* canvases that received painting *)
}.

Definition pinit : pstate := mkp [] [] 0 false [] [].
Definition fresh : cstate := mkc 0 false false.

Fixpoint lookup (c : N) (l : list (N * cstate)) : option cstate :=
  match l with
  | [] => None
  | (k, s) :: r => if N.eqb k c then Some s else lookup c r
  end.

Fixpoint update (c : N) (f : cstate -> cstate) (l : list (N * cstate)) : list (N * cstate) :=
  match l with
  | [] => []
  | (k, s) :: r => if N.eqb k c then (k, f s) :: r else (k, s) :: update c f r
  end.

Definition mem (x : N) (l : list N) : bool := existsb (N.eqb x) l.
Definition pmem (a b : N) (l : list (N * N)) : bool :=
  existsb (fun p => N.eqb (fst p) a && N.eqb (snd p) b) l.

(* the canvas a call is made on, its group argument, its float arguments *)
Definition call_canvas (c : call) : option N :=
  match c with
  | CAddPage _ _ | CEmbed | CDoc _ _ => None
  | CPageLink c _ _ | CPageBox c _ | CSetBBox c _ | CPush c | CPop c | CNewGroup c _ _
  | CDrawWithOpacity c _ _ | CPaint c _ | CRect c _ | CMoveTo c _ | CLineTo c _ | CCubicTo c _
  | CClosePath c | CAddFont c _ | CDrawText c _ _ | CDrawImage c _ | CDrawGradient c _
  | CSetAlphaMask c _ | CClip c _ | CSetAlpha c _ | CSetColor c _ | CSetColorPattern c _ _
  | CSetBlend c | CSetLineWidth c _ | CSetDash c _ | CSetStrokeOptions c _ | CTransform c _
  | CSetTextPaint c => Some c
  end.

Definition call_group (c : call) : option N :=
  match c with
  | CDrawWithOpacity _ g _ | CSetAlphaMask _ g | CSetColorPattern _ g _ => Some g
  | _ => None
  end.

Definition call_nums (c : call) : nums :=
  match c with
  | CAddPage _ a | CDoc _ a | CPageLink _ _ a | CPageBox _ a | CSetBBox _ a | CNewGroup _ _ a
  | CDrawWithOpacity _ _ a | CRect _ a | CMoveTo _ a | CLineTo _ a | CCubicTo _ a
  | CDrawText _ _ a | CDrawImage _ a | CDrawGradient _ a | CSetAlpha _ a | CSetColor _ a
  | CSetColorPattern _ _ a | CSetLineWidth _ a | CSetDash _ a | CSetStrokeOptions _ a
  | CTransform _ a => a
  | _ => K 0
  end.

Definition exists_canvas (st : pstate) (o : option N) : bool :=
  match o with
  | None => true
  | Some c => match lookup c (canv st) with Some _ => true | None => false end
  end.

Definition cur (st : pstate) (c : N) : cstate :=
  match lookup c (canv st) with Some s => s | None => fresh end.

(* rule specific to the kind of call (the canvas is known to exist) *)
Definition guard_kind (st : pstate) (c : call) : N :=
  match c with
  | CAddPage k _ =>
      if closed st then 10
      else match lookup k (canv st) with Some _ => 9 | None => 0 end
  | CNewGroup _ g _ => match lookup g (canv st) with Some _ => 9 | None => 0 end
  | CPop k => if depth (cur st k) =? 0 then 7 else 0
  | CPaint k op =>
      if negb (haspath (cur st k)) then 3
      else if (6 <=? op) then 11 else 0
  | CClip k _ => if haspath (cur st k) then 0 else 4
  | CLineTo k _ | CCubicTo k _ => if haspoint (cur st k) then 0 else 5
  | CClosePath k => if haspoint (cur st k) then 0 else 6
  | CDrawText k fs _ => if forallb (fun f => pmem k f (fonts st)) fs then 0 else 8
  | CDrawWithOpacity k g _ | CSetAlphaMask k g | CSetColorPattern k g _ =>
      if pmem g k (pending st) then 0 else 12
  | _ => 0
  end.

Definition guard (st : pstate) (c : call) : N :=
  if negb (exists_canvas st (call_canvas c)) then 1
  else if negb (exists_canvas st (call_group c)) then 1
  else if negb (nums_ok (call_nums c)) then 2
  else guard_kind st c.

Definition on (st : pstate) (c : N) (f : cstate -> cstate) : pstate :=
  mkp (update c f (canv st)) (fonts st) (npages st) (closed st) (pending st) (dirty st).

(* canvas c received painting *)
Definition mark (st : pstate) (c : N) : pstate :=
  mkp (canv st) (fonts st) (npages st) (closed st) (pending st) (c :: dirty st).

(* group g has been handed to its parent *)
Definition consume (st : pstate) (g : N) : pstate :=
  mkp (canv st) (fonts st) (npages st) (closed st)
      (filter (fun p => negb (N.eqb (fst p) g)) (pending st)) (dirty st).

Definition effect (st : pstate) (c : call) : pstate :=
  match c with
  | CAddPage k _ =>
      match lookup k (canv st) with
      | Some _ => st
      | None => mkp ((k, fresh) :: canv st) (fonts st) (npages st + 1) (closed st) (pending st) (dirty st)
      end
  | CNewGroup k g _ =>
      match lookup g (canv st) with
      | Some _ => st
      | None => mkp ((g, fresh) :: canv st) (fonts st) (npages st) (closed st) ((g, k) :: pending st) (dirty st)
      end
  | CDoc _ _ => mkp (canv st) (fonts st) (npages st) true (pending st) (dirty st)
  | CPush k => on st k (fun s => mkc (depth s + 1) (haspath s) (haspoint s))
  | CPop k => on st k (fun s => mkc (N.pred (depth s)) (haspath s) (haspoint s))
  | CRect k _ | CMoveTo k _ => on st k (fun s => mkc (depth s) true true)
  | CPaint k _ => mark (on st k (fun s => mkc (depth s) false false)) k
  | CClip k _ => on st k (fun s => mkc (depth s) false false)
  | CAddFont k f => mkp (canv st) ((k, f) :: fonts st) (npages st) (closed st) (pending st) (dirty st)
  | CDrawText k _ _ | CDrawImage k _ | CDrawGradient k _ => mark st k
  | CDrawWithOpacity k g _ => consume (if mem g (dirty st) then mark st k else st) g
  | CSetAlphaMask _ g | CSetColorPattern _ g _ => consume st g
  | _ => st
  end.

Definition step (st : pstate) (c : call) : option pstate :=
  if guard st c =? 0 then Some (effect st c) else None.

Fixpoint run (st : pstate) (t : list call) : option pstate :=
  match t with
  | [] => Some st
  | c :: r => match step st c with Some st' => run st' r | None => None end
  end.

(* every OnNewStack closure has returned *)
Definition balanced (st : pstate) : bool :=
  forallb (fun kc => depth (snd kc) =? 0) (canv st).

(* rule 13: no group holding painting is left unconsumed *)
Definition orphans (st : pstate) : list (N * N) :=
  filter (fun p => mem (fst p) (dirty st)) (pending st).
Definition complete (st : pstate) : bool :=
  match orphans st with [] => true | _ => false end.

Definition accept (t : list call) : bool :=
  match run pinit t with Some st => balanced st && complete st | None => false end.

(* monitor: all illegal calls (index, rule) and the final state *)
Fixpoint monitor_from (i : N) (st : pstate) (t : list call) : list (N * N) * pstate :=
  match t with
  | [] => ([], st)
  | c :: r =>
      let g := guard st c in
      let '(l, st') := monitor_from (N.succ i) (effect st c) r in
      (if g =? 0 then l else (i, g) :: l, st')
  end.

Definition monitor (t : list call) : list (N * N) * pstate := monitor_from 0 pinit t.
Definition pages_of (t : list call) : N := npages (snd (monitor t)).
