(* Draw/Determinism.v -- models for property C15 "Rendering is deterministic and
   renders do not interfere".  MODEL FILE: definitions only, proofs are in
   Draw/DeterminismProofs.v, statements in Properties/C15.v.

   Part 1  Go maps whose iteration order can reach the output.  A Go map is a
           duplicate-free association list; `for k, v := range m` visits it in an
           order the runtime randomises.  Every function below that ports such
           a loop takes the content IN THE ORDER THE RUNTIME HAPPENED TO CHOOSE;
           the theorems quantify over all permutations of that list.
   Part 2  Interference: N renders = N sequences of steps over private contexts
           plus one shared global state, executed under an arbitrary schedule.
   Part 3  The shape of the generated inventory of global write sites
           (Generated/GlobalWrites.v, produced by /verif/tools/globalwrites).  *)
From Verif Require Import Base.GoSem.
From Coq Require Import List NArith ZArith QArith Bool String.
Import ListNotations.

(* ================================================================== *)
(** * 1.0 byte strings with Go's string order; sorting by key *)

Definition name := list N.          (* a Go string as its bytes *)

Fixpoint bytes_eqb (a b : name) : bool :=
  match a, b with
  | [], [] => true
  | x :: a', y :: b' => N.eqb x y && bytes_eqb a' b'
  | _, _ => false
  end.

(* a <= b for Go strings (bytewise lexicographic) *)
Fixpoint bytes_leb (a b : name) : bool :=
  match a, b with
  | [], _ => true
  | _ :: _, [] => false
  | x :: a', y :: b' => if N.ltb x y then true else if N.eqb x y then bytes_leb a' b' else false
  end.

Section SortBy.
  Context {A K : Type} (key : A -> K) (leb : K -> K -> bool).
  Fixpoint insert_by (a : A) (l : list A) : list A :=
    match l with
    | [] => [a]
    | b :: r => if leb (key a) (key b) then a :: l else b :: insert_by a r
    end.
  (* sort.Strings(names) followed by lookups = the entries sorted by key.  For
     duplicate-free keys every correct sort returns this list (proved:
     sorted_perm_unique), so the algorithm sort.Strings uses does not matter. *)
  Definition sort_by (l : list A) : list A := fold_right insert_by [] l.
End SortBy.

(* ================================================================== *)
(** * 1.1 anchors per page -- html/document/document.go:314-333 (resolveLinks) *)

Record anchor := An { a_name : name; a_x : Q; a_y : Q }.

Definition mem_name (n : name) (seen : list name) : bool := existsb (bytes_eqb n) seen.

(* the inner loop, document.go:319-324 before 9dc0f60 / 326-332 after: visit
   the page's anchors in the given order, keep the names not seen on an
   earlier page, record them. *)
Fixpoint page_anchors (seen : list name) (l : list anchor) : list anchor * list name :=
  match l with
  | [] => ([], seen)
  | a :: r =>
      if mem_name (a_name a) seen then page_anchors seen r
      else let '(o, s) := page_anchors (a_name a :: seen) r in (a :: o, s)
  end.

(* the outer loop over d.Pages (a slice: fixed order) *)
Fixpoint resolve_anchors_iter (seen : list name) (pages : list (list anchor))
  : list (list anchor) * list name :=
  match pages with
  | [] => ([], seen)
  | p :: r =>
      let '(cur, seen1) := page_anchors seen p in
      let '(rest, seen2) := resolve_anchors_iter seen1 r in
      (cur :: rest, seen2)
  end.

(* BEFORE the repair (6439a2e..): `for anchorName, pos := range page.anchors`;
   the argument lists are the maps in iteration order *)
Definition resolve_anchors_unordered (pages : list (list anchor)) : list (list anchor) :=
  fst (resolve_anchors_iter [] pages).

(* AFTER the repair 9dc0f60: names collected, sort.Strings, then looked up *)
Definition sort_anchors (p : list anchor) : list anchor := sort_by a_name bytes_leb p.
Definition resolve_anchors (pages : list (list anchor)) : list (list anchor) :=
  fst (resolve_anchors_iter [] (map sort_anchors pages)).
(* the set `anchors` used to keep or drop internal links (document.go:341) *)
Definition resolved_names (pages : list (list anchor)) : list name :=
  snd (resolve_anchors_iter [] (map sort_anchors pages)).
Definition link_kept (pages : list (list anchor)) (target : name) : bool :=
  mem_name target (resolved_names pages).

(* ================================================================== *)
(** * 1.2 range loops whose body writes only the entry of its own key

   Shape shared by html/tree/style.go:129-136 (pseudo-element styles),
   svg/tree.go:86-92 and 109-113 (attribute cascade, `inherit`),
   svg/elements.go:478-485 (<use> cascade):

       for k, v := range m { target[k'] = F(k, v, target) ; set.add(G(...)) }

   The store is a finite partial function; `f a s` is the value the body
   writes at `key a`, `g a s` what it adds to a set-like accumulator
   (TargetCollector.collectAnchor, target.go:287-295). *)

Section KeyedFold.
  Context {K W A L : Type} (keqb : K -> K -> bool) (key : A -> K).
  Definition store := K -> option W.
  Context (f : A -> store -> option W) (g : A -> store -> list L).
  Definition kset (s : store) (k : K) (w : option W) : store :=
    fun k' => if keqb k' k then w else s k'.
  Definition kstep (st : store * list L) (a : A) : store * list L :=
    (kset (fst st) (key a) (f a (fst st)), g a (fst st) ++ snd st).
  Definition krange (l : list A) (st : store * list L) : store * list L :=
    fold_left kstep l st.
End KeyedFold.

(** ** pseudo-element computed styles, html/tree/style.go:129-136 + 152-185 *)
Section PseudoStyles.
  (* computedFromCascaded is external to this property (C04 owns it): a
     Section variable.  It receives the cascaded style of the key, the parent
     style = computed style of the element itself, and the root style. *)
  Context {casc style : Type}.
  Context (compute : N -> name -> casc -> option style -> option style -> style).
  Context (anchor_of : style -> name).          (* style.GetAnchor(), "" = none *)
  Context (root : N).
  Context (is_page_type : N -> bool).           (* key.IsPageType() *)

  Definition pkey := (N * name)%type.           (* utils.ElementKey{Element, PseudoType} *)
  Definition pkey_eqb (a b : pkey) : bool := N.eqb (fst a) (fst b) && bytes_eqb (snd a) (snd b).
  Definition pentry := (pkey * casc)%type.      (* one entry of out.cascadedStyles *)

  (* style.go:130-131 *)
  Definition is_pseudo (k : pkey) : bool :=
    negb (bytes_eqb (snd k) []) && negb (is_page_type (fst k)).

  (* style.go:173-184: parentStyle = computedStyles[(element, "")],
     rootStyle from computedStyles[(root, "")] *)
  Definition pseudo_value (a : pentry) (s : @store pkey style) : style :=
    let '((e, p), c) := a in compute e p c (s (e, [])) (s (root, [])).
  Definition pseudo_f (a : pentry) (s : @store pkey style) : option style :=
    if is_pseudo (fst a) then Some (pseudo_value a s) else s (fst a).
  (* style.go:1083-1085 collectAnchor *)
  Definition pseudo_g (a : pentry) (s : @store pkey style) : list name :=
    if is_pseudo (fst a) then
      let n := anchor_of (pseudo_value a s) in if bytes_eqb n [] then [] else [n]
    else [].
  Definition pseudo_pass (cascaded : list pentry) (st : @store pkey style * list name) :=
    krange pkey_eqb fst pseudo_f pseudo_g cascaded st.
End PseudoStyles.

(** ** SVG attribute cascade, svg/tree.go:86-92 and svg/elements.go:478-485 *)
Section SvgCascade.
  Context (not_inherited : name -> bool).       (* notInheritedAttributes.Has *)
  Definition attr := (name * name)%type.
  Definition cascade_f (a : attr) (child : @store name name) : option name :=
    if not_inherited (fst a) then child (fst a)
    else match child (fst a) with Some w => Some w | None => Some (snd a) end.
  Definition svg_cascade (parent_attrs : list attr) (child : @store name name) : @store name name :=
    fst (krange bytes_eqb fst cascade_f (fun _ _ => @nil unit) parent_attrs (child, [])).

  (* svg/tree.go:109-113: `inherit` values are replaced by the parent's value
     ("" when the parent has none: Go's zero value).  The loop ranges over the
     child's own map while storing at the key being visited. *)
  Context (parent : @store name name).
  Definition inherit_kw : name := [105; 110; 104; 101; 114; 105; 116]%N.
  Definition inherit_f (a : attr) (child : @store name name) : option name :=
    if bytes_eqb (snd a) inherit_kw
    then Some (match parent (fst a) with Some w => w | None => [] end)
    else child (fst a).
  Definition svg_inherit (child_attrs : list attr) (child : @store name name) : @store name name :=
    fst (krange bytes_eqb fst inherit_f (fun _ _ => @nil unit) child_attrs (child, [])).
End SvgCascade.

(* an association list seen as a store (first binding wins; maps have one) *)
Fixpoint store_of {W} (l : list (name * W)) : @store name W :=
  fun k => match l with
           | [] => None
           | (k', w) :: r => if bytes_eqb k k' then Some w else store_of r k
           end.

(* ================================================================== *)
(** * 1.3 string-set / bookmark-label re-parse pass, html/layout/layout.go:212-227

   for key, item := range context.TargetCollector.CounterLookupItems {
       box, cssToken := key.SourceBox, key.CssToken
       if mLink == box && cssToken != "content" {
           if cssToken == "bookmark-label" && childBox.BookmarkLabel == "" { continue }
           item.ParseAgain(pageCounterValues)
           if cssToken == "bookmark-label" { childBox.BookmarkLabel = box.GetBookmarkLabel() }
       }}
   ParseAgain re-runs computeStringSet / computeBookmarkLabel on the SOURCE box
   (html/boxes/build.go:801-861): the former removes the entry of its name from
   box.StringSet and appends the new one, the latter overwrites
   box.BookmarkLabel. *)

Inductive css_token :=
| TContent                      (* "content" *)
| TBookmark                     (* "bookmark-label" *)
| TStringSet (n : name)         (* "string-set::" + n *)
| TOther (n : name).

Definition token_eqb (a b : css_token) : bool :=
  match a, b with
  | TContent, TContent | TBookmark, TBookmark => true
  | TStringSet x, TStringSet y | TOther x, TOther y => bytes_eqb x y
  | _, _ => false
  end.

Record lookup_key := LK { lk_box : N; lk_token : css_token }.   (* CounterLookupItems key *)

Record relabel_state := RS {
  rs_src_label : name;                   (* box.BookmarkLabel of the source box *)
  rs_src_strings : list (name * name);   (* box.StringSet of the source box *)
  rs_child_label : name                  (* childBox.BookmarkLabel *)
}.

(* build.go:828-839 *)
Fixpoint remove_first_named (n : name) (l : list (name * name)) : list (name * name) :=
  match l with
  | [] => []
  | e :: r => if bytes_eqb (fst e) n then r else e :: remove_first_named n r
  end.

Section Relabel.
  (* the text ParseAgain computes from the page counter values: external (C19) *)
  Context (reparse : css_token -> name).
  Context (mlink : N).                   (* the box child.MissingLink() points to *)

  Definition relabel_step (s : relabel_state) (k : lookup_key) : relabel_state :=
    if negb (N.eqb (lk_box k) mlink) then s else
    match lk_token k with
    | TContent => s
    | TBookmark =>
        if bytes_eqb (rs_child_label s) [] then s          (* don't refill it *)
        else let l := reparse TBookmark in
             RS l (rs_src_strings s) l
    | TStringSet n =>
        RS (rs_src_label s) (remove_first_named n (rs_src_strings s) ++ [(n, reparse (TStringSet n))])
           (rs_child_label s)
    | TOther _ => s    (* ParseAgain of another property: no field of this pass *)
    end.
  Definition relabel_pass (items : list lookup_key) (s : relabel_state) : relabel_state :=
    fold_left relabel_step items s.
End Relabel.

(* what later code reads: layout.go:229-240 files the strings per NAME, so only
   the per-name projection of the string list is observable *)
Definition strings_named (n : name) (l : list (name * name)) : list name :=
  map snd (filter (fun e => bytes_eqb (fst e) n) l).

(* ================================================================== *)
(** * 1.4 brokenOutOfFlow, html/layout/pages.go:722-747, blocks.go:488-490

   BEFORE 360d151: map[Box]brokenBox ranged directly.  Each broken box is laid
   out again at the top of the next page; floatLayout places a float against
   the floats already placed, and the results are appended to the page in
   visiting order.  `place` abstracts floatLayout/absoluteBoxLayout: it sees
   the boxes placed so far. *)
Section Reinsert.
  Context {B P : Type} (place : list P -> B -> P).
  Definition reinsert_step (placed : list P) (b : B) : list P := placed ++ [place placed b].
  Definition reinsert_unordered (broken : list B) : list P := fold_left reinsert_step broken [].
End Reinsert.

(* a concrete placement used for the refutation witness: left floats of given
   widths are put side by side: x = sum of the widths already placed *)
Definition place_left (placed : list (N * N)) (w : N) : N * N :=
  (fold_left (fun acc p => acc + snd p) placed 0, w)%N.

(* AFTER 360d151: brokenOutOfFlowMap{keys []Box; m map[Box]brokenBox}
   (html/layout/layout.go).  `om_map` is the Go map as an association list in
   ARBITRARY order; `om_keys` the insertion-ordered slice. *)
Record omap (V : Type) := OM { om_keys : list N; om_map : list (N * V) }.
Arguments OM {V}. Arguments om_keys {V}. Arguments om_map {V}.

Section OMap.
  Context {V : Type}.
  Fixpoint alist_get (m : list (N * V)) (k : N) : option V :=
    match m with
    | [] => None
    | (k', v) :: r => if N.eqb k k' then Some v else alist_get r k
    end.
  Definition alist_remove (m : list (N * V)) (k : N) : list (N * V) :=
    filter (fun e => negb (N.eqb (fst e) k)) m.
  (* m[key] = v on a Go map: replaces or adds; where the entry lands in the
     runtime's iteration order is unspecified -- any position is a valid
     refinement; this one prepends *)
  Definition alist_set (m : list (N * V)) (k : N) (v : V) : list (N * V) :=
    (k, v) :: alist_remove m k.
  Definition om_empty : omap V := OM [] [].
  (* set: layout.go `func (b *brokenOutOfFlowMap) set` *)
  Definition om_set (o : omap V) (k : N) (v : V) : omap V :=
    OM (match alist_get (om_map o) k with Some _ => om_keys o | None => om_keys o ++ [k] end)
       (alist_set (om_map o) k v).
  (* delete *)
  Definition om_delete (o : omap V) (k : N) : omap V :=
    match alist_get (om_map o) k with
    | None => o
    | Some _ => OM (filter (fun k' => negb (N.eqb k' k)) (om_keys o)) (alist_remove (om_map o) k)
    end.
  (* clear: `for k := range b.m { delete(b.m, k) }` in the order given *)
  Definition om_clear (o : omap V) (order : list N) : omap V :=
    OM [] (fold_left alist_remove order (om_map o)).
  (* values: insertion order, each looked up in the map *)
  Definition om_values (o : omap V) : list (option V) := map (alist_get (om_map o)) (om_keys o).
  (* update: other's entries in other's insertion order *)
  Definition om_update (o other : omap V) : omap V :=
    fold_left (fun acc k => match alist_get (om_map other) k with
                            | Some v => om_set acc k v
                            | None => acc end) (om_keys other) o.
  (* the invariant of the struct *)
  Definition om_wf (o : omap V) : Prop :=
    NoDup (om_keys o) /\ NoDup (map fst (om_map o)) /\
    forall k, In k (om_keys o) <-> In k (map fst (om_map o)).
End OMap.

(* operations of a history, for the correspondence with the Go type *)
Inductive om_op :=
| OSet (k v : N) | ODelete (k : N) | OClear | OUpdate (other : list (N * N)).

Definition om_of_list (l : list (N * N)) : omap N :=
  fold_left (fun o e => om_set o (fst e) (snd e)) l om_empty.
Definition om_apply (o : omap N) (op : om_op) : omap N :=
  match op with
  | OSet k v => om_set o k v
  | ODelete k => om_delete o k
  | OClear => om_clear o (map fst (om_map o))
  | OUpdate other => om_update o (om_of_list other)
  end.
Definition om_run (ops : list om_op) : list N :=
  flat_map (fun x => match x with Some v => [v] | None => [] end)
           (om_values (fold_left om_apply ops om_empty)).

(* the repaired re-insertion: visit values() *)
Definition reinsert_ordered {B P} (place : list P -> B -> P) (o : omap B) : list P :=
  reinsert_unordered place
    (flat_map (fun x => match x with Some v => [v] | None => [] end) (om_values o)).

(* ================================================================== *)
(** * 1.5 ResumeStack.Unpack, html/tree/target.go:30-37

   func (r ResumeStack) Unpack() (int, ResumeStack) {
       for k, v := range r { return k, v }
       panic("invalid use of Unpack on an empty stack") }                *)
Inductive rstack := RStack (entries : list (Z * rstack)).
Definition rs_entries (r : rstack) := let 'RStack l := r in l.
Definition unpack_site : N := 3036%N.        (* target.go:36 *)
(* the argument is the map in iteration order *)
Definition unpack (r : list (Z * rstack)) : res (Z * rstack) :=
  match r with
  | [] => Panic unpack_site
  | e :: _ => Ok e
  end.

(* ================================================================== *)
(** * 2. Interference

   html/layout/layout.go:281-343 (layoutContext) and html/document/document.go:
   242-249 (drawContext) hold every cache of a render; the package-level tables
   (html/tree/tree.go:112-139, css/properties) are initialised by init().
   A step of a render may read the globals and its own context.  To keep the
   hypothesis honest the step type ALLOWS writing the global state; theorems
   assume `readonly`. *)
Section Interference.
  Context {G C : Type}.
  Definition step := G -> C -> G * C.
  Definition readonly (s : step) : Prop := forall g c, fst (s g c) = g.

  (* one render alone *)
  Definition run_alone (prog : list step) (g : G) (c : C) : G * C :=
    fold_left (fun st s => s (fst st) (snd st)) prog (g, c).

  (* machine state: globals, then per render (context, remaining steps) *)
  Definition threads := list (C * list step).
  Fixpoint fire (i : nat) (g : G) (ts : threads) : G * threads :=
    match ts, i with
    | [], _ => (g, [])
    | (c, []) :: r, O => (g, ts)                       (* finished: stutter *)
    | (c, s :: p) :: r, O => let '(g', c') := s g c in (g', (c', p) :: r)
    | t :: r, S j => let '(g', r') := fire j g r in (g', t :: r')
    end.
  (* a schedule names, at each instant, the goroutine that makes a step; every
     list of indices is a schedule (out-of-range / finished = no-op), so
     quantifying over `list nat` covers every interleaving and every prefix *)
  Fixpoint exec (sched : list nat) (g : G) (ts : threads) : G * threads :=
    match sched with
    | [] => (g, ts)
    | i :: r => let '(g', ts') := fire i g ts in exec r g' ts'
    end.
  Definition finished (ts : threads) : Prop := Forall (fun t => snd t = []) ts.
  Definition start (progs : list (C * list step)) : threads := progs.

  (* sequential execution "one after the other", in the order of the list *)
  Fixpoint run_sequentially (g : G) (progs : list (C * list step)) : G * list C :=
    match progs with
    | [] => (g, [])
    | (c, p) :: r => let '(g', c') := run_alone p g c in
                     let '(g'', cs) := run_sequentially g' r in (g'', c' :: cs)
    end.
End Interference.

(* ================================================================== *)
(** * 3. Inventory of global write sites (generated) *)
Record gwrite := GW { gw_file : string; gw_line : N; gw_var : string; gw_kind : string;
                      gw_detail : string; gw_func : string }.
(* an allow-list line; a non-empty ga_need_var restricts it to sites whose
   function also contains a site (need_var, need_kind, need_detail), e.g. the
   mutex Lock that justifies a store *)
Record gallow := GA { ga_var : string; ga_kind : string; ga_detail : string;
                      ga_need_var : string; ga_need_kind : string; ga_need_detail : string }.

Definition allow_matches (a : gallow) (w : gwrite) : bool :=
  if String.eqb (ga_var a) (gw_var w) then
    String.eqb (ga_kind a) (gw_kind w) &&
    (String.eqb (ga_detail a) "*" || String.eqb (ga_detail a) (gw_detail w))
  else false.
(* `if` rather than && / ||: vm_compute is call-by-value, the operands of andb /
   orb are both evaluated, and need_ok scans the whole site list *)
Definition need_ok (all : list gwrite) (a : gallow) (w : gwrite) : bool :=
  if String.eqb (ga_need_var a) "" then true else
  existsb (fun o => if String.eqb (gw_var o) (ga_need_var a) then
                      String.eqb (gw_file o) (gw_file w) && String.eqb (gw_func o) (gw_func w) &&
                      String.eqb (gw_kind o) (ga_need_kind a) && String.eqb (gw_detail o) (ga_need_detail a)
                    else false) all.
Definition is_allowed (allowed : list gallow) (all : list gwrite) (w : gwrite) : bool :=
  existsb (fun a => if allow_matches a w then need_ok all a w else false) allowed.
Definition not_allowed (allowed : list gallow) (ws : list gwrite) : list gwrite :=
  filter (fun w => negb (is_allowed allowed ws w)) ws.

(* construction sites of tree.ResumeStack values (for the precondition of
   Unpack's order-independence: one key at most) *)
Inductive stack_keys := SKeys (n : N) | SKUnknown.
Record stack_site := SS { ss_file : string; ss_line : N; ss_keys : stack_keys }.
Definition single_key_site (s : stack_site) : bool :=
  match ss_keys s with SKeys n => N.leb n 1 | SKUnknown => false end.

(* ------------------------------------------------------------------ *)
(** typed inventories (tools/globalwrites/typed.go, go/types)

   [escapes] reuse [gwrite]/[gallow] (kind "escape-<how>", detail = callee /
   field / method): a value of reference-carrying type read from a
   package-level variable leaves the pure-read position.

   [twrite]: a store through a reference into an object whose static type is
   reachable from the type of a package-level variable (type-based
   over-approximation of "may alias global data"), objects provably created
   in the same function excluded.  An allow line names the type, the
   operation ("*" = any) and the function (exact, or a prefix when
   [ta_prefix]). *)
Record twrite := TW { tw_file : string; tw_line : N; tw_type : string; tw_op : string;
                      tw_func : string; tw_via : string }.
Record tallow := TA { ta_type : string; ta_op : string; ta_func : string; ta_prefix : bool }.
Definition tallow_matches (a : tallow) (w : twrite) : bool :=
  if String.eqb (ta_type a) (tw_type w) then
    (String.eqb (ta_op a) "*" || String.eqb (ta_op a) (tw_op w)) &&
    (if ta_prefix a then String.prefix (ta_func a) (tw_func w) else String.eqb (ta_func a) (tw_func w))
  else false.
Definition tnot_allowed (allowed : list tallow) (ws : list twrite) : list twrite :=
  filter (fun w => negb (existsb (fun a => tallow_matches a w) allowed)) ws.

(* every [for .. range m] over a Go map outside init(): shape = the strongest
   way its body can expose the iteration order (exit > append > call > write >
   pure); an allow line = (function, map type, shape) reviewed as
   order-insensitive *)
Record mrange := MR { mr_file : string; mr_line : N; mr_func : string; mr_type : string; mr_shape : string }.
Record mallow := MA { ma_func : string; ma_type : string; ma_shape : string }.
Definition mallow_matches (a : mallow) (r : mrange) : bool :=
  if String.eqb (ma_func a) (mr_func r) then String.eqb (ma_type a) (mr_type r) && String.eqb (ma_shape a) (mr_shape r) else false.
Definition mnot_allowed (allowed : list mallow) (rs : list mrange) : list mrange :=
  filter (fun r => negb (existsb (fun a => mallow_matches a r) allowed)) rs.

(* ================================================================== *)
(** * 4. Shared state that IS written: caches and shared tables

   `readonly` is too strong for text/hyphen.dictionariesCache (filled on first
   use, under a mutex).  What makes such a cache harmless is weaker: every step
   keeps an invariant of the shared state under which what the step computes
   does not depend on that state. *)
Section SharedState.
  Context {G C : Type}.
  (* steps that MAY write the shared state, but only in a way that keeps an
     invariant I under which what they compute does not depend on that state *)
  Definition benign (I : G -> Prop) (s : @step G C) : Prop :=
    forall g c, I g ->
      I (fst (s g c)) /\ forall g', I g' -> snd (s g' c) = snd (s g c).
End SharedState.

Section MemoCache.
  Context {K V C : Type}.
  Variable keqb : K -> K -> bool.
  Variable f : K -> V.
  Definition mcache := list (K * V).
  Fixpoint mlookup (g : mcache) (k : K) : option V :=
    match g with
    | [] => None
    | (k', v) :: r => if keqb k' k then Some v else mlookup r k
    end.
  Definition cache_ok (g : mcache) : Prop := forall k v, mlookup g k = Some v -> v = f k.
  Definition memo_step (k : K) (use : V -> C -> C) : @step mcache C :=
    fun g c => match mlookup g k with
               | Some v => (g, use v c)
               | None => let v := f k in ((k, v) :: g, use v c)
               end.
End MemoCache.

Section MemoPrograms.
  Context {K V C : Type}.
  Variable keqb : K -> K -> bool.
  Variable f : K -> V.
  (* a render = its initial context and the (key, continuation) of each of its lookups *)
  Definition memo_prog (p : C * list (K * (V -> C -> C))) : C * list (@step (@mcache K V) C) :=
    (fst p, map (fun ku => memo_step keqb f (fst ku) (snd ku)) (snd p)).
  (* the same render with the function called directly, no cache *)
  Definition pure_result (p : C * list (K * (V -> C -> C))) : C :=
    fold_left (fun c ku => snd ku (f (fst ku)) c) (snd p) (fst p).
End MemoPrograms.

(* text.CharacterRatio (text/text.go:174-203): the 1ex/font-size ratio of a font
   description is measured with the render's font configuration and kept in a
   TextRatioCache keyed by the description only.  html/tree/style.go:370 gives
   every root style a NEW cache (inherited by the tree): the cache is part of
   the render's context. *)
Section RatioCache.
  Context {K V C G : Type}.
  Variable keqb : K -> K -> bool.
  (* context = (the render's own cache, the rest) ; measure = this render's fonts *)
  Definition ratio_step_local (measure : K -> V) (k : K) (use : V -> C -> C) : @step G (mcache (K:=K) (V:=V) * C) :=
    fun g mc => let '(m, c) := mc in
                match mlookup keqb m k with
                | Some v => (g, (m, use v c))
                | None => let v := measure k in (g, ((k, v) :: m, use v c))
                end.
  (* the seeded variant: one cache for the whole process *)
  Definition ratio_step_shared (measure : K -> V) (k : K) (use : V -> C -> C) : @step (mcache (K:=K) (V:=V)) C :=
    memo_step keqb measure k use.
End RatioCache.

(* hyphen.Hyphener.IterateRunes (text/hyphen/hyphen.go:78-84): the non-standard
   hyphenation data of a point is reached through a pointer into the patterns
   shared by every Hyphener of the language;  `data := *index.Data` copies it
   before `data.Index += index.V`.  Table: pattern -> Index. *)
Definition hyph_table := list (N * N).
Fixpoint ht_get (g : hyph_table) (id : N) : N :=
  match g with [] => 0%N | (i, x) :: r => if N.eqb i id then x else ht_get r id end.
Fixpoint ht_set (g : hyph_table) (id x : N) : hyph_table :=
  match g with [] => [] | (i, y) :: r => if N.eqb i id then (i, x) :: r else (i, y) :: ht_set r id x end.
(* the context receives the cut position *)
Definition iterate_copy (id v : N) : @step hyph_table N := fun g _ => (g, (ht_get g id + v)%N).
Definition iterate_inplace (id v : N) : @step hyph_table N :=
  fun g _ => let x := (ht_get g id + v)%N in (ht_set g id x, x).

