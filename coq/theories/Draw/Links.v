(* Draw/Links.v -- model of the link / anchor gathering and resolution of
   /repo/html/document/document.go:

     gatherLinksAndBookmarks  (127-185)  per page: walk the laid-out boxes in
                                         document order, keep links, bookmarks
                                         and the FIRST box of every anchor name
     resolveLinks             (315-355)  per document: an anchor name is kept
                                         on the first page that has it; internal
                                         links to names nobody defines are
                                         dropped; everything else is kept

   Model only, no proofs (Draw/LinksProofs.v).  Strings are byte lists.
   Geometry (positions, rectangles) is carried as an opaque payload: nothing
   in this code computes with it (scaling happens in Write, see Draw/Emit.v).

   Go's per-page anchor table is a map.  Its CONTENT is modelled by `gather`
   (an association list in insertion order); resolveLinks iterates over it in
   an order that is not the insertion order (Go map order originally, sorted
   names since the C15 fix), so `resolve` takes, for every page, the enumeration of
   the map it is given (`p_anchors`): the theorems quantify over every
   enumeration that is a permutation of the gathered content. *)
From Verif Require Export Base.GoSem.
From Coq Require Export QArith List NArith ZArith Bool.
Export ListNotations.

Definition name := list N.

Fixpoint name_eqb (a b : name) : bool :=
  match a, b with
  | [], [] => true
  | x :: a', y :: b' => N.eqb x y && name_eqb a' b'
  | _, _ => false
  end.

Definition is_empty (n : name) : bool := match n with [] => true | _ => false end.

Record pos := mkpos { px : Q; py : Q }.
Record rect := mkrect { rx0 : Q; ry0 : Q; rx1 : Q; ry1 : Q }.

(* Link.Type is a Go string; the code distinguishes "internal", "external",
   "attachment" and falls through on anything else *)
Inductive ltype := LInternal | LExternal | LAttachment | LOther.
Definition ltype_eqb (a b : ltype) : bool :=
  match a, b with
  | LInternal, LInternal | LExternal, LExternal | LAttachment, LAttachment | LOther, LOther => true
  | _, _ => false
  end.

Record link := mklink { ltyp : ltype; ltarget : name; lrect : rect }.
Record anchor := mkanchor { aname : name; apos : pos }.
Record bookmark := mkbk { blevel : Z; blabel : name; bpos : pos; bopen : bool }.

(* What gatherLinksAndBookmarks reads of one laid-out box (document.go:136-151). *)
Record box := mkbox {
  b_anchor : name;                 (* string(box.Style.GetAnchor()); [] = none *)
  b_link : option (ltype * name);  (* box.Style.GetLink(): None when IsNone() *)
  b_textline : bool;               (* TextBox or LineBox: the inherited link is ignored *)
  b_attach : bool;                 (* box.IsAttachment() *)
  b_label : name;                  (* box.BookmarkLabel *)
  b_level : Z;                     (* bookmark-level, 0 when `none` *)
  b_open : bool;                   (* bookmark-state == "open" *)
  b_pos : pos;                     (* hit area origin (after the transform, if any) *)
  b_rect : rect                    (* hit area / its bounding box under the transform *)
}.

Definition has_name (n : name) (m : list anchor) : bool :=
  existsb (fun a => name_eqb (aname a) n) m.

Record gathered := mkgathered { g_anchors : list anchor; g_links : list link; g_bks : list bookmark }.

(* document.go:145-179 for one box, the map being `g_anchors` *)
Definition gather_box (g : gathered) (b : box) : gathered :=
  let has_bookmark := negb (is_empty (b_label b)) && negb (b_level b =? 0)%Z in   (* :145 *)
  let links :=
    match b_link b with
    | Some (ty, target) =>
        if b_textline b then g_links g                                            (* :147 *)
        else
          let ty' := if ltype_eqb ty LExternal && b_attach b then LAttachment else ty in  (* :157 *)
          g_links g ++ [mklink ty' target (b_rect b)]
    | None => g_links g
    end in
  let bks := if has_bookmark
             then g_bks g ++ [mkbk (b_level b) (b_label b) (b_pos b) (b_open b)]  (* :172 *)
             else g_bks g in
  (* :149-150 in case of duplicate IDs, only the first is an anchor *)
  let has_anchor := negb (is_empty (b_anchor b)) && negb (has_name (b_anchor b) (g_anchors g)) in
  let anchors := if has_anchor then g_anchors g ++ [mkanchor (b_anchor b) (b_pos b)]  (* :178 *)
                 else g_anchors g in
  mkgathered anchors links bks.

(* the recursion of :182-184 visits the boxes of the page in pre-order: the
   input is that pre-order list *)
Definition gather (boxes : list box) : gathered :=
  fold_left gather_box boxes (mkgathered [] [] []).

(* ------------------------------------------------------------------ *)
(* resolveLinks *)

Record page := mkpage {
  p_anchors : list anchor;   (* the page map, in the order `range` enumerates it *)
  p_links : list link;
  p_bks : list bookmark
}.

Definition in_set (n : name) (s : list name) : bool := existsb (name_eqb n) s.

(* :327-333, one page: returns (current, anchors).  Since /repo commit 9dc0f60 the
   names are iterated in sorted order; the model stays parametric in the order. *)
Fixpoint page_anchors (seen : list name) (it : list anchor) : list anchor * list name :=
  match it with
  | [] => ([], seen)
  | a :: r =>
      if in_set (aname a) seen then page_anchors seen r
      else let '(cur, seen') := page_anchors (aname a :: seen) r in (a :: cur, seen')
  end.

(* :318-335 *)
Fixpoint paged_anchors (seen : list name) (pages : list page) : list (list anchor) * list name :=
  match pages with
  | [] => ([], seen)
  | p :: r =>
      let '(cur, seen') := page_anchors seen (p_anchors p) in
      let '(rest, seen'') := paged_anchors seen' r in
      (cur :: rest, seen'')
  end.

(* :339-351 *)
Definition keep_link (seen : list name) (l : link) : bool :=
  match ltyp l with
  | LInternal => in_set (ltarget l) seen
  | _ => true
  end.

Definition resolve (pages : list page) : list (list link) * list (list anchor) :=
  let '(anchors, seen) := paged_anchors [] pages in
  (map (fun p => filter (keep_link seen) (p_links p)) pages, anchors).

(* the whole path from laid-out boxes, for a given enumeration of each map *)
Definition page_of (g : gathered) (it : list anchor) : page := mkpage it (g_links g) (g_bks g).
Definition resolve_boxes (bpages : list (list box)) : list (list link) * list (list anchor) :=
  resolve (map (fun bs => let g := gather bs in page_of g (g_anchors g)) bpages).
