(* Draw/BookmarkSpec.v -- what "the outline determined by the levels" means.

   Specification only, independent of the algorithm of makeBookmarkTree
   (Draw/Bookmarks.v is imported for the types `entry`, `node` and the
   flattening `preorder`).

   A forest f is THE outline of a list of bookmark entries es when
     (a) preorder f = es                       (nothing lost, document order),
     (b) in every sibling list (the root list and every children list) the
         levels are non-increasing from left to right            (sib_noninc),
     (c) every child has a level strictly greater than its parent's level.
   (b) + (c) is `outline_ok`.  Draw/BookmarksProofs.v shows that (a)-(c)
   determine the forest (outline_unique), that the reference construction
   `build` below satisfies them, and that the model of the Go code computes
   exactly that forest whenever all levels are >= 1.  *)
From Verif Require Import Draw.Bookmarks.
From Coq Require Import List ZArith Lia.
Import ListNotations.
Local Open Scope Z_scope.

Definition lvl (n : node) : Z := e_level (node_entry n).

(* levels non-increasing from left to right: every later sibling has a level
   <= the level of every earlier one *)
Fixpoint sib_noninc (l : list node) : Prop :=
  match l with
  | [] => True
  | x :: r => Forall (fun y => lvl y <= lvl x) r /\ sib_noninc r
  end.

(* the same thing stated on consecutive siblings only *)
Fixpoint sib_step (l : list node) : Prop :=
  match l with
  | [] => True
  | a :: r => match r with [] => True | b :: _ => lvl b <= lvl a end /\ sib_step r
  end.

(* a node is well formed when its children list is non-increasing, every child
   is strictly deeper than the node, and every child is well formed *)
Inductive node_ok : node -> Prop :=
| node_ok_intro (e : entry) (ch : list node)
    (Hsib : sib_noninc ch)
    (Hdeep : Forall (fun c => e_level e < lvl c) ch)
    (Hch : Forall node_ok ch) :
    node_ok (Node e ch).

Definition outline_ok (f : list node) : Prop := sib_noninc f /\ Forall node_ok f.

(* ---- the reference construction ---- *)

(* longest prefix satisfying p, and the rest *)
Fixpoint span {A} (p : A -> bool) (l : list A) : list A * list A :=
  match l with
  | [] => ([], [])
  | x :: r => if p x then let (a, b) := span p r in (x :: a, b) else ([], l)
  end.

(* e :: rest: the descendants of e are the longest prefix of rest made of
   entries strictly deeper than e; what follows are e's later siblings (or
   belongs to an ancestor's later siblings). *)
Fixpoint build_fuel (fuel : nat) (es : list entry) : list node :=
  match fuel with
  | O => []
  | S f =>
      match es with
      | [] => []
      | e :: rest =>
          let (desc, after) := span (fun x => e_level e <? e_level x) rest in
          Node e (build_fuel f desc) :: build_fuel f after
      end
  end.

Definition build (es : list entry) : list node := build_fuel (length es) es.

(* ---- trivial facts about the definitions ---- *)

Lemma node_ok_inv e ch :
  node_ok (Node e ch) ->
  outline_ok ch /\ Forall (fun c => e_level e < lvl c) ch.
Proof. intros H. inversion H; subst. unfold outline_ok. auto. Qed.

Lemma node_ok_of_outline e ch :
  outline_ok ch -> Forall (fun c => e_level e < lvl c) ch -> node_ok (Node e ch).
Proof. intros [Hs Hc] Hd. constructor; assumption. Qed.

Lemma outline_ok_nil : outline_ok [].
Proof. split; [exact I | constructor]. Qed.

Lemma sib_noninc_step l : sib_noninc l <-> sib_step l.
Proof.
  induction l as [|a r IH]; [tauto|].
  cbn [sib_noninc sib_step]. rewrite IH. split.
  - intros [Hall Hr]. split; [|exact Hr].
    destruct r as [|b r']; [exact I|]. inversion Hall; subst. assumption.
  - intros [Hhd Hr]. split; [|exact Hr].
    destruct r as [|b r']; [constructor|].
    constructor; [exact Hhd|].
    apply IH in Hr. destruct Hr as [Hall _].
    eapply Forall_impl; [|exact Hall]. cbn beta. intros y Hy. lia.
Qed.

(* the node structure is nested through `list`; the induction principle Coq
   generates is too weak, this is the usual strengthening *)
Fixpoint node_ind' (P : node -> Prop)
  (H : forall e ch, Forall P ch -> P (Node e ch)) (n : node) : P n :=
  match n with
  | Node e ch =>
      H e ch ((fix go (l : list node) : Forall P l :=
                 match l with
                 | [] => Forall_nil P
                 | c :: r => Forall_cons c (node_ind' P H c) (go r)
                 end) ch)
  end.
