(* Draw/Bookmarks.v -- model of Document.makeBookmarkTree
   (/repo/html/document/document.go:358-406).

   The Go code builds the outline with pointers into growing slices
   (`lastByDepth []*[]BookmarkNode`): lastByDepth[i] points to the children
   slice of the last node at depth i (lastByDepth[0] = &root).  The model keeps
   the same information as a zipper: `spine` is the list of the currently open
   nodes, deepest first, each with the children it has received so far;
   `roots` is the root slice.  Appending to *lastByDepth[depth-1] and
   truncating lastByDepth to depth entries closes every open node deeper than
   depth-1.  The arithmetic on `skippedLevels` / `previousLevel` is ported
   literally, including the explicit panic of line 396 and the two index
   operations that could panic (380: pop of an empty slice, 399:
   lastByDepth[depth-1]); Panic sites are these line numbers.  Model only; proofs in Draw/BookmarksProofs.v. *)
From Verif Require Export Base.GoSem Draw.Links.
From Coq Require Export QArith List ZArith Bool.
Export ListNotations.
Open Scope Z_scope.

(* one bookmark of the document, in document order (pages concatenated) *)
Record entry := mkentry {
  e_level : Z; e_label : name; e_page : Z; e_pos : pos; e_open : bool
}.

Inductive node := Node (e : entry) (children : list node).

Definition node_entry (n : node) : entry := let 'Node e _ := n in e.
Definition node_children (n : node) : list node := let 'Node _ c := n in c.

(* document.go:369-371: the double loop over pages and page bookmarks *)
Fixpoint entries_from (i : Z) (pages : list (list bookmark)) : list entry :=
  match pages with
  | [] => []
  | bks :: r =>
      map (fun b => mkentry (blevel b) (blabel b) i (bpos b) (bopen b)) bks
      ++ entries_from (i + 1) r
  end.
Definition entries_of (pages : list (list bookmark)) : list entry := entries_from 0 pages.

Definition open_node := (entry * list node)%type.

Record st := mkst {
  skipped : list Z;          (* skippedLevels, LAST element first *)
  prev : Z;                  (* previousLevel *)
  spine : list open_node;    (* lastByDepth[1..], deepest first *)
  roots : list node          (* root *)
}.

Definition init : st := mkst [] 0 [] [].

Definition zsum (l : list Z) : Z := fold_right Z.add 0 l.
Definition zlen {A} (l : list A) : Z := Z.of_nat (length l).

(* :379-383  for temp < previousLevel { pop; temp += 1 + pop } *)
Fixpoint pop_loop (fuel : nat) (temp pv : Z) (sk : list Z) : res (Z * list Z) :=
  match fuel with
  | O => OutOfFuel
  | S f =>
      if temp <? pv then
        match sk with
        | [] => Panic 380           (* skippedLevels[len-1] on an empty slice *)
        | p :: sk' => pop_loop f (temp + 1 + p) pv sk'
        end
      else Ok (temp, sk)
  end.

(* attach a finished node to its parent: the next open node, or the root *)
Definition attach (n : node) (sp : list open_node) (rs : list node) : list open_node * list node :=
  match sp with
  | [] => ([], rs ++ [n])
  | (e, ch) :: rest => ((e, ch ++ [n]) :: rest, rs)
  end.

(* close the deepest open node *)
Definition close1 (sp : list open_node) (rs : list node) : list open_node * list node :=
  match sp with
  | [] => ([], rs)
  | (e, ch) :: rest => attach (Node e ch) rest rs
  end.

Fixpoint close_n (n : nat) (sp : list open_node) (rs : list node) : list open_node * list node :=
  match n with
  | O => (sp, rs)
  | S k => let '(sp', rs') := close1 sp rs in close_n k sp' rs'
  end.

(* :398-402  append the new node to *lastByDepth[depth-1], truncate lastByDepth
   to `depth` entries, push the address of the new node's children *)
Definition insert_at (depth : Z) (e : entry) (sp : list open_node) (rs : list node)
  : res (list open_node * list node) :=
  if (depth - 1 <? 0) || (zlen sp <? depth - 1) then Panic 399   (* lastByDepth[depth-1] *)
  else
    let '(sp', rs') := close_n (length sp - Z.to_nat (depth - 1))%nat sp rs in
    Ok ((e, []) :: sp', rs').

(* :371-403 one bookmark *)
Definition step (s : st) (e : entry) : res st :=
  let level := e_level e in
  let* sk :=
    if level >? prev s then
      Ok ((level - prev s - 1) :: skipped s)                                (* :376 *)
    else
      let* (temp, sk) := pop_loop (S (length (skipped s))) level (prev s) (skipped s) in  (* :378-383 *)
      if temp >? prev s then Ok ((temp - prev s - 1) :: sk) else Ok sk       (* :384-387 *)
  in
  let depth := level - zsum sk in                                            (* :389-394 *)
  if negb (depth =? zlen sk) || (depth <? 1) then Panic 396                  (* :395-397 *)
  else
    let* (sp, rs) := insert_at depth e (spine s) (roots s) in
    Ok (mkst sk level sp rs).

Fixpoint run (s : st) (es : list entry) : res st :=
  match es with
  | [] => Ok s
  | e :: r => let* s' := step s e in run s' r
  end.

Definition close_all (sp : list open_node) (rs : list node) : list node :=
  snd (close_n (length sp) sp rs).

(* :405 return root *)
Definition make_tree (es : list entry) : res (list node) :=
  let* s := run init es in Ok (close_all (spine s) (roots s)).

(* pre-order flattening of a forest *)
Fixpoint preorder_node (n : node) : list entry :=
  let 'Node e ch := n in
  e :: (fix go (l : list node) : list entry :=
          match l with [] => [] | c :: r => preorder_node c ++ go r end) ch.
Definition preorder (f : list node) : list entry := flat_map preorder_node f.
