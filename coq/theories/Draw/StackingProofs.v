(* Draw/StackingProofs.v -- the model of stacking.go / drawStackingContext
   (Draw/Stacking.v) meets CSS 2.1 Appendix E (Draw/PaintSpec.v). *)
From Verif Require Import Base.GoSem Base.SortStable Draw.Stacking Draw.PaintSpec.
From Coq Require Import List ZArith NArith Bool Lia Sorted Permutation.
Import ListNotations.

(* ------------------------------------------------------------------ generalities *)

Section BoxInd.
  Variable P : box -> Prop.
  Hypothesis H : forall i cs, Forall P cs -> P (Box i cs).
  Fixpoint box_ind' (b : box) : P b :=
    match b with
    | Box i cs => H i cs ((fix go (l : list box) : Forall P l :=
                             match l with
                             | [] => Forall_nil P
                             | c :: r => Forall_cons c (box_ind' c) (go r)
                             end) cs)
    end.
End BoxInd.

Lemma insert_at_length {A} (l r : list A) x : insert_at (length l) x (l ++ r) = l ++ x :: r.
Proof.
  unfold insert_at. rewrite firstn_app, skipn_app, firstn_all, skipn_all, Nat.sub_diag.
  simpl. rewrite app_nil_r. reflexivity.
Qed.

Lemma filter_map_comm {A B} (f : A -> B) (p : B -> bool) l :
  filter p (map f l) = map f (filter (fun a => p (f a)) l).
Proof.
  induction l as [|a r IH]; simpl; [reflexivity|].
  destruct (p (f a)); simpl; rewrite IH; reflexivity.
Qed.

Lemma filter_ext_in' {A} (p q : A -> bool) l : (forall a, In a l -> p a = q a) -> filter p l = filter q l.
Proof.
  induction l as [|a r IH]; intros E; simpl; [reflexivity|].
  rewrite (E a) by (left; reflexivity). rewrite IH by (intros x Hx; apply E; right; exact Hx). reflexivity.
Qed.

Lemma flat_map_ext_in {A B} (f g : A -> list B) l : (forall a, In a l -> f a = g a) -> flat_map f l = flat_map g l.
Proof.
  induction l as [|a r IH]; intros E; simpl; [reflexivity|].
  rewrite (E a) by (left; reflexivity). rewrite IH by (intros x Hx; apply E; right; exact Hx). reflexivity.
Qed.

(* the result monad on event lists *)
Lemma app2_ok (a b : list event) : (Ok a +++ Ok b) = Ok (a ++ b).
Proof. reflexivity. Qed.

Lemma seqM_ok {A} (f : A -> rl) (g : A -> list event) l :
  (forall a, In a l -> f a = Ok (g a)) -> seqM f l = Ok (flat_map g l).
Proof.
  induction l as [|a r IH]; intros E; simpl; [reflexivity|].
  rewrite (E a) by (left; reflexivity). simpl.
  rewrite IH by (intros x Hx; apply E; right; exact Hx). reflexivity.
Qed.

Lemma seqM_map_ok {A B} (h : A -> B) (f : B -> rl) (g : A -> list event) l :
  (forall a, In a l -> f (h a) = Ok (g a)) -> seqM f (map h l) = Ok (flat_map g l).
Proof.
  induction l as [|a r IH]; intros E; simpl; [reflexivity|].
  rewrite (E a) by (left; reflexivity). simpl.
  rewrite IH by (intros x Hx; apply E; right; exact Hx). reflexivity.
Qed.

(* ------------------------------------------------------------------ the implementation's instance *)

Notation cl := (cl impl_forms_ctx).
Notation classify := (classify impl_forms_ctx).

Lemma creates_ctx_impl i : creates_ctx i = impl_forms_ctx i.
Proof. reflexivity. Qed.

(* stacking.go 129-131: the guard of panic("expected auto z-index") is unsatisfiable *)
Lemma dispatch_panic_unreachable i :
  creates_ctx i = false -> bpos i = true -> bz i = None.
Proof.
  unfold creates_ctx. intros Hc Hp. rewrite Hp in Hc. destruct (bz i); [|reflexivity].
  simpl in Hc. discriminate.
Qed.

(* ------------------------------------------------------------------ well-formed trees *)

Lemma wf_children i cs : wf_shape (Box i cs) = true -> Forall (fun c => wf_shape c = true) cs.
Proof.
  simpl. rewrite !andb_true_iff. intros [_ Hc]. rewrite forallb_forall in Hc.
  apply Forall_forall. exact Hc.
Qed.

(* ------------------------------------------------------------------ part A: what dispatch collects *)

Definition pctx (b : box) : ctx := fst (from_box_shared b (Some [])).
Definition rctx (b : box) : ctx := fst (from_box_shared b None).
Definition anyctx (b : box) : ctx := if impl_forms_ctx (binfo_of b) then rctx b else pctx b.

Lemma anyctx_real b : creates_ctx (binfo_of b) = true -> anyctx b = rctx b.
Proof.
  intros H. unfold anyctx.
  replace (impl_forms_ctx (binfo_of b)) with (creates_ctx (binfo_of b)) by reflexivity.
  rewrite H. reflexivity.
Qed.
Lemma anyctx_pseudo b : creates_ctx (binfo_of b) = false -> anyctx b = pctx b.
Proof.
  intros H. unfold anyctx.
  replace (impl_forms_ctx (binfo_of b)) with (creates_ctx (binfo_of b)) by reflexivity.
  rewrite H. reflexivity.
Qed.

(* the node standing for a box in the normal tree after dispatch *)
Fixpoint prune (b : box) : option node :=
  match b with
  | Box i cs =>
    match classify i with
    | CReal | CPos | CFloat => None
    | CAtomic => Some (NSub (pctx (Box i cs)))
    | CFlow => Some (NBox i (flat_map (fun c => match prune c with Some n => [n] | None => [] end) cs))
    end
  end.
Definition prune_kids (cs : list box) : list node :=
  flat_map (fun c => match prune c with Some n => [n] | None => [] end) cs.
Definition node_of (b : box) : node := NBox (binfo_of b) (prune_kids (children b)).

(* contribution of one child to its parent's collections (the bodies of the
   flat_maps of PaintSpec) *)
Definition hoisted_c (c : box) : list box :=
  match cl c with CReal => [c] | CPos => c :: hoisted impl_forms_ctx c | _ => hoisted impl_forms_ctx c end.
Definition fd_c (sel : kind -> bool) (c : box) : list box :=
  match cl c with
  | CFlow => (if sel (bkind (binfo_of c)) then [c] else []) ++ flow_desc impl_forms_ctx sel c
  | _ => []
  end.
Definition ff_c (c : box) : list box :=
  match cl c with CFloat => [c] | CFlow => flow_floats impl_forms_ctx c | _ => [] end.

Definition bac_sel (k : kind) : bool := css_block_level k || css_cell k.

Definition acc_add (st : acc) (bl bc : list node) (fl cx : list ctx) : acc :=
  mkAcc (a_blocks st ++ bl) (a_bac st ++ bc) (a_floats st ++ fl) (a_ctxs st ++ cx).

Lemma acc_add_nil st : acc_add st [] [] [] [] = st.
Proof. destruct st; unfold acc_add; simpl; rewrite !app_nil_r; reflexivity. Qed.

Lemma acc_add_add st a b c d a' b' c' d' :
  acc_add (acc_add st a b c d) a' b' c' d' = acc_add st (a ++ a') (b ++ b') (c ++ c') (d ++ d').
Proof. unfold acc_add; simpl; rewrite !app_assoc; reflexivity. Qed.

Definition contrib_ok (c : box) : Prop :=
  forall st, dispatch c st =
    (prune c, acc_add st (map node_of (fd_c css_block_level c)) (map node_of (fd_c bac_sel c))
                         (map pctx (ff_c c)) (map anyctx (hoisted_c c))).

Lemma dispatch_list_spec cs :
  Forall contrib_ok cs ->
  forall st, dispatch_list cs st =
    (prune_kids cs, acc_add st (map node_of (flat_map (fd_c css_block_level) cs))
                               (map node_of (flat_map (fd_c bac_sel) cs))
                               (map pctx (flat_map ff_c cs))
                               (map anyctx (flat_map hoisted_c cs))).
Proof.
  induction 1 as [|c r Hc Hr IH]; intros st; simpl.
  - rewrite acc_add_nil. reflexivity.
  - rewrite (Hc st). rewrite IH. rewrite acc_add_add.
    unfold prune_kids. simpl. rewrite !map_app.
    destruct (prune c); reflexivity.
Qed.

Lemma dispatch_unfold i cs st :
  dispatch (Box i cs) st =
    let inner := from_inner (dispatch_list cs) i (map plain cs) in
    if creates_ctx i then
      (None, mkAcc (a_blocks st) (a_bac st) (a_floats st) (a_ctxs st ++ [fst (inner None)]))
    else if bpos i then
      let index := length (a_ctxs st) in
      let '(c, ctxs) := inner (Some (a_ctxs st)) in
      (None, mkAcc (a_blocks st) (a_bac st) (a_floats st) (insert_at index c ctxs))
    else if bfloat i then
      let '(c, ctxs) := inner (Some (a_ctxs st)) in
      (None, mkAcc (a_blocks st) (a_bac st) (a_floats st ++ [c]) ctxs)
    else if inline_block_or_flex (bkind i) then
      let '(c, ctxs) := inner (Some (a_ctxs st)) in
      (Some (NSub c), mkAcc (a_blocks st) (a_bac st) (a_floats st) ctxs)
    else
      let blocksIndex := if block_level (bkind i) then Some (length (a_blocks st)) else None in
      let bacIndex := if block_level (bkind i) then Some (length (a_bac st))
                      else if table_cell (bkind i) then Some (length (a_bac st)) else None in
      let '(kids, st1) := if is_parent (bkind i) then dispatch_list cs st else (map plain cs, st) in
      let n := NBox i kids in
      let blocks := match blocksIndex with Some k => insert_at k n (a_blocks st1) | None => a_blocks st1 end in
      let bac := match bacIndex with Some k => insert_at k n (a_bac st1) | None => a_bac st1 end in
      (Some n, mkAcc blocks bac (a_floats st1) (a_ctxs st1)).
Proof. reflexivity. Qed.

(* the explicit form of the context built for a box *)
Definition ctx_children (shared : bool) (b : box) : list ctx :=
  if shared then [] else map anyctx (hoisted impl_forms_ctx b).

Definition ctx_explicit (shared : bool) (b : box) : ctx :=
  new_context (binfo_of b) (prune_kids (children b)) (ctx_children shared b)
              (map node_of (flow_desc impl_forms_ctx css_block_level b))
              (map pctx (flow_floats impl_forms_ctx b))
              (map node_of (flow_desc impl_forms_ctx bac_sel b)).

Definition nonparent_leaf (b : box) : Prop :=
  is_parent (bkind (binfo_of b)) = true \/ children b = [].

Lemma from_inner_spec i cs sh :
  Forall contrib_ok cs -> nonparent_leaf (Box i cs) ->
  from_inner (dispatch_list cs) i (map plain cs) sh =
    (ctx_explicit (match sh with Some _ => true | None => false end) (Box i cs),
     (match sh with Some l => l | None => [] end) ++ map anyctx (hoisted impl_forms_ctx (Box i cs))).
Proof.
  intros Hcs Hleaf. unfold from_inner.
  assert (E : (if is_parent (bkind i)
               then dispatch_list cs (mkAcc [] [] [] (match sh with Some l => l | None => [] end))
               else (map plain cs, mkAcc [] [] [] (match sh with Some l => l | None => [] end)))
              = dispatch_list cs (mkAcc [] [] [] (match sh with Some l => l | None => [] end))).
  { destruct (is_parent (bkind i)) eqn:Ep; [reflexivity|].
    destruct Hleaf as [Hp|Hc]; simpl in *; [congruence|]. subst cs. reflexivity. }
  rewrite E. rewrite (dispatch_list_spec cs Hcs). unfold acc_add. simpl.
  unfold ctx_explicit, ctx_children. simpl.
  destruct sh; reflexivity.
Qed.

Lemma contrib_ok_all b : wf_shape b = true -> contrib_ok b.
Proof.
  induction b as [i cs IH] using box_ind'. intros Hwf.
  assert (Hcs : Forall contrib_ok cs).
  { pose proof (wf_children i cs Hwf) as Hw. rewrite Forall_forall in *. intros c Hc. apply IH; auto. }
  assert (Hleaf : nonparent_leaf (Box i cs)).
  { simpl in Hwf. rewrite !andb_true_iff in Hwf. destruct Hwf as [[[H0 _] _] _].
    apply orb_true_iff in H0. destruct H0 as [H0|H0]; [left; exact H0|right].
    destruct cs; [reflexivity|discriminate]. }
  intros st. rewrite dispatch_unfold. cbv zeta.
  unfold hoisted_c, fd_c, ff_c, PaintSpec.cl. cbn [binfo_of prune].
  unfold PaintSpec.classify. change (impl_forms_ctx i) with (creates_ctx i).
  destruct (creates_ctx i) eqn:Ec.
  - (* real context *)
    rewrite (from_inner_spec i cs None Hcs Hleaf). simpl.
    unfold acc_add. simpl. rewrite !app_nil_r.
    rewrite anyctx_real by exact Ec.
    unfold rctx, from_box_shared. rewrite (from_inner_spec i cs None Hcs Hleaf). reflexivity.
  - destruct (bpos i) eqn:Ep.
    + (* positioned, z-index auto: fake context inserted before its sub-contexts *)
      rewrite (from_inner_spec i cs (Some (a_ctxs st)) Hcs Hleaf).
      rewrite insert_at_length. unfold acc_add. simpl. rewrite !app_nil_r.
      rewrite (anyctx_pseudo (Box i cs)) by exact Ec.
      unfold pctx, from_box_shared. rewrite (from_inner_spec i cs (Some []) Hcs Hleaf). reflexivity.
    + destruct (bfloat i) eqn:Ef.
      * rewrite (from_inner_spec i cs (Some (a_ctxs st)) Hcs Hleaf).
        unfold acc_add. simpl. rewrite !app_nil_r.
        unfold pctx, from_box_shared. rewrite (from_inner_spec i cs (Some []) Hcs Hleaf). reflexivity.
      * replace (css_atomic_inline_container (bkind i)) with (inline_block_or_flex (bkind i)) by (destruct (bkind i); reflexivity).
        destruct (inline_block_or_flex (bkind i)) eqn:Eib.
        -- rewrite (from_inner_spec i cs (Some (a_ctxs st)) Hcs Hleaf).
           unfold acc_add. simpl. rewrite !app_nil_r.
           unfold pctx, from_box_shared. rewrite (from_inner_spec i cs (Some []) Hcs Hleaf). reflexivity.
        -- (* in-flow box *)
           assert (E : (if is_parent (bkind i) then dispatch_list cs st else (map plain cs, st))
                       = dispatch_list cs st).
           { destruct (is_parent (bkind i)) eqn:Epar; [reflexivity|].
             destruct Hleaf as [Hp|Hc]; simpl in *; [congruence|]. subst cs. reflexivity. }
           rewrite E. rewrite (dispatch_list_spec cs Hcs). unfold acc_add. cbn [a_blocks a_bac a_floats a_ctxs].
           unfold bac_sel.
           replace (css_block_level (bkind i)) with (block_level (bkind i)) by (destruct (bkind i); reflexivity).
           replace (css_cell (bkind i)) with (table_cell (bkind i)) by (destruct (bkind i); reflexivity).
           fold (prune_kids cs).
           change (NBox i (prune_kids cs)) with (node_of (Box i cs)).
           destruct (block_level (bkind i)) eqn:Ebl; cbn [orb].
           ++ rewrite !insert_at_length. reflexivity.
           ++ destruct (table_cell (bkind i)) eqn:Etc.
              ** rewrite insert_at_length. reflexivity.
              ** reflexivity.
Qed.

Lemma wf_leaf i cs : wf_shape (Box i cs) = true -> nonparent_leaf (Box i cs).
Proof.
  intros Hwf. simpl in Hwf. rewrite !andb_true_iff in Hwf. destruct Hwf as [[[H0 _] _] _].
  apply orb_true_iff in H0. destruct H0 as [H0|H0]; [left; exact H0|right].
  destruct cs; [reflexivity|discriminate].
Qed.

Lemma wf_contrib_children i cs : wf_shape (Box i cs) = true -> Forall contrib_ok cs.
Proof.
  intros Hwf. pose proof (wf_children i cs Hwf) as Hw. rewrite Forall_forall in *.
  intros c Hc. apply contrib_ok_all; auto.
Qed.

Lemma rctx_explicit b : wf_shape b = true -> rctx b = ctx_explicit false b.
Proof.
  destruct b as [i cs]. intros Hwf. unfold rctx, from_box_shared.
  rewrite (from_inner_spec i cs None (wf_contrib_children i cs Hwf) (wf_leaf i cs Hwf)). reflexivity.
Qed.

Lemma pctx_explicit b : wf_shape b = true -> pctx b = ctx_explicit true b.
Proof.
  destruct b as [i cs]. intros Hwf. unfold pctx, from_box_shared.
  rewrite (from_inner_spec i cs (Some []) (wf_contrib_children i cs Hwf) (wf_leaf i cs Hwf)). reflexivity.
Qed.

Lemma from_box_explicit b : wf_shape b = true -> from_box b = ctx_explicit false b.
Proof. exact (rctx_explicit b). Qed.

Lemma ctx_info_pctx b : ctx_info (pctx b) = binfo_of b.
Proof.
  destruct b as [i cs]. unfold pctx, from_box_shared, from_inner.
  destruct (if is_parent (bkind i) then _ else _) as [kids st]. reflexivity.
Qed.

(* ------------------------------------------------------------------ descendants *)

Fixpoint subs (b : box) : list box :=
  match b with Box _ cs => flat_map (fun c => c :: subs c) cs end.

Lemma subs_child i cs c : In c cs -> In c (subs (Box i cs)).
Proof. intros H. simpl. apply in_flat_map. exists c. split; [exact H|left; reflexivity]. Qed.

Lemma subs_trans d c b : In d (subs c) -> In c (subs b) -> In d (subs b).
Proof.
  revert c d. induction b as [i cs IH] using box_ind'. intros c d Hd Hc.
  simpl in Hc. apply in_flat_map in Hc. destruct Hc as [c0 [Hc0 Hc]].
  simpl. apply in_flat_map. exists c0. split; [exact Hc0|].
  destruct Hc as [->|Hc]; [right; exact Hd|]. right.
  rewrite Forall_forall in IH. exact (IH c0 Hc0 c d Hd Hc).
Qed.

Lemma height_child i cs c : In c cs -> height c < height (Box i cs).
Proof.
  intros H. simpl. apply Nat.lt_succ_r.
  induction cs as [|a r IH]; [destruct H|]. simpl. destruct H as [->|H]; [lia|].
  specialize (IH H). lia.
Qed.

Lemma subs_height b d : In d (subs b) -> height d < height b.
Proof.
  revert d. induction b as [i cs IH] using box_ind'. intros d Hd.
  simpl in Hd. apply in_flat_map in Hd. destruct Hd as [c [Hc Hd]].
  pose proof (height_child i cs c Hc) as Hh.
  destruct Hd as [->|Hd]; [exact Hh|].
  rewrite Forall_forall in IH. specialize (IH c Hc d Hd). lia.
Qed.

Lemma subs_wf b d : wf_shape b = true -> In d (subs b) -> wf_shape d = true.
Proof.
  revert d. induction b as [i cs IH] using box_ind'. intros d Hwf Hd.
  simpl in Hd. apply in_flat_map in Hd. destruct Hd as [c [Hc Hd]].
  pose proof (wf_children i cs Hwf) as Hw. rewrite Forall_forall in Hw, IH.
  destruct Hd as [->|Hd]; [exact (Hw _ Hc)|]. exact (IH c Hc d (Hw _ Hc) Hd).
Qed.

Lemma hoisted_subs_gen f b d : In d (hoisted f b) -> In d (subs b).
Proof.
  revert d. induction b as [i cs IH] using box_ind'. intros d Hd.
  simpl in Hd. apply in_flat_map in Hd. destruct Hd as [c [Hc Hd]].
  rewrite Forall_forall in IH. simpl. apply in_flat_map. exists c. split; [exact Hc|].
  destruct (PaintSpec.cl f c).
  - destruct Hd as [->|[]]. left; reflexivity.
  - destruct Hd as [->|Hd]; [left; reflexivity|right; exact (IH c Hc d Hd)].
  - right; exact (IH c Hc d Hd).
  - right; exact (IH c Hc d Hd).
  - right; exact (IH c Hc d Hd).
Qed.

Lemma flow_floats_subs_gen f b d : In d (flow_floats f b) -> In d (subs b).
Proof.
  revert d. induction b as [i cs IH] using box_ind'. intros d Hd.
  simpl in Hd. apply in_flat_map in Hd. destruct Hd as [c [Hc Hd]].
  rewrite Forall_forall in IH. simpl. apply in_flat_map. exists c. split; [exact Hc|].
  destruct (PaintSpec.cl f c); try (destruct Hd; fail).
  - destruct Hd as [->|[]]. left; reflexivity.
  - right; exact (IH c Hc d Hd).
Qed.

Lemma flow_desc_subs_gen f sel b d : In d (flow_desc f sel b) -> In d (subs b).
Proof.
  revert d. induction b as [i cs IH] using box_ind'. intros d Hd.
  simpl in Hd. apply in_flat_map in Hd. destruct Hd as [c [Hc Hd]].
  rewrite Forall_forall in IH. simpl. apply in_flat_map. exists c. split; [exact Hc|].
  destruct (PaintSpec.cl f c); try (destruct Hd; fail).
  apply in_app_or in Hd. destruct Hd as [Hd|Hd].
  - destruct (sel (bkind (binfo_of c))); [|destruct Hd]. destruct Hd as [->|[]]. left; reflexivity.
  - right; exact (IH c Hc d Hd).
Qed.

Definition hoisted_subs := hoisted_subs_gen impl_forms_ctx.
Definition flow_floats_subs := flow_floats_subs_gen impl_forms_ctx.
Definition flow_desc_subs := flow_desc_subs_gen impl_forms_ctx.


(* a hoisted box that does not form a context is positioned with z-index auto *)
Lemma hoisted_level b d :
  In d (hoisted impl_forms_ctx b) -> impl_forms_ctx (binfo_of d) = false -> css_level (binfo_of d) = 0%Z.
Proof.
  revert d. induction b as [i cs IH] using box_ind'. intros d Hd Hf.
  simpl in Hd. apply in_flat_map in Hd. destruct Hd as [c [Hc Hd]].
  rewrite Forall_forall in IH.
  assert (Hpos : PaintSpec.cl impl_forms_ctx d = CPos -> css_level (binfo_of d) = 0%Z).
  { unfold PaintSpec.cl, PaintSpec.classify. rewrite Hf. intros _.
    unfold css_level. destruct (bpos (binfo_of d)) eqn:Ep; [|reflexivity].
    rewrite (dispatch_panic_unreachable (binfo_of d) Hf Ep). reflexivity. }
  destruct (PaintSpec.cl impl_forms_ctx c) eqn:Ecl.
  - destruct Hd as [->|[]]. unfold PaintSpec.cl, PaintSpec.classify in Ecl. rewrite Hf in Ecl.
    destruct (bpos (binfo_of d)); [discriminate|]. destruct (bfloat (binfo_of d)); [discriminate|].
    destruct (css_atomic_inline_container _); discriminate.
  - destruct Hd as [->|Hd]; [exact (Hpos Ecl)|exact (IH c Hc d Hd Hf)].
  - exact (IH c Hc d Hd Hf).
  - exact (IH c Hc d Hd Hf).
  - exact (IH c Hc d Hd Hf).
Qed.

Lemma ctx_z_explicit sh b : ctx_z (ctx_explicit sh b) = css_level (binfo_of b).
Proof.
  unfold ctx_explicit, new_context, css_level. simpl.
  destruct (bz (binfo_of b)); destruct (bpos (binfo_of b)); reflexivity.
Qed.

Lemma ctx_z_anyctx d : wf_shape d = true -> ctx_z (anyctx d) = css_level (binfo_of d).
Proof.
  intros Hwf. unfold anyctx. destruct (impl_forms_ctx (binfo_of d)).
  - rewrite rctx_explicit by exact Hwf. apply ctx_z_explicit.
  - rewrite pctx_explicit by exact Hwf. apply ctx_z_explicit.
Qed.

(* ------------------------------------------------------------------ part B: painting *)

Definition dil_child (child : node) : rl :=
  match child with
  | NBox ci _ => if is_text (bkind ci) then Ok [Content (bid ci)] else draw_inline_level child
  | NSub _ => draw_inline_level child
  end.

Definition step7 (bi : binfo) (bkids : list node) : rl :=
  if is_replaced (bkind bi) then Ok [Content (bid bi)]
  else if last_is_line bkids then seqM draw_inline_level bkids
  else Ok [].

Definition paint_block (b : node) : rl :=
  match b with
  | NBox bi _ => if is_table (bkind bi) then Ok [TableLayers (bid bi)] else Ok [Bg (bid bi); Border (bid bi)]
  | NSub _ => Panic site_nilbox
  end.

Definition step7_node (b : node) : rl :=
  match b with NBox bi bkids => step7 bi bkids | NSub _ => Panic site_nilbox end.

Lemma paint_unfold i kids z neg zero pos blocks floats bac :
  paint (Ctx i kids z neg zero pos blocks floats bac) =
    if singular i then Ok [] else
    let id := bid i in
    let k := bkind i in
    let opac := bopac i in
    let trans := btrans i && negb (is_inline k) in
    let clip := bclip i && negb (is_page k) in
    Ok ((if opac then [Push EOpacity id] else []) ++
        (if trans then [Push ETransform id] else []) ++
        (if point2 k then [Bg id; Border id] else []))
    +++ Ok (if clip then [Push EClip id] else [])
    +++ seqM paint neg
    +++ seqM paint_block blocks
    +++ seqM paint floats
    +++ (if is_inline k then Ok [Bg id; Border id] +++ seqM dil_child kids else Ok [])
    +++ step7 i kids
    +++ seqM step7_node bac
    +++ seqM paint zero
    +++ seqM paint pos
    +++ Ok ((if clip then [Pop EClip id] else []) ++
            outlines (NBox i kids) ++
            (if trans then [Pop ETransform id] else []) ++
            (if opac then [Pop EOpacity id] else [])).
Proof. reflexivity. Qed.

Lemma singular_css i : css_not_displayed i = singular i.
Proof. unfold css_not_displayed, singular, css_transformable. destruct (bkind i); reflexivity. Qed.

Lemma dil_box_unfold i kids :
  draw_inline_level (NBox i kids) =
    Ok [Bg (bid i); Border (bid i)] +++
    (if is_line (bkind i) then seqM dil_child kids
     else if is_replaced (bkind i) then Ok [Content (bid i)]
     else if is_text (bkind i) then Ok [Content (bid i)]
     else Panic site_1545).
Proof. reflexivity. Qed.

Lemma dil_sub_unfold c :
  draw_inline_level (NSub c) =
    if inline_block_or_flex (bkind (ctx_info c)) then paint c else Panic site_1514.
Proof. reflexivity. Qed.

Definition is_line_node (n : node) : bool :=
  match n with NBox i _ => is_linebox (bkind i) | NSub _ => false end.

Lemma last_is_line_all l : forallb is_line_node l = true -> l <> [] -> last_is_line l = true.
Proof.
  unfold last_is_line. induction l as [|a r IH]; intros Ha Hn; [congruence|].
  simpl in Ha. apply andb_true_iff in Ha. destruct Ha as [Ha Hr].
  destruct r as [|b r'].
  - simpl. destruct a; [exact Ha|discriminate].
  - change (last (map Some (a :: b :: r')) None) with (last (map Some (b :: r')) None).
    apply IH; [exact Hr|discriminate].
Qed.

Lemma last_is_line_none l : forallb (fun n => negb (is_line_node n)) l = true -> last_is_line l = false.
Proof.
  unfold last_is_line. induction l as [|a r IH]; intros Ha; [reflexivity|].
  simpl in Ha. apply andb_true_iff in Ha. destruct Ha as [Ha Hr].
  destruct r as [|b r'].
  - simpl. destruct a; [|reflexivity]. simpl in Ha. apply negb_true_iff in Ha. exact Ha.
  - change (last (map Some (a :: b :: r')) None) with (last (map Some (b :: r')) None).
    apply IH; exact Hr.
Qed.

Lemma prune_flow c : PaintSpec.cl impl_forms_ctx c = CFlow -> prune c = Some (node_of c).
Proof. destruct c as [i cs]. unfold PaintSpec.cl. simpl. intros ->. reflexivity. Qed.

Lemma prune_atomic c : PaintSpec.cl impl_forms_ctx c = CAtomic -> prune c = Some (NSub (pctx c)).
Proof. destruct c as [i cs]. unfold PaintSpec.cl. simpl. intros ->. reflexivity. Qed.

Lemma prune_none c :
  match PaintSpec.cl impl_forms_ctx c with CReal | CPos | CFloat => True | _ => False end -> prune c = None.
Proof. destruct c as [i cs]. unfold PaintSpec.cl. simpl. destruct (classify i); tauto. Qed.

Lemma outlines_spec cs :
  flat_map outlines (prune_kids cs) =
  map (fun d => Outline (bid (binfo_of d)))
      (flat_map (fun c => match PaintSpec.cl impl_forms_ctx c with CFlow => flow_all impl_forms_ctx c | _ => [] end) cs).
Proof.
  induction cs as [|c r IHr]; [reflexivity|].
  unfold prune_kids in *. simpl. rewrite flat_map_app, map_app, IHr. f_equal.
  clear IHr r. induction c as [i cs IH] using box_ind'.
  unfold PaintSpec.cl. cbn [binfo_of prune]. destruct (classify i) eqn:Ec; try reflexivity.
  simpl. rewrite app_nil_r. f_equal.
  induction IH as [|c r Hc Hr IHr]; [reflexivity|].
  simpl. rewrite flat_map_app, map_app, IHr. f_equal. exact Hc.
Qed.

Section Main.
  Variable zsort : list box -> list box.
  Hypothesis zsort_ok : z_then_tree_order css_level zsort.

  Notation SPEC := (spec_ctx impl_forms_ctx css_level zsort).

  Lemma zsort_isort l : zsort l = isort (fun b => css_level (binfo_of b)) l.
  Proof. apply isort_unique. apply zsort_ok. Qed.

  (* ---------------------------------------------------------------- inline content *)
  Section Inline.
    Variable atomic : box -> list event.

    (* what the children loop of drawInlineLevel does with one child *)
    Definition child_ok (c : box) : Prop :=
      match prune c with
      | None => inline_paint impl_forms_ctx atomic c = []
      | Some n => dil_child n = Ok (inline_paint impl_forms_ctx atomic c)
      end.

    Lemma dil_children cs :
      Forall child_ok cs ->
      seqM dil_child (prune_kids cs) = Ok (flat_map (inline_paint impl_forms_ctx atomic) cs).
    Proof.
      induction 1 as [|c r Hc Hr IH]; [reflexivity|].
      unfold prune_kids in *. simpl. unfold child_ok in Hc.
      destruct (prune c) as [n|].
      - simpl. rewrite Hc. simpl. rewrite IH. reflexivity.
      - simpl. rewrite Hc. simpl. exact IH.
    Qed.

    Lemma child_ok_all c :
      wf_shape c = true -> inline_ok c = true ->
      (forall d, In d (c :: subs c) -> PaintSpec.cl impl_forms_ctx d = CAtomic -> paint (pctx d) = Ok (atomic d)) ->
      child_ok c.
    Proof.
      induction c as [i cs IH] using box_ind'. intros Hwf Hok Hat.
      unfold child_ok.
      destruct (PaintSpec.cl impl_forms_ctx (Box i cs)) eqn:Ecl.
      - rewrite prune_none by (rewrite Ecl; exact I). unfold PaintSpec.cl in Ecl. simpl in *. rewrite Ecl. reflexivity.
      - rewrite prune_none by (rewrite Ecl; exact I). unfold PaintSpec.cl in Ecl. simpl in *. rewrite Ecl. reflexivity.
      - rewrite prune_none by (rewrite Ecl; exact I). unfold PaintSpec.cl in Ecl. simpl in *. rewrite Ecl. reflexivity.
      - rewrite prune_atomic by exact Ecl. unfold dil_child. rewrite dil_sub_unfold, ctx_info_pctx.
        assert (Hk : inline_block_or_flex (bkind i) = true).
        { unfold PaintSpec.cl, PaintSpec.classify in Ecl. simpl in Ecl.
          destruct (impl_forms_ctx i); [discriminate|]. destruct (bpos i); [discriminate|].
          destruct (bfloat i); [discriminate|].
          destruct (bkind i); simpl in *; try discriminate; reflexivity. }
        simpl binfo_of. rewrite Hk.
        rewrite (Hat (Box i cs)) by (try (left; reflexivity); exact Ecl).
        unfold PaintSpec.cl in Ecl. simpl in *. rewrite Ecl. reflexivity.
      - rewrite prune_flow by exact Ecl. unfold node_of. cbn [binfo_of children].
        unfold inline_ok in Hok. rewrite Ecl in Hok. cbn [binfo_of] in Hok.
        assert (Hkids : is_line (bkind i) = true ->
                        seqM dil_child (prune_kids cs) = Ok (flat_map (inline_paint impl_forms_ctx atomic) cs)).
        { intros Hl. apply dil_children.
          pose proof (wf_children i cs Hwf) as Hw.
          assert (Hio : forallb inline_ok cs = true).
          { simpl in Hwf. rewrite !andb_true_iff in Hwf. destruct Hwf as [[[_ _] H2] _].
            rewrite Hl in H2. simpl in H2. exact H2. }
          rewrite forallb_forall in Hio. rewrite Forall_forall in *.
          intros c Hc. apply IH; auto.
          intros d Hd. apply Hat. right.
          destruct Hd as [<-|Hd]; [apply subs_child; exact Hc|].
          apply (subs_trans d c); [exact Hd|apply subs_child; exact Hc]. }
        unfold PaintSpec.cl in Ecl. cbn [binfo_of] in Ecl.
        cbn [inline_paint]. rewrite Ecl.
        unfold dil_child.
        destruct (bkind i) eqn:Ek; try discriminate Hok; cbn [is_text css_text css_replaced].
        + (* inline box *) rewrite dil_box_unfold, Ek. cbn [is_line]. rewrite Hkids by reflexivity. reflexivity.
        + (* inline replaced *) rewrite dil_box_unfold, Ek. reflexivity.
        + (* text *) reflexivity.
    Qed.

    (* the children of a line or inline box *)
    Lemma line_children i cs :
      wf_shape (Box i cs) = true -> is_line (bkind i) = true ->
      (forall d, In d (subs (Box i cs)) -> PaintSpec.cl impl_forms_ctx d = CAtomic -> paint (pctx d) = Ok (atomic d)) ->
      seqM dil_child (prune_kids cs) = Ok (flat_map (inline_paint impl_forms_ctx atomic) cs).
    Proof.
      intros Hwf Hl Hat. apply dil_children.
      pose proof (wf_children i cs Hwf) as Hw.
      assert (Hio : forallb inline_ok cs = true).
      { simpl in Hwf. rewrite !andb_true_iff in Hwf. destruct Hwf as [[[_ _] H2] _].
        rewrite Hl in H2. simpl in H2. exact H2. }
      rewrite forallb_forall in Hio. rewrite Forall_forall in *.
      intros c Hc. apply child_ok_all; auto.
      intros d Hd. apply Hat.
      destruct Hd as [<-|Hd]; [apply subs_child; exact Hc|].
      apply (subs_trans d c); [exact Hd|apply subs_child; exact Hc].
    Qed.

    Definition lines_paint (c : box) : list event :=
      match PaintSpec.cl impl_forms_ctx c with
      | CFlow => if css_line_box (bkind (binfo_of c)) then inline_paint impl_forms_ctx atomic c else []
      | _ => []
      end.

    Lemma kept_cl c : kept c = match PaintSpec.cl impl_forms_ctx c with CFlow | CAtomic => true | _ => false end.
    Proof. reflexivity. Qed.

    Lemma all_lines_spec cs :
      Forall (fun c => wf_shape c = true) cs ->
      forallb flow_line (filter kept cs) = true ->
      (forall c d, In c cs -> In d (subs c) -> PaintSpec.cl impl_forms_ctx d = CAtomic -> paint (pctx d) = Ok (atomic d)) ->
      prune_kids cs = map node_of (filter kept cs) /\
      seqM draw_inline_level (map node_of (filter kept cs)) = Ok (flat_map lines_paint cs).
    Proof.
      induction cs as [|c r IH]; intros Hw Hall Hat; [split; reflexivity|].
      inversion Hw as [|? ? Hwc Hwr]; subst.
      assert (Hat' : forall c0 d, In c0 r -> In d (subs c0) -> PaintSpec.cl impl_forms_ctx d = CAtomic -> paint (pctx d) = Ok (atomic d)).
      { intros c0 d Hc0. apply Hat. right. exact Hc0. }
      unfold prune_kids in *. cbn [flat_map filter] in *. unfold lines_paint at 1.
      pose proof (kept_cl c) as Hk.
      destruct (PaintSpec.cl impl_forms_ctx c) eqn:Ecl; rewrite Hk in *.
      - rewrite prune_none by (rewrite Ecl; exact I). simpl. apply IH; auto.
      - rewrite prune_none by (rewrite Ecl; exact I). simpl. apply IH; auto.
      - rewrite prune_none by (rewrite Ecl; exact I). simpl. apply IH; auto.
      - cbn [forallb] in Hall. unfold flow_line in Hall at 1. rewrite Ecl in Hall. discriminate.
      - cbn [forallb] in Hall. apply andb_true_iff in Hall. destruct Hall as [Hc Hr].
        unfold flow_line in Hc. rewrite Ecl in Hc.
        rewrite prune_flow by exact Ecl.
        destruct (IH Hwr Hr Hat') as [E1 E2].
        split; [cbn [app map]; f_equal; exact E1|].
        cbn [map]. cbn [seqM]. fold (@seqM node draw_inline_level).
        destruct c as [ci ccs]. change (node_of (Box ci ccs)) with (NBox ci (prune_kids ccs)). cbn [binfo_of children] in *.
        rewrite dil_box_unfold.
        assert (Hl : is_line (bkind ci) = true) by (destruct (bkind ci); try discriminate; reflexivity).
        rewrite Hl.
        rewrite (line_children ci ccs Hwc Hl) by (intros d Hd; apply (Hat (Box ci ccs) d); [left; reflexivity|exact Hd]).
        rewrite E2. simpl.
        replace (css_line_box (bkind ci)) with (is_linebox (bkind ci)) by (destruct (bkind ci); reflexivity).
        rewrite Hc.
        unfold PaintSpec.cl in Ecl. cbn [binfo_of] in Ecl. rewrite Ecl.
        assert (Ht : css_text (bkind ci) = false) by (destruct (bkind ci); try discriminate; reflexivity).
        assert (Hr' : css_replaced (bkind ci) = false) by (destruct (bkind ci); try discriminate; reflexivity).
        rewrite Ht, Hr'. reflexivity.
    Qed.

    Lemma no_lines_spec cs :
      forallb (fun c => negb (flow_line c)) (filter kept cs) = true ->
      forallb (fun n => negb (is_line_node n)) (prune_kids cs) = true /\ flat_map lines_paint cs = [].
    Proof.
      induction cs as [|c r IH]; intros Hnone; [split; reflexivity|].
      unfold prune_kids in *. cbn [flat_map filter] in *. unfold lines_paint at 1.
      pose proof (kept_cl c) as Hk.
      destruct (PaintSpec.cl impl_forms_ctx c) eqn:Ecl; rewrite Hk in *.
      - rewrite prune_none by (rewrite Ecl; exact I). simpl. apply IH; exact Hnone.
      - rewrite prune_none by (rewrite Ecl; exact I). simpl. apply IH; exact Hnone.
      - rewrite prune_none by (rewrite Ecl; exact I). simpl. apply IH; exact Hnone.
      - rewrite prune_atomic by exact Ecl. cbn [forallb] in Hnone. apply andb_true_iff in Hnone.
        destruct Hnone as [_ Hr]. destruct (IH Hr) as [E1 E2]. split; [simpl; exact E1|simpl; exact E2].
      - rewrite prune_flow by exact Ecl. cbn [forallb] in Hnone. apply andb_true_iff in Hnone.
        destruct Hnone as [Hc Hr]. destruct (IH Hr) as [E1 E2].
        unfold flow_line in Hc. rewrite Ecl in Hc. apply negb_true_iff in Hc.
        split.
        + simpl. unfold node_of. simpl. rewrite Hc. simpl. exact E1.
        + replace (css_line_box (bkind (binfo_of c))) with (is_linebox (bkind (binfo_of c))) by (destruct (bkind (binfo_of c)); reflexivity).
          rewrite Hc. simpl. exact E2.
    Qed.

    (* step 7 for one block *)
    Lemma step7_spec x :
      wf_shape x = true ->
      (forall d, In d (subs x) -> PaintSpec.cl impl_forms_ctx d = CAtomic -> paint (pctx d) = Ok (atomic d)) ->
      step7 (binfo_of x) (prune_kids (children x)) = Ok (block_content impl_forms_ctx atomic x).
    Proof.
      destruct x as [i cs]. intros Hwf Hat. cbn [binfo_of children]. unfold step7, block_content.
      replace (css_replaced (bkind i)) with (is_replaced (bkind i)) by (destruct (bkind i); reflexivity).
      destruct (is_replaced (bkind i)); [reflexivity|].
      change (flat_map _ cs) with (flat_map lines_paint cs).
      assert (HW1 : forallb flow_line (filter kept cs) = true \/
                    forallb (fun c => negb (flow_line c)) (filter kept cs) = true).
      { simpl in Hwf. rewrite !andb_true_iff in Hwf. destruct Hwf as [[[_ H1] _] _].
        apply orb_true_iff in H1. exact H1. }
      pose proof (wf_children i cs Hwf) as Hw.
      destruct HW1 as [Hall|Hnone].
      - destruct (all_lines_spec cs Hw Hall) as [E1 E2].
        { intros c d Hc Hd. apply Hat. apply (subs_trans d c); [exact Hd|apply subs_child; exact Hc]. }
        rewrite E1.
        destruct (filter kept cs) as [|k0 kr] eqn:Ek.
        + simpl. simpl in E2. injection E2 as E2. rewrite <- E2. reflexivity.
        + rewrite last_is_line_all; [exact E2| |discriminate].
          rewrite forallb_forall in *. intros n Hn. apply in_map_iff in Hn. destruct Hn as [c [<- Hc]].
          specialize (Hall c Hc). unfold flow_line in Hall. unfold node_of. simpl.
          destruct (PaintSpec.cl impl_forms_ctx c); try discriminate. exact Hall.
      - destruct (no_lines_spec cs Hnone) as [E1 E2].
        rewrite last_is_line_none by exact E1. rewrite E2. reflexivity.
    Qed.
  End Inline.

  (* ---------------------------------------------------------------- child contexts: steps 3, 8, 9 *)
  Notation blevel := (PaintSpec.blevel css_level).

  Lemma ctx_lists (H : list box) (sub : box -> list event) :
    (forall d, In d H -> wf_shape d = true) ->
    (forall d, In d H -> impl_forms_ctx (binfo_of d) = false -> css_level (binfo_of d) = 0%Z) ->
    (forall d, In d H -> paint (anyctx d) = Ok (sub d)) ->
    seqM paint (isort ctx_z (filter (fun c => (ctx_z c <? 0)%Z) (map anyctx H)))
      = Ok (flat_map sub (zsort (filter (fun d => impl_forms_ctx (binfo_of d) && (blevel d <? 0)%Z) H)))
    /\ seqM paint (filter (fun c => (ctx_z c =? 0)%Z) (map anyctx H))
      = Ok (flat_map sub (filter (fun d => negb (impl_forms_ctx (binfo_of d)) || (blevel d =? 0)%Z) H))
    /\ seqM paint (isort ctx_z (filter (fun c => negb (ctx_z c <? 0)%Z && negb (ctx_z c =? 0)%Z) (map anyctx H)))
      = Ok (flat_map sub (zsort (filter (fun d => impl_forms_ctx (binfo_of d) && (0 <? blevel d)%Z) H))).
  Proof.
    intros Hwf Hlev Hp.
    assert (Hz : forall d, In d H -> ctx_z (anyctx d) = blevel d).
    { intros d Hd. apply ctx_z_anyctx. auto. }
    assert (Hsort : forall l, (forall d, In d l -> In d H) ->
              seqM paint (isort ctx_z (map anyctx l)) = Ok (flat_map sub (zsort l))).
    { intros l Hl. rewrite isort_map, zsort_isort.
      rewrite (isort_ext (fun a => ctx_z (anyctx a)) (fun b => css_level (binfo_of b)) l)
        by (intros a Ha; apply Hz; auto).
      apply seqM_map_ok. intros a Ha. apply Hp. apply Hl. apply (isort_in (fun b : box => css_level (binfo_of b)) l a). exact Ha. }
    split; [|split].
    - rewrite filter_map_comm.
      rewrite (filter_ext_in' (fun a => (ctx_z (anyctx a) <? 0)%Z)
                              (fun d => impl_forms_ctx (binfo_of d) && (blevel d <? 0)%Z) H).
      + apply Hsort. intros d Hd. apply filter_In in Hd. tauto.
      + intros d Hd. rewrite (Hz d Hd). destruct (impl_forms_ctx (binfo_of d)) eqn:Ef; [reflexivity|].
        unfold PaintSpec.blevel. rewrite (Hlev d Hd Ef). reflexivity.
    - rewrite filter_map_comm.
      rewrite (filter_ext_in' (fun a => (ctx_z (anyctx a) =? 0)%Z)
                              (fun d => negb (impl_forms_ctx (binfo_of d)) || (blevel d =? 0)%Z) H).
      + apply seqM_map_ok. intros a Ha. apply Hp. apply filter_In in Ha. tauto.
      + intros d Hd. rewrite (Hz d Hd). destruct (impl_forms_ctx (binfo_of d)) eqn:Ef; [reflexivity|].
        unfold PaintSpec.blevel. rewrite (Hlev d Hd Ef). reflexivity.
    - rewrite filter_map_comm.
      rewrite (filter_ext_in' (fun a => negb (ctx_z (anyctx a) <? 0)%Z && negb (ctx_z (anyctx a) =? 0)%Z)
                              (fun d => impl_forms_ctx (binfo_of d) && (0 <? blevel d)%Z) H).
      + apply Hsort. intros d Hd. apply filter_In in Hd. tauto.
      + intros d Hd. rewrite (Hz d Hd). destruct (impl_forms_ctx (binfo_of d)) eqn:Ef.
        * simpl. destruct (Z.ltb_spec (blevel d) 0); destruct (Z.eqb_spec (blevel d) 0);
            destruct (Z.ltb_spec 0 (blevel d)); simpl; try reflexivity; lia.
        * unfold PaintSpec.blevel. rewrite (Hlev d Hd Ef). reflexivity.
  Qed.

  Lemma zsort_nil : zsort [] = [].
  Proof. rewrite zsort_isort. reflexivity. Qed.

  (* ---------------------------------------------------------------- the ten steps *)
  Lemma assemble (o t c p2 : bool) id (A3 A4 A5 A6 A7 A7b A8 A9 OUT : list event) :
    ((if o then [Push EOpacity id] else []) ++ (if t then [Push ETransform id] else []) ++
     (if p2 then [Bg id; Border id] else [])) ++
    (if c then [Push EClip id] else []) ++ A3 ++ A4 ++ A5 ++ A6 ++ A7 ++ A7b ++ A8 ++ A9 ++
    ((if c then [Pop EClip id] else []) ++ OUT ++ (if t then [Pop ETransform id] else []) ++
     (if o then [Pop EOpacity id] else []))
    = wrap EOpacity o id (wrap ETransform t id
        ((if p2 then [Bg id; Border id] else []) ++
         wrap EClip c id (A3 ++ A4 ++ A5 ++ A6 ++ (A7 ++ A7b) ++ A8 ++ A9) ++ OUT)).
  Proof.
    unfold wrap. destruct o, t, c, p2; simpl; repeat rewrite <- app_assoc; simpl; rewrite ?app_nil_r; reflexivity.
  Qed.

  Lemma paint_ctx_explicit n :
    forall b sh, height b <= n -> wf_shape b = true ->
                 paint (ctx_explicit sh b) = Ok (SPEC n (negb sh) b).
  Proof.
    induction n as [|n' IHn]; intros b sh Hh Hwf.
    { destruct b; simpl in Hh; lia. }
    (* what the induction gives for strict descendants *)
    assert (Hd_wf : forall d, In d (subs b) -> wf_shape d = true) by (intros d Hd; exact (subs_wf b d Hwf Hd)).
    assert (Hd_h : forall d, In d (subs b) -> height d <= n') by (intros d Hd; pose proof (subs_height b d Hd); lia).
    assert (Hpseudo : forall d, In d (subs b) -> paint (pctx d) = Ok (SPEC n' false d)).
    { intros d Hd. rewrite pctx_explicit by auto. apply (IHn d true); auto. }
    assert (Hany : forall d, In d (subs b) -> paint (anyctx d) = Ok (SPEC n' (impl_forms_ctx (binfo_of d)) d)).
    { intros d Hd. unfold anyctx. destruct (impl_forms_ctx (binfo_of d)).
      - rewrite rctx_explicit by auto. apply (IHn d false); auto.
      - apply Hpseudo; exact Hd. }
    destruct b as [i cs].
    set (b := Box i cs) in *.
    set (atomic := fun d => SPEC n' false d).
    set (sub := fun d => SPEC n' (impl_forms_ctx (binfo_of d)) d).
    set (H := if negb sh then hoisted impl_forms_ctx b else []).
    assert (HH : ctx_children sh b = map anyctx H) by (unfold ctx_children, H; destruct sh; reflexivity).
    assert (HHsub : forall d, In d H -> In d (subs b)).
    { intros d Hd. unfold H in Hd. destruct (negb sh); [apply hoisted_subs; exact Hd|destruct Hd]. }
    assert (HHlev : forall d, In d H -> impl_forms_ctx (binfo_of d) = false -> css_level (binfo_of d) = 0%Z).
    { intros d Hd. unfold H in Hd. destruct (negb sh); [apply (hoisted_level b); exact Hd|destruct Hd]. }
    destruct (ctx_lists H sub (fun d Hd => Hd_wf d (HHsub d Hd)) HHlev (fun d Hd => Hany d (HHsub d Hd)))
      as [E3 [E8 E9]].
    (* step 4 *)
    assert (E4 : seqM paint_block (map node_of (flow_desc impl_forms_ctx css_block_level b))
                 = Ok (flat_map block_decoration (flow_desc impl_forms_ctx css_block_level b))).
    { apply seqM_map_ok. intros d _. unfold node_of, paint_block, block_decoration.
      replace (css_table (bkind (binfo_of d))) with (is_table (bkind (binfo_of d))) by (destruct (bkind (binfo_of d)); reflexivity).
      destruct (is_table (bkind (binfo_of d))); reflexivity. }
    (* step 5 *)
    assert (E5 : seqM paint (map pctx (flow_floats impl_forms_ctx b))
                 = Ok (flat_map atomic (flow_floats impl_forms_ctx b))).
    { apply seqM_map_ok. intros d Hd. apply Hpseudo. apply flow_floats_subs. exact Hd. }
    (* inline-blocks inside b *)
    assert (Hat : forall d, In d (subs b) -> PaintSpec.cl impl_forms_ctx d = CAtomic -> paint (pctx d) = Ok (atomic d)).
    { intros d Hd _. apply Hpseudo. exact Hd. }
    (* step 6 *)
    assert (E6 : (if is_inline (bkind i) then Ok [Bg (bid i); Border (bid i)] +++ seqM dil_child (prune_kids cs) else Ok [])
                 = Ok (if css_inline_box (bkind i) then inline_root_paint impl_forms_ctx atomic b else [])).
    { replace (css_inline_box (bkind i)) with (is_inline (bkind i)) by (destruct (bkind i); reflexivity).
      destruct (is_inline (bkind i)) eqn:Ei; [|reflexivity].
      rewrite (line_children atomic i cs Hwf) by (try exact Hat; destruct (bkind i); try discriminate; reflexivity).
      reflexivity. }
    (* step 7 *)
    assert (E7a : step7 i (prune_kids cs) = Ok (block_content impl_forms_ctx atomic b)).
    { apply (step7_spec atomic b Hwf Hat). }
    assert (E7b : seqM step7_node (map node_of (flow_desc impl_forms_ctx bac_sel b))
                  = Ok (flat_map (block_content impl_forms_ctx atomic) (flow_desc impl_forms_ctx bac_sel b))).
    { apply seqM_map_ok. intros d Hd. apply flow_desc_subs in Hd.
      unfold node_of, step7_node. apply (step7_spec atomic d (Hd_wf d Hd)).
      intros e He _. apply Hpseudo. apply (subs_trans e d b); assumption. }
    (* step 10 *)
    assert (E10 : outlines (NBox i (prune_kids cs)) = map (fun d => Outline (bid (binfo_of d))) (flow_all impl_forms_ctx b)).
    { simpl. f_equal. apply outlines_spec. }
    (* assemble *)
    unfold ctx_explicit, new_context. rewrite HH. change (binfo_of b) with i. change (children b) with cs.
    rewrite paint_unfold.
    destruct (singular i) eqn:Es.
    { cbn [spec_ctx]. cbv zeta. change (binfo_of b) with i. rewrite singular_css, Es. reflexivity. }
    cbv zeta.
    rewrite E3, E4, E5, E6, E7a, E7b, E8, E9, E10. rewrite !app2_ok. f_equal.
    rewrite assemble.
    cbn [spec_ctx]. cbv zeta. change (binfo_of b) with i. rewrite singular_css, Es. fold atomic. fold sub.
    change (if negb sh then hoisted impl_forms_ctx b else []) with H.
    replace (css_paints_box_decoration (bkind i)) with (point2 (bkind i)) by (destruct (bkind i); reflexivity).
    replace (css_transformable (bkind i)) with (negb (is_inline (bkind i))) by (destruct (bkind i); reflexivity).
    reflexivity.
  Qed.

  Theorem paint_order_spec b :
    wf_shape b = true -> paint (from_box b) = Ok (spec_paint impl_forms_ctx css_level zsort b).
  Proof.
    intros Hwf. rewrite from_box_explicit by exact Hwf.
    unfold spec_paint. apply (paint_ctx_explicit (S (height b)) b false); [lia|exact Hwf].
  Qed.

  (* ---------------------------------------------------------------- the page *)
  Lemma height_le_fold roots d :
    In d roots -> height d <= fold_right (fun c m => Nat.max (height c) m) 0 roots.
  Proof.
    induction roots as [|a r IH]; intros Hd; [destruct Hd|]. simpl.
    destruct Hd as [->|Hd]; [lia|]. specialize (IH Hd). lia.
  Qed.

  Theorem paint_page_spec pi canvas roots :
    bkind pi = KPage -> bopac pi = false -> btrans pi = false ->
    Forall (fun r => wf_shape r = true) roots ->
    paint_page pi canvas roots = Ok (spec_page impl_forms_ctx css_level zsort pi canvas roots).
  Proof.
    intros Hk Ho Ht Hwf. unfold paint_page, from_page, new_context, spec_page.
    set (n := S (fold_right (fun c m => Nat.max (height c) m) 0 roots)).
    set (sub := fun d => SPEC n true d).
    rewrite Forall_forall in Hwf.
    assert (Hp : forall d, In d roots -> paint (from_box d) = Ok (sub d)).
    { intros d Hd. rewrite from_box_explicit by auto.
      apply (paint_ctx_explicit n d false); [|auto].
      pose proof (height_le_fold roots d Hd). unfold n. lia. }
    assert (Hz : forall d, In d roots -> ctx_z (from_box d) = blevel d).
    { intros d Hd. rewrite from_box_explicit by auto. apply ctx_z_explicit. }
    assert (Hsort : forall l, (forall d, In d l -> In d roots) ->
              seqM paint (isort ctx_z (map from_box l)) = Ok (flat_map sub (zsort l))).
    { intros l Hl. rewrite isort_map, zsort_isort.
      rewrite (isort_ext (fun a => ctx_z (from_box a)) (fun b => css_level (binfo_of b)) l)
        by (intros a Ha; apply Hz; auto).
      apply seqM_map_ok. intros a Ha. apply Hp. apply Hl.
      apply (isort_in (fun b : box => css_level (binfo_of b)) l a). exact Ha. }
    rewrite paint_unfold. unfold singular. rewrite Ht. cbn [andb].
    cbv zeta. rewrite Hk, Ho. simpl point2. simpl is_inline. simpl is_page.
    rewrite andb_false_r. cbn [andb].
    rewrite !filter_map_comm.
    rewrite (filter_ext_in' (fun a => (ctx_z (from_box a) <? 0)%Z) (fun d => (blevel d <? 0)%Z) roots)
      by (intros d Hd; rewrite (Hz d Hd); reflexivity).
    rewrite (filter_ext_in' (fun a => (ctx_z (from_box a) =? 0)%Z) (fun d => (blevel d =? 0)%Z) roots)
      by (intros d Hd; rewrite (Hz d Hd); reflexivity).
    rewrite (filter_ext_in' (fun a => negb (ctx_z (from_box a) <? 0)%Z && negb (ctx_z (from_box a) =? 0)%Z)
                            (fun d => (0 <? blevel d)%Z) roots).
    2:{ intros d Hd. rewrite (Hz d Hd).
        destruct (Z.ltb_spec (blevel d) 0); destruct (Z.eqb_spec (blevel d) 0);
          destruct (Z.ltb_spec 0 (blevel d)); simpl; try reflexivity; lia. }
    rewrite (Hsort (filter (fun d => (blevel d <? 0)%Z) roots)) by (intros d Hd; apply filter_In in Hd; tauto).
    rewrite (Hsort (filter (fun d => (0 <? blevel d)%Z) roots)) by (intros d Hd; apply filter_In in Hd; tauto).
    rewrite (seqM_map_ok from_box paint sub) by (intros a Ha; apply Hp; apply filter_In in Ha; tauto).
    unfold step7. rewrite Hk. simpl is_replaced. unfold last_is_line. simpl.
    reflexivity.
  Qed.

  (* ---------------------------------------------------------------- the three lists *)
  (* stacking.go 32-73: whatever the child contexts, the three lists are the
     three sign classes, negative and positive ones ordered by z-index with
     ties in the order of childContexts (= tree order) *)
  Lemma new_context_partition i kids cc blocks floats bac :
    match new_context i kids cc blocks floats bac with
    | Ctx _ _ _ neg zero pos _ _ _ =>
      stable_sorted_of ctx_z (filter (fun c => (ctx_z c <? 0)%Z) cc) neg
      /\ zero = filter (fun c => (ctx_z c =? 0)%Z) cc
      /\ stable_sorted_of ctx_z (filter (fun c => (0 <? ctx_z c)%Z) cc) pos
    end.
  Proof.
    unfold new_context. split; [apply isort_contract|split; [reflexivity|]].
    rewrite (filter_ext_in' (fun c => negb (ctx_z c <? 0)%Z && negb (ctx_z c =? 0)%Z) (fun c => (0 <? ctx_z c)%Z) cc).
    - apply isort_contract.
    - intros c _. destruct (Z.ltb_spec (ctx_z c) 0); destruct (Z.eqb_spec (ctx_z c) 0);
        destruct (Z.ltb_spec 0 (ctx_z c)); simpl; try reflexivity; lia.
  Qed.

  (* ... and for the context of a box they are the contexts of Appendix E's
     three classes of descendants, in (z-index, tree order) *)
  Theorem stable_partition_sort b :
    wf_shape b = true ->
    match from_box b with
    | Ctx _ _ _ neg zero pos _ _ _ =>
      let H := hoisted impl_forms_ctx b in
      neg = map anyctx (zsort (filter (fun d => impl_forms_ctx (binfo_of d) && (blevel d <? 0)%Z) H))
      /\ zero = map anyctx (filter (fun d => negb (impl_forms_ctx (binfo_of d)) || (blevel d =? 0)%Z) H)
      /\ pos = map anyctx (zsort (filter (fun d => impl_forms_ctx (binfo_of d) && (0 <? blevel d)%Z) H))
    end.
  Proof.
    intros Hwf. rewrite from_box_explicit by exact Hwf.
    unfold ctx_explicit, new_context, ctx_children. cbv zeta.
    set (H := hoisted impl_forms_ctx b).
    assert (Hz : forall d, In d H -> ctx_z (anyctx d) = blevel d).
    { intros d Hd. apply ctx_z_anyctx. apply (subs_wf b d Hwf). apply hoisted_subs. exact Hd. }
    assert (Hlev : forall d, In d H -> impl_forms_ctx (binfo_of d) = false -> blevel d = 0%Z).
    { intros d Hd. apply (hoisted_level b d Hd). }
    assert (Hsort : forall l, (forall d, In d l -> In d H) -> isort ctx_z (map anyctx l) = map anyctx (zsort l)).
    { intros l Hl. rewrite isort_map, zsort_isort. f_equal.
      apply isort_ext. intros a Ha. apply Hz. auto. }
    rewrite !filter_map_comm.
    split; [|split].
    - rewrite (filter_ext_in' (fun a => (ctx_z (anyctx a) <? 0)%Z)
                              (fun d => impl_forms_ctx (binfo_of d) && (blevel d <? 0)%Z) H).
      + apply Hsort. intros d Hd. apply filter_In in Hd. tauto.
      + intros d Hd. rewrite (Hz d Hd). destruct (impl_forms_ctx (binfo_of d)) eqn:Ef; [reflexivity|].
        rewrite (Hlev d Hd Ef). reflexivity.
    - f_equal. apply filter_ext_in'. intros d Hd. rewrite (Hz d Hd).
      destruct (impl_forms_ctx (binfo_of d)) eqn:Ef; [reflexivity|]. rewrite (Hlev d Hd Ef). reflexivity.
    - rewrite (filter_ext_in' (fun a => negb (ctx_z (anyctx a) <? 0)%Z && negb (ctx_z (anyctx a) =? 0)%Z)
                              (fun d => impl_forms_ctx (binfo_of d) && (0 <? blevel d)%Z) H).
      + apply Hsort. intros d Hd. apply filter_In in Hd. tauto.
      + intros d Hd. rewrite (Hz d Hd). destruct (impl_forms_ctx (binfo_of d)) eqn:Ef.
        * simpl. destruct (Z.ltb_spec (blevel d) 0); destruct (Z.eqb_spec (blevel d) 0);
            destruct (Z.ltb_spec 0 (blevel d)); simpl; try reflexivity; lia.
        * rewrite (Hlev d Hd Ef). reflexivity.
  Qed.
End Main.

(* ------------------------------------------------------------------ properties of the specification *)

(* background immediately precedes border, for every box, everywhere *)
Definition not_bgb (e : event) : bool := match e with Bg _ | Border _ => false | _ => true end.

Inductive paired : list event -> Prop :=
| paired_nil : paired []
| paired_bb id l : paired l -> paired (Bg id :: Border id :: l)
| paired_other e l : not_bgb e = true -> paired l -> paired (e :: l).

Lemma paired_app l1 l2 : paired l1 -> paired l2 -> paired (l1 ++ l2).
Proof. induction 1; intros H2; simpl; [exact H2|constructor; auto|constructor; auto]. Qed.

Lemma paired_flat_map {A} (f : A -> list event) l : (forall a, In a l -> paired (f a)) -> paired (flat_map f l).
Proof.
  induction l as [|a r IH]; intros H; simpl; [constructor|].
  apply paired_app; [apply H; left; reflexivity|apply IH; intros x Hx; apply H; right; exact Hx].
Qed.

Lemma paired_wrap e on id l : paired l -> paired (wrap e on id l).
Proof.
  intros H. unfold wrap. destruct on; [|exact H].
  apply paired_other; [reflexivity|]. apply paired_app; [exact H|].
  apply paired_other; [reflexivity|constructor].
Qed.

Lemma paired_outlines {A} (f : A -> N) l : paired (map (fun d => Outline (f d)) l).
Proof. induction l; simpl; [constructor|apply paired_other; [reflexivity|assumption]]. Qed.

Lemma paired_adjacent l : paired l ->
  forall l1 l2 id, l = l1 ++ Bg id :: l2 -> exists l3, l2 = Border id :: l3.
Proof.
  induction 1 as [|id0 l H IH|e l He H IH]; intros l1 l2 id E.
  - destruct l1; discriminate.
  - destruct l1 as [|a l1].
    + simpl in E. injection E as -> <-. eexists; reflexivity.
    + destruct l1 as [|a' l1].
      * simpl in E. injection E as _ E. discriminate.
      * simpl in E. injection E as _ _ E. exact (IH l1 l2 id E).
  - destruct l1 as [|a l1].
    + simpl in E. injection E as -> _. discriminate.
    + simpl in E. injection E as _ E. exact (IH l1 l2 id E).
Qed.

Lemma paired_adjacent_rev l : paired l ->
  forall l1 l2 id, l = l1 ++ Border id :: l2 -> exists l0, l1 = l0 ++ [Bg id].
Proof.
  induction 1 as [|id0 l H IH|e l He H IH]; intros l1 l2 id E.
  - destruct l1; discriminate.
  - destruct l1 as [|a l1].
    + simpl in E. discriminate.
    + destruct l1 as [|a' l1].
      * simpl in E. injection E as Ea Eb _. subst a. subst id0. exists []. reflexivity.
      * simpl in E. injection E as Ea Eb E. subst a a'. destruct (IH l1 l2 id E) as [l0 ->].
        exists (Bg id0 :: Border id0 :: l0). reflexivity.
  - destruct l1 as [|a l1].
    + simpl in E. injection E as -> _. discriminate.
    + simpl in E. injection E as Ea E. subst a. destruct (IH l1 l2 id E) as [l0 ->].
      exists (e :: l0). reflexivity.
Qed.

(* Push / Pop are balanced and well nested *)
Definition effect_eqb (a b : effect) : bool :=
  match a, b with
  | EClip, EClip | EOpacity, EOpacity | ETransform, ETransform => true
  | _, _ => false
  end.

Fixpoint bal (stk : list (effect * N)) (l : list event) : bool :=
  match l with
  | [] => match stk with [] => true | _ => false end
  | Push e id :: r => bal ((e, id) :: stk) r
  | Pop e id :: r => match stk with
                     | (e', id') :: s => effect_eqb e e' && N.eqb id id' && bal s r
                     | [] => false
                     end
  | _ :: r => bal stk r
  end.

Definition balanced (l : list event) : Prop := bal [] l = true.

Lemma bal_app s l1 : bal s l1 = true -> forall stk l2, bal (s ++ stk) (l1 ++ l2) = bal stk l2.
Proof.
  revert s. induction l1 as [|e r IH]; intros s H stk l2.
  - simpl in H. destruct s; [reflexivity|discriminate].
  - destruct e; simpl in *; try (apply IH; exact H).
    + apply (IH ((e, id) :: s)). exact H.
    + destruct s as [|[e' id'] s']; [discriminate|].
      simpl. destruct (effect_eqb e e' && N.eqb id id'); [|discriminate]. simpl in *.
      apply IH. exact H.
Qed.

Lemma balanced_app l1 l2 : balanced l1 -> balanced l2 -> balanced (l1 ++ l2).
Proof. unfold balanced. intros H1 H2. pose proof (bal_app [] l1 H1 [] l2) as E. simpl in E. rewrite E. exact H2. Qed.

Lemma balanced_flat_map {A} (f : A -> list event) l : (forall a, In a l -> balanced (f a)) -> balanced (flat_map f l).
Proof.
  induction l as [|a r IH]; intros H; simpl; [reflexivity|].
  apply balanced_app; [apply H; left; reflexivity|apply IH; intros x Hx; apply H; right; exact Hx].
Qed.

Lemma effect_eqb_refl e : effect_eqb e e = true.
Proof. destruct e; reflexivity. Qed.

Lemma balanced_wrap e on id l : balanced l -> balanced (wrap e on id l).
Proof.
  unfold balanced, wrap. intros H. destruct on; [|exact H]. simpl.
  pose proof (bal_app [] l H [(e, id)] [Pop e id]) as E. simpl in E. rewrite E.
  rewrite effect_eqb_refl, N.eqb_refl. reflexivity.
Qed.

Lemma balanced_outlines {A} (f : A -> N) l : balanced (map (fun d => Outline (f d)) l).
Proof. unfold balanced. induction l; simpl; auto. Qed.

Section SpecProps.
  Variable forms_ctx : binfo -> bool.
  Variable level : binfo -> Z.
  Variable zsort : list box -> list box.

  Notation SP := (spec_ctx forms_ctx level zsort).

  Lemma inline_paint_paired atomic c : (forall d, paired (atomic d)) -> paired (inline_paint forms_ctx atomic c).
  Proof.
    intros Ha. induction c as [i cs IH] using box_ind'. cbn [inline_paint].
    destruct (PaintSpec.classify forms_ctx i); try constructor; try apply Ha.
    destruct (css_text (bkind i)); [apply paired_other; [reflexivity|constructor]|].
    destruct (css_replaced (bkind i)); [apply paired_bb; apply paired_other; [reflexivity|constructor]|].
    apply paired_bb. apply paired_flat_map. rewrite Forall_forall in IH. exact IH.
  Qed.

  Lemma inline_paint_balanced atomic c : (forall d, balanced (atomic d)) -> balanced (inline_paint forms_ctx atomic c).
  Proof.
    intros Ha. induction c as [i cs IH] using box_ind'. cbn [inline_paint].
    destruct (PaintSpec.classify forms_ctx i); try reflexivity; try apply Ha.
    destruct (css_text (bkind i)); [reflexivity|].
    destruct (css_replaced (bkind i)); [reflexivity|].
    change (balanced ([Bg (bid i); Border (bid i)] ++ flat_map (inline_paint forms_ctx atomic) cs)).
    apply balanced_app; [reflexivity|]. apply balanced_flat_map. rewrite Forall_forall in IH. exact IH.
  Qed.

  Lemma block_content_paired atomic x : (forall d, paired (atomic d)) -> paired (block_content forms_ctx atomic x).
  Proof.
    intros Ha. destruct x as [i cs]. unfold block_content.
    destruct (css_replaced (bkind i)); [apply paired_other; [reflexivity|constructor]|].
    apply paired_flat_map. intros c _. destruct (PaintSpec.cl forms_ctx c); try constructor.
    destruct (css_line_box _); [apply inline_paint_paired; exact Ha|constructor].
  Qed.

  Lemma block_content_balanced atomic x : (forall d, balanced (atomic d)) -> balanced (block_content forms_ctx atomic x).
  Proof.
    intros Ha. destruct x as [i cs]. unfold block_content.
    destruct (css_replaced (bkind i)); [reflexivity|].
    apply balanced_flat_map. intros c _. destruct (PaintSpec.cl forms_ctx c); try reflexivity.
    destruct (css_line_box _); [apply inline_paint_balanced; exact Ha|reflexivity].
  Qed.

  Lemma block_decoration_paired d : paired (block_decoration d).
  Proof.
    unfold block_decoration. destruct (css_table _).
    - apply paired_other; [reflexivity|constructor].
    - apply paired_bb. constructor.
  Qed.

  Lemma block_decoration_balanced d : balanced (block_decoration d).
  Proof. unfold block_decoration. destruct (css_table _); reflexivity. Qed.

  Theorem spec_ctx_paired n : forall real b, paired (SP n real b).
  Proof.
    induction n as [|n IH]; intros real b; [constructor|].
    cbn [spec_ctx]. cbv zeta. destruct (css_not_displayed _); [constructor|].
    apply paired_wrap. apply paired_wrap. apply paired_app; [|apply paired_app].
    - destruct (css_paints_box_decoration _); [apply paired_bb|]; constructor.
    - apply paired_wrap.
      apply paired_app; [apply paired_flat_map; intros; apply IH|].
      apply paired_app; [apply paired_flat_map; intros; apply block_decoration_paired|].
      apply paired_app; [apply paired_flat_map; intros; apply IH|].
      apply paired_app.
      { destruct (css_inline_box _); [|constructor]. destruct b as [i cs]. unfold inline_root_paint.
        apply paired_bb. apply paired_flat_map. intros. apply inline_paint_paired. intros; apply IH. }
      apply paired_app; [apply paired_flat_map; intros; apply block_content_paired; intros; apply IH|].
      apply paired_app; apply paired_flat_map; intros; apply IH.
    - apply paired_outlines.
  Qed.

  Theorem spec_ctx_balanced n : forall real b, balanced (SP n real b).
  Proof.
    induction n as [|n IH]; intros real b; [reflexivity|].
    cbn [spec_ctx]. cbv zeta. destruct (css_not_displayed _); [reflexivity|].
    apply balanced_wrap. apply balanced_wrap. apply balanced_app; [|apply balanced_app].
    - destruct (css_paints_box_decoration _); reflexivity.
    - apply balanced_wrap.
      apply balanced_app; [apply balanced_flat_map; intros; apply IH|].
      apply balanced_app; [apply balanced_flat_map; intros; apply block_decoration_balanced|].
      apply balanced_app; [apply balanced_flat_map; intros; apply IH|].
      apply balanced_app.
      { destruct (css_inline_box _); [|reflexivity]. destruct b as [i cs]. unfold inline_root_paint.
        change (balanced ([Bg (bid i); Border (bid i)] ++ flat_map (inline_paint forms_ctx (fun d => SP n false d)) cs)).
        apply balanced_app; [reflexivity|].
        apply balanced_flat_map. intros. apply inline_paint_balanced. intros; apply IH. }
      apply balanced_app; [apply balanced_flat_map; intros; apply block_content_balanced; intros; apply IH|].
      apply balanced_app; apply balanced_flat_map; intros; apply IH.
    - apply balanced_outlines.
  Qed.
End SpecProps.

(* ------------------------------------------------------------------ whose events lie between Push and Pop *)

Definition ev_id (e : event) : N :=
  match e with
  | Bg id | Border id | Content id | Outline id | Push _ id | Pop _ id | TableLayers id | CanvasBg id => id
  end.

Definition boxes (b : box) : list box := b :: subs b.
Definition ids (b : box) : list N := map (fun x => bid (binfo_of x)) (boxes b).

Definition is_push_pop (e : event) : bool := match e with Push _ _ | Pop _ _ => true | _ => false end.

(* well bracketed, and everything between `Push e id` and its `Pop e id`
   belongs to `scope id` *)
Inductive scoped (scope : N -> list N) : list event -> Prop :=
| sc_nil : scoped scope []
| sc_ev e l : is_push_pop e = false -> scoped scope l -> scoped scope (e :: l)
| sc_wrap e id l1 l2 :
    scoped scope l1 -> (forall x, In x l1 -> In (ev_id x) (scope id)) -> scoped scope l2 ->
    scoped scope (Push e id :: l1 ++ Pop e id :: l2).

Lemma scoped_app scope l1 l2 : scoped scope l1 -> scoped scope l2 -> scoped scope (l1 ++ l2).
Proof.
  induction 1 as [|e l He H IH|e id a b Ha IHa Hin Hb IHb]; intros H2; simpl.
  - exact H2.
  - constructor; auto.
  - rewrite <- app_assoc. simpl. apply sc_wrap; auto.
Qed.

Lemma scoped_flat_map {A} scope (f : A -> list event) l :
  (forall a, In a l -> scoped scope (f a)) -> scoped scope (flat_map f l).
Proof.
  induction l as [|a r IH]; intros H; simpl; [constructor|].
  apply scoped_app; [apply H; left; reflexivity|apply IH; intros x Hx; apply H; right; exact Hx].
Qed.

Lemma scoped_wrap scope e on id l :
  scoped scope l -> (forall x, In x l -> In (ev_id x) (scope id)) -> scoped scope (wrap e on id l).
Proof.
  intros H Hin. unfold wrap. destruct on; [|exact H].
  change (Push e id :: l ++ [Pop e id]) with (Push e id :: l ++ Pop e id :: []).
  apply sc_wrap; auto. constructor.
Qed.

Lemma scoped_plain scope l : forallb (fun e => negb (is_push_pop e)) l = true -> scoped scope l.
Proof.
  induction l as [|e r IH]; intros H; [constructor|]. simpl in H. apply andb_true_iff in H.
  destruct H as [He Hr]. apply sc_ev; [apply negb_true_iff; exact He|auto].
Qed.


(* a generic induction principle for the specification: a property of event
   lists indexed by the box they are painted for, closed under concatenation,
   group wrappers, and passing from a descendant to an ancestor *)
Section SpecInd.
  Variable forms_ctx : binfo -> bool.
  Variable level : binfo -> Z.
  Variable zsort : list box -> list box.
  Hypothesis zsort_in : forall l x, In x (zsort l) -> In x l.
  Variable Q : box -> list event -> Prop.
  Hypothesis Q_nil : forall b, Q b [].
  Hypothesis Q_app : forall b l1 l2, Q b l1 -> Q b l2 -> Q b (l1 ++ l2).
  Hypothesis Q_own : forall b e, is_push_pop e = false -> ev_id e = bid (binfo_of b) -> Q b [e].
  Hypothesis Q_sub : forall b d l, In d (subs b) -> Q d l -> Q b l.
  Hypothesis Q_wrap : forall b e on l, Q b l -> Q b (wrap e on (bid (binfo_of b)) l).

  Notation SP := (spec_ctx forms_ctx level zsort).

  Lemma Q_flat_map {A} b (f : A -> list event) l : (forall a, In a l -> Q b (f a)) -> Q b (flat_map f l).
  Proof.
    induction l as [|a r IH]; intros H; simpl; [apply Q_nil|].
    apply Q_app; [apply H; left; reflexivity|apply IH; intros x Hx; apply H; right; exact Hx].
  Qed.

  Lemma Q_own2 b e1 e2 : is_push_pop e1 = false -> is_push_pop e2 = false ->
    ev_id e1 = bid (binfo_of b) -> ev_id e2 = bid (binfo_of b) -> Q b [e1; e2].
  Proof. intros. change [e1; e2] with ([e1] ++ [e2]). apply Q_app; apply Q_own; auto. Qed.

  Lemma Q_child i cs c l : In c cs -> Q c l -> Q (Box i cs) l.
  Proof. intros Hc. apply Q_sub. apply subs_child. exact Hc. Qed.

  Lemma inline_paint_Q atomic c :
    (forall d, In d (boxes c) -> Q d (atomic d)) -> Q c (inline_paint forms_ctx atomic c).
  Proof.
    induction c as [i cs IH] using box_ind'. intros Hat. cbn [inline_paint].
    destruct (PaintSpec.classify forms_ctx i); try apply Q_nil.
    - apply Hat. left. reflexivity.
    - destruct (css_text (bkind i)); [apply Q_own; reflexivity|].
      destruct (css_replaced (bkind i)).
      { change [Bg (bid i); Border (bid i); Content (bid i)] with ([Bg (bid i); Border (bid i)] ++ [Content (bid i)]).
        apply Q_app; [apply Q_own2; reflexivity|apply Q_own; reflexivity]. }
      change (Q (Box i cs) ([Bg (bid i); Border (bid i)] ++ flat_map (inline_paint forms_ctx atomic) cs)).
      apply Q_app; [apply Q_own2; reflexivity|].
      apply Q_flat_map. intros c Hc. apply (Q_child i cs c _ Hc).
      rewrite Forall_forall in IH. apply IH; [exact Hc|].
      intros d Hd. apply Hat. right. destruct Hd as [<-|Hd]; [apply subs_child; exact Hc|].
      exact (subs_trans d c (Box i cs) Hd (subs_child i cs c Hc)).
  Qed.

  Lemma block_content_Q atomic x :
    (forall d, In d (subs x) -> Q d (atomic d)) -> Q x (block_content forms_ctx atomic x).
  Proof.
    destruct x as [i cs]. intros Hat. unfold block_content.
    destruct (css_replaced (bkind i)); [apply Q_own; reflexivity|].
    apply Q_flat_map. intros c Hc.
    destruct (PaintSpec.cl forms_ctx c); try apply Q_nil.
    destruct (css_line_box _); [|apply Q_nil].
    apply (Q_child i cs c _ Hc). apply inline_paint_Q.
    intros d Hd. apply Hat. destruct Hd as [<-|Hd]; [apply subs_child; exact Hc|].
    exact (subs_trans d c (Box i cs) Hd (subs_child i cs c Hc)).
  Qed.

  Lemma flow_all_subs_gen b x : In x (flow_all forms_ctx b) -> x = b \/ In x (subs b).
  Proof.
    revert x. induction b as [i cs IH] using box_ind'. intros x Hx. simpl in Hx.
    destruct Hx as [<-|Hx]; [left; reflexivity|right].
    apply in_flat_map in Hx. destruct Hx as [c [Hc Hx]]. rewrite Forall_forall in IH.
    destruct (PaintSpec.cl forms_ctx c); try (destruct Hx; fail).
    destruct (IH c Hc x Hx) as [->|Hs]; [apply subs_child; exact Hc|].
    exact (subs_trans x c (Box i cs) Hs (subs_child i cs c Hc)).
  Qed.

  Theorem spec_ctx_Q n : forall real b, Q b (SP n real b).
  Proof.
    induction n as [|n IH]; intros real b; [apply Q_nil|].
    cbn [spec_ctx]. cbv zeta. destruct (css_not_displayed _); [apply Q_nil|].
    assert (HH : forall d, In d (if real then hoisted forms_ctx b else []) -> In d (subs b)).
    { intros d Hd. destruct real; [apply (hoisted_subs_gen forms_ctx); exact Hd|destruct Hd]. }
    assert (Hsub : forall (l : list box) (r : box -> bool), (forall d, In d l -> In d (subs b)) ->
                   Q b (flat_map (fun d => SP n (r d) d) l)).
    { intros l r Hl. apply Q_flat_map. intros d Hd. apply (Q_sub b d _ (Hl d Hd)). apply IH. }
    apply Q_wrap. apply Q_wrap. apply Q_app; [|apply Q_app].
    - destruct (css_paints_box_decoration _); [apply Q_own2; reflexivity|apply Q_nil].
    - apply Q_wrap.
      apply Q_app; [apply (Hsub _ (fun d => forms_ctx (binfo_of d))); intros d Hd; apply HH; apply zsort_in in Hd; apply filter_In in Hd; tauto|].
      apply Q_app.
      { apply Q_flat_map. intros d Hd. apply (Q_sub b d _ (flow_desc_subs_gen forms_ctx _ b d Hd)).
        unfold block_decoration. destruct (css_table _); [apply Q_own; reflexivity|apply Q_own2; reflexivity]. }
      apply Q_app; [apply (Hsub _ (fun _ => false)); intros d Hd; apply (flow_floats_subs_gen forms_ctx); exact Hd|].
      apply Q_app.
      { destruct (css_inline_box _); [|apply Q_nil]. destruct b as [i cs]. unfold inline_root_paint.
        change (Q (Box i cs) ([Bg (bid i); Border (bid i)] ++ flat_map (inline_paint forms_ctx (fun d => SP n false d)) cs)).
        apply Q_app; [apply Q_own2; reflexivity|].
        apply Q_flat_map. intros c Hc. apply (Q_child i cs c _ Hc). apply inline_paint_Q. intros; apply IH. }
      apply Q_app.
      { apply Q_flat_map. intros x Hx.
        destruct Hx as [<-|Hx]; [apply block_content_Q; intros; apply IH|].
        apply (Q_sub b x _ (flow_desc_subs_gen forms_ctx _ b x Hx)). apply block_content_Q. intros; apply IH. }
      apply Q_app; [apply (Hsub _ (fun d => forms_ctx (binfo_of d))); intros d Hd; apply HH; apply filter_In in Hd; tauto|].
      apply (Hsub _ (fun d => forms_ctx (binfo_of d))); intros d Hd; apply HH; apply zsort_in in Hd; apply filter_In in Hd; tauto.
    - assert (Hout : forall l, (forall x, In x l -> x = b \/ In x (subs b)) ->
                               Q b (map (fun d => Outline (bid (binfo_of d))) l)).
      { induction l as [|x r IHr]; intros Hl; [apply Q_nil|]. simpl.
        change (Q b ([Outline (bid (binfo_of x))] ++ map (fun d => Outline (bid (binfo_of d))) r)).
        apply Q_app; [|apply IHr; intros y Hy; apply Hl; right; exact Hy].
        destruct (Hl x (or_introl eq_refl)) as [->|Hx]; [apply Q_own; reflexivity|].
        apply (Q_sub b x _ Hx). apply Q_own; reflexivity. }
      apply Hout. intros x Hx. apply flow_all_subs_gen. exact Hx.
  Qed.
End SpecInd.

Section Scope.
  Variable zsort : list box -> list box.
  Hypothesis zsort_ok : z_then_tree_order css_level zsort.
  Notation SPEC := (spec_ctx impl_forms_ctx css_level zsort).

  Lemma zsort_in l x : In x (zsort l) -> In x l.
  Proof. rewrite (zsort_isort zsort zsort_ok). apply (isort_in (fun b => css_level (binfo_of b)) l x). Qed.

  Lemma in_boxes_sub b d x : In d (subs b) -> In x (boxes d) -> In x (boxes b).
  Proof. intros Hd [<-|Hx]; right; [exact Hd|]. exact (subs_trans x d b Hx Hd). Qed.

  Lemma ids_sub b d : In d (subs b) -> forall k, In k (ids d) -> In k (ids b).
  Proof.
    intros Hd k Hk. unfold ids in *. apply in_map_iff in Hk. destruct Hk as [x [<- Hx]].
    apply (in_map (fun x => bid (binfo_of x))). exact (in_boxes_sub b d x Hd Hx).
  Qed.

  Lemma ids_self b : In (bid (binfo_of b)) (ids b).
  Proof. unfold ids, boxes. left. reflexivity. Qed.

  (* every event painted for a box names a box of its sub-tree *)
  Theorem spec_ctx_ids n real b : forall e, In e (SPEC n real b) -> In (ev_id e) (ids b).
  Proof.
    apply (spec_ctx_Q impl_forms_ctx css_level zsort zsort_in
             (fun b l => forall e, In e l -> In (ev_id e) (ids b))).
    - intros b0 e [].
    - intros b0 l1 l2 H1 H2 e He. apply in_app_or in He. destruct He; auto.
    - intros b0 e _ Hid e' [<-|[]]. rewrite Hid. apply ids_self.
    - intros b0 d l Hd H e He. apply (ids_sub b0 d Hd). auto.
    - intros b0 e on l H e' He. unfold wrap in He. destruct on; [|auto].
      destruct He as [<-|He]; [apply ids_self|]. apply in_app_or in He.
      destruct He as [He|[<-|[]]]; [auto|apply ids_self].
  Qed.

  (* the ids of the sub-tree(s) of the box(es) called id in the tree root *)
  Definition subtree_ids (root : box) (id : N) : list N :=
    flat_map (fun x => if N.eqb (bid (binfo_of x)) id then ids x else []) (boxes root).

  Lemma subtree_ids_in root b : In b (boxes root) -> forall k, In k (ids b) -> In k (subtree_ids root (bid (binfo_of b))).
  Proof.
    intros Hb k Hk. unfold subtree_ids. apply in_flat_map. exists b. split; [exact Hb|].
    rewrite N.eqb_refl. exact Hk.
  Qed.

  (* between `Push e id` and its `Pop e id` lie only events of the sub-tree of
     box id; pushes and pops are balanced and well nested *)
  Theorem spec_ctx_scoped root n real b :
    In b (boxes root) -> scoped (subtree_ids root) (SPEC n real b).
  Proof.
    intros Hb.
    cut ((In b (boxes root) -> scoped (subtree_ids root) (SPEC n real b)) /\
         (forall e, In e (SPEC n real b) -> In (ev_id e) (ids b))); [intros [S _]; exact (S Hb)|].
    apply (spec_ctx_Q impl_forms_ctx css_level zsort zsort_in
             (fun b l => (In b (boxes root) -> scoped (subtree_ids root) l) /\
                         (forall e, In e l -> In (ev_id e) (ids b)))).
    - intros b0. split; [intros _; constructor|intros e []].
    - intros b0 l1 l2 [S1 I1] [S2 I2]. split.
      + intros H0. apply scoped_app; auto.
      + intros e He. apply in_app_or in He. destruct He; auto.
    - intros b0 e Hpp Hid. split.
      + intros _. apply sc_ev; [exact Hpp|constructor].
      + intros e' [<-|[]]. rewrite Hid. apply ids_self.
    - intros b0 d l Hd [S I]. split.
      + intros H0. apply S. destruct H0 as [<-|H0]; right; [exact Hd|exact (subs_trans d b0 root Hd H0)].
      + intros e He. apply (ids_sub b0 d Hd). auto.
    - intros b0 e on l [S I]. split.
      + intros H0. apply scoped_wrap; [auto|].
        intros x Hx. apply (subtree_ids_in root b0 H0). auto.
      + intros e' He. unfold wrap in He. destruct on; [|auto].
        destruct He as [<-|He]; [apply ids_self|]. apply in_app_or in He.
        destruct He as [He|[<-|[]]]; [auto|apply ids_self].
  Qed.

  Corollary effects_bracket_subtree_partial root :
    scoped (subtree_ids root) (spec_paint impl_forms_ctx css_level zsort root).
  Proof. apply spec_ctx_scoped. left. reflexivity. Qed.
End Scope.

(* the partition and the two sorts lose / duplicate no child context *)
Lemma new_context_perm i kids cc blocks floats bac :
  match new_context i kids cc blocks floats bac with
  | Ctx _ _ _ neg zero pos _ _ _ => Permutation cc (neg ++ zero ++ pos)
  end.
Proof.
  unfold new_context.
  rewrite <- (isort_perm ctx_z (filter (fun c => (ctx_z c <? 0)%Z) cc)).
  rewrite <- (isort_perm ctx_z (filter (fun c => negb (ctx_z c <? 0)%Z && negb (ctx_z c =? 0)%Z) cc)).
  induction cc as [|c r IH]; [constructor|]. simpl.
  destruct (Z.ltb_spec (ctx_z c) 0); destruct (Z.eqb_spec (ctx_z c) 0); simpl; try lia.
  - constructor. exact IH.
  - rewrite IH at 1. apply Permutation_middle.
  - rewrite IH at 1. rewrite app_assoc. rewrite (app_assoc _ _ (c :: _)).
    apply Permutation_middle.
Qed.

(* the root of every (pseudo) stacking context: inside its group effects, its
   background and border, then all its content, then its outline first among
   the outlines of step 10 *)
Lemma spec_ctx_root_shape forms_ctx level zsort n real b :
  css_not_displayed (binfo_of b) = false ->
  exists content outlines,
    spec_ctx forms_ctx level zsort (S n) real b =
      wrap EOpacity (bopac (binfo_of b)) (bid (binfo_of b))
        (wrap ETransform (btrans (binfo_of b) && css_transformable (bkind (binfo_of b))) (bid (binfo_of b))
           ((if css_paints_box_decoration (bkind (binfo_of b))
             then [Bg (bid (binfo_of b)); Border (bid (binfo_of b))] else [])
            ++ wrap EClip (bclip (binfo_of b) && negb (is_page (bkind (binfo_of b)))) (bid (binfo_of b)) content
            ++ Outline (bid (binfo_of b)) :: outlines)).
Proof.
  destruct b as [i cs]. cbn [binfo_of]. intros Hs. cbn [spec_ctx]. cbv zeta. cbn [flow_all map binfo_of].
  rewrite Hs. eexists. eexists. reflexivity.
Qed.

(* ------------------------------------------------------------------ territories: every box belongs to exactly one context *)

(* the boxes painted by the (pseudo) stacking context of b itself: its
   sub-tree without the sub-trees hoisted to the enclosing real context *)
Fixpoint own (b : box) : list box :=
  match b with
  | Box _ cs => b :: flat_map (fun c => match PaintSpec.cl impl_forms_ctx c with
                                        | CReal | CPos => []
                                        | _ => own c
                                        end) cs
  end.

(* territory of a hoisted box: its whole sub-tree if it forms a context, its own part otherwise *)
Definition terr (d : box) : list box := if impl_forms_ctx (binfo_of d) then boxes d else own d.

Lemma perm_flat_map_app {A B} (f g : A -> list B) l :
  Permutation (flat_map (fun a => f a ++ g a) l) (flat_map f l ++ flat_map g l).
Proof.
  induction l as [|a r IH]; simpl; [constructor|].
  rewrite IH. rewrite <- !app_assoc. apply Permutation_app_head.
  rewrite !app_assoc. apply Permutation_app_tail. apply Permutation_app_comm.
Qed.

Lemma perm_flat_map_ext {A B} (f g : A -> list B) l :
  (forall a, In a l -> Permutation (f a) (g a)) -> Permutation (flat_map f l) (flat_map g l).
Proof.
  induction l as [|a r IH]; intros H; simpl; [constructor|].
  apply Permutation_app; [apply H; left; reflexivity|apply IH; intros x Hx; apply H; right; exact Hx].
Qed.

Lemma flat_map_flat_map {A B C} (f : B -> list C) (g : A -> list B) l :
  flat_map f (flat_map g l) = flat_map (fun a => flat_map f (g a)) l.
Proof.
  induction l as [|a r IH]; simpl; [reflexivity|]. rewrite flat_map_app, IH. reflexivity.
Qed.

Lemma cl_real_forms c : PaintSpec.cl impl_forms_ctx c = CReal -> impl_forms_ctx (binfo_of c) = true.
Proof.
  unfold PaintSpec.cl, PaintSpec.classify. destruct (impl_forms_ctx (binfo_of c)); [reflexivity|].
  destruct (bpos _); [discriminate|]. destruct (bfloat _); [discriminate|].
  destruct (css_atomic_inline_container _); discriminate.
Qed.

Lemma cl_notreal_forms c : PaintSpec.cl impl_forms_ctx c <> CReal -> impl_forms_ctx (binfo_of c) = false.
Proof.
  unfold PaintSpec.cl, PaintSpec.classify. destruct (impl_forms_ctx (binfo_of c)); [congruence|reflexivity].
Qed.

(* P1: the sub-tree of b = what b's context paints itself + the territories of the hoisted boxes *)
Theorem boxes_partition b :
  Permutation (boxes b) (own b ++ flat_map terr (hoisted impl_forms_ctx b)).
Proof.
  induction b as [i cs IH] using box_ind'.
  unfold boxes. cbn [subs own hoisted]. simpl app. constructor.
  change (fun c => c :: subs c) with boxes.
  rewrite Forall_forall in IH.
  transitivity (flat_map (fun c => (match PaintSpec.cl impl_forms_ctx c with CReal | CPos => [] | _ => own c end)
                                   ++ flat_map terr (match PaintSpec.cl impl_forms_ctx c with
                                                     | CReal => [c] | CPos => c :: hoisted impl_forms_ctx c
                                                     | _ => hoisted impl_forms_ctx c end)) cs).
  - apply perm_flat_map_ext. intros c Hc. specialize (IH c Hc).
    destruct (PaintSpec.cl impl_forms_ctx c) eqn:Ecl.
    + simpl. rewrite app_nil_r. unfold terr. rewrite (cl_real_forms c Ecl). reflexivity.
    + simpl. unfold terr at 1. rewrite (cl_notreal_forms c) by congruence. exact IH.
    + exact IH.
    + exact IH.
    + exact IH.
  - rewrite perm_flat_map_app. apply Permutation_app_head.
    rewrite flat_map_flat_map. reflexivity.
Qed.

(* ------------------------------------------------------------------ CSS's own stacking contexts *)
(* the specification only consults forms_ctx on the boxes of the tree *)
Section Ext.
  Variables f g : binfo -> bool.
  Variable level : binfo -> Z.
  Variable zsort : list box -> list box.
  Hypothesis zsort_in : forall l x, In x (zsort l) -> In x l.

  Definition agree (b : box) : Prop := forall x, In x (boxes b) -> f (binfo_of x) = g (binfo_of x).

  Lemma agree_child i cs c : agree (Box i cs) -> In c cs -> agree c.
  Proof.
    intros H Hc x Hx. apply H. right.
    destruct Hx as [<-|Hx]; [apply subs_child; exact Hc|].
    exact (subs_trans x c (Box i cs) Hx (subs_child i cs c Hc)).
  Qed.

  Lemma agree_sub b d : agree b -> In d (subs b) -> agree d.
  Proof.
    intros H Hd x Hx. apply H. right.
    destruct Hx as [<-|Hx]; [exact Hd|]. exact (subs_trans x d b Hx Hd).
  Qed.

  Lemma cl_ext c : f (binfo_of c) = g (binfo_of c) -> PaintSpec.cl f c = PaintSpec.cl g c.
  Proof. intros H. unfold PaintSpec.cl, PaintSpec.classify. rewrite H. reflexivity. Qed.

  Lemma agree_self b : agree b -> f (binfo_of b) = g (binfo_of b).
  Proof. intros H. apply H. left. reflexivity. Qed.

  Lemma hoisted_ext b : agree b -> hoisted f b = hoisted g b.
  Proof.
    induction b as [i cs IH] using box_ind'. intros Ha. simpl. rewrite Forall_forall in IH.
    apply flat_map_ext_in. intros c Hc. pose proof (agree_child i cs c Ha Hc) as Hac.
    rewrite (cl_ext c (agree_self c Hac)). rewrite (IH c Hc Hac). reflexivity.
  Qed.

  Lemma flow_desc_ext sel b : agree b -> flow_desc f sel b = flow_desc g sel b.
  Proof.
    induction b as [i cs IH] using box_ind'. intros Ha. simpl. rewrite Forall_forall in IH.
    apply flat_map_ext_in. intros c Hc. pose proof (agree_child i cs c Ha Hc) as Hac.
    rewrite (cl_ext c (agree_self c Hac)). rewrite (IH c Hc Hac). reflexivity.
  Qed.

  Lemma flow_floats_ext b : agree b -> flow_floats f b = flow_floats g b.
  Proof.
    induction b as [i cs IH] using box_ind'. intros Ha. simpl. rewrite Forall_forall in IH.
    apply flat_map_ext_in. intros c Hc. pose proof (agree_child i cs c Ha Hc) as Hac.
    rewrite (cl_ext c (agree_self c Hac)). rewrite (IH c Hc Hac). reflexivity.
  Qed.

  Lemma flow_all_ext b : agree b -> flow_all f b = flow_all g b.
  Proof.
    induction b as [i cs IH] using box_ind'. intros Ha. simpl. rewrite Forall_forall in IH. f_equal.
    apply flat_map_ext_in. intros c Hc. pose proof (agree_child i cs c Ha Hc) as Hac.
    rewrite (cl_ext c (agree_self c Hac)). rewrite (IH c Hc Hac). reflexivity.
  Qed.

  Lemma inline_paint_ext a1 a2 c :
    agree c -> (forall d, In d (boxes c) -> a1 d = a2 d) ->
    inline_paint f a1 c = inline_paint g a2 c.
  Proof.
    induction c as [i cs IH] using box_ind'. intros Ha Hat. cbn [inline_paint].
    pose proof (agree_self _ Ha) as Hs. cbn [binfo_of] in Hs.
    unfold PaintSpec.classify. rewrite Hs.
    destruct (g i); [reflexivity|]. destruct (bpos i); [reflexivity|]. destruct (bfloat i); [reflexivity|].
    destruct (css_atomic_inline_container (bkind i)); [apply Hat; left; reflexivity|].
    destruct (css_text (bkind i)); [reflexivity|]. destruct (css_replaced (bkind i)); [reflexivity|].
    f_equal. f_equal. rewrite Forall_forall in IH. apply flat_map_ext_in. intros c Hc.
    apply IH; [exact Hc|exact (agree_child i cs c Ha Hc)|].
    intros d Hd. apply Hat. right. destruct Hd as [<-|Hd]; [apply subs_child; exact Hc|].
    exact (subs_trans d c (Box i cs) Hd (subs_child i cs c Hc)).
  Qed.

  Lemma block_content_ext a1 a2 x :
    agree x -> (forall d, In d (subs x) -> a1 d = a2 d) ->
    block_content f a1 x = block_content g a2 x.
  Proof.
    destruct x as [i cs]. intros Ha Hat. unfold block_content.
    destruct (css_replaced (bkind i)); [reflexivity|].
    apply flat_map_ext_in. intros c Hc. pose proof (agree_child i cs c Ha Hc) as Hac.
    rewrite (cl_ext c (agree_self c Hac)).
    destruct (PaintSpec.cl g c); try reflexivity. destruct (css_line_box _); [|reflexivity].
    apply inline_paint_ext; [exact Hac|].
    intros d Hd. apply Hat. destruct Hd as [<-|Hd]; [apply subs_child; exact Hc|].
    exact (subs_trans d c (Box i cs) Hd (subs_child i cs c Hc)).
  Qed.

  Theorem spec_ctx_ext n : forall real b, agree b -> spec_ctx f level zsort n real b = spec_ctx g level zsort n real b.
  Proof.
    induction n as [|n IH]; intros real b Ha; [reflexivity|].
    cbn [spec_ctx]. cbv zeta.
    rewrite (hoisted_ext b Ha), (flow_floats_ext b Ha), !(flow_desc_ext _ b Ha), (flow_all_ext b Ha).
    set (H := if real then hoisted g b else []).
    assert (HH : forall d, In d H -> In d (subs b)).
    { intros d Hd. unfold H in Hd. destruct real; [apply (hoisted_subs_gen g); exact Hd|destruct Hd]. }
    assert (Hf : forall d, In d (subs b) -> f (binfo_of d) = g (binfo_of d)).
    { intros d Hd. apply Ha. right. exact Hd. }
    assert (Hsub : forall d, In d (subs b) -> forall r, spec_ctx f level zsort n r d = spec_ctx g level zsort n r d).
    { intros d Hd r. apply IH. exact (agree_sub b d Ha Hd). }
    assert (E1 : forall p q : box -> bool, (forall d, In d H -> p d = q d) -> filter p H = filter q H).
    { intros p q Hpq. apply filter_ext_in'. exact Hpq. }
    rewrite (E1 (fun d => f (binfo_of d) && (PaintSpec.blevel level d <? 0)%Z) (fun d => g (binfo_of d) && (PaintSpec.blevel level d <? 0)%Z))
      by (intros d Hd; rewrite (Hf d (HH d Hd)); reflexivity).
    rewrite (E1 (fun d => negb (f (binfo_of d)) || (PaintSpec.blevel level d =? 0)%Z) (fun d => negb (g (binfo_of d)) || (PaintSpec.blevel level d =? 0)%Z))
      by (intros d Hd; rewrite (Hf d (HH d Hd)); reflexivity).
    rewrite (E1 (fun d => f (binfo_of d) && (0 <? PaintSpec.blevel level d)%Z) (fun d => g (binfo_of d) && (0 <? PaintSpec.blevel level d)%Z))
      by (intros d Hd; rewrite (Hf d (HH d Hd)); reflexivity).
    assert (Esub : forall l, (forall d, In d l -> In d (subs b)) ->
              flat_map (fun d => spec_ctx f level zsort n (f (binfo_of d)) d) l =
              flat_map (fun d => spec_ctx g level zsort n (g (binfo_of d)) d) l).
    { intros l Hl. apply flat_map_ext_in. intros d Hd. rewrite (Hf d (Hl d Hd)). apply Hsub. auto. }
    rewrite !Esub.
    2:{ intros d Hd. apply HH. apply zsort_in in Hd. apply filter_In in Hd. tauto. }
    2:{ intros d Hd. apply HH. apply filter_In in Hd. tauto. }
    2:{ intros d Hd. apply HH. apply zsort_in in Hd. apply filter_In in Hd. tauto. }
    assert (Efl : flat_map (fun d => spec_ctx f level zsort n false d) (flow_floats g b) =
                  flat_map (fun d => spec_ctx g level zsort n false d) (flow_floats g b)).
    { apply flat_map_ext_in. intros d Hd. apply Hsub. apply (flow_floats_subs_gen g). exact Hd. }
    rewrite Efl.
    assert (Eir : inline_root_paint f (fun d => spec_ctx f level zsort n false d) b =
                  inline_root_paint g (fun d => spec_ctx g level zsort n false d) b).
    { destruct b as [i cs]. unfold inline_root_paint. f_equal. f_equal.
      apply flat_map_ext_in. intros c Hc. apply inline_paint_ext; [exact (agree_child i cs c Ha Hc)|].
      intros d Hd. apply Hsub. destruct Hd as [<-|Hd]; [apply subs_child; exact Hc|].
      exact (subs_trans d c (Box i cs) Hd (subs_child i cs c Hc)). }
    rewrite Eir.
    assert (Ebc : flat_map (block_content f (fun d => spec_ctx f level zsort n false d))
                    (b :: flow_desc g (fun k => css_block_level k || css_cell k) b) =
                  flat_map (block_content g (fun d => spec_ctx g level zsort n false d))
                    (b :: flow_desc g (fun k => css_block_level k || css_cell k) b)).
    { apply flat_map_ext_in. intros x Hx. destruct Hx as [<-|Hx].
      - apply block_content_ext; [exact Ha|]. intros d Hd. apply Hsub. exact Hd.
      - pose proof (flow_desc_subs_gen g _ b x Hx) as Hxs.
        apply block_content_ext; [exact (agree_sub b x Ha Hxs)|].
        intros d Hd. apply Hsub. exact (subs_trans d x b Hd Hxs). }
    rewrite Ebc. reflexivity.
  Qed.
End Ext.

(* without any overflow != visible box the implementation's stacking contexts are CSS's *)
Theorem spec_paint_css zsort :
  z_then_tree_order css_level zsort ->
  forall b, (forall x, In x (boxes b) -> bclip (binfo_of x) = false) ->
  spec_paint impl_forms_ctx css_level zsort b = spec_paint css_forms_ctx css_level zsort b.
Proof.
  intros Hz b Hc. unfold spec_paint. apply spec_ctx_ext.
  - intros l x. apply (zsort_in zsort Hz).
  - intros x Hx. unfold impl_forms_ctx. rewrite (Hc x Hx). apply orb_false_r.
Qed.

Corollary paint_order_css zsort :
  z_then_tree_order css_level zsort ->
  forall b, wf_shape b = true -> (forall x, In x (boxes b) -> bclip (binfo_of x) = false) ->
  paint (from_box b) = Ok (spec_paint css_forms_ctx css_level zsort b).
Proof.
  intros Hz b Hwf Hc. rewrite (paint_order_spec zsort Hz b Hwf). f_equal. apply spec_paint_css; assumption.
Qed.
