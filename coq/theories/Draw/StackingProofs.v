(* Draw/StackingProofs.v -- the model of stacking.go / drawStackingContext
   (Draw/Stacking.v) meets CSS 2.1 Appendix E (Draw/PaintSpec.v). *)
From Verif Require Import Base.GoSem Base.SortStable Draw.Stacking Draw.PaintSpec.
From Coq Require Import List ZArith NArith Bool Lia Sorted Permutation.
Import ListNotations.

(* ------------------------------------------------------------------ generalities *)

Section BoxInd.
  Variable P : box -> Prop.
  Hypothesis H : forall i cs, Forall P cs -> P (Box i cs).
  Fixpoint box_ind' (b : box) : P b :=
    match b with
    | Box i cs => H i cs ((fix go (l : list box) : Forall P l :=
                             match l with
                             | [] => Forall_nil P
                             | c :: r => Forall_cons c (box_ind' c) (go r)
                             end) cs)
    end.
End BoxInd.

Lemma insert_at_length {A} (l r : list A) x : insert_at (length l) x (l ++ r) = l ++ x :: r.
Proof.
  unfold insert_at. rewrite firstn_app, skipn_app, firstn_all, skipn_all, Nat.sub_diag.
  simpl. rewrite app_nil_r. reflexivity.
Qed.

Lemma filter_map_comm {A B} (f : A -> B) (p : B -> bool) l :
  filter p (map f l) = map f (filter (fun a => p (f a)) l).
Proof.
  induction l as [|a r IH]; simpl; [reflexivity|].
  destruct (p (f a)); simpl; rewrite IH; reflexivity.
Qed.

Lemma filter_ext_in' {A} (p q : A -> bool) l : (forall a, In a l -> p a = q a) -> filter p l = filter q l.
Proof.
  induction l as [|a r IH]; intros E; simpl; [reflexivity|].
  rewrite (E a) by (left; reflexivity). rewrite IH by (intros x Hx; apply E; right; exact Hx). reflexivity.
Qed.

Lemma flat_map_ext_in {A B} (f g : A -> list B) l : (forall a, In a l -> f a = g a) -> flat_map f l = flat_map g l.
Proof.
  induction l as [|a r IH]; intros E; simpl; [reflexivity|].
  rewrite (E a) by (left; reflexivity). rewrite IH by (intros x Hx; apply E; right; exact Hx). reflexivity.
Qed.

(* the result monad on event lists *)
Lemma app2_ok (a b : list event) : (Ok a +++ Ok b) = Ok (a ++ b).
Proof. reflexivity. Qed.

Lemma seqM_ok {A} (f : A -> rl) (g : A -> list event) l :
  (forall a, In a l -> f a = Ok (g a)) -> seqM f l = Ok (flat_map g l).
Proof.
  induction l as [|a r IH]; intros E; simpl; [reflexivity|].
  rewrite (E a) by (left; reflexivity). simpl.
  rewrite IH by (intros x Hx; apply E; right; exact Hx). reflexivity.
Qed.

Lemma seqM_map_ok {A B} (h : A -> B) (f : B -> rl) (g : A -> list event) l :
  (forall a, In a l -> f (h a) = Ok (g a)) -> seqM f (map h l) = Ok (flat_map g l).
Proof.
  induction l as [|a r IH]; intros E; simpl; [reflexivity|].
  rewrite (E a) by (left; reflexivity). simpl.
  rewrite IH by (intros x Hx; apply E; right; exact Hx). reflexivity.
Qed.

(* ------------------------------------------------------------------ the implementation's instance *)

Notation cl := (cl impl_forms_ctx).
Notation classify := (classify impl_forms_ctx).

Lemma creates_ctx_impl i : creates_ctx i = impl_forms_ctx i.
Proof. reflexivity. Qed.

(* stacking.go 126-128: the guard of panic("expected auto z-index") is unsatisfiable *)
Lemma dispatch_panic_unreachable i :
  creates_ctx i = false -> bpos i = true -> bz i = None.
Proof.
  unfold creates_ctx. intros Hc Hp. rewrite Hp in Hc. destruct (bz i); [|reflexivity].
  simpl in Hc. discriminate.
Qed.

(* ------------------------------------------------------------------ well-formed trees *)

(* the shape layout gives to inline formatting contexts; see the comment of
   C16_paint_order_spec in Properties/C16.v *)
Definition kept (c : box) : bool :=
  match cl c with CFlow | CAtomic => true | _ => false end.
Definition flow_line (c : box) : bool :=
  match cl c with CFlow => is_linebox (bkind (binfo_of c)) | _ => false end.
Definition inline_ok (c : box) : bool :=
  match cl c with
  | CFlow => match bkind (binfo_of c) with
             | KInline | KLine | KText | KBlockReplaced | KInlineReplaced => true
             | _ => false
             end
  | _ => true
  end.

Fixpoint wf_shape (b : box) : bool :=
  match b with
  | Box i cs =>
    (* W0: only parent boxes have children *)
    (is_parent (bkind i) || match cs with [] => true | _ => false end)
    (* W1: a box has only line boxes as in-flow children, or none *)
    && (forallb flow_line (filter kept cs) || forallb (fun c => negb (flow_line c)) (filter kept cs))
    (* W2: line and inline boxes contain inline-level boxes *)
    && (negb (is_line (bkind i)) || forallb inline_ok cs)
    && forallb wf_shape cs
  end.

Lemma wf_children i cs : wf_shape (Box i cs) = true -> Forall (fun c => wf_shape c = true) cs.
Proof.
  simpl. rewrite !andb_true_iff. intros [_ Hc]. rewrite forallb_forall in Hc.
  apply Forall_forall. exact Hc.
Qed.

(* ------------------------------------------------------------------ part A: what dispatch collects *)

Definition pctx (b : box) : ctx := fst (from_box_shared b (Some [])).
Definition rctx (b : box) : ctx := fst (from_box_shared b None).
Definition anyctx (b : box) : ctx := if impl_forms_ctx (binfo_of b) then rctx b else pctx b.

Lemma anyctx_real b : creates_ctx (binfo_of b) = true -> anyctx b = rctx b.
Proof.
  intros H. unfold anyctx.
  replace (impl_forms_ctx (binfo_of b)) with (creates_ctx (binfo_of b)) by reflexivity.
  rewrite H. reflexivity.
Qed.
Lemma anyctx_pseudo b : creates_ctx (binfo_of b) = false -> anyctx b = pctx b.
Proof.
  intros H. unfold anyctx.
  replace (impl_forms_ctx (binfo_of b)) with (creates_ctx (binfo_of b)) by reflexivity.
  rewrite H. reflexivity.
Qed.

(* the node standing for a box in the normal tree after dispatch *)
Fixpoint prune (b : box) : option node :=
  match b with
  | Box i cs =>
    match classify i with
    | CReal | CPos | CFloat => None
    | CAtomic => Some (NSub (pctx (Box i cs)))
    | CFlow => Some (NBox i (flat_map (fun c => match prune c with Some n => [n] | None => [] end) cs))
    end
  end.
Definition prune_kids (cs : list box) : list node :=
  flat_map (fun c => match prune c with Some n => [n] | None => [] end) cs.
Definition node_of (b : box) : node := NBox (binfo_of b) (prune_kids (children b)).

(* contribution of one child to its parent's collections (the bodies of the
   flat_maps of PaintSpec) *)
Definition hoisted_c (c : box) : list box :=
  match cl c with CReal => [c] | CPos => c :: hoisted impl_forms_ctx c | _ => hoisted impl_forms_ctx c end.
Definition fd_c (sel : kind -> bool) (c : box) : list box :=
  match cl c with
  | CFlow => (if sel (bkind (binfo_of c)) then [c] else []) ++ flow_desc impl_forms_ctx sel c
  | _ => []
  end.
Definition ff_c (c : box) : list box :=
  match cl c with CFloat => [c] | CFlow => flow_floats impl_forms_ctx c | _ => [] end.

Definition bac_sel (k : kind) : bool := css_block_level k || css_cell k.

Definition acc_add (st : acc) (bl bc : list node) (fl cx : list ctx) : acc :=
  mkAcc (a_blocks st ++ bl) (a_bac st ++ bc) (a_floats st ++ fl) (a_ctxs st ++ cx).

Lemma acc_add_nil st : acc_add st [] [] [] [] = st.
Proof. destruct st; unfold acc_add; simpl; rewrite !app_nil_r; reflexivity. Qed.

Lemma acc_add_add st a b c d a' b' c' d' :
  acc_add (acc_add st a b c d) a' b' c' d' = acc_add st (a ++ a') (b ++ b') (c ++ c') (d ++ d').
Proof. unfold acc_add; simpl; rewrite !app_assoc; reflexivity. Qed.

Definition contrib_ok (c : box) : Prop :=
  forall st, dispatch c st =
    (prune c, acc_add st (map node_of (fd_c css_block_level c)) (map node_of (fd_c bac_sel c))
                         (map pctx (ff_c c)) (map anyctx (hoisted_c c))).

Lemma dispatch_list_spec cs :
  Forall contrib_ok cs ->
  forall st, dispatch_list cs st =
    (prune_kids cs, acc_add st (map node_of (flat_map (fd_c css_block_level) cs))
                               (map node_of (flat_map (fd_c bac_sel) cs))
                               (map pctx (flat_map ff_c cs))
                               (map anyctx (flat_map hoisted_c cs))).
Proof.
  induction 1 as [|c r Hc Hr IH]; intros st; simpl.
  - rewrite acc_add_nil. reflexivity.
  - rewrite (Hc st). rewrite IH. rewrite acc_add_add.
    unfold prune_kids. simpl. rewrite !map_app.
    destruct (prune c); reflexivity.
Qed.

Lemma dispatch_unfold i cs st :
  dispatch (Box i cs) st =
    let inner := from_inner (dispatch_list cs) i (map plain cs) in
    if creates_ctx i then
      (None, mkAcc (a_blocks st) (a_bac st) (a_floats st) (a_ctxs st ++ [fst (inner None)]))
    else if bpos i then
      let index := length (a_ctxs st) in
      let '(c, ctxs) := inner (Some (a_ctxs st)) in
      (None, mkAcc (a_blocks st) (a_bac st) (a_floats st) (insert_at index c ctxs))
    else if bfloat i then
      let '(c, ctxs) := inner (Some (a_ctxs st)) in
      (None, mkAcc (a_blocks st) (a_bac st) (a_floats st ++ [c]) ctxs)
    else if inline_block_or_flex (bkind i) then
      let '(c, ctxs) := inner (Some (a_ctxs st)) in
      (Some (NSub c), mkAcc (a_blocks st) (a_bac st) (a_floats st) ctxs)
    else
      let blocksIndex := if block_level (bkind i) then Some (length (a_blocks st)) else None in
      let bacIndex := if block_level (bkind i) then Some (length (a_bac st))
                      else if table_cell (bkind i) then Some (length (a_bac st)) else None in
      let '(kids, st1) := if is_parent (bkind i) then dispatch_list cs st else (map plain cs, st) in
      let n := NBox i kids in
      let blocks := match blocksIndex with Some k => insert_at k n (a_blocks st1) | None => a_blocks st1 end in
      let bac := match bacIndex with Some k => insert_at k n (a_bac st1) | None => a_bac st1 end in
      (Some n, mkAcc blocks bac (a_floats st1) (a_ctxs st1)).
Proof. reflexivity. Qed.

(* the explicit form of the context built for a box *)
Definition ctx_children (shared : bool) (b : box) : list ctx :=
  if shared then [] else map anyctx (hoisted impl_forms_ctx b).

Definition ctx_explicit (shared : bool) (b : box) : ctx :=
  new_context (binfo_of b) (prune_kids (children b)) (ctx_children shared b)
              (map node_of (flow_desc impl_forms_ctx css_block_level b))
              (map pctx (flow_floats impl_forms_ctx b))
              (map node_of (flow_desc impl_forms_ctx bac_sel b)).

Definition nonparent_leaf (b : box) : Prop :=
  is_parent (bkind (binfo_of b)) = true \/ children b = [].

Lemma from_inner_spec i cs sh :
  Forall contrib_ok cs -> nonparent_leaf (Box i cs) ->
  from_inner (dispatch_list cs) i (map plain cs) sh =
    (ctx_explicit (match sh with Some _ => true | None => false end) (Box i cs),
     (match sh with Some l => l | None => [] end) ++ map anyctx (hoisted impl_forms_ctx (Box i cs))).
Proof.
  intros Hcs Hleaf. unfold from_inner.
  assert (E : (if is_parent (bkind i)
               then dispatch_list cs (mkAcc [] [] [] (match sh with Some l => l | None => [] end))
               else (map plain cs, mkAcc [] [] [] (match sh with Some l => l | None => [] end)))
              = dispatch_list cs (mkAcc [] [] [] (match sh with Some l => l | None => [] end))).
  { destruct (is_parent (bkind i)) eqn:Ep; [reflexivity|].
    destruct Hleaf as [Hp|Hc]; simpl in *; [congruence|]. subst cs. reflexivity. }
  rewrite E. rewrite (dispatch_list_spec cs Hcs). unfold acc_add. simpl.
  unfold ctx_explicit, ctx_children. simpl.
  destruct sh; reflexivity.
Qed.

Lemma contrib_ok_all b : wf_shape b = true -> contrib_ok b.
Proof.
  induction b as [i cs IH] using box_ind'. intros Hwf.
  assert (Hcs : Forall contrib_ok cs).
  { pose proof (wf_children i cs Hwf) as Hw. rewrite Forall_forall in *. intros c Hc. apply IH; auto. }
  assert (Hleaf : nonparent_leaf (Box i cs)).
  { simpl in Hwf. rewrite !andb_true_iff in Hwf. destruct Hwf as [[[H0 _] _] _].
    apply orb_true_iff in H0. destruct H0 as [H0|H0]; [left; exact H0|right].
    destruct cs; [reflexivity|discriminate]. }
  intros st. rewrite dispatch_unfold. cbv zeta.
  unfold hoisted_c, fd_c, ff_c, PaintSpec.cl. cbn [binfo_of prune].
  unfold PaintSpec.classify. change (impl_forms_ctx i) with (creates_ctx i).
  destruct (creates_ctx i) eqn:Ec.
  - (* real context *)
    rewrite (from_inner_spec i cs None Hcs Hleaf). simpl.
    unfold acc_add. simpl. rewrite !app_nil_r.
    rewrite anyctx_real by exact Ec.
    unfold rctx, from_box_shared. rewrite (from_inner_spec i cs None Hcs Hleaf). reflexivity.
  - destruct (bpos i) eqn:Ep.
    + (* positioned, z-index auto: fake context inserted before its sub-contexts *)
      rewrite (from_inner_spec i cs (Some (a_ctxs st)) Hcs Hleaf).
      rewrite insert_at_length. unfold acc_add. simpl. rewrite !app_nil_r.
      rewrite (anyctx_pseudo (Box i cs)) by exact Ec.
      unfold pctx, from_box_shared. rewrite (from_inner_spec i cs (Some []) Hcs Hleaf). reflexivity.
    + destruct (bfloat i) eqn:Ef.
      * rewrite (from_inner_spec i cs (Some (a_ctxs st)) Hcs Hleaf).
        unfold acc_add. simpl. rewrite !app_nil_r.
        unfold pctx, from_box_shared. rewrite (from_inner_spec i cs (Some []) Hcs Hleaf). reflexivity.
      * replace (css_atomic_inline_container (bkind i)) with (inline_block_or_flex (bkind i)) by (destruct (bkind i); reflexivity).
        destruct (inline_block_or_flex (bkind i)) eqn:Eib.
        -- rewrite (from_inner_spec i cs (Some (a_ctxs st)) Hcs Hleaf).
           unfold acc_add. simpl. rewrite !app_nil_r.
           unfold pctx, from_box_shared. rewrite (from_inner_spec i cs (Some []) Hcs Hleaf). reflexivity.
        -- (* in-flow box *)
           assert (E : (if is_parent (bkind i) then dispatch_list cs st else (map plain cs, st))
                       = dispatch_list cs st).
           { destruct (is_parent (bkind i)) eqn:Epar; [reflexivity|].
             destruct Hleaf as [Hp|Hc]; simpl in *; [congruence|]. subst cs. reflexivity. }
           rewrite E. rewrite (dispatch_list_spec cs Hcs). unfold acc_add. cbn [a_blocks a_bac a_floats a_ctxs].
           unfold bac_sel.
           replace (css_block_level (bkind i)) with (block_level (bkind i)) by (destruct (bkind i); reflexivity).
           replace (css_cell (bkind i)) with (table_cell (bkind i)) by (destruct (bkind i); reflexivity).
           fold (prune_kids cs).
           change (NBox i (prune_kids cs)) with (node_of (Box i cs)).
           destruct (block_level (bkind i)) eqn:Ebl; cbn [orb].
           ++ rewrite !insert_at_length. reflexivity.
           ++ destruct (table_cell (bkind i)) eqn:Etc.
              ** rewrite insert_at_length. reflexivity.
              ** reflexivity.
Qed.

Lemma wf_leaf i cs : wf_shape (Box i cs) = true -> nonparent_leaf (Box i cs).
Proof.
  intros Hwf. simpl in Hwf. rewrite !andb_true_iff in Hwf. destruct Hwf as [[[H0 _] _] _].
  apply orb_true_iff in H0. destruct H0 as [H0|H0]; [left; exact H0|right].
  destruct cs; [reflexivity|discriminate].
Qed.

Lemma wf_contrib_children i cs : wf_shape (Box i cs) = true -> Forall contrib_ok cs.
Proof.
  intros Hwf. pose proof (wf_children i cs Hwf) as Hw. rewrite Forall_forall in *.
  intros c Hc. apply contrib_ok_all; auto.
Qed.

Lemma rctx_explicit b : wf_shape b = true -> rctx b = ctx_explicit false b.
Proof.
  destruct b as [i cs]. intros Hwf. unfold rctx, from_box_shared.
  rewrite (from_inner_spec i cs None (wf_contrib_children i cs Hwf) (wf_leaf i cs Hwf)). reflexivity.
Qed.

Lemma pctx_explicit b : wf_shape b = true -> pctx b = ctx_explicit true b.
Proof.
  destruct b as [i cs]. intros Hwf. unfold pctx, from_box_shared.
  rewrite (from_inner_spec i cs (Some []) (wf_contrib_children i cs Hwf) (wf_leaf i cs Hwf)). reflexivity.
Qed.

Lemma from_box_explicit b : wf_shape b = true -> from_box b = ctx_explicit false b.
Proof. exact (rctx_explicit b). Qed.

Lemma ctx_info_pctx b : ctx_info (pctx b) = binfo_of b.
Proof.
  destruct b as [i cs]. unfold pctx, from_box_shared, from_inner.
  destruct (if is_parent (bkind i) then _ else _) as [kids st]. reflexivity.
Qed.

(* ------------------------------------------------------------------ descendants *)

Fixpoint subs (b : box) : list box :=
  match b with Box _ cs => flat_map (fun c => c :: subs c) cs end.

Lemma subs_child i cs c : In c cs -> In c (subs (Box i cs)).
Proof. intros H. simpl. apply in_flat_map. exists c. split; [exact H|left; reflexivity]. Qed.

Lemma subs_trans d c b : In d (subs c) -> In c (subs b) -> In d (subs b).
Proof.
  revert c d. induction b as [i cs IH] using box_ind'. intros c d Hd Hc.
  simpl in Hc. apply in_flat_map in Hc. destruct Hc as [c0 [Hc0 Hc]].
  simpl. apply in_flat_map. exists c0. split; [exact Hc0|].
  destruct Hc as [->|Hc]; [right; exact Hd|]. right.
  rewrite Forall_forall in IH. exact (IH c0 Hc0 c d Hd Hc).
Qed.

Lemma height_child i cs c : In c cs -> height c < height (Box i cs).
Proof.
  intros H. simpl. apply Nat.lt_succ_r.
  induction cs as [|a r IH]; [destruct H|]. simpl. destruct H as [->|H]; [lia|].
  specialize (IH H). lia.
Qed.

Lemma subs_height b d : In d (subs b) -> height d < height b.
Proof.
  revert d. induction b as [i cs IH] using box_ind'. intros d Hd.
  simpl in Hd. apply in_flat_map in Hd. destruct Hd as [c [Hc Hd]].
  pose proof (height_child i cs c Hc) as Hh.
  destruct Hd as [->|Hd]; [exact Hh|].
  rewrite Forall_forall in IH. specialize (IH c Hc d Hd). lia.
Qed.

Lemma subs_wf b d : wf_shape b = true -> In d (subs b) -> wf_shape d = true.
Proof.
  revert d. induction b as [i cs IH] using box_ind'. intros d Hwf Hd.
  simpl in Hd. apply in_flat_map in Hd. destruct Hd as [c [Hc Hd]].
  pose proof (wf_children i cs Hwf) as Hw. rewrite Forall_forall in Hw, IH.
  destruct Hd as [->|Hd]; [exact (Hw _ Hc)|]. exact (IH c Hc d (Hw _ Hc) Hd).
Qed.

Lemma hoisted_subs b d : In d (hoisted impl_forms_ctx b) -> In d (subs b).
Proof.
  revert d. induction b as [i cs IH] using box_ind'. intros d Hd.
  simpl in Hd. apply in_flat_map in Hd. destruct Hd as [c [Hc Hd]].
  rewrite Forall_forall in IH. simpl. apply in_flat_map. exists c. split; [exact Hc|].
  destruct (PaintSpec.cl impl_forms_ctx c).
  - destruct Hd as [->|[]]. left; reflexivity.
  - destruct Hd as [->|Hd]; [left; reflexivity|right; exact (IH c Hc d Hd)].
  - right; exact (IH c Hc d Hd).
  - right; exact (IH c Hc d Hd).
  - right; exact (IH c Hc d Hd).
Qed.

Lemma flow_floats_subs b d : In d (flow_floats impl_forms_ctx b) -> In d (subs b).
Proof.
  revert d. induction b as [i cs IH] using box_ind'. intros d Hd.
  simpl in Hd. apply in_flat_map in Hd. destruct Hd as [c [Hc Hd]].
  rewrite Forall_forall in IH. simpl. apply in_flat_map. exists c. split; [exact Hc|].
  destruct (PaintSpec.cl impl_forms_ctx c); try (destruct Hd; fail).
  - destruct Hd as [->|[]]. left; reflexivity.
  - right; exact (IH c Hc d Hd).
Qed.

Lemma flow_desc_subs sel b d : In d (flow_desc impl_forms_ctx sel b) -> In d (subs b).
Proof.
  revert d. induction b as [i cs IH] using box_ind'. intros d Hd.
  simpl in Hd. apply in_flat_map in Hd. destruct Hd as [c [Hc Hd]].
  rewrite Forall_forall in IH. simpl. apply in_flat_map. exists c. split; [exact Hc|].
  destruct (PaintSpec.cl impl_forms_ctx c); try (destruct Hd; fail).
  apply in_app_or in Hd. destruct Hd as [Hd|Hd].
  - destruct (sel (bkind (binfo_of c))); [|destruct Hd]. destruct Hd as [->|[]]. left; reflexivity.
  - right; exact (IH c Hc d Hd).
Qed.

(* a hoisted box that does not form a context is positioned with z-index auto *)
Lemma hoisted_level b d :
  In d (hoisted impl_forms_ctx b) -> impl_forms_ctx (binfo_of d) = false -> css_level (binfo_of d) = 0%Z.
Proof.
  revert d. induction b as [i cs IH] using box_ind'. intros d Hd Hf.
  simpl in Hd. apply in_flat_map in Hd. destruct Hd as [c [Hc Hd]].
  rewrite Forall_forall in IH.
  assert (Hpos : PaintSpec.cl impl_forms_ctx d = CPos -> css_level (binfo_of d) = 0%Z).
  { unfold PaintSpec.cl, PaintSpec.classify. rewrite Hf. intros _.
    unfold css_level. destruct (bpos (binfo_of d)) eqn:Ep; [|reflexivity].
    rewrite (dispatch_panic_unreachable (binfo_of d) Hf Ep). reflexivity. }
  destruct (PaintSpec.cl impl_forms_ctx c) eqn:Ecl.
  - destruct Hd as [->|[]]. unfold PaintSpec.cl, PaintSpec.classify in Ecl. rewrite Hf in Ecl.
    destruct (bpos (binfo_of d)); [discriminate|]. destruct (bfloat (binfo_of d)); [discriminate|].
    destruct (css_atomic_inline_container _); discriminate.
  - destruct Hd as [->|Hd]; [exact (Hpos Ecl)|exact (IH c Hc d Hd Hf)].
  - exact (IH c Hc d Hd Hf).
  - exact (IH c Hc d Hd Hf).
  - exact (IH c Hc d Hd Hf).
Qed.

Lemma ctx_z_explicit sh b : ctx_z (ctx_explicit sh b) = css_level (binfo_of b).
Proof.
  unfold ctx_explicit, new_context, css_level. simpl.
  destruct (bz (binfo_of b)); destruct (bpos (binfo_of b)); reflexivity.
Qed.

Lemma ctx_z_anyctx d : wf_shape d = true -> ctx_z (anyctx d) = css_level (binfo_of d).
Proof.
  intros Hwf. unfold anyctx. destruct (impl_forms_ctx (binfo_of d)).
  - rewrite rctx_explicit by exact Hwf. apply ctx_z_explicit.
  - rewrite pctx_explicit by exact Hwf. apply ctx_z_explicit.
Qed.

(* ------------------------------------------------------------------ part B: painting *)

Definition dil_child (child : node) : rl :=
  match child with
  | NBox ci _ => if is_text (bkind ci) then Ok [Content (bid ci)] else draw_inline_level child
  | NSub _ => draw_inline_level child
  end.

Definition step7 (bi : binfo) (bkids : list node) : rl :=
  if is_replaced (bkind bi) then Ok [Content (bid bi)]
  else if last_is_line bkids then seqM draw_inline_level bkids
  else Ok [].

Definition paint_block (b : node) : rl :=
  match b with
  | NBox bi _ => if is_table (bkind bi) then Ok [TableLayers (bid bi)] else Ok [Bg (bid bi); Border (bid bi)]
  | NSub _ => Panic site_nilbox
  end.

Definition step7_node (b : node) : rl :=
  match b with NBox bi bkids => step7 bi bkids | NSub _ => Panic site_nilbox end.

Lemma paint_unfold i kids z neg zero pos blocks floats bac :
  paint (Ctx i kids z neg zero pos blocks floats bac) =
    let id := bid i in
    let k := bkind i in
    let opac := bopac i in
    let trans := btrans i && negb (is_inline k) in
    let clip := bclip i && negb (is_page k) in
    Ok ((if opac then [Push EOpacity id] else []) ++
        (if trans then [Push ETransform id] else []) ++
        (if point2 k then [Bg id; Border id] else []))
    +++ Ok (if clip then [Push EClip id] else [])
    +++ seqM paint neg
    +++ seqM paint_block blocks
    +++ seqM paint floats
    +++ (if is_inline k then Ok [Bg id; Border id] +++ seqM dil_child kids else Ok [])
    +++ step7 i kids
    +++ seqM step7_node bac
    +++ seqM paint zero
    +++ seqM paint pos
    +++ Ok ((if clip then [Pop EClip id] else []) ++
            outlines (NBox i kids) ++
            (if trans then [Pop ETransform id] else []) ++
            (if opac then [Pop EOpacity id] else [])).
Proof. reflexivity. Qed.

Lemma dil_box_unfold i kids :
  draw_inline_level (NBox i kids) =
    Ok [Bg (bid i); Border (bid i)] +++
    (if is_line (bkind i) then seqM dil_child kids
     else if is_replaced (bkind i) then Ok [Content (bid i)]
     else if is_text (bkind i) then Ok [Content (bid i)]
     else Panic site_1545).
Proof. reflexivity. Qed.

Lemma dil_sub_unfold c :
  draw_inline_level (NSub c) =
    if inline_block_or_flex (bkind (ctx_info c)) then paint c else Panic site_1514.
Proof. reflexivity. Qed.

Definition is_line_node (n : node) : bool :=
  match n with NBox i _ => is_linebox (bkind i) | NSub _ => false end.

Lemma last_is_line_all l : forallb is_line_node l = true -> l <> [] -> last_is_line l = true.
Proof.
  unfold last_is_line. induction l as [|a r IH]; intros Ha Hn; [congruence|].
  simpl in Ha. apply andb_true_iff in Ha. destruct Ha as [Ha Hr].
  destruct r as [|b r'].
  - simpl. destruct a; [exact Ha|discriminate].
  - change (last (map Some (a :: b :: r')) None) with (last (map Some (b :: r')) None).
    apply IH; [exact Hr|discriminate].
Qed.

Lemma last_is_line_none l : forallb (fun n => negb (is_line_node n)) l = true -> last_is_line l = false.
Proof.
  unfold last_is_line. induction l as [|a r IH]; intros Ha; [reflexivity|].
  simpl in Ha. apply andb_true_iff in Ha. destruct Ha as [Ha Hr].
  destruct r as [|b r'].
  - simpl. destruct a; [|reflexivity]. simpl in Ha. apply negb_true_iff in Ha. exact Ha.
  - change (last (map Some (a :: b :: r')) None) with (last (map Some (b :: r')) None).
    apply IH; exact Hr.
Qed.

Lemma prune_flow c : PaintSpec.cl impl_forms_ctx c = CFlow -> prune c = Some (node_of c).
Proof. destruct c as [i cs]. unfold PaintSpec.cl. simpl. intros ->. reflexivity. Qed.

Lemma prune_atomic c : PaintSpec.cl impl_forms_ctx c = CAtomic -> prune c = Some (NSub (pctx c)).
Proof. destruct c as [i cs]. unfold PaintSpec.cl. simpl. intros ->. reflexivity. Qed.

Lemma prune_none c :
  match PaintSpec.cl impl_forms_ctx c with CReal | CPos | CFloat => True | _ => False end -> prune c = None.
Proof. destruct c as [i cs]. unfold PaintSpec.cl. simpl. destruct (classify i); tauto. Qed.

Lemma outlines_spec cs :
  flat_map outlines (prune_kids cs) =
  map (fun d => Outline (bid (binfo_of d)))
      (flat_map (fun c => match PaintSpec.cl impl_forms_ctx c with CFlow => flow_all impl_forms_ctx c | _ => [] end) cs).
Proof.
  induction cs as [|c r IHr]; [reflexivity|].
  unfold prune_kids in *. simpl. rewrite flat_map_app, map_app, IHr. f_equal.
  clear IHr r. induction c as [i cs IH] using box_ind'.
  unfold PaintSpec.cl. cbn [binfo_of prune]. destruct (classify i) eqn:Ec; try reflexivity.
  simpl. rewrite app_nil_r. f_equal.
  induction IH as [|c r Hc Hr IHr]; [reflexivity|].
  simpl. rewrite flat_map_app, map_app, IHr. f_equal. exact Hc.
Qed.

Section Main.
  Variable zsort : list box -> list box.
  Hypothesis zsort_ok : z_then_tree_order css_level zsort.

  Notation SPEC := (spec_ctx impl_forms_ctx css_level zsort).

  Lemma zsort_isort l : zsort l = isort (fun b => css_level (binfo_of b)) l.
  Proof. apply isort_unique. apply zsort_ok. Qed.

  (* ---------------------------------------------------------------- inline content *)
  Section Inline.
    Variable atomic : box -> list event.

    (* what the children loop of drawInlineLevel does with one child *)
    Definition child_ok (c : box) : Prop :=
      match prune c with
      | None => inline_paint impl_forms_ctx atomic c = []
      | Some n => dil_child n = Ok (inline_paint impl_forms_ctx atomic c)
      end.

    Lemma dil_children cs :
      Forall child_ok cs ->
      seqM dil_child (prune_kids cs) = Ok (flat_map (inline_paint impl_forms_ctx atomic) cs).
    Proof.
      induction 1 as [|c r Hc Hr IH]; [reflexivity|].
      unfold prune_kids in *. simpl. unfold child_ok in Hc.
      destruct (prune c) as [n|].
      - simpl. rewrite Hc. simpl. rewrite IH. reflexivity.
      - simpl. rewrite Hc. simpl. exact IH.
    Qed.

    Lemma child_ok_all c :
      wf_shape c = true -> inline_ok c = true ->
      (forall d, In d (c :: subs c) -> PaintSpec.cl impl_forms_ctx d = CAtomic -> paint (pctx d) = Ok (atomic d)) ->
      child_ok c.
    Proof.
      induction c as [i cs IH] using box_ind'. intros Hwf Hok Hat.
      unfold child_ok.
      destruct (PaintSpec.cl impl_forms_ctx (Box i cs)) eqn:Ecl.
      - rewrite prune_none by (rewrite Ecl; exact I). unfold PaintSpec.cl in Ecl. simpl in *. rewrite Ecl. reflexivity.
      - rewrite prune_none by (rewrite Ecl; exact I). unfold PaintSpec.cl in Ecl. simpl in *. rewrite Ecl. reflexivity.
      - rewrite prune_none by (rewrite Ecl; exact I). unfold PaintSpec.cl in Ecl. simpl in *. rewrite Ecl. reflexivity.
      - rewrite prune_atomic by exact Ecl. unfold dil_child. rewrite dil_sub_unfold, ctx_info_pctx.
        assert (Hk : inline_block_or_flex (bkind i) = true).
        { unfold PaintSpec.cl, PaintSpec.classify in Ecl. simpl in Ecl.
          destruct (impl_forms_ctx i); [discriminate|]. destruct (bpos i); [discriminate|].
          destruct (bfloat i); [discriminate|].
          destruct (bkind i); simpl in *; try discriminate; reflexivity. }
        simpl binfo_of. rewrite Hk.
        rewrite (Hat (Box i cs)) by (try (left; reflexivity); exact Ecl).
        unfold PaintSpec.cl in Ecl. simpl in *. rewrite Ecl. reflexivity.
      - rewrite prune_flow by exact Ecl. unfold node_of. cbn [binfo_of children].
        unfold inline_ok in Hok. rewrite Ecl in Hok. cbn [binfo_of] in Hok.
        assert (Hkids : is_line (bkind i) = true ->
                        seqM dil_child (prune_kids cs) = Ok (flat_map (inline_paint impl_forms_ctx atomic) cs)).
        { intros Hl. apply dil_children.
          pose proof (wf_children i cs Hwf) as Hw.
          assert (Hio : forallb inline_ok cs = true).
          { simpl in Hwf. rewrite !andb_true_iff in Hwf. destruct Hwf as [[[_ _] H2] _].
            rewrite Hl in H2. simpl in H2. exact H2. }
          rewrite forallb_forall in Hio. rewrite Forall_forall in *.
          intros c Hc. apply IH; auto.
          intros d Hd. apply Hat. right.
          destruct Hd as [<-|Hd]; [apply subs_child; exact Hc|].
          apply (subs_trans d c); [exact Hd|apply subs_child; exact Hc]. }
        unfold PaintSpec.cl in Ecl. cbn [binfo_of] in Ecl.
        cbn [inline_paint]. rewrite Ecl.
        unfold dil_child.
        destruct (bkind i) eqn:Ek; try discriminate Hok; cbn [is_text css_text css_replaced].
        + (* block-level replaced *) rewrite dil_box_unfold, Ek. reflexivity.
        + (* inline box *) rewrite dil_box_unfold, Ek. cbn [is_line]. rewrite Hkids by reflexivity. reflexivity.
        + (* inline replaced *) rewrite dil_box_unfold, Ek. reflexivity.
        + (* line box *) rewrite dil_box_unfold, Ek. cbn [is_line]. rewrite Hkids by reflexivity. reflexivity.
        + (* text *) reflexivity.
    Qed.

    (* the children of a line or inline box *)
    Lemma line_children i cs :
      wf_shape (Box i cs) = true -> is_line (bkind i) = true ->
      (forall d, In d (subs (Box i cs)) -> PaintSpec.cl impl_forms_ctx d = CAtomic -> paint (pctx d) = Ok (atomic d)) ->
      seqM dil_child (prune_kids cs) = Ok (flat_map (inline_paint impl_forms_ctx atomic) cs).
    Proof.
      intros Hwf Hl Hat. apply dil_children.
      pose proof (wf_children i cs Hwf) as Hw.
      assert (Hio : forallb inline_ok cs = true).
      { simpl in Hwf. rewrite !andb_true_iff in Hwf. destruct Hwf as [[[_ _] H2] _].
        rewrite Hl in H2. simpl in H2. exact H2. }
      rewrite forallb_forall in Hio. rewrite Forall_forall in *.
      intros c Hc. apply child_ok_all; auto.
      intros d Hd. apply Hat.
      destruct Hd as [<-|Hd]; [apply subs_child; exact Hc|].
      apply (subs_trans d c); [exact Hd|apply subs_child; exact Hc].
    Qed.

    Definition lines_paint (c : box) : list event :=
      match PaintSpec.cl impl_forms_ctx c with
      | CFlow => if css_line_box (bkind (binfo_of c)) then inline_paint impl_forms_ctx atomic c else []
      | _ => []
      end.

    Lemma kept_cl c : kept c = match PaintSpec.cl impl_forms_ctx c with CFlow | CAtomic => true | _ => false end.
    Proof. reflexivity. Qed.

    Lemma all_lines_spec cs :
      Forall (fun c => wf_shape c = true) cs ->
      forallb flow_line (filter kept cs) = true ->
      (forall c d, In c cs -> In d (subs c) -> PaintSpec.cl impl_forms_ctx d = CAtomic -> paint (pctx d) = Ok (atomic d)) ->
      prune_kids cs = map node_of (filter kept cs) /\
      seqM draw_inline_level (map node_of (filter kept cs)) = Ok (flat_map lines_paint cs).
    Proof.
      induction cs as [|c r IH]; intros Hw Hall Hat; [split; reflexivity|].
      inversion Hw as [|? ? Hwc Hwr]; subst.
      assert (Hat' : forall c0 d, In c0 r -> In d (subs c0) -> PaintSpec.cl impl_forms_ctx d = CAtomic -> paint (pctx d) = Ok (atomic d)).
      { intros c0 d Hc0. apply Hat. right. exact Hc0. }
      unfold prune_kids in *. cbn [flat_map filter] in *. unfold lines_paint at 1.
      pose proof (kept_cl c) as Hk.
      destruct (PaintSpec.cl impl_forms_ctx c) eqn:Ecl; rewrite Hk in *.
      - rewrite prune_none by (rewrite Ecl; exact I). simpl. apply IH; auto.
      - rewrite prune_none by (rewrite Ecl; exact I). simpl. apply IH; auto.
      - rewrite prune_none by (rewrite Ecl; exact I). simpl. apply IH; auto.
      - cbn [forallb] in Hall. unfold flow_line in Hall at 1. rewrite Ecl in Hall. discriminate.
      - cbn [forallb] in Hall. apply andb_true_iff in Hall. destruct Hall as [Hc Hr].
        unfold flow_line in Hc. rewrite Ecl in Hc.
        rewrite prune_flow by exact Ecl.
        destruct (IH Hwr Hr Hat') as [E1 E2].
        split; [cbn [app map]; f_equal; exact E1|].
        cbn [map]. cbn [seqM]. fold (@seqM node draw_inline_level).
        destruct c as [ci ccs]. change (node_of (Box ci ccs)) with (NBox ci (prune_kids ccs)). cbn [binfo_of children] in *.
        rewrite dil_box_unfold.
        assert (Hl : is_line (bkind ci) = true) by (destruct (bkind ci); try discriminate; reflexivity).
        rewrite Hl.
        rewrite (line_children ci ccs Hwc Hl) by (intros d Hd; apply (Hat (Box ci ccs) d); [left; reflexivity|exact Hd]).
        rewrite E2. simpl.
        replace (css_line_box (bkind ci)) with (is_linebox (bkind ci)) by (destruct (bkind ci); reflexivity).
        rewrite Hc.
        unfold PaintSpec.cl in Ecl. cbn [binfo_of] in Ecl. rewrite Ecl.
        assert (Ht : css_text (bkind ci) = false) by (destruct (bkind ci); try discriminate; reflexivity).
        assert (Hr' : css_replaced (bkind ci) = false) by (destruct (bkind ci); try discriminate; reflexivity).
        rewrite Ht, Hr'. reflexivity.
    Qed.

    Lemma no_lines_spec cs :
      forallb (fun c => negb (flow_line c)) (filter kept cs) = true ->
      forallb (fun n => negb (is_line_node n)) (prune_kids cs) = true /\ flat_map lines_paint cs = [].
    Proof.
      induction cs as [|c r IH]; intros Hnone; [split; reflexivity|].
      unfold prune_kids in *. cbn [flat_map filter] in *. unfold lines_paint at 1.
      pose proof (kept_cl c) as Hk.
      destruct (PaintSpec.cl impl_forms_ctx c) eqn:Ecl; rewrite Hk in *.
      - rewrite prune_none by (rewrite Ecl; exact I). simpl. apply IH; exact Hnone.
      - rewrite prune_none by (rewrite Ecl; exact I). simpl. apply IH; exact Hnone.
      - rewrite prune_none by (rewrite Ecl; exact I). simpl. apply IH; exact Hnone.
      - rewrite prune_atomic by exact Ecl. cbn [forallb] in Hnone. apply andb_true_iff in Hnone.
        destruct Hnone as [_ Hr]. destruct (IH Hr) as [E1 E2]. split; [simpl; exact E1|simpl; exact E2].
      - rewrite prune_flow by exact Ecl. cbn [forallb] in Hnone. apply andb_true_iff in Hnone.
        destruct Hnone as [Hc Hr]. destruct (IH Hr) as [E1 E2].
        unfold flow_line in Hc. rewrite Ecl in Hc. apply negb_true_iff in Hc.
        split.
        + simpl. unfold node_of. simpl. rewrite Hc. simpl. exact E1.
        + replace (css_line_box (bkind (binfo_of c))) with (is_linebox (bkind (binfo_of c))) by (destruct (bkind (binfo_of c)); reflexivity).
          rewrite Hc. simpl. exact E2.
    Qed.

    (* step 7 for one block *)
    Lemma step7_spec x :
      wf_shape x = true ->
      (forall d, In d (subs x) -> PaintSpec.cl impl_forms_ctx d = CAtomic -> paint (pctx d) = Ok (atomic d)) ->
      step7 (binfo_of x) (prune_kids (children x)) = Ok (block_content impl_forms_ctx atomic x).
    Proof.
      destruct x as [i cs]. intros Hwf Hat. cbn [binfo_of children]. unfold step7, block_content.
      replace (css_replaced (bkind i)) with (is_replaced (bkind i)) by (destruct (bkind i); reflexivity).
      destruct (is_replaced (bkind i)); [reflexivity|].
      change (flat_map _ cs) with (flat_map lines_paint cs).
      assert (HW1 : forallb flow_line (filter kept cs) = true \/
                    forallb (fun c => negb (flow_line c)) (filter kept cs) = true).
      { simpl in Hwf. rewrite !andb_true_iff in Hwf. destruct Hwf as [[[_ H1] _] _].
        apply orb_true_iff in H1. exact H1. }
      pose proof (wf_children i cs Hwf) as Hw.
      destruct HW1 as [Hall|Hnone].
      - destruct (all_lines_spec cs Hw Hall) as [E1 E2].
        { intros c d Hc Hd. apply Hat. apply (subs_trans d c); [exact Hd|apply subs_child; exact Hc]. }
        rewrite E1.
        destruct (filter kept cs) as [|k0 kr] eqn:Ek.
        + simpl. simpl in E2. injection E2 as E2. rewrite <- E2. reflexivity.
        + rewrite last_is_line_all; [exact E2| |discriminate].
          rewrite forallb_forall in *. intros n Hn. apply in_map_iff in Hn. destruct Hn as [c [<- Hc]].
          specialize (Hall c Hc). unfold flow_line in Hall. unfold node_of. simpl.
          destruct (PaintSpec.cl impl_forms_ctx c); try discriminate. exact Hall.
      - destruct (no_lines_spec cs Hnone) as [E1 E2].
        rewrite last_is_line_none by exact E1. rewrite E2. reflexivity.
    Qed.
  End Inline.
End Main.
