(* Draw/Tiling.v -- model of the tiling arithmetic of drawBackgroundImage
   (/repo/html/document/draw.go:476-550): from one laid-out background layer
   (positioning area, painting area, tile size, repeat keywords, position) to
   what the backend receives: the size of the pattern cell (NewGroup 0 0 rw rh)
   and the translation of the pattern (SetColorPattern ... (1 0 0 1 X Y)).

   Written against an arithmetic record (Base/F32.v): `exactQ` is the instance
   the theorems are about (Draw/TilingProofs.v), `f32` the instance compared
   bit for bit with the arguments the recording backend received (every Go
   operation of this function is one float32 operation; math.Floor is exact).
   Model only. *)
From Verif Require Export Base.F32.
From Coq Require Export QArith Qround ZArith Bool.
Open Scope Q_scope.

Inductive rep := RNoRepeat | RRepeat | RRound | RSpace.

(* one axis of a bo.BackgroundLayer *)
Record axis := mkaxis {
  a_rep : rep;       (* layer.Repeat.Reps[i] *)
  a_pos0 : Q;        (* origin of the positioning area (positioningX / positioningY) *)
  a_posw : Q;        (* extent of the positioning area *)
  a_paintw : Q;      (* extent of the painting area *)
  a_img : Q;         (* tile extent: layer.Size[i] *)
  a_at : Q           (* layer.Position.Point[i] *)
}.

(* what the backend receives for one axis *)
Record oaxis := mkoaxis {
  o_cell : Q;        (* repeatWidth / repeatHeight: extent of the pattern cell *)
  o_shift : Q        (* X / Y: translation of the pattern *)
}.

Section WithArith.
Variable ar : arith.

Definition qmax (x y : Q) : Q := if Qlt_le_dec x y then y else x.

(* :498 / :521  nRepeats := Floor(positioning / image), an integer *)
Definition n_tiles (a : axis) : Z := Qfloor (div ar (a_posw a) (a_img a)).

(* :487-512 and :515-530: the pattern cell and the position used on one axis *)
Definition cell_at (a : axis) : Q * Q :=
  match a_rep a with
  | RNoRepeat => (qmax (a_img a) (mul ar 2 (a_paintw a)), a_at a)          (* :493 *)
  | RRepeat | RRound => (a_img a, a_at a)                                  (* :496 *)
  | RSpace =>
      let n := n_tiles a in
      if (2 <=? n)%Z
      then (div ar (sub ar (a_posw a) (a_img a)) (sub ar (inject_Z n) 1), 0)  (* :504-505 *)
      else (a_posw a, a_at a)                                              (* :508 *)
  end.

(* :532-533  X := position + positioningX *)
Definition tile_axis (a : axis) : oaxis :=
  let '(c, p) := cell_at a in mkoaxis c (add ar p (a_pos0 a)).

(* :477  a layer without image or with an empty tile draws nothing *)
Definition tile (x y : axis) : option (oaxis * oaxis) :=
  if Qeq_bool (a_img x) 0 || Qeq_bool (a_img y) 0 then None
  else Some (tile_axis x, tile_axis y).

End WithArith.
