(* Base/SortStable.v -- the contract of Go's sort.SliceStable, as a Gallina
   function with proofs.

   sort.SliceStable(s, less) guarantees (package documentation): the result is
   a permutation of s, sorted w.r.t. less, "keeping equal elements in their
   original order".  The algorithm used by the Go library (insertion sort on
   blocks + symmerge) is NOT modelled: it is a trusted library contract.  What
   is modelled is the contract itself, realised by a stable insertion sort on
   an integer key (all uses in /repo's stacking.go sort by the int zIndex with
   less = (<)), and proved:

     isort_sorted       the result is sorted by key (StronglySorted <=)
     isort_perm         it is a permutation of the input
     isort_stable       for every key k the sub-list of elements with key k is
                        unchanged (equal keys keep their original order)
     stable_sort_unique any two lists that are sorted by key and have the same
                        per-key sub-lists are EQUAL: the contract determines
                        the result, so any correct implementation of
                        sort.SliceStable returns exactly `isort key l`.        *)
From Coq Require Import List ZArith Lia Sorted Permutation Bool.
Import ListNotations.

Section StableSort.
  Context {A : Type}.
  Variable key : A -> Z.

  (* insert x BEFORE the elements with an equal key already in l *)
  Fixpoint insert_front (x : A) (l : list A) : list A :=
    match l with
    | [] => [x]
    | y :: r => if (key x <=? key y)%Z then x :: y :: r else y :: insert_front x r
    end.

  (* fold from the right: the last element is inserted first, every earlier
     element is then placed before the equal-key elements already there *)
  Fixpoint isort (l : list A) : list A :=
    match l with
    | [] => []
    | x :: r => insert_front x (isort r)
    end.

  Definition key_le (a b : A) : Prop := (key a <= key b)%Z.
  Definition sorted (l : list A) : Prop := StronglySorted key_le l.
  Definition keyed (k : Z) (l : list A) : list A := filter (fun a => (key a =? k)%Z) l.

  (* the declarative contract: l' is l ordered by ascending key, elements with
     equal keys keeping their relative order *)
  Definition stable_sorted_of (l l' : list A) : Prop :=
    sorted l' /\ forall k, keyed k l' = keyed k l.

  Lemma insert_front_in x l a : In a (insert_front x l) <-> a = x \/ In a l.
  Proof.
    induction l as [|y r IH]; simpl.
    - intuition.
    - destruct (key x <=? key y)%Z; simpl; [intuition|]. rewrite IH. intuition.
  Qed.

  Lemma insert_front_sorted x l : sorted l -> sorted (insert_front x l).
  Proof.
    unfold sorted. induction l as [|y r IH]; simpl; intros Hs.
    - constructor; constructor.
    - destruct (Z.leb_spec (key x) (key y)) as [Hle|Hgt].
      + constructor; [exact Hs|]. inversion Hs as [|? ? Hr Hall]; subst.
        constructor; [exact Hle|].
        rewrite Forall_forall in *. intros a Ha. specialize (Hall a Ha).
        unfold key_le in *. lia.
      + inversion Hs as [|? ? Hr Hall]; subst. constructor; [auto|].
        rewrite Forall_forall in *. intros a Ha.
        apply insert_front_in in Ha. destruct Ha as [->|Ha]; [unfold key_le; lia|auto].
  Qed.

  Lemma isort_sorted l : sorted (isort l).
  Proof.
    induction l as [|x r IH]; simpl; [constructor|].
    apply insert_front_sorted, IH.
  Qed.

  Lemma insert_front_perm x l : Permutation (x :: l) (insert_front x l).
  Proof.
    induction l as [|y r IH]; simpl; [reflexivity|].
    destruct (key x <=? key y)%Z; [reflexivity|].
    rewrite perm_swap. constructor. exact IH.
  Qed.

  Lemma isort_perm l : Permutation l (isort l).
  Proof.
    induction l as [|x r IH]; simpl; [constructor|].
    rewrite <- insert_front_perm. constructor. exact IH.
  Qed.

  Lemma keyed_insert_front k x l : sorted l ->
    keyed k (insert_front x l) = if (key x =? k)%Z then x :: keyed k l else keyed k l.
  Proof.
    unfold keyed, sorted. induction l as [|y r IH]; intros Hs; simpl.
    - reflexivity.
    - destruct (Z.leb_spec (key x) (key y)) as [Hle|Hgt]; simpl.
      + reflexivity.
      + inversion Hs as [|? ? Hr Hall]; subst. rewrite (IH Hr).
        destruct (Z.eqb_spec (key x) k) as [Hx|Hx]; [|reflexivity].
        destruct (Z.eqb_spec (key y) k) as [Hy|Hy]; [lia|reflexivity].
  Qed.

  Lemma isort_stable l k : keyed k (isort l) = keyed k l.
  Proof.
    induction l as [|x r IH]; simpl; [reflexivity|].
    rewrite keyed_insert_front by apply isort_sorted. rewrite IH.
    unfold keyed at 3. simpl. reflexivity.
  Qed.

  Theorem isort_contract l : stable_sorted_of l (isort l).
  Proof. split; [apply isort_sorted | intros k; apply isort_stable]. Qed.

  Lemma keyed_in k l a : In a (keyed k l) <-> In a l /\ key a = k.
  Proof. unfold keyed. rewrite filter_In, Z.eqb_eq. tauto. Qed.

  (* the contract determines the result *)
  Theorem sorted_keyed_unique l1 l2 :
    sorted l1 -> sorted l2 -> (forall k, keyed k l1 = keyed k l2) -> l1 = l2.
  Proof.
    unfold sorted. revert l2. induction l1 as [|a r1 IH]; intros l2 H1 H2 HK.
    - destruct l2 as [|b r2]; [reflexivity|].
      specialize (HK (key b)). unfold keyed in HK. simpl in HK. rewrite Z.eqb_refl in HK. discriminate.
    - destruct l2 as [|b r2].
      + specialize (HK (key a)). unfold keyed in HK. simpl in HK. rewrite Z.eqb_refl in HK. discriminate.
      + inversion H1 as [|? ? Hr1 Ha1]; subst. inversion H2 as [|? ? Hr2 Ha2]; subst.
        assert (Hkey : key a = key b).
        { assert (Hab : (key a <= key b)%Z).
          { assert (Hin : In b (a :: r1)).
            { apply (proj1 (keyed_in (key b) (a :: r1) b)). rewrite HK.
              unfold keyed; simpl; rewrite Z.eqb_refl; left; reflexivity. }
            destruct Hin as [->|Hin]; [lia|]. rewrite Forall_forall in Ha1. exact (Ha1 _ Hin). }
          assert (Hba : (key b <= key a)%Z).
          { assert (Hin : In a (b :: r2)).
            { apply (proj1 (keyed_in (key a) (b :: r2) a)). rewrite <- HK.
              unfold keyed; simpl; rewrite Z.eqb_refl; left; reflexivity. }
            destruct Hin as [->|Hin]; [lia|]. rewrite Forall_forall in Ha2. exact (Ha2 _ Hin). }
          lia. }
        assert (Heq : a = b).
        { specialize (HK (key a)). unfold keyed in HK. simpl in HK.
          rewrite Z.eqb_refl in HK. rewrite <- Hkey, Z.eqb_refl in HK. congruence. }
        subst b. f_equal. apply IH; auto.
        intros k. specialize (HK k). unfold keyed in *. simpl in HK.
        destruct (key a =? k)%Z; congruence.
  Qed.

  Corollary stable_sort_unique l l1 l2 :
    stable_sorted_of l l1 -> stable_sorted_of l l2 -> l1 = l2.
  Proof.
    intros [S1 K1] [S2 K2]. apply sorted_keyed_unique; auto.
    intros k. rewrite K1, K2. reflexivity.
  Qed.

  Corollary isort_unique l l' : stable_sorted_of l l' -> l' = isort l.
  Proof. intros H. apply (stable_sort_unique l); [exact H | apply isort_contract]. Qed.

  (* stability, in the "relative order" reading: if a precedes b in the input
     and they have equal keys then a precedes b in the output. *)
  Lemma keyed_app k l1 l2 : keyed k (l1 ++ l2) = keyed k l1 ++ keyed k l2.
  Proof. apply filter_app. Qed.

  Lemma isort_nil_iff l : isort l = [] <-> l = [].
  Proof.
    split; [|intros ->; reflexivity]. intros H.
    destruct l as [|x r]; [reflexivity|].
    pose proof (isort_perm (x :: r)) as P. rewrite H in P.
    apply Permutation_sym, Permutation_nil in P. discriminate.
  Qed.

  Lemma isort_length l : length (isort l) = length l.
  Proof. symmetry. apply Permutation_length, isort_perm. Qed.

  Lemma isort_in l a : In a (isort l) <-> In a l.
  Proof. split; apply Permutation_in; [apply Permutation_sym|]; apply isort_perm. Qed.
End StableSort.

(* sorting commutes with an injective-on-keys relabelling: used to transport
   the sort of model contexts to the sort of the boxes they were built from *)
Lemma insert_front_map {A B} (f : A -> B) (kb : B -> Z) x l :
  insert_front kb (f x) (map f l) = map f (insert_front (fun a => kb (f a)) x l).
Proof.
  induction l as [|y r IH]; simpl; [reflexivity|].
  destruct (kb (f x) <=? kb (f y))%Z; simpl; [reflexivity|]. rewrite IH. reflexivity.
Qed.

Lemma isort_map {A B} (f : A -> B) (kb : B -> Z) l :
  isort kb (map f l) = map f (isort (fun a => kb (f a)) l).
Proof.
  induction l as [|x r IH]; simpl; [reflexivity|].
  rewrite IH. apply insert_front_map.
Qed.

Lemma isort_ext {A} (k1 k2 : A -> Z) l : (forall a, In a l -> k1 a = k2 a) -> isort k1 l = isort k2 l.
Proof.
  induction l as [|x r IH]; intros H; simpl; [reflexivity|].
  rewrite IH by (intros a Ha; apply H; right; exact Ha).
  assert (Hr : forall a, In a (isort k2 r) -> k1 a = k2 a).
  { intros a Ha. apply H. right. apply (isort_in k2 r a). exact Ha. }
  assert (Hx : k1 x = k2 x) by (apply H; left; reflexivity).
  revert Hr. generalize (isort k2 r). intros l. induction l as [|y s IHs]; intros Hr; simpl; [reflexivity|].
  rewrite Hx, (Hr y) by (left; reflexivity).
  destruct (k2 x <=? k2 y)%Z; [reflexivity|]. f_equal. apply IHs. intros a Ha. apply Hr. right. exact Ha.
Qed.
