(* Base/GoSem.v -- Go's partial operations made explicit.

   Go code can panic (index out of range, nil dereference, integer division
   by zero, explicit panic(...)) and can loop.  Gallina functions are total, so
   a model that silently totalised those operations would make "never
   crashes / always terminates" true for the wrong reason.  Every model that
   ports Go code with partial operations therefore runs in this result monad.  *)
From Coq Require Export List ZArith NArith Bool Lia.
Export ListNotations.

Inductive res (A : Type) : Type :=
| Ok (a : A)
| Panic (site : N)        (* site: a small integer naming the Go source location *)
| OutOfFuel.
Arguments Ok {A} a.
Arguments Panic {A} site.
Arguments OutOfFuel {A}.

Definition bind {A B} (r : res A) (f : A -> res B) : res B :=
  match r with
  | Ok a => f a
  | Panic s => Panic s
  | OutOfFuel => OutOfFuel
  end.

Notation "'let*' x ':=' r 'in' k" := (bind r (fun x => k))
  (at level 200, x pattern, r at level 100, k at level 200, right associativity).

Definition is_ok {A} (r : res A) : bool :=
  match r with Ok _ => true | _ => false end.

Definition res_map {A B} (f : A -> B) (r : res A) : res B :=
  match r with Ok a => Ok (f a) | Panic s => Panic s | OutOfFuel => OutOfFuel end.

(* s[i] on a slice: panics when out of range (i is a Go int, may be negative) *)
Definition index {A} (site : N) (l : list A) (i : Z) : res A :=
  if (i <? 0)%Z then Panic site
  else match nth_error l (Z.to_nat i) with
       | Some a => Ok a
       | None => Panic site
       end.

(* Go's integer division and remainder: truncated, panics on zero divisor *)
Definition go_div (site : N) (a b : Z) : res Z :=
  if (b =? 0)%Z then Panic site else Ok (Z.quot a b).
Definition go_mod (site : N) (a b : Z) : res Z :=
  if (b =? 0)%Z then Panic site else Ok (Z.rem a b).

Lemma bind_ok_inv {A B} (r : res A) (f : A -> res B) b :
  bind r f = Ok b -> exists a, r = Ok a /\ f a = Ok b.
Proof. destruct r; simpl; intros H; try discriminate. eauto. Qed.

Lemma index_ok_iff {A} site (l : list A) i :
  (exists a, index site l i = Ok a) <-> (0 <= i < Z.of_nat (length l))%Z.
Proof.
  unfold index. destruct (Z.ltb_spec i 0).
  - split; [intros [a Ha]; discriminate | lia].
  - destruct (nth_error l (Z.to_nat i)) eqn:E.
    + split; [intros _|eauto].
      assert (Z.to_nat i < length l)%nat by (apply nth_error_Some; congruence). lia.
    + split; [intros [a Ha]; discriminate|]. intros Hi.
      apply nth_error_None in E. lia.
Qed.
