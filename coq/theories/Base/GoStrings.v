(* Base/GoStrings.v -- Go string / slice operations used by the C07 parser
   models, over `list N` (bytes of a Go string, or code points where a model
   says so).  Partial operations (slice expressions) go through Base/GoSem.v's
   result monad with an explicit Panic site; total library functions
   (strings.Split, HasPrefix, TrimSpace, ...) are plain functions.
   NO PROOFS in this file (see Base/GoStringsProofs.v). *)
From Verif Require Import Base.GoSem.
From Coq Require Import List ZArith NArith Bool.
Import ListNotations.

Definition len {A} (l : list A) : Z := Z.of_nat (length l).

(* l[lo:hi]  -- panics unless 0 <= lo <= hi <= len(l)
   (for strings and for slices whose capacity equals their length) *)
Definition slice {A} (site : N) (l : list A) (lo hi : Z) : res (list A) :=
  if ((lo <? 0) || (hi <? lo) || (len l <? hi))%Z then Panic site
  else Ok (firstn (Z.to_nat (hi - lo)) (skipn (Z.to_nat lo) l)).
Definition slice_from {A} (site : N) (l : list A) (lo : Z) : res (list A) :=
  slice site l lo (len l).
Definition slice_to {A} (site : N) (l : list A) (hi : Z) : res (list A) :=
  slice site l 0 hi.

Fixpoint list_eqb (a b : list N) : bool :=
  match a, b with
  | [], [] => true
  | x :: a', y :: b' => N.eqb x y && list_eqb a' b'
  | _, _ => false
  end.

(* strings.HasPrefix / HasSuffix *)
Fixpoint has_prefix (s p : list N) : bool :=
  match p, s with
  | [], _ => true
  | y :: p', x :: s' => N.eqb x y && has_prefix s' p'
  | _ :: _, [] => false
  end.
Definition has_suffix (s p : list N) : bool := has_prefix (rev s) (rev p).

(* strings.TrimPrefix / TrimSuffix *)
Definition trim_prefix (s p : list N) : list N :=
  if has_prefix s p then skipn (length p) s else s.
Definition trim_suffix (s p : list N) : list N :=
  if has_suffix s p then firstn (length s - length p) s else s.

(* strings.IndexByte : -1 when absent *)
Fixpoint index_byte_from (s : list N) (c : N) (i : Z) : Z :=
  match s with
  | [] => (-1)%Z
  | x :: r => if N.eqb x c then i else index_byte_from r c (i + 1)%Z
  end.
Definition index_byte (s : list N) (c : N) : Z := index_byte_from s c 0.
Definition contains_byte (s : list N) (c : N) : bool := existsb (N.eqb c) s.

(* strings.Split(s, sep) for a one-byte separator: never empty *)
Fixpoint split_byte_aux (sep : N) (s : list N) (cur : list N) : list (list N) :=
  match s with
  | [] => [rev cur]
  | x :: r => if N.eqb x sep then rev cur :: split_byte_aux sep r []
              else split_byte_aux sep r (x :: cur)
  end.
Definition split_byte (sep : N) (s : list N) : list (list N) := split_byte_aux sep s [].

(* strings.SplitN(s, sep, 2) for a one-byte separator *)
Definition split2_byte (sep : N) (s : list N) : list (list N) :=
  let i := index_byte s sep in
  if (i <? 0)%Z then [s]
  else [firstn (Z.to_nat i) s; skipn (Z.to_nat i + 1) s].

(* ASCII lower casing (utils.AsciiLower; strings.ToLower on ASCII input) *)
Definition lower_byte (c : N) : N :=
  if (65 <=? c)%N && (c <=? 90)%N then (c + 32)%N else c.
Definition ascii_lower (s : list N) : list N := map lower_byte s.
Definition is_ascii (s : list N) : bool := forallb (fun c => (c <? 128)%N) s.

(* unicode.IsSpace on a code point (strings.TrimSpace, strings.Fields) *)
Definition is_space_rune (c : N) : bool :=
  ((9 <=? c) && (c <=? 13) || (c =? 32) || (c =? 133) || (c =? 160) || (c =? 5760)
   || ((8192 <=? c) && (c <=? 8202)) || (c =? 8232) || (c =? 8233) || (c =? 8239)
   || (c =? 8287) || (c =? 12288))%N.

Fixpoint drop_while (f : N -> bool) (s : list N) : list N :=
  match s with
  | [] => []
  | x :: r => if f x then drop_while f r else s
  end.
(* strings.TrimSpace on a list of code points *)
Definition trim_space (s : list N) : list N :=
  rev (drop_while is_space_rune (rev (drop_while is_space_rune s))).

(* strconv.Atoi: optional sign, at least one ASCII digit, nothing else, value
   must fit an int64 (Go int on the 64-bit platforms the harness runs on).
   None = error.  Works on bytes and on code points alike (only ASCII accepted). *)
Definition is_digit (c : N) : bool := ((48 <=? c) && (c <=? 57))%N.
Fixpoint digits_val (s : list N) (acc : Z) : option Z :=
  match s with
  | [] => Some acc
  | c :: r => if is_digit c then digits_val r (acc * 10 + Z.of_N (c - 48))%Z else None
  end.
Definition min_int64 : Z := (- 9223372036854775808)%Z.
Definition max_int64 : Z := 9223372036854775807%Z.
Definition atoi (s : list N) : option Z :=
  let '(neg, body) :=
    match s with
    | 43%N :: r => (false, r)
    | 45%N :: r => (true, r)
    | _ => (false, s)
    end in
  match body with
  | [] => None
  | _ => match digits_val body 0%Z with
         | None => None
         | Some v => let v := if neg then (- v)%Z else v in
                     if ((min_int64 <=? v) && (v <=? max_int64))%Z then Some v else None
         end
  end.

(* wrap to int64 (Go int arithmetic on the 64-bit platforms the harness runs on) *)
Definition wrap64 (z : Z) : Z :=
  ((z + 9223372036854775808) mod 18446744073709551616 - 9223372036854775808)%Z.
