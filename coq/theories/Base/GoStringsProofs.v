(* Base/GoStringsProofs.v -- facts about Base/GoStrings.v used by the C07 totality proofs. *)
From Verif Require Import Base.GoSem Base.GoStrings.
From Coq Require Import List ZArith NArith Bool Lia ZifyBool ZifyNat ZifyN.
Import ListNotations.
Open Scope Z_scope.

Lemma len_nonneg {A} (l : list A) : 0 <= len l.
Proof. unfold len. lia. Qed.

Lemma len_nil {A} : len (@nil A) = 0.
Proof. reflexivity. Qed.

Lemma len_cons {A} (a : A) l : len (a :: l) = len l + 1.
Proof. unfold len. cbn [length]. lia. Qed.

Lemma index_ok {A} site (l : list A) i :
  0 <= i < len l -> exists a, index site l i = Ok a.
Proof. intros H. apply index_ok_iff. exact H. Qed.

Lemma index_ok_nth {A} site (l : list A) i a :
  index site l i = Ok a -> nth_error l (Z.to_nat i) = Some a /\ 0 <= i < len l.
Proof.
  unfold index. destruct (Z.ltb_spec i 0) as [Hneg|Hpos]; [discriminate|].
  destruct (nth_error l (Z.to_nat i)) eqn:E; [|discriminate].
  intros H. injection H as <-. split; [reflexivity|].
  assert (Z.to_nat i < length l)%nat by (apply nth_error_Some; congruence).
  unfold len. lia.
Qed.

Lemma slice_ok {A} site (l : list A) lo hi :
  0 <= lo -> lo <= hi -> hi <= len l ->
  slice site l lo hi = Ok (firstn (Z.to_nat (hi - lo)) (skipn (Z.to_nat lo) l)).
Proof.
  intros H1 H2 H3. unfold slice.
  destruct (lo <? 0) eqn:E1; [lia|].
  destruct (hi <? lo) eqn:E2; [lia|].
  destruct (len l <? hi) eqn:E3; [lia|]. reflexivity.
Qed.

Lemma slice_len {A} site (l : list A) lo hi r :
  slice site l lo hi = Ok r -> len r = hi - lo /\ 0 <= lo /\ lo <= hi /\ hi <= len l.
Proof.
  unfold slice.
  destruct (lo <? 0) eqn:E1; [discriminate|].
  destruct (hi <? lo) eqn:E2; [discriminate|].
  destruct (len l <? hi) eqn:E3; [discriminate|].
  cbn [orb]. intros H. injection H as <-.
  unfold len in *. rewrite firstn_length, skipn_length. lia.
Qed.

Lemma slice_from_ok {A} site (l : list A) lo :
  0 <= lo <= len l -> slice_from site l lo = Ok (skipn (Z.to_nat lo) l).
Proof.
  intros H. unfold slice_from. rewrite slice_ok by lia.
  f_equal. apply firstn_all2. unfold len. rewrite skipn_length. lia.
Qed.

Lemma slice_from_len {A} site (l : list A) lo r :
  slice_from site l lo = Ok r -> len r = len l - lo /\ 0 <= lo <= len l.
Proof. unfold slice_from. intros H. apply slice_len in H. lia. Qed.

Lemma slice_to_ok {A} site (l : list A) hi :
  0 <= hi <= len l -> slice_to site l hi = Ok (firstn (Z.to_nat hi) l).
Proof.
  intros H. unfold slice_to. rewrite slice_ok by lia.
  rewrite Z.sub_0_r. reflexivity.
Qed.

Lemma slice_to_len {A} site (l : list A) hi r :
  slice_to site l hi = Ok r -> len r = hi /\ 0 <= hi <= len l.
Proof. unfold slice_to. intros H. apply slice_len in H. lia. Qed.

(* ---- list_eqb *)
Lemma list_eqb_refl a : list_eqb a a = true.
Proof. induction a as [|x a IH]; cbn; [reflexivity|]. rewrite N.eqb_refl. exact IH. Qed.

Lemma list_eqb_eq a b : list_eqb a b = true <-> a = b.
Proof.
  split.
  - revert b. induction a as [|x a IH]; intros [|y b]; cbn; try discriminate; [reflexivity|].
    intros H. apply andb_prop in H as [H1 H2]. apply N.eqb_eq in H1. subst.
    f_equal. apply IH. exact H2.
  - intros <-. apply list_eqb_refl.
Qed.

(* ---- has_prefix *)
Lemma has_prefix_len s p : has_prefix s p = true -> (length p <= length s)%nat.
Proof.
  revert s. induction p as [|y p IH]; intros s H; cbn; [lia|].
  destruct s as [|x s]; cbn in H; [discriminate|].
  apply andb_prop in H as [_ H]. apply IH in H. cbn. lia.
Qed.

Lemma has_suffix_len s p : has_suffix s p = true -> (length p <= length s)%nat.
Proof.
  unfold has_suffix. intros H. apply has_prefix_len in H. rewrite !rev_length in H. exact H.
Qed.

(* ---- strings.IndexByte *)
Lemma index_byte_from_range s c i :
  index_byte_from s c i = -1 \/ (i <= index_byte_from s c i < i + len s).
Proof.
  unfold len. revert i. induction s as [|x s IH]; intros i; cbn [index_byte_from length]; [left; reflexivity|].
  destruct (N.eqb x c).
  - right. lia.
  - specialize (IH (i + 1)). lia.
Qed.

Lemma index_byte_range s c :
  index_byte s c = -1 \/ 0 <= index_byte s c < len s.
Proof. unfold index_byte. pose proof (index_byte_from_range s c 0) as H. lia. Qed.

Lemma index_byte_from_absent s c i :
  contains_byte s c = false -> index_byte_from s c i = -1.
Proof.
  revert i. induction s as [|x s IH]; intros i H; cbn in *; [reflexivity|].
  apply orb_false_elim in H as [H1 H2].
  rewrite N.eqb_sym in H1. rewrite H1. apply IH. exact H2.
Qed.

Lemma index_byte_from_present s c i :
  contains_byte s c = true -> i <= index_byte_from s c i.
Proof.
  revert i. induction s as [|x s IH]; intros i H; cbn in *; [discriminate|].
  destruct (N.eqb x c) eqn:E; [lia|].
  rewrite N.eqb_sym in E. rewrite E in H. cbn in H. specialize (IH (i + 1) H). lia.
Qed.

(* ---- strings.Split never returns an empty slice *)
Lemma split_byte_aux_len sep s cur : (1 <= length (split_byte_aux sep s cur))%nat.
Proof.
  revert cur. induction s as [|x s IH]; intros cur; cbn; [lia|].
  destruct (N.eqb x sep); cbn; [lia|apply IH].
Qed.

Lemma split_byte_len sep s : 1 <= len (split_byte sep s).
Proof. unfold split_byte, len. pose proof (split_byte_aux_len sep s []). lia. Qed.

Lemma split_byte_aux_count sep s cur :
  length (split_byte_aux sep s cur) = S (length (filter (N.eqb sep) s)).
Proof.
  revert cur. induction s as [|x s IH]; intros cur; cbn; [reflexivity|].
  rewrite (N.eqb_sym sep x). destruct (N.eqb x sep); cbn; rewrite IH; reflexivity.
Qed.

Lemma split2_byte_len sep s :
  contains_byte s sep = true -> len (split2_byte sep s) = 2.
Proof.
  intros H. unfold split2_byte.
  assert (0 <= index_byte s sep) by (apply (index_byte_from_present s sep 0 H)).
  destruct (index_byte s sep <? 0) eqn:E; [lia|]. reflexivity.
Qed.

(* ---- trimming never grows *)
Lemma drop_while_len f s : (length (drop_while f s) <= length s)%nat.
Proof. induction s as [|x s IH]; cbn; [lia|]. destruct (f x); cbn; lia. Qed.

Lemma trim_space_len s : (length (trim_space s) <= length s)%nat.
Proof.
  unfold trim_space. rewrite rev_length.
  etransitivity; [apply drop_while_len|]. rewrite rev_length. apply drop_while_len.
Qed.

Lemma drop_while_head f s x r : drop_while f s = x :: r -> f x = false.
Proof.
  induction s as [|y s IH]; cbn; [discriminate|].
  destruct (f y) eqn:E; [exact IH|]. intros H. injection H as <- _. exact E.
Qed.

(* ---- strconv.Atoi result is an int64 *)
Lemma atoi_range s v : atoi s = Some v -> min_int64 <= v <= max_int64.
Proof.
  unfold atoi.
  destruct (match s with
            | 43%N :: r => (false, r)
            | 45%N :: r => (true, r)
            | _ => (false, s)
            end) as [neg body].
  destruct body; [discriminate|].
  destruct (digits_val (n :: body) 0); [|discriminate].
  destruct ((min_int64 <=? (if neg then - z else z)) && ((if neg then - z else z) <=? max_int64)) eqn:E;
    [|discriminate].
  intros H. injection H as <-. lia.
Qed.

Lemma wrap64_range z : min_int64 <= wrap64 z <= max_int64.
Proof.
  unfold wrap64, min_int64, max_int64.
  pose proof (Z.mod_pos_bound (z + 9223372036854775808) 18446744073709551616 ltac:(lia)). lia.
Qed.

Lemma wrap64_id z : min_int64 <= z <= max_int64 -> wrap64 z = z.
Proof.
  unfold wrap64, min_int64, max_int64. intros H.
  rewrite Z.mod_small by lia. lia.
Qed.
