(* Base/F32.v -- IEEE-754 binary32 arithmetic as rounding of exact rationals.

   The implementation computes in Go's float32 (`utils.Fl`).  On amd64 (the
   only platform the checks run on; GOAMD64=v1, no FMA fusion) every float32
   `+ - * /` is one correctly rounded IEEE operation.  A model written over an
   abstract arithmetic record can therefore be run twice: with exact rational
   operations (the instance the theorems are about) and with the rounded
   operations below (the instance the correspondence check compares bit for
   bit with the implementation's float32 results, printed as exact rationals).

   rnd32 rounds to nearest, ties to even, 24-bit significand, with gradual
   underflow (minimum exponent -149).  Overflow to infinity is not modelled:
   `in_range32` is checked by the correspondence and such cases are counted as
   skipped.  rnd32 itself is validated against Go's float32 conversion on
   every run (case kind CRound in Check/C17.v). *)
From Coq Require Import QArith Qabs ZArith Lia.
Open Scope Z_scope.

(* round-half-even of a / b, b > 0, a >= 0 *)
Definition div_rne (a b : Z) : Z :=
  let q := a / b in
  let r := a mod b in
  match (2 * r) ?= b with
  | Lt => q
  | Gt => q + 1
  | Eq => if Z.even q then q else q + 1
  end.

(* floor(log2 (n/d)) for n, d > 0 *)
Definition flog2 (n d : Z) : Z :=
  let k := Z.log2 n - Z.log2 d in
  (* n/d >= 2^k ?  *)
  if 0 <=? k then (if d * 2 ^ k <=? n then k else k - 1)
  else (if d <=? n * 2 ^ (- k) then k else k - 1).

Definition rnd_pos (prec emin : Z) (n d : Z) : Q :=
  let e0 := flog2 n d - (prec - 1) in
  let e := Z.max e0 emin in
  let m := if 0 <=? e then div_rne n (d * 2 ^ e) else div_rne (n * 2 ^ (- e)) d in
  if 0 <=? e then inject_Z (m * 2 ^ e) else Qmake m (Z.to_pos (2 ^ (- e))).

Definition rnd (prec emin : Z) (q : Q) : Q :=
  let n := Qnum q in
  let d := Zpos (Qden q) in
  match n with
  | Z0 => 0%Q
  | Zpos _ => Qred (rnd_pos prec emin n d)
  | Zneg _ => Qred (Qopp (rnd_pos prec emin (- n) d))
  end.

Definition rnd32 : Q -> Q := rnd 24 (-149).
Definition rnd64 : Q -> Q := rnd 53 (-1074).

(* largest finite binary32: (2^24 - 1) * 2^104 *)
Definition max32 : Q := inject_Z ((2 ^ 24 - 1) * 2 ^ 104).
Definition in_range32 (q : Q) : bool := Qle_bool (Qabs q) max32.

Definition f32_exact (q : Q) : bool := Qeq_bool (rnd32 q) q.

(* arithmetic record: models are written against this *)
Record arith := {
  add : Q -> Q -> Q;
  sub : Q -> Q -> Q;
  mul : Q -> Q -> Q;
  div : Q -> Q -> Q;     (* callers guard against a zero divisor where Go does *)
}.

Definition exactQ : arith :=
  {| add := Qplus; sub := Qminus; mul := Qmult; div := Qdiv |}.

Definition f32 : arith :=
  {| add := fun a b => rnd32 (a + b)%Q;
     sub := fun a b => rnd32 (a - b)%Q;
     mul := fun a b => rnd32 (a * b)%Q;
     div := fun a b => rnd32 (a / b)%Q |}.

Declare Scope ar_scope.
Delimit Scope ar_scope with ar.
