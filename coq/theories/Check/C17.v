(* Check/C17.v -- correspondence between /repo's matrix / transform code and
   the model of Geom/Matrix.v, evaluated with the float32 instance.  The Go
   harness (go/cmd/c17) writes one `case` per implementation run: the input and
   what the implementation returned (float32 values as exact rationals).
   `check` recomputes the output with the model and compares bit for bit.
   codes: 0 = agree, 1 = disagree, 2 = skipped (value outside binary32 range). *)
From Verif Require Export Base.F32 Geom.Matrix.
From Coq Require Import QArith List NArith.
Import ListNotations.
Open Scope Q_scope.

Inductive op :=
| OTranslate (tx ty : Q) | OScale (sx sy : Q)
| ORotate (c s : Q)            (* cos / sin Go's math computed for the angle *)
| OSkew (tx ty : Q)            (* tan of the two angles *)
| OLeft (u : T) | ORight (u : T).

(* angle as written (degrees), then cos, sin, tan as Go computed them *)
Inductive trig_entry := TE (a c s t : Q).

Inductive ctrig_entry := CTE (v : Q) (u : angle_unit) (c s t : Q).

Inductive case :=
| CRound (x r : Q)                         (* float32(x) = r, x a float64 *)
| CArith (o : N) (a b r : Q)               (* 0 + 1 - 2 * 3 /  on float32 *)
| CMulChain (ts : list T) (out : T)        (* Mul(...Mul(Mul(t1,t2),t3)...) *)
| CMul3 (r s t out : T)
| CInvert (t : T) (ok : bool) (out : T)
| CApply (t : T) (x y ox oy : Q)
| CDet (t : T) (d : Q)
| COps (t : T) (ops : list op) (out : T)   (* in-place methods, in order *)
| CCss (g : box_geom) (fs : list tfun) (out : T)
| CCssSrc (tbl : list ctrig_entry) (g : box_geom) (fs : list css_src) (has : bool) (out : T)
    (* end to end: functions as written in the style sheet, the laid-out border box,
       computed transform-origin; has/out = the Transform call the backend received *)
| CCssInline (has : bool)
    (* a `transform` on a box that may be split into several inline-level boxes (a plain inline
       box) does not apply (CSS Transforms 1, "transformable element"): no Transform call *)
| CSvg (tr : list trig_entry) (l : list svg_src) (out : T)
| CSvgDraw (tr : list trig_entry) (l : list svg_src) (has : bool) (out : T)
    (* end to end: <rect transform="..."> drawn by svg.Parse + Draw; has/out = the Transform call
       the backend received for the element (svg.go applyTransform: none for an empty list or det = 0) *)
| CViewbox (p : par) (w h vx vy vw vh : Q) (o1 o2 o3 o4 : Q).

Definition teqb (t u : T) : bool :=
  Qeq_bool (A t) (A u) && Qeq_bool (B t) (B u) && Qeq_bool (C t) (C u) &&
  Qeq_bool (D t) (D u) && Qeq_bool (E t) (E u) && Qeq_bool (F t) (F u).

Definition tlist (t : T) : list Q := [A t; B t; C t; D t; E t; F t].
Definition all_in_range (l : list Q) : bool := forallb in_range32 l.

Definition do_op (ar : arith) (t : T) (o : op) : T :=
  match o with
  | OTranslate tx ty => translate ar t tx ty
  | OScale sx sy => scale ar t sx sy
  | ORotate c s => rotate_cs ar t c s
  | OSkew tx ty => skew_tt ar t tx ty
  | OLeft u => left_mult_by ar t u
  | ORight u => right_mult_by ar t u
  end.

Definition trig_of (tbl : list trig_entry) : trig :=
  fun a => match find (fun e => let 'TE a' _ _ _ := e in Qeq_bool a' a) tbl with
           | Some (TE _ c s t) => (c, s, t)
           | None => (1, 0, 0)
           end.

Definition unit_eqb (u v : angle_unit) : bool :=
  match u, v with Deg, Deg | Grad, Grad | Rad, Rad | Turn, Turn => true | _, _ => false end.
Definition ctrig_of (tbl : list ctrig_entry) : ctrig :=
  fun v u => match find (fun e => let 'CTE v' u' _ _ _ := e in Qeq_bool v' v && unit_eqb u' u) tbl with
             | Some (CTE _ _ c s t) => (c, s, t)
             | None => (1, 0, 0)
             end.

Definition arith_op (o : N) : Q -> Q -> Q :=
  match o with
  | 0%N => add f32 | 1%N => sub f32 | 2%N => mul f32 | _ => div f32
  end.

(* model observable, flattened; ar = f32 for the bit-exact comparison,
   ar = exactQ for the tolerance fallback *)
Definition model_out_ar (ar : arith) (c : case) : list Q :=
  match c with
  | CRound x _ => [rnd32 x]
  | CArith o a b _ => [arith_op o a b]
  | CMulChain ts _ =>
      match ts with [] => tlist identity
      | t :: r => tlist (fold_left (mmul ar) r t) end
  | CMul3 r s t _ => tlist (mul3 ar r s t)
  | CInvert t _ _ => match invert ar t with Some u => 1 :: tlist u | None => [0] end
  | CApply t x y _ _ => let '(a, b) := apply ar t x y in [a; b]
  | CDet t _ => [determinant ar t]
  | COps t ops _ => tlist (fold_left (do_op ar) ops t)
  | CCss g fs _ => tlist (css_matrix ar g fs)
  | CCssSrc tbl g fs _ _ =>
      let m := css_matrix ar g (map (css_normalise (ctrig_of tbl)) fs) in
      (* draw.go:252-259: nothing is sent when the determinant is 0 *)
      if Qeq_bool (determinant ar m) 0 then [0] else 1 :: tlist m
  | CCssInline _ => [0]
  | CSvg tbl l _ => tlist (svg_aggregate ar (trig_of tbl) l)
  | CSvgDraw tbl l _ _ =>
      match l with
      | [] => [0]
      | _ => let m := svg_aggregate ar (trig_of tbl) l in
             if Qeq_bool (determinant ar m) 0 then [0] else 1 :: tlist m
      end
  | CViewbox p w h vx vy vw vh _ _ _ _ =>
      let '(a, b, c, d) := viewbox_transform ar p w h vx vy vw vh in [a; b; c; d]
  end.
Definition model_out := model_out_ar f32.

Definition impl_out (c : case) : list Q :=
  match c with
  | CRound _ r => [r]
  | CArith _ _ _ r => [r]
  | CMulChain _ out | CMul3 _ _ _ out | COps _ _ out | CCss _ _ out | CSvg _ _ out => tlist out
  | CCssSrc _ _ _ has out => if has then 1 :: tlist out else [0]
  | CSvgDraw _ _ has out => if has then 1 :: tlist out else [0]
  | CCssInline has => if has then [1] else [0]
  | CInvert _ ok out => if ok then 1 :: tlist out else [0]
  | CApply _ _ _ ox oy => [ox; oy]
  | CDet _ d => [d]
  | CViewbox _ _ _ _ _ _ _ a b c d => [a; b; c; d]
  end.

Fixpoint qlist_eqb (l1 l2 : list Q) : bool :=
  match l1, l2 with
  | [], [] => true
  | a :: r1, b :: r2 => Qeq_bool a b && qlist_eqb r1 r2
  | _, _ => false
  end.

(* tolerance fallback: the implementation differs bit-for-bit from the float32
   instance; is it at least within 2^-10 (relative to the largest entry) of the
   exact-rational instance, i.e. of the specification?  If so only the tie is
   broken (code 3), otherwise the input is a failing input (code 1). *)
Fixpoint maxabs (l : list Q) : Q :=
  match l with [] => 0 | x :: r => let m := maxabs r in if Qle_bool (Qabs.Qabs x) m then m else Qabs.Qabs x end.
Fixpoint qlist_close (tol : Q) (l1 l2 : list Q) : bool :=
  match l1, l2 with
  | [], [] => true
  | a :: r1, b :: r2 => Qle_bool (Qabs.Qabs (a - b)) tol && qlist_close tol r1 r2
  | _, _ => false
  end.

Definition check (c : case) : N :=
  let m := model_out c in
  if negb (all_in_range m) then 2%N
  else if qlist_eqb m (impl_out c) then 0%N
  else match c with
       | CRound _ _ | CArith _ _ _ _ => 1%N
       | _ => let e := model_out_ar exactQ c in
              let tol := (1 # 1024) * (1 + maxabs e) in
              if qlist_close tol e (impl_out c) then 3%N else 1%N
       end.

Fixpoint mismatches (i : N) (cs : list case) : list (N * N) :=
  match cs with
  | [] => []
  | c :: r => let k := check c in
              if N.eqb k 0 then mismatches (N.succ i) r else (i, k) :: mismatches (N.succ i) r
  end.
