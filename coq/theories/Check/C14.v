(* Check/C14.v -- correspondence between /repo's link / bookmark / metadata /
   page emission code and the models of Draw/*.v.  The Go harness (go/cmd/c14)
   writes `case`s: the input and what the implementation produced; `check`
   recomputes the observable with the model and compares.

   kinds
     KResolve    synthetic page data through the hook VerifResolveLinks
     KBookmarks  synthetic bookmark lists through the hook VerifMakeBookmarkTree
     KGather     a rendered document: the laid-out boxes of every page (pre-order
                 dump with hit areas) against what newPage gathered (hook VerifPages);
                 geometry is compared unless a CSS transform applies (flag)
     KGatherT    the same document as a TREE (boxes that carry an id / link / bookmark
                 label or a CSS transform, nesting kept) with the own matrix of every
                 transformed box (hook VerifMatrix = getMatrix, C17's): link rectangles,
                 anchor and bookmark positions under the transform stack
                 (Draw/LinksTree.v, float32 instance, bit for bit)
     KDoc        a rendered document written at some zoom: gathered page data ->
                 resolve -> Write loop (float32 instance, bit for bit) against the
                 calls the recording backend received; outline against makeBookmarkTree
     KMeta       <title>/<meta>/<link rel=attachment> elements of the parsed DOM
                 against the metadata calls received by the backend
     KTrace      the complete backend call trace, run through the protocol
                 automaton as a monitor (draw.go is not modelled call by call)
     KTraceRule  the same trace, one rule only (one case per rule the harness
                 saw violated, so that known findings are matched rule by rule)
     KExpect     what the document generator knows it wrote (ids, links,
                 headings per forced page) against the anchors / links / outline
                 the backend received (names only)

   codes: 0 agree; 2 is reserved for "skipped"; see checks/C14.py for the rest. *)
From Verif Require Export Base.F32 Base.GoSem Geom.Matrix Draw.Links Draw.LinksTree Draw.Bookmarks Draw.Protocol Draw.Emit Draw.Meta Draw.Tiling.
From Coq Require Import QArith List NArith ZArith Bool.
Import ListNotations.
Open Scope N_scope.

Record geom := mkgeom { gm_w : Q; gm_h : Q; gm_bl : Q; gm_bt : Q; gm_br : Q; gm_bb : Q }.
Record rpage := mkrpage { r_addpage : rect; r_links : list link; r_anchors : list anchor; r_boxes : list rect }.
Inductive bres := BForest (f : list node) | BPanic.

(* generator knowledge of one forced page: items in source order *)
Inductive gitem :=
| GId (n : name)                         (* an element with this id *)
| GLink (ty : ltype) (target : name)     (* <a href> *)
| GHead (level : Z) (label : name).      (* element with bookmark-level / label *)

(* what drawBackgroundImage handed to the backend for one layer: nothing, or the
   arguments of NewGroup (cell) and the translation of SetColorPattern; an argument
   that is not finite is recorded as None (the model always yields a number) *)
Inductive oq := QV (q : Q) | QBad.
Record tile_obs := mktile_obs { t_cw : oq; t_ch : oq; t_x : oq; t_y : oq }.
Inductive tiled := TNothing | TDrawn (o : tile_obs).

Inductive case :=
| KResolve (pages : list page) (ol : list (list link)) (oa : list (list anchor))
| KBookmarks (pages : list (list bookmark)) (out : bres)
| KGather (geom : bool) (boxes : list (list box)) (vpages : list page)
| KGatherT (trees : list tbox) (vpages : list page)   (* the box TREE of every page with the own matrix of every transformed box: geometry under the transform stack, float32 bit for bit *)
| KDoc (zoom : Q) (vpages : list page) (geoms : list geom) (rec : list rpage) (outline : list node)
| KMeta (els : list melem) (out : meta)
| KTrace (npages : N) (sep : list N) (t : list call)   (* rules in `sep` are reported by their own KTraceRule case *)
| KTraceRule (r : N) (t : list call)
| KTracePrefix (sep : list N) (t : list call)   (* a prefix of a very long trace: guards only (acceptance is prefix closed) *)
| KExpect (gen : list (list gitem)) (anchors : list (list name)) (links : list (list link)) (outline : list node)
| KTile (x y : axis) (out : tiled).   (* one laid-out background layer through drawBackgroundImage *)

(* ---------------------------------------------------------------- equalities *)
Fixpoint list_eqb {A} (eqb : A -> A -> bool) (l1 l2 : list A) : bool :=
  match l1, l2 with
  | [], [] => true
  | a :: r1, b :: r2 => eqb a b && list_eqb eqb r1 r2
  | _, _ => false
  end.

Definition pos_eqb (a b : pos) : bool := Qeq_bool (px a) (px b) && Qeq_bool (py a) (py b).
Definition rect_eqb (a b : rect) : bool :=
  Qeq_bool (rx0 a) (rx0 b) && Qeq_bool (ry0 a) (ry0 b) && Qeq_bool (rx1 a) (rx1 b) && Qeq_bool (ry1 a) (ry1 b).
Definition link_eqb (a b : link) : bool :=
  ltype_eqb (ltyp a) (ltyp b) && name_eqb (ltarget a) (ltarget b) && rect_eqb (lrect a) (lrect b).
Definition link_eqb_nogeom (a b : link) : bool :=
  ltype_eqb (ltyp a) (ltyp b) && name_eqb (ltarget a) (ltarget b).
Definition anchor_eqb (a b : anchor) : bool := name_eqb (aname a) (aname b) && pos_eqb (apos a) (apos b).
Definition anchor_eqb_nogeom (a b : anchor) : bool := name_eqb (aname a) (aname b).
Definition bk_eqb_nogeom (a b : bookmark) : bool :=
  (blevel a =? blevel b)%Z && name_eqb (blabel a) (blabel b) && Bool.eqb (bopen a) (bopen b).

Definition bk_eqb (a b : bookmark) : bool := bk_eqb_nogeom a b && pos_eqb (bpos a) (bpos b).

(* same finite set (the lists have no duplicate names on both sides) *)
Definition set_eqb {A} (eqb : A -> A -> bool) (l1 l2 : list A) : bool :=
  Nat.eqb (length l1) (length l2) && forallb (fun a => existsb (eqb a) l2) l1
  && forallb (fun b => existsb (eqb b) l1) l2.

(* BookmarkNode has no level field: compare everything else *)
Definition entry_eqb_nolevel (a b : entry) : bool :=
  name_eqb (e_label a) (e_label b) && (e_page a =? e_page b)%Z && pos_eqb (e_pos a) (e_pos b)
  && Bool.eqb (e_open a) (e_open b).

Fixpoint node_eqb (eqb : entry -> entry -> bool) (a b : node) : bool :=
  let 'Node ea ca := a in
  let 'Node eb cb := b in
  eqb ea eb &&
  (fix go (l1 l2 : list node) : bool :=
     match l1, l2 with
     | [], [] => true
     | x :: r1, y :: r2 => node_eqb eqb x y && go r1 r2
     | _, _ => false
     end) ca cb.
Definition forest_eqb (eqb : entry -> entry -> bool) (f g : list node) : bool := list_eqb (node_eqb eqb) f g.

Definition opt_eqb {A} (eqb : A -> A -> bool) (a b : option A) : bool :=
  match a, b with Some x, Some y => eqb x y | None, None => true | _, _ => false end.

Definition meta_eqb (a b : meta) : bool :=
  name_eqb (m_title a) (m_title b) && name_eqb (m_description a) (m_description b)
  && name_eqb (m_generator a) (m_generator b)
  && list_eqb name_eqb (m_authors a) (m_authors b) && list_eqb name_eqb (m_keywords a) (m_keywords b)
  && opt_eqb Z.eqb (m_created a) (m_created b) && opt_eqb Z.eqb (m_modified a) (m_modified b)
  && list_eqb (fun x y => name_eqb (fst x) (fst y) && name_eqb (snd x) (snd y)) (m_attachments a) (m_attachments b).

(* first non-zero code *)
Fixpoint first_code (l : list (bool * N)) : N :=
  match l with
  | [] => 0
  | (ok, c) :: r => if ok then first_code r else c
  end.

(* ---------------------------------------------------------------- model observables *)
Definition model_bookmarks (pages : list (list bookmark)) : bres :=
  match make_tree (entries_of pages) with
  | Ok f => BForest f
  | _ => BPanic
  end.

Definition epage_of (g : geom) (ls : list link) (ans : list anchor) : epage :=
  mkepage (gm_w g) (gm_h g) (gm_bl g) (gm_bt g) (gm_br g) (gm_bb g) ls ans.

Fixpoint zip3 {A B C D} (f : A -> B -> C -> D) (la : list A) (lb : list B) (lc : list C) : list D :=
  match la, lb, lc with
  | a :: ra, b :: rb, c :: rc => f a b c :: zip3 f ra rb rc
  | _, _, _ => []
  end.

(* gathered data -> resolveLinks -> Write loop, float32 *)
Definition model_doc (zoom : Q) (vpages : list page) (geoms : list geom) : list opage :=
  let '(ls, ans) := resolve vpages in
  emit f32 zoom (zip3 epage_of geoms ls ans).

Definition model_outline (vpages : list page) : bres := model_bookmarks (map p_bks vpages).

(* generator knowledge -> boxes (no geometry) *)
Definition zero_pos := mkpos 0 0.
Definition zero_rect := mkrect 0 0 0 0.
Definition gitem_box (g : gitem) : box :=
  match g with
  | GId n => mkbox n None false false [] 0 false zero_pos zero_rect
  | GLink ty t => mkbox [] (Some (ty, t)) false false [] 0 false zero_pos zero_rect
  | GHead lv lb => mkbox [] None false false lb lv true zero_pos zero_rect
  end.

Definition expect_pages (gen : list (list gitem)) : list page :=
  map (fun its => let g := gather (map gitem_box its) in page_of g (g_anchors g)) gen.

Fixpoint strip_node (n : node) : node :=
  let 'Node e ch := n in
  Node (mkentry 0 (e_label e) (e_page e) zero_pos true)
       ((fix go (l : list node) : list node := match l with [] => [] | c :: r => strip_node c :: go r end) ch).

Definition entry_eqb_names (a b : entry) : bool :=
  name_eqb (e_label a) (e_label b) && (e_page a =? e_page b)%Z.

(* protocol monitor.  KTrace: 20 + the first violated rule that is not in
   `sep`; then page count (19) and OnNewStack balance (30).  The rules the
   harness saw violated are passed in `sep` and get one KTraceRule case each
   (so that a violation matched by a known finding cannot hide another one). *)
Definition trace_violations (t : list call) : list (N * N) := fst (monitor t).
(* complete traces: the guards, then the final condition 13 (a group holding painting
   was never composited), reported at the position after the last call *)
Definition final_violations (t : list call) : list (N * N) :=
  let '(v, st) := monitor t in
  v ++ (if complete st then [] else [(N.of_nat (length t), 13)]).
Definition trace_code (n : N) (sep : list N) (t : list call) : N :=
  let '(v, st) := monitor t in
  match filter (fun x => negb (Protocol.mem (snd x) sep)) (final_violations t) with
  | (_, r) :: _ => 20 + r
  | [] => if negb (Protocol.npages st =? n) then 19
          else if negb (balanced st) then 30 else 0
  end.
Definition trace_rule_code (r : N) (t : list call) : N :=
  if existsb (fun x => snd x =? r) (final_violations t) then 20 + r else 0.

Definition oq_eqb (o : oq) (q : Q) : bool :=
  match o with QV v => Qeq_bool v q | QBad => false end.

(* ---------------------------------------------------------------- check *)
Definition check (c : case) : N :=
  match c with
  | KResolve pages ol oa =>
      let '(ls, ans) := resolve pages in
      first_code [ (list_eqb (list_eqb link_eqb) ls ol, 1);
                   (list_eqb (set_eqb anchor_eqb) ans oa, 3) ]
  | KBookmarks pages out =>
      match model_bookmarks pages, out with
      | BPanic, BPanic => 0
      | BForest f, BForest g => if forest_eqb entry_eqb_nolevel f g then 0 else 5
      | _, _ => 4
      end
  | KGather geom boxes vpages =>
      let gs := map gather boxes in
      let aeq := if geom then anchor_eqb else anchor_eqb_nogeom in
      let leq := if geom then link_eqb else link_eqb_nogeom in
      let beq := if geom then bk_eqb else bk_eqb_nogeom in
      first_code [ (Nat.eqb (length gs) (length vpages), 9);
                   (list_eqb (set_eqb aeq) (map g_anchors gs) (map p_anchors vpages), 10);
                   (list_eqb (list_eqb leq) (map g_links gs) (map p_links vpages), 11);
                   (list_eqb (list_eqb beq) (map g_bks gs) (map p_bks vpages), 12) ]
  | KGatherT trees vpages =>
      let gs := map (gather_tree f32) trees in
      first_code [ (Nat.eqb (length gs) (length vpages), 9);
                   (list_eqb (set_eqb anchor_eqb) (map g_anchors gs) (map p_anchors vpages), 10);
                   (list_eqb (list_eqb link_eqb) (map g_links gs) (map p_links vpages), 11);
                   (list_eqb (list_eqb bk_eqb) (map g_bks gs) (map p_bks vpages), 12) ]
  | KDoc zoom vpages geoms rec outline =>
      let m := model_doc zoom vpages geoms in
      first_code [ (Nat.eqb (length vpages) (length geoms), 9);
                   (Nat.eqb (length m) (length rec), 15);
                   (list_eqb rect_eqb (map o_addpage m) (map r_addpage rec), 15);
                   (list_eqb (list_eqb link_eqb) (map o_links m) (map r_links rec), 13);
                   (list_eqb (set_eqb anchor_eqb) (map o_anchors m) (map r_anchors rec), 14);
                   (list_eqb (list_eqb rect_eqb) (map o_boxes m) (map r_boxes rec), 16);
                   (match model_outline vpages with
                    | BForest f => forest_eqb entry_eqb_nolevel f outline
                    | BPanic => false end, 17) ]
  | KMeta els out => if meta_eqb (get_metadata els) out then 0 else 18
  | KTrace n sep t => trace_code n sep t
  | KTraceRule r t => trace_rule_code r t
  | KTracePrefix sep t =>
      match filter (fun x => negb (Protocol.mem (snd x) sep)) (trace_violations t) with
      | (_, r) :: _ => 20 + r
      | [] => 0
      end
  | KExpect gen anchors links outline =>
      let ps := expect_pages gen in
      let '(ls, ans) := resolve ps in
      first_code [ (list_eqb (set_eqb name_eqb) (map (map aname) ans) anchors, 40);
                   (list_eqb (list_eqb link_eqb_nogeom) ls links, 41);
                   (match model_outline ps with
                    | BForest f => forest_eqb entry_eqb_names f outline
                    | BPanic => false end, 42) ]
  | KTile x y out =>
      match tile f32 x y, out with
      | None, TNothing => 0
      | Some (ox, oy), TDrawn o =>
          first_code [ (oq_eqb (t_cw o) (o_cell ox) && oq_eqb (t_ch o) (o_cell oy), 50);
                       (oq_eqb (t_x o) (o_shift ox) && oq_eqb (t_y o) (o_shift oy), 51) ]
      | _, _ => 52
      end
  end.

(* what the model computes, for replay files *)
Inductive mout :=
| MResolve (ls : list (list link)) (ans : list (list anchor))
| MBook (b : bres)
| MGather (g : list gathered)
| MDoc (o : list opage) (b : bres)
| MMetaOut (m : meta)
| MViol (v : list (N * N)) (pages : N)
| MTile (o : option (oaxis * oaxis)).

Definition model_out (c : case) : mout :=
  match c with
  | KResolve pages _ _ => let '(ls, ans) := resolve pages in MResolve ls ans
  | KBookmarks pages _ => MBook (model_bookmarks pages)
  | KGather _ boxes _ => MGather (map gather boxes)
  | KGatherT trees _ => MGather (map (gather_tree f32) trees)
  | KDoc zoom vpages geoms _ _ => MDoc (model_doc zoom vpages geoms) (model_outline vpages)
  | KMeta els _ => MMetaOut (get_metadata els)
  | KTrace _ _ t | KTraceRule _ t => let '(v, st) := monitor t in MViol (final_violations t) (Protocol.npages st)
  | KTracePrefix _ t => let '(v, st) := monitor t in MViol v (Protocol.npages st)
  | KExpect gen _ _ _ => let ps := expect_pages gen in
                         let '(ls, ans) := resolve ps in MDoc [] (model_outline ps)
  | KTile x y _ => MTile (tile f32 x y)
  end.

Fixpoint mismatches (i : N) (cs : list case) : list (N * N) :=
  match cs with
  | [] => []
  | c :: r => let k := check c in
              if N.eqb k 0 then mismatches (N.succ i) r else (i, k) :: mismatches (N.succ i) r
  end.
