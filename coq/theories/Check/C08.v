(* Check/C08.v -- correspondence between /repo's declaration pipeline / var()
   resolution and the models of Css/Decl.v, Css/VarSubst.v.  The Go harness
   (go/cmd/c08) writes one `case` per implementation run.
   codes: 0 agree; 1 declared values differ; 2 skipped (outside the modelled
   domain); 3 worker died / hung (process-fatal); 4 computed style differs;
   5 resolveVar differs; 6 metamorphic pair differs; 7 model panics / out of fuel. *)
From Verif Require Export Css.VarSubst.
From Coq Require Import List NArith ZArith QArith Bool.
Import ListNotations.

(* ParseColor oracle: the tokens of the input for which pa.ParseColor is not None *)
Inductive centry := CE (t : tok) (c : color).
(* per probe property: pr.Inherited.Has, pr.InitialValues, the parent's computed value *)
Inductive pentry := PE (name : str) (inh : bool) (init parent : value).
Inductive oent := OE (name : str) (v : value).
Inductive eentry := EE (name : str) (toks : list tok).

Inductive case :=
| CDecls (block : list raw) (oracle : list centry) (out : list odecl)
| CComputed (is_root : bool) (parent_block block : list raw) (oracle : list centry) (tbl : list pentry)
            (status : N) (out : list oent)
    (* is_root: the probe element is the root element (`html { block }`: no parent style,
       parent_block is empty); otherwise `parent { parent_block } probe { block }` *)
| CResolve (e : list eentry) (t : tok) (status : N) (out : rv)
| CMeta (a b : N).   (* 60-bit digests of the two canonical observables of a metamorphic pair *)

Definition pc_of (o : list centry) : tok -> color :=
  fun t => match find (fun e => let 'CE t' _ := e in tok_eqb t' t) o with
           | Some (CE _ c) => c
           | None => CNone
           end.

Definition color_eqb (a b : color) : bool :=
  match a, b with
  | CNone, CNone | CCurrent, CCurrent => true
  | CRgba r g b' a', CRgba r2 g2 b2 a2 => Qeq_bool r r2 && Qeq_bool g g2 && Qeq_bool b' b2 && Qeq_bool a' a2
  | _, _ => false
  end.

Definition value_eqb (a b : value) : bool :=
  match a, b with
  | VInherit, VInherit | VInitial, VInitial => true
  | VRaw x, VRaw y => toks_eqb x y
  | VDim v u, VDim w u' => Qeq_bool v w && N.eqb u u'
  | VKw x, VKw y => str_eqb x y
  | VColor x, VColor y => color_eqb x y
  | VInt x, VInt y => Z.eqb x y
  | VOther x, VOther y => str_eqb x y
  | _, _ => false
  end.

Definition odecl_eqb (a b : odecl) : bool :=
  str_eqb (od_name a) (od_name b) && value_eqb (od_value a) (od_value b)
  && Bool.eqb (od_important a) (od_important b) && str_eqb (od_short a) (od_short b).

Fixpoint list_eqb {A} (f : A -> A -> bool) (l1 l2 : list A) : bool :=
  match l1, l2 with
  | [], [] => true
  | a :: r1, b :: r2 => f a b && list_eqb f r1 r2
  | _, _ => false
  end.

Definition fuel : nat := 400.

(* length_ of html/tree/computed_values.go:308-350 on the values the computed
   stream uses (px, %, 0, auto); None = outside that domain *)
Definition computed_len (v : value) : option value :=
  match v with
  | VKw _ => Some v
  | VDim q u => if Qeq_bool q 0 then Some (VDim 0 7)
                else if (N.eqb u 7 || N.eqb u 2)%bool then Some v else None
  | _ => None
  end.

Definition computed_of (name : str) (v : value) : option value :=
  if (in_table margin_names name || in_table padding_names name || str_eqb name n_column_width)%bool
  then computed_len v else Some v.   (* columnWidth, computed_values.go:499 = length *)

Definition tbl_find (tbl : list pentry) (n : str) : option pentry :=
  find (fun e => let 'PE n' _ _ _ := e in str_eqb n' n) tbl.

Definition model_computed (is_root : bool) (parent_block block : list raw) (oracle : list centry) (tbl : list pentry)
  : res (list (option oent)) :=
  let pc := pc_of oracle in
  let inh n := match tbl_find tbl n with Some (PE _ i _ _) => i | None => false end in
  let ini n := match tbl_find tbl n with Some (PE _ _ i _) => i | None => VInitial end in
  let par n := match tbl_find tbl n with Some (PE _ _ _ p) => p | None => VInitial end in
  let pds := preprocess_modelled pc parent_block in
  let ds := preprocess_modelled pc block in
  let e := block_env (block_env [] pds) ds in
  (fix go (l : list pentry) : res (list (option oent)) :=
     match l with
     | [] => Ok []
     | PE n _ _ _ :: r =>
         let* v := cascade_value_at (known_modelled pc) (validate_modelled pc) pc (fun _ => None)
                                    inh ini (if is_root then None else Some par) fuel e n (winner ds n) in
         let* rest := go r in
         Ok (option_map (OE n) (computed_of n v) :: rest)
     end) tbl.

Definition env_of (l : list eentry) : env := map (fun x => let 'EE n t := x in (n, t)) l.

Definition rv_eqb (a b : rv) : bool :=
  match a, b with
  | RNil, RNil | RCyclic, RCyclic => true
  | RToks x, RToks y => toks_eqb x y
  | _, _ => false
  end.

(* model observable, for replays *)
Inductive mout :=
| MDecls (l : list odecl) | MComputed (r : res (list (option oent))) | MResolve (r : res rv) | MMeta (a : N).

Definition model_out (c : case) : mout :=
  match c with
  | CDecls block oracle _ => MDecls (preprocess_modelled (pc_of oracle) block)
  | CComputed ir pb b o tbl _ _ => MComputed (model_computed ir pb b o tbl)
  | CResolve e t _ _ => MResolve (resolve_var fuel (env_of e) [] t)
  | CMeta a _ => MMeta a
  end.

Definition oent_opt_eqb (m : option oent) (i : oent) : bool :=
  match m, i with
  | Some (OE n v), OE n' v' => str_eqb n n' && value_eqb v v'
  | None, _ => true       (* outside the computed-value domain: not compared *)
  end.

Fixpoint olist_eqb (m : list (option oent)) (i : list oent) : bool :=
  match m, i with
  | [], [] => true
  | a :: r1, b :: r2 => oent_opt_eqb a b && olist_eqb r1 r2
  | _, _ => false
  end.

Definition check (c : case) : N :=
  match c with
  | CDecls block oracle out =>
      if list_eqb odecl_eqb (preprocess_modelled (pc_of oracle) block) out then 0 else 1
  | CComputed ir pb b o tbl status out =>
      if negb (N.eqb status 0) then 3
      else match model_computed ir pb b o tbl with
           | Ok m => if olist_eqb m out then 0 else 4
           | _ => 7
           end
  | CResolve e t status out =>
      if negb (N.eqb status 0) then 3
      else match resolve_var fuel (env_of e) [] t with
           | Ok m => if rv_eqb m out then 0 else 5
           | _ => 7
           end
  | CMeta a b => if N.eqb a b then 0 else 6
  end%N.

Fixpoint mismatches (i : N) (cs : list case) : list (N * N) :=
  match cs with
  | [] => []
  | c :: r => let k := check c in
              if N.eqb k 0 then mismatches (N.succ i) r else (i, k) :: mismatches (N.succ i) r
  end.
