(* Check/C05.v -- correspondence between /repo/css/selector and the model of
   Css/Sel.v (+ SelParse.v, SelPrint.v).  The Go harness (go/cmd/c05) writes one
   `case` per document: the tree html.Parse produced and, per selector text,
   what the implementation returned.  `check` recomputes every observable with
   the model.
   codes: 0 agree; 1 match bits differ; 3 specificity differs; 4 pseudo-element
   differs; 5 parser model disagrees with ParseGroup (error / structure);
   6 printer model disagrees with String(); 7 String() does not re-parse to an
   equivalent selector; 8 the implementation panicked; 11 Specificity.Less / Add on a pair of triples differs
   from spec_less / spec_add (the lexicographic order of C05_specificity_less_lex); 10 a parsed selector is outside the normal form
   SelRoundtrip.normal_group or the model's print/parse round trip changes it; 20 / 21 the implementation (and the model) still deviate from Selectors 4 on the
   witness of C05_has_relative_refuted / C05_blank_attr_refuted (known findings); 9 malformed case, or the dumped tree violates
   the invariants assumed of html.Parse (Sel.dom_wfb). *)
From Verif Require Export Css.Sel Css.SelParse Css.SelPrint Css.SelRoundtrip Css.SelWitness.
From Coq Require Import List NArith ZArith Bool.
Import ListNotations.

(* per selector of a group: Specificity(), PseudoElement(), bit mask of Match over all nodes *)
Inductive selobs := SO (sp : spec3) (pe : str) (bits : N).

Inductive selcase :=
| SC (src : str)                       (* text given to ParseGroup *)
     (ast : option (list sel))         (* hook dump of the result; None = error *)
     (gbits : N)                       (* SelectorGroup.Match over all nodes (bit i = node i in document order) *)
     (each : list selobs)
     (printed : str)                   (* SelectorGroup.String() *)
     (rt : option (list sel))          (* hook dump of ParseGroup(String()) *)
| SCsame (src : str) (g : list sel) (gbits : N) (each : list selobs) (printed : str)
                                       (* = SC src (Some g) gbits each printed (Some g): the re-parse has the same structure *)
| SCPanic (src : str).

(* Specificity.Less / Add called directly on a pair of triples *)
Inductive lesscase := LC (x y : spec3) (less : bool) (sum : spec3).

Inductive case :=
| CDoc (d : node) (sels : list selcase)
| CLess (l : list lesscase)
(* replay of the witnesses of the proved deviations (Properties/C05.v): the tree html.Parse built,
   the parsed selector, the index of the witness node in document order, Match's answer.
   k = 1: C05_has_relative_refuted (Selectors 4: no match); k = 2: C05_blank_attr_refuted (Selectors 4: match) *)
| CWitness (k : N) (d : node) (g : list sel) (i : N) (impl : bool).

Fixpoint mask_of (l : list bool) (i : N) : N :=
  match l with
  | [] => 0%N
  | b :: r => ((if b then N.shiftl 1 i else 0) + mask_of r (N.succ i))%N
  end.

Definition bits (d : node) (m : path -> bool) : N := mask_of (map m (all_paths d)) 0%N.

Definition spec_eqb (x y : spec3) : bool :=
  Z.eqb (sp_a x) (sp_a y) && Z.eqb (sp_b x) (sp_b y) && Z.eqb (sp_c x) (sp_c y).

(* model observables for one selector of a group *)
Definition model_obs (d : node) (s : sel) : selobs :=
  SO (specificity s) (pseudo_element s) (bits d (matches d s)).

Definition obs_code (m i : selobs) : N :=
  let 'SO sp pe b := m in
  let 'SO sp' pe' b' := i in
  if negb (N.eqb b b') then 1%N
  else if negb (spec_eqb sp sp') then 3%N
  else if negb (str_eqb pe pe') then 4%N
  else 0%N.

Fixpoint each_code (d : node) (g : list sel) (each : list selobs) : N :=
  match g, each with
  | [], [] => 0%N
  | s :: g', o :: each' =>
      let c := obs_code (model_obs d s) o in
      if N.eqb c 0 then each_code d g' each' else c
  | _, _ => 9%N
  end.

(* the re-parse of String() must be equivalent: same matches on this tree, same weights, same pseudo-elements *)
Definition equivalent_on (d : node) (g g' : list sel) : bool :=
  N.eqb (bits d (matches_group d g)) (bits d (matches_group d g')) &&
  (Nat.eqb (length g) (length g')) &&
  forallb (fun xy => let '(x, y) := xy in
                     spec_eqb (specificity x) (specificity y) &&
                     str_eqb (pseudo_element x) (pseudo_element y) &&
                     N.eqb (bits d (matches d x)) (bits d (matches d y))) (combine g g').

Definition parse_code (src : str) (ast : option (list sel)) : N :=
  match parse_group src, ast with
  | Ok (Some g), Some g' => if group_eqb g g' then 0%N else 5%N
  | Ok None, None => 0%N
  | _, _ => 5%N
  end.

Definition expand (c : selcase) : selcase :=
  match c with
  | SCsame src g gbits each printed => SC src (Some g) gbits each printed (Some g)
  | _ => c
  end.

Definition sel_check (d : node) (c : selcase) : N :=
  match expand c with
  | SCPanic _ => 8%N
  | SCsame _ _ _ _ _ => 9%N
  | SC src ast gbits each printed rt =>
      let pc := parse_code src ast in
      if negb (N.eqb pc 0) then pc else
      match ast with
      | None => 0%N
      | Some g =>
          if negb (N.eqb (bits d (matches_group d g)) gbits) then 1%N else
          let ec := each_code d g each in
          if negb (N.eqb ec 0) then ec else
          if negb (str_eqb (print_group g) printed) then 6%N else
          (* every parser result is in the normal form of SelRoundtrip, and the model's own
             print/parse round trip returns the same structure (C05_parse_print_roundtrip_statement) *)
          if negb (normal_group g && roundtrip_ok g) then 10%N else
          match rt with
          | None => 7%N
          | Some g' =>
              if negb (N.eqb (parse_code printed rt) 0) then 5%N
              else if equivalent_on d g g' then 0%N else 7%N
          end
      end
  end.

Fixpoint first_code (d : node) (l : list selcase) : N :=
  match l with
  | [] => 0%N
  | c :: r => let k := sel_check d c in if N.eqb k 0 then first_code d r else k
  end.

(* the dumped tree must satisfy the invariants the theorems assume (SelProofs.dom_wfb_sound) *)
Definition witness_check (k : N) (d : node) (g : list sel) (i : N) (impl : bool) : N :=
  let p := nth (N.to_nat i) (all_paths d) [] in
  if N.eqb k 1 then
    if node_eqb d w_doc1 && group_eqb g [w_sel1] && path_eqb p w_path1 then
      (if Bool.eqb impl (matches_group d g p) then (if impl then 20%N else 0%N) else 1%N)
    else 9%N
  else if N.eqb k 2 then
    if node_eqb d w_doc2 && group_eqb g [w_sel2] && path_eqb p w_path2 then
      (if Bool.eqb impl (matches_group d g p) then (if impl then 0%N else 21%N) else 1%N)
    else 9%N
  else 9%N.

Definition less_code (c : lesscase) : N :=
  let 'LC x y l s := c in
  if Bool.eqb (spec_less x y) l && spec_eqb (spec_add x y) s then 0%N else 11%N.

Fixpoint less_codes (l : list lesscase) : N :=
  match l with
  | [] => 0%N
  | c :: r => let k := less_code c in if N.eqb k 0 then less_codes r else k
  end.

Definition check (c : case) : N :=
  match c with
  | CDoc d sels => if dom_wfb d then first_code d sels else 9%N
  | CLess l => less_codes l
  | CWitness k d g i impl => witness_check k d g i impl
  end.

(* for replays: per selector text, the code, what the parser model returns, and the
   model's observables on the structure the implementation parsed *)
Inductive model_sel := MS (code : N) (parsed : res (option (list sel))) (gbits : N) (each : list selobs) (printed : str).
Definition model_out (c : case) : list model_sel :=
  match c with
  | CLess l =>   (* per pair: the code, and (x+y, "", x<y as 1/0) in the place of the observables *)
      map (fun lc => let 'LC x y _ _ := lc in
                     MS (less_code lc) (Ok None) 0%N [SO (spec_add x y) [] (if spec_less x y then 1%N else 0%N)] []) l
  | CWitness k d g i impl =>
      [MS (witness_check k d g i impl) (Ok (Some g)) (bits d (matches_group d g)) (map (model_obs d) g) (print_group g)]
  | CDoc d sels =>
  map (fun sc => match expand sc with
                 | SCPanic src => MS 8%N (parse_group src) 0%N [] []
                 | SCsame src _ _ _ _ => MS 9%N (parse_group src) 0%N [] []
                 | SC src ast _ _ _ _ =>
                     match ast with
                     | Some g => MS (sel_check d sc) (parse_group src) (bits d (matches_group d g)) (map (model_obs d) g) (print_group g)
                     | None => MS (sel_check d sc) (parse_group src) 0%N [] []
                     end
                 end) sels
  end.

Fixpoint mismatches (i : N) (cs : list case) : list (N * N) :=
  match cs with
  | [] => []
  | c :: r => let k := check c in
              if N.eqb k 0 then mismatches (N.succ i) r else (i, k) :: mismatches (N.succ i) r
  end.
