(* Check/C19.v -- correspondence between /repo's counter code and the models
   of Css/Counters.v (counters.go) and Css/CounterScopes.v (build.go).
   The Go harness (go/cmd/c19) writes one `case` per implementation run:

   CRender mode c sid vals : counter style table `c` (the descriptor records
       dumped from /repo's parsed @counter-style rules: every style reachable
       from `sid` through extends / fallback, plus decimal), a style, and for
       each value what RenderValue (mode 0), RenderValueStyle (1) or
       RenderMarker (2) returned (or that it panicked).
   CDoc c root panicked out : a document as the element tree with the
       computed counter-* properties, and the texts of the ::marker / ::before
       / ::after boxes of BuildFormattingStructure's box tree, in tree order.
   CParse intended parsed : an @counter-style rule written by the generator
       from `intended` and the record /repo parsed from it (None = the rule
       was rejected).

   codes: 0 agree, 1 texts differ, 3 implementation panicked where the model
   returns, 4 model panics / runs out of fuel where the implementation
   returned, 5 parsed descriptors differ from the intended ones,
   6 number of generated boxes differs. *)
From Verif Require Export Css.Counters Css.CounterScopes.
From Coq Require Import List ZArith NArith Bool.
Import ListNotations.

Inductive iout := IStr (s : str) | IPanic.
Inductive vo := VO (v : Z) (o : iout).

Inductive case :=
| CRender (mode : N) (c : table) (sid : style_id) (vals : list vo)
| CDoc (c : table) (root : elem) (panicked : bool) (out : list oitem)
| CParse (intended parsed : option descr).

Definition render_mode (mode : N) (c : table) (sid : style_id) (v : Z) : res str :=
  match mode with
  | 0%N => match sid with SidName n => RenderValue c v n | _ => RenderValueStyle c v sid end
  | 1%N => RenderValueStyle c v sid
  | _ => RenderMarker c sid v
  end.

Definition cmp_out (m : res str) (o : iout) : N :=
  match m, o with
  | Ok s, IStr s' => if str_eqb s s' then 0%N else 1%N
  | Ok _, IPanic => 3%N
  | _, IStr _ => 4%N
  | _, IPanic => 0%N        (* both fail: agree (a finding either way, see Properties/C19.v) *)
  end.

Fixpoint first_nonzero (l : list N) : N :=
  match l with [] => 0%N | x :: r => if N.eqb x 0 then first_nonzero r else x end.

Definition oitem_eqb (a b : oitem) : bool :=
  match a, b with
  | OMarker s, OMarker s' | OBefore s, OBefore s' | OAfter s, OAfter s' => str_eqb s s'
  | _, _ => false
  end.
Fixpoint olist_cmp (a b : list oitem) : N :=
  match a, b with
  | [], [] => 0%N
  | x :: a', y :: b' => if oitem_eqb x y then olist_cmp a' b' else 1%N
  | _, _ => 6%N
  end.

(* structural equality of descriptor records *)
Definition nstr_eqb (a b : nstr) : bool :=
  N.eqb (ns_kind a) (ns_kind b) && str_eqb (ns_str a) (ns_str b).
Fixpoint list_eqb {A} (f : A -> A -> bool) (a b : list A) : bool :=
  match a, b with
  | [], [] => true
  | x :: a', y :: b' => f x y && list_eqb f a' b'
  | _, _ => false
  end.
Definition descr_eqb (a b : descr) : bool :=
  nstr_eqb (d_neg0 a) (d_neg0 b) && nstr_eqb (d_neg1 a) (d_neg1 b) &&
  nstr_eqb (d_prefix a) (d_prefix b) && nstr_eqb (d_suffix a) (d_suffix b) &&
  str_eqb (d_fallback a) (d_fallback b) &&
  Bool.eqb (sy_extends (d_system a)) (sy_extends (d_system b)) &&
  str_eqb (sy_name (d_system a)) (sy_name (d_system b)) &&
  Z.eqb (sy_number (d_system a)) (sy_number (d_system b)) &&
  Z.eqb (d_pad_int a) (d_pad_int b) && nstr_eqb (d_pad_sym a) (d_pad_sym b) &&
  list_eqb nstr_eqb (d_symbols a) (d_symbols b) &&
  list_eqb (fun x y => Z.eqb (ad_w x) (ad_w y) && nstr_eqb (ad_s x) (ad_s y)) (d_additive a) (d_additive b) &&
  list_eqb (fun x y => let 'Rg l h := x in let 'Rg l' h' := y in Z.eqb l l' && Z.eqb h h')
           (d_ranges a) (d_ranges b) &&
  Bool.eqb (d_range_auto a) (d_range_auto b).

(* model observable (for replays) *)
Inductive mout := MRender (l : list (res str)) | MDoc (r : res (list oitem)) | MParse (ok : bool).

Definition model_out (c : case) : mout :=
  match c with
  | CRender mode t sid vals => MRender (map (fun x => let 'VO v _ := x in render_mode mode t sid v) vals)
  | CDoc t root _ _ => MDoc (build t root)
  | CParse i p => MParse (match i, p with
                          | Some a, Some b => descr_eqb a b
                          | None, None => true
                          | _, _ => false end)
  end.

Definition check (c : case) : N :=
  match c with
  | CRender mode t sid vals =>
      first_nonzero (map (fun x => let 'VO v o := x in cmp_out (render_mode mode t sid v) o) vals)
  | CDoc t root panicked out =>
      match build t root, panicked with
      | Ok m, false => olist_cmp m out
      | Ok _, true => 3%N
      | _, false => 4%N
      | _, true => 0%N
      end
  | CParse i p =>
      match i, p with
      | Some a, Some b => if descr_eqb a b then 0%N else 5%N
      | None, None => 0%N
      | _, _ => 5%N
      end
  end.

Fixpoint mismatches (i : N) (cs : list case) : list (N * N) :=
  match cs with
  | [] => []
  | c :: r => let k := check c in
              if N.eqb k 0 then mismatches (N.succ i) r else (i, k) :: mismatches (N.succ i) r
  end.
