(* Check/C10.v -- correspondence between /repo's normal-flow block layout and
   the model of Layout/BlockFlow.v, evaluated with the float32 instance.  The
   Go harness (go/cmd/c10) writes one `case` per implementation run: the input
   (computed styles read back from the boxes, containing block) and what the
   implementation returned (float32 values as exact rationals).  `check`
   recomputes the output with the model and compares bit for bit.

   codes: 0 agree; 1 position / size of a box differs; 3 margin / padding /
   border of a box differs; 4 number of boxes differs; 5 blockLevelWidth leaf
   differs; 6 resolvePercentages leaf differs; 7 the implementation produced a
   NaN / infinity where the model value is finite; 8 collapseMargin differs;
   9 the implementation panicked (the model is total); 10 the document was
   paginated; 2 skipped (outside the modelled domain or binary32 range).

   Documents on which implementation and float32 model agree are then checked
   against the SPECIFICATION (Layout/Css21BlockSpec.v): when the float32
   computation was exact (float32 model = exact-rational model on every
   field), the CSS 2.1 equations (vertical_eqs: positions, heights; width
   equation) are evaluated with exact arithmetic on the implementation's
   output:
   100 all hold, tree inside the domain of the theorem C10_margin_collapsing_partial;
   101 all hold, tree outside it; 102 not evaluated (inexact arithmetic);
   20 an equation fails inside the domain (contradicts the theorem);
   21 an equation fails outside the domain (known finding C10/through-first-child);
   23 the width equation fails.

   The right margin is compared only when the width equation is not
   over-constrained (DESIGN.md C10, note on observables). *)
From Verif Require Export Base.F32 Layout.BlockFlow Layout.Css21BlockSpec.
From Coq Require Import QArith List NArith ZArith Bool.
Import ListNotations.
Open Scope Q_scope.

(* values with concrete constructor argument types (numeral scopes) *)
Inductive omf := OAuto | OVal (q : Q).
Inductive qv := QV (q : Q).
Definition to_mf (o : omf) : mf := match o with OAuto => None | OVal q => Some q end.
Definition unqv (v : qv) : Q := match v with QV q => q end.

Inductive obox := OB (x y w h mt mr mb ml pt pr pb pl bt br bb bl : Q).
Inductive win := WIn (x : Q) (ml mr w : omf) (pl pr bl br minw : Q) (maxw : ext).
Inductive wout := WOut (x : Q) (ml mr w : omf).
Inductive pout := POut (mt mr mb ml : omf) (pt pr pb pl bt br bb bl : Q) (w h : omf)
                       (minw minh : Q) (maxw maxh : ext).

Inductive case :=
| CDoc (cbx cby cbw cbh : Q) (root : node) (obs : list obox)
| CWidth (i : win) (cbw : Q) (o : wout)
| CPct (s : style) (cbw : Q) (cbh : omf) (o : pout)
| CPctNonFinite (s : style) (cbw : Q) (cbh : omf)
| CCollapse (l : list qv) (r : Q)
| CNonFinite (i : win) (cbw : Q)
| CCrash | CSkip
| CPages (n : Z).

Definition mf_eqb (a b : mf) : bool :=
  match a, b with
  | None, None => true
  | Some x, Some y => Qeq_bool x y
  | _, _ => false
  end.
Definition ext_eqb (a b : ext) : bool :=
  match a, b with
  | PInf, PInf => true
  | Fin x, Fin y => Qeq_bool x y
  | _, _ => false
  end.
Definition mf_in_range (a : mf) : bool := match a with Some x => in_range32 x | None => true end.
Definition ext_in_range (a : ext) : bool := match a with Fin x => in_range32 x | PInf => true end.

Definition ubox_in_range (u : ubox) : bool :=
  in_range32 (ux u) && in_range32 (uy u) && mf_in_range (umt u) && mf_in_range (umr u)
  && mf_in_range (umb u) && mf_in_range (uml u) && in_range32 (upt u) && in_range32 (upr u)
  && in_range32 (upb u) && in_range32 (upl u) && mf_in_range (uw u) && mf_in_range (uh u)
  && in_range32 (uminw u) && in_range32 (uminh u) && ext_in_range (umaxw u) && ext_in_range (umaxh u).

(* ---------------------------------------------------------------- documents *)

Definition model_doc (cbx cby cbw cbh : Q) (root : node) : list (ubox * bool) :=
  flatten (layout_doc f32 cbx cby cbw cbh root).

(* 0 agree, 1 geometry, 3 margins / paddings / borders *)
Definition cmp_box (m : ubox * bool) (o : obox) : N :=
  let '(u, over) := m in
  let 'OB x y w h mt mr mb ml pt pr pb pl bt br bb bl := o in
  if negb (Qeq_bool (ux u) x && Qeq_bool (uy u) y && mf_eqb (uw u) (Some w) && mf_eqb (uh u) (Some h))
  then 1%N
  else if negb (mf_eqb (umt u) (Some mt) && mf_eqb (umb u) (Some mb) && mf_eqb (uml u) (Some ml)
                && (over || mf_eqb (umr u) (Some mr))
                && Qeq_bool (upt u) pt && Qeq_bool (upr u) pr && Qeq_bool (upb u) pb && Qeq_bool (upl u) pl
                && Qeq_bool (ubt u) bt && Qeq_bool (ubr u) br && Qeq_bool (ubb u) bb && Qeq_bool (ubl u) bl)
  then 3%N else 0%N.

Fixpoint cmp_boxes (ms : list (ubox * bool)) (os : list obox) : N :=
  match ms, os with
  | [], [] => 0%N
  | m :: mr, o :: or => let k := cmp_box m o in if N.eqb k 0 then cmp_boxes mr or else k
  | _, _ => 4%N
  end.

(* ---------------------------------------------------------------- specification on the implementation's output *)

(* exact arithmetic with reduced fractions (== exactQ, keeps the numbers small) *)
Definition redQ : arith :=
  {| add := fun a b => Qred (a + b); sub := fun a b => Qred (a - b);
     mul := fun a b => Qred (a * b); div := fun a b => Qred (a / b) |}.

Definition ubox_eqb (a b : ubox) : bool :=
  Qeq_bool (ux a) (ux b) && Qeq_bool (uy a) (uy b)
  && mf_eqb (umt a) (umt b) && mf_eqb (umr a) (umr b) && mf_eqb (umb a) (umb b) && mf_eqb (uml a) (uml b)
  && Qeq_bool (upt a) (upt b) && Qeq_bool (upr a) (upr b) && Qeq_bool (upb a) (upb b) && Qeq_bool (upl a) (upl b)
  && Qeq_bool (ubt a) (ubt b) && Qeq_bool (ubr a) (ubr b) && Qeq_bool (ubb a) (ubb b) && Qeq_bool (ubl a) (ubl b)
  && mf_eqb (uw a) (uw b) && mf_eqb (uh a) (uh b)
  && Qeq_bool (uminw a) (uminw b) && Qeq_bool (uminh a) (uminh b)
  && ext_eqb (umaxw a) (umaxw b) && ext_eqb (umaxh a) (umaxh b).

Fixpoint lbox_eqb (a b : lbox) : bool :=
  match a, b with
  | LBox ua oa ha ca, LBox ub ob hb cb =>
      ubox_eqb ua ub && Bool.eqb oa ob && mf_eqb ha hb &&
      (fix all2 (l1 l2 : list lbox) : bool :=
         match l1, l2 with
         | [], [] => true
         | x :: r1, y :: r2 => lbox_eqb x y && all2 r1 r2
         | _, _ => false
         end) ca cb
  end.

(* the width equation on a laid out tree: for every box that is not over-constrained,
   ml + bl + pl + w + pr + br + mr = width of the containing block *)
Fixpoint width_eq_ok (cbw : Q) (b : lbox) : bool :=
  match b with
  | LBox u over _ cs =>
      (over || Qeq_bool (V (uml u) + ubl u + upl u + V (uw u) + upr u + ubr u + V (umr u)) cbw)
      && forallb (width_eq_ok (V (uw u))) cs
  end.

Definition spec_code (cby cbw : Q) (t32 tq : lbox) : N :=
  if negb (lbox_eqb t32 tq) then 102%N
  else if negb (width_eq_ok cbw t32) then 23%N
  else
    let dom := no_through_first true t32 in
    if forallb veq_holdsb (vertical_eqs t32 true cby [] None)
    then (if dom then 100%N else 101%N)
    else (if dom then 20%N else 21%N).

(* ---------------------------------------------------------------- leaves *)

Definition win_box (i : win) : ubox :=
  let 'WIn x ml mr w pl pr bl br minw maxw := i in
  mkU x 0 None (to_mf mr) None (to_mf ml) 0 pr 0 pl 0 br 0 bl (to_mf w) None minw 0 maxw PInf.

Definition model_width (i : win) (cbw : Q) : ubox * bool := handle_min_max_width f32 (win_box i) cbw.

Definition model_pct (s : style) (cbw : Q) (cbh : omf) : ubox :=
  resolve_percentages f32 s cbw (to_mf cbh) 0 0.

Definition cmp_pct (u : ubox) (o : pout) : bool :=
  let 'POut mt mr mb ml pt pr pb pl bt br bb bl w h minw minh maxw maxh := o in
  mf_eqb (umt u) (to_mf mt) && mf_eqb (umr u) (to_mf mr) && mf_eqb (umb u) (to_mf mb) && mf_eqb (uml u) (to_mf ml)
  && Qeq_bool (upt u) pt && Qeq_bool (upr u) pr && Qeq_bool (upb u) pb && Qeq_bool (upl u) pl
  && Qeq_bool (ubt u) bt && Qeq_bool (ubr u) br && Qeq_bool (ubb u) bb && Qeq_bool (ubl u) bl
  && mf_eqb (uw u) (to_mf w) && mf_eqb (uh u) (to_mf h)
  && Qeq_bool (uminw u) minw && Qeq_bool (uminh u) minh
  && ext_eqb (umaxw u) maxw && ext_eqb (umaxh u) maxh.

(* ---------------------------------------------------------------- check *)

(* model observable (for replays): per box x y w h mt mr mb ml pt pr pb pl bt br bb bl, over *)
Inductive mbox := MB (x y : Q) (w h mt mr mb ml : mf) (pt pr pb pl bt br bb bl : Q) (over : bool).
Definition mbox_of (m : ubox * bool) : mbox :=
  let '(u, over) := m in
  MB (ux u) (uy u) (uw u) (uh u) (umt u) (umr u) (umb u) (uml u)
     (upt u) (upr u) (upb u) (upl u) (ubt u) (ubr u) (ubb u) (ubl u) over.

Inductive mout :=
| MDoc (l : list mbox) | MUBox (u : ubox) (over : bool) | MQ (q : Q) | MNothing.

Definition model_out (c : case) : mout :=
  match c with
  | CDoc cbx cby cbw cbh root _ => MDoc (map mbox_of (model_doc cbx cby cbw cbh root))
  | CWidth i cbw _ | CNonFinite i cbw => let '(u, o) := model_width i cbw in MUBox u o
  | CPct s cbw cbh _ | CPctNonFinite s cbw cbh => MUBox (model_pct s cbw cbh) false
  | CCollapse l _ => MQ (collapse_margin f32 (map unqv l))
  | _ => MNothing
  end.

Definition check (c : case) : N :=
  match c with
  | CDoc cbx cby cbw cbh root obs =>
      let t32 := layout_doc f32 cbx cby cbw cbh root in
      let m := flatten t32 in
      if negb (forallb (fun p => ubox_in_range (fst p)) m) then 2%N
      else let k := cmp_boxes m obs in
           if negb (N.eqb k 0) then k
           else spec_code cby cbw t32 (layout_doc redQ cbx cby cbw cbh root)
  | CWidth i cbw (WOut x ml mr w) =>
      let '(u, over) := model_width i cbw in
      if negb (ubox_in_range u) then 2%N
      else if Qeq_bool (ux u) x && mf_eqb (uml u) (to_mf ml) && mf_eqb (uw u) (to_mf w)
              && (over || mf_eqb (umr u) (to_mf mr))
      then 0%N else 5%N
  | CPct s cbw cbh o =>
      let u := model_pct s cbw cbh in
      if negb (ubox_in_range u) then 2%N
      else if cmp_pct u o then 0%N else 6%N
  | CPctNonFinite s cbw cbh =>
      if negb (ubox_in_range (model_pct s cbw cbh)) then 2%N else 7%N
  | CCollapse l r =>
      let m := collapse_margin f32 (map unqv l) in
      if negb (in_range32 m) then 2%N else if Qeq_bool m r then 0%N else 8%N
  | CCrash => 9%N
  | CNonFinite i cbw => if negb (ubox_in_range (fst (model_width i cbw))) then 2%N else 7%N
  | CSkip => 2%N
  | CPages n => if Z.eqb n 1 then 2%N else 10%N
  end.

Fixpoint mismatches (i : N) (cs : list case) : list (N * N) :=
  match cs with
  | [] => []
  | c :: r => let k := check c in
              if N.eqb k 0 then mismatches (N.succ i) r else (i, k) :: mismatches (N.succ i) r
  end.
