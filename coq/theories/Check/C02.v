(* Check/C02.v -- content conservation: /repo's layout and drawing against
   Css/Whitespace.v and the conservation statements of Properties/C02.v.

   cases (go/cmd/c02):
     CWs     bo.ProcessWhitespace run on a tree of inline boxes built from the
             implementation's own styles: the resulting texts and the returned flag
             must equal the model's (`pw`) -- equality, the model is a port
     CPara   one inline formatting context of a laid-out document: the source text
             items of the element (as the generator wrote them) and the text of the
             line boxes it produced over all pages, in order.  Expected = the
             whitespace model applied to the source (`build`); the lines must carry
             every non-space character exactly once and in order, each collapsible
             space once or -- only at a line edge -- not at all, every preserved line
             feed as a line break, preserved white space exactly
     COrder  the in-flow paragraphs of a document in the order their lines appear
             over the pages: must be the document order, each paragraph in one piece
     CUnits  C12 stream: the content-unit ids over the pages = 0 .. n-1
             Also evaluated on every CWs case (code 7): idempotence and the pre-line
             specification -- both are theorems of Properties/C02.v, so this can only fail
             if the check and the theorems drifted apart
     CDraw   one page: its box tree (every box with the visibility the SOURCE gives it: the
             value set by the nearest element that sets `visibility`; text boxes with their
             text) and the DrawText calls the recording backend received for it: one call
             per non-blank text box whose computed visibility is visible -- whatever the
             visibility of the boxes around it -- same text (up to trailing spaces)
     CEq     tree.ResumeStack.Equals on two resume stacks (entries by increasing key): the
             result must be structural equality (the guard of the page cache in remakePage)

   codes: 0 agree; 1 CWs differs from the model; 3 a character lost / duplicated /
   reordered / invented in a paragraph; 4 paragraphs out of order or split;
   5 units not conserved; 8 a collapsible space vanished inside a line (everything else
   matches); 9 a preserved line feed / <br> did not break the line (everything else matches); 6 text boxes and DrawText calls do not match;
   7 idempotence / the pre-line specification fail on a generated text (they are theorems);
   10 ResumeStack.Equals is not equality of the two stacks. *)
From Verif Require Export Css.Whitespace Css.WhitespaceSpec Layout.TextDraw Layout.Fragment.
From Coq Require Import List NArith Bool Arith.
Import ListNotations.
Local Open Scope nat_scope.

Inductive case :=
| CWs (following : bool) (src : inl) (out : list (list N)) (following' : bool)
| CPara (src : inl) (lines : list (list N))
| COrder (n : N) (ids : list N)
| CUnits (n : N) (ids : list N)
| CDraw (page : vbox) (draws : list (list N))
| CEq (r o : mstack) (res : bool).

Fixpoint runes_eqb (a b : list N) : bool :=
  match a, b with
  | [], [] => true
  | x :: r, y :: s => N.eqb x y && runes_eqb r s
  | _, _ => false
  end.

Fixpoint lists_eqb (a b : list (list N)) : bool :=
  match a, b with
  | [], [] => true
  | x :: r, y :: s => runes_eqb x y && lists_eqb r s
  | _, _ => false
  end.

(* ---------------------------------------------------------------- paragraphs *)

(* expected characters after phase I: a collapsible space, a preserved line feed
   (forced break), or a character that must appear as it is *)
Inductive ekind := ESpace | EBreak | EChar | EAtom.

Definition classify (m : wsmode) (c : N) : ekind :=
  if N.eqb c LF then (if new_line_collapse m then EChar else EBreak)
  else if N.eqb c SP && space_collapse m then ESpace
  else EChar.

(* EAtom: an atomic inline (inline-block) or a block inside the inline box.  It carries no text of
   the paragraph and is not visible in the observed lines, but it occupies a place on a line: a
   collapsible space that follows it is not at the start of a line. *)
Fixpoint stream (b : inl) : list (N * ekind) :=
  match b with
  | IText m t => map (fun c => (c, classify m c)) t
  | IBox ks => flat_map stream ks
  | IAtom => [(65532%N, EAtom)]
  end.

(* the expected characters: without the atoms (every verdict but the second chance below is
   computed on this stream, as before atoms were introduced) / with them *)
Definition expected (src : inl) : list (N * ekind) :=
  flat_map (fun mt => map (fun c => (c, classify (fst mt) c)) (snd mt)) (texts (build src)).
Definition expected_atoms (src : inl) : list (N * ekind) := stream (build src).

Definition expected_text (src : inl) : list N := map fst (expected src).

(* observed stream: characters and line boundaries *)
Inductive otok := OC (c : N) | ONL.

Definition observed (lines : list (list N)) : list otok :=
  flat_map (fun l => map OC l ++ [ONL]) lines.

Definition next_is_boundary (o : list otok) : bool :=
  match o with [] => true | ONL :: _ => true | OC _ :: _ => false end.

(* at_edge: the previous observed token was a line boundary (or the start) *)
(* number of spaces at the head of the observed stream when they run up to a line
   boundary (or the end); None when a character follows them on the line *)
Fixpoint obs_spaces_then_edge (o : list otok) : option nat :=
  match o with
  | [] => Some 0
  | ONL :: _ => Some 0
  | OC c :: r => if N.eqb c SP then option_map S (obs_spaces_then_edge r) else None
  end.

(* number of preserved spaces at the head of the expected stream *)
Fixpoint exp_pspaces (e : list (N * ekind)) : nat :=
  match e with
  | (c, EChar) :: r => if N.eqb c SP then S (exp_pspaces r) else 0
  | _ => 0
  end.

Section Match.
(* relaxations used only to name a deviation precisely (codes 8 / 9):
   rs: a collapsible space may be dropped inside a line; rb: a preserved line feed may fail to break the line *)
Variables rs rb : bool.
(* ra: an atom may be read as starting the next line when a collapsible space that ends the
   paragraph (or precedes a forced break) follows it -- used by check_para for the verdict 0 only *)
Variable ra : bool.
Fixpoint match_para (fuel : nat) (at_edge : bool) (e : list (N * ekind)) (o : list otok) : bool :=
  match fuel with
  | 0 => false
  | S f =>
      match e, o with
      | [], [] => true
      | [], ONL :: o' => match_para f true [] o'
      | [], OC _ :: _ => false
      | (_, EAtom) :: e', _ =>
          (* the atom is on the current line (nothing to observe); or, when all that follows it
             up to the end / a forced break is one collapsible space, it starts the next line
             and the space is observed after it, alone on that line: the space is there once,
             at the end of a line, but not at its start (the atom is) *)
          match_para f at_edge e' o ||
          (ra &&
           match e', o with
           | (_, ESpace) :: ([] | (_, EBreak) :: _), ONL :: o' => match_para f false e' o'
           | _, _ => false
           end)
      | (c, EChar) :: e', OC c' :: o' => N.eqb c c' && match_para f false e' o'
      | (c, EChar) :: _, ONL :: o' => match_para f true e o'
      | (c, EChar) :: _, [] => false
      | (_, ESpace) :: e', OC c' :: o' =>
          if N.eqb c' SP then
            (* at a line start a collapsible space followed by a preserved one: the
               collapsible one was dropped (deterministic: no backtracking) *)
            match at_edge, e' with
            | true, (c2, EChar) :: _ => if N.eqb c2 SP then match_para f at_edge e' o
                                        else match_para f false e' o'
            | _, _ =>
                (* at a line end, before hanging preserved spaces: if the spaces left on the
                   line are no more than the preserved ones, the collapsible one may have been dropped
                   (the only backtracking point: needs a normal -> pre-wrap transition at a line end) *)
                match obs_spaces_then_edge o with
                | Some k => if (k <=? exp_pspaces e') && (0 <? exp_pspaces e')
                            then match_para f false e' o' || match_para f at_edge e' o
                            else match_para f false e' o' || (rs && match_para f at_edge e' o)
                | None => match_para f false e' o' || (rs && match_para f at_edge e' o)
                end
            end
          else (at_edge || rs) && match_para f at_edge e' o
      | (_, ESpace) :: e', ONL :: o' =>
          (* before a forced break / the end the space sits at this line's end: dropped
             here; otherwise decide after the boundary *)
          match e' with
          | [] | (_, EBreak) :: _ => match_para f true e' o
          | _ => match_para f true e o'
          end
      | (_, ESpace) :: e', [] => match_para f true e' []
      | (_, EBreak) :: e', ONL :: o' => match_para f true e' o'
      | (_, EBreak) :: e', [] => match_para f true e' []
      | (_, EBreak) :: e', OC _ :: _ => rb && match_para f at_edge e' o
      end
  end.

End Match.

(* soft hyphens (U+00AD; `hyphens: manual`, the initial value): a conditional hyphen is not a
   character of the text: it shows nothing unless the line is broken there, and then the
   hyphenate-character (initial value "-") is shown at the end of that line.  So the soft
   hyphens are removed on both sides, together with a "-" that directly follows a soft hyphen
   and ends its line (the generator never writes "-" after a soft hyphen); every other
   character of a hyphenated word must still be there exactly once, in order. *)
Definition SHY : N := 173.
Definition HYPHEN : N := 45.

Fixpoint strip_shy (l : list N) : list N :=
  match l with
  | [] => []
  | c :: r =>
      if N.eqb c SHY then
        match r with
        | [h] => if N.eqb h HYPHEN then [] else strip_shy r
        | _ => strip_shy r
        end
      else c :: strip_shy r
  end.

Definition drop_shy (e : list (N * ekind)) : list (N * ekind) :=
  filter (fun p => negb (N.eqb (fst p) SHY)) e.

(* 0 = the lines carry the text; 8 = only if a collapsible space may vanish inside a line;
   9 = only if a preserved line feed / <br> may fail to break the line; 3 = otherwise *)
Definition check_para (src : inl) (lines : list (list N)) : N :=
  let e := drop_shy (expected src) in
  let ea := drop_shy (expected_atoms src) in
  let o := observed (map strip_shy lines) in
  let fuel := S (length e + length o) in
  if match_para false false false fuel true e o then 0%N
  else if match_para false false true (fuel + length ea) true ea o then 0%N
  else if match_para true false false fuel true e o then 8%N
  else if match_para false true false fuel true e o then 9%N
  else 3%N.

(* ---------------------------------------------------------------- order *)

(* the in-flow paragraph of each line, over the pages: never goes back to an
   earlier paragraph (so each paragraph is in one piece and in document order);
   a paragraph without lines is the business of its CPara case *)
Fixpoint order_ok (n : nat) (prev : nat) (ids : list nat) : bool :=
  match ids with
  | [] => true
  | i :: r => (prev <=? i) && (i <? n) && order_ok n i r
  end.

(* ---------------------------------------------------------------- drawing *)

Fixpoint rstrip_rev (r : list N) : list N :=
  match r with
  | c :: r' => if N.eqb c SP then rstrip_rev r' else r
  | [] => []
  end.
Definition rstrip (l : list N) : list N := rev (rstrip_rev (rev l)).

Fixpoint remove_first (x : list N) (l : list (list N)) : option (list (list N)) :=
  match l with
  | [] => None
  | y :: r => if runes_eqb x y then Some r
              else match remove_first x r with Some r' => Some (y :: r') | None => None end
  end.

Fixpoint is_perm (a b : list (list N)) : bool :=
  match a with
  | [] => match b with [] => true | _ => false end
  | x :: r => match remove_first x b with Some b' => is_perm r b' | None => false end
  end.

(* the model of drawText / drawFirstLine (Layout/TextDraw.v): one DrawText per
   visible text box whose text is not only white space; compared up to trailing
   spaces (the text layout keeps a trailing collapsible space the box text lost) *)
Definition expected_draws (page : vbox) : list (list N) :=
  map rstrip (draw_events (resolve_visibility true page)).

Definition check (c : case) : N :=
  match c with
  | CWs f src out f' =>
      let '(b, g) := pw f src in
      if negb (lists_eqb (map snd (texts b)) out && Bool.eqb g f') then 1%N
      else
        let '(b2, g2) := pw f b in
        if lists_eqb (map snd (texts b2)) (map snd (texts b)) && Bool.eqb g2 g &&
           forallb (fun mt => match fst mt with
                              | WPreLine => runes_eqb (core WPreLine (snd mt)) (preline_spec (snd mt))
                              | _ => true
                              end) (texts src)
        then 0%N else 7%N
  | CPara src lines => check_para src lines
  | COrder n ids => if order_ok (N.to_nat n) 0 (map N.to_nat ids) then 0%N else 4%N
  | CUnits n ids =>
      if (fix eq (a b : list nat) := match a, b with
                                     | [], [] => true
                                     | x :: r, y :: s => (x =? y) && eq r s
                                     | _, _ => false end) (map N.to_nat ids) (seq 0 (N.to_nat n)) then 0%N else 5%N
  | CDraw page draws => if is_perm (expected_draws page) (map rstrip draws) then 0%N else 6%N
  | CEq r o res =>
      (* both arguments arrive in canonical form (entries by increasing key): there Equals is
         structural equality (C02_resume_stack_equals_iff_eq); the port and the decision of
         equality are both evaluated *)
      if negb (ms_canonical r && ms_canonical o) then 2%N
      else if Bool.eqb (ms_equals r o) res && Bool.eqb (ms_eqb r o) res then 0%N else 10%N
  end.

Definition model_out (c : case) : list (list N) :=
  match c with
  | CWs f src _ _ => let '(b, g) := pw f src in map snd (texts b) ++ [[if g then 1 else 0]]%N
  | CPara src _ => [expected_text src]
  | COrder n _ | CUnits n _ => [[n]]
  | CDraw page _ => expected_draws page
  | CEq r o _ => [[if ms_equals r o then 1 else 0; if ms_eqb r o then 1 else 0]]%N
  end.

Fixpoint mismatches (i : N) (cs : list case) : list (N * N) :=
  match cs with
  | [] => []
  | c :: r => let k := check c in
              if N.eqb k 0 then mismatches (N.succ i) r else (i, k) :: mismatches (N.succ i) r
  end.
