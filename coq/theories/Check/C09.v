(* Check/C09.v -- correspondence between /repo's html/boxes/build.go and the
   model of Box/BoxGen.v.  The Go harness (go/cmd/c09) writes, per generated
   document, the box tree before the anonymous-box fix-up (model input) and
   the tree returned by boxes.BuildFormattingStructure (observable).
   `check` runs the model on the input, compares the two trees node by node
   (type, element identity, pseudo type, anonymity, wrapper / header / footer /
   flex item / grid item flags, in-flow and running flags, GridX / Colspan /
   Rowspan, text, child order) and evaluates the specification predicate
   Box/BoxWf.wf on the implementation's tree.
   `fnotes` = the boxes elementToBox moved out of the tree into the footnote
   list (float: footnote), before any fix-up: they are generated boxes too, so
   "display:none subtrees generate no box" (code 4) is evaluated on them as
   well.  `hidden` comes from the document (style attributes) and from computed
   styles of a parse on which no box was generated yet (elementToBox overwrites
   the display of the style objects it visits).
   codes: 0 agree; 1 trees differ; 3 implementation tree not well formed;
   4 a box was generated for a display:none element; 5 implementation
   panicked where the model returns a tree; 6 model panics / runs out of fuel
   where the implementation returned a tree; 7 malformed case; 8 makeBox table;
   9 class table; 10 proper-parents table; 11 two cells of the
   implementation's tree share a grid slot (tree otherwise as the model says)
   and every such pair is a column-spanning cell running into a cell spanning
   down from a row above (the refuted part of the property, theorem
   C09_slots_overlap_only_colspan_over_rowspan); 12 two cells share a grid slot
   in any other way. *)
From Verif Require Export Base.GoSem Box.BoxGen Box.BoxWf Box.TableGridOverlap Box.ElementGen.
From Coq Require Import List ZArith NArith Bool.
Import ListNotations.
Open Scope Z_scope.

(* a dumped box; the meaning of bits / nums depends on the side:
   input : bits 1 anon, 2 floated, 4 abs. positioned, 8 running, 16 collapsible white-space;
           nums [] or [Colspan; Rowspan; attr colspan; attr rowspan; attr span; display; caption-side]
   output: bits 1 anon, 2 table wrapper, 4 header, 8 footer, 16 flex item, 32 grid item,
           64 out of flow, 128 running;   nums [] or [GridX; Colspan; Rowspan] *)
Inductive node := Nd (t : N) (el : Z) (ps : N) (bits : N) (nums : list Z) (text : list N) (ch : list node).

(* a ::before (1) / ::after (2) pseudo-element whose display is none *)
Inductive hps := HP (el : Z) (ps : N).

Inductive case :=
| CTree (input : node) (doc : elem) (status : N) (output : node) (fnotes : list node) (hidden_pseudo : list hps)
| CMakeBox (d0 d1 d2 : N) (res : N)
| CClasses (t : N) (bits : N)
| CProperParents (p c : N) (r : bool).

Definition bty_of (n : N) : option bty :=
  match n with
  | 0 => Some BlockT | 1 => Some LineT | 2 => Some InlineT | 3 => Some TextT | 4 => Some InlineBlockT
  | 5 => Some BlockReplacedT | 6 => Some InlineReplacedT | 7 => Some TableT | 8 => Some InlineTableT
  | 9 => Some RowGroupT | 10 => Some RowT | 11 => Some ColGroupT | 12 => Some ColT | 13 => Some CellT
  | 14 => Some CaptionT | 15 => Some FlexT | 16 => Some InlineFlexT | 17 => Some GridT | 18 => Some InlineGridT
  | _ => None
  end%N.

Definition bit (bits : N) (k : N) : bool := N.testbit bits k.

Fixpoint all_some {A} (l : list (option A)) : option (list A) :=
  match l with
  | [] => Some []
  | Some a :: r => match all_some r with Some r' => Some (a :: r') | None => None end
  | None :: _ => None
  end.

(* input node -> model box *)
Fixpoint box_of_input (n : node) : option box :=
  let 'Nd t el ps bits nums text ch := n in
  match bty_of t, all_some (map box_of_input ch) with
  | Some t, Some ch =>
      let '(cs, rs, ecs, ers, esp, disp, cap) :=
        match nums with
        | [cs; rs; ecs; ers; esp; disp; cap] => (cs, rs, ecs, ers, esp, disp, cap)
        | _ => (0, 0, 1, 1, 1, 0, 0)
        end in
      Some (Box t (mkA el ps (bit bits 0) (bit bits 1) (bit bits 2) (bit bits 3) (bit bits 4)
                       disp cap ecs ers esp text)
                  (mkM 0 cs rs false false false false false) ch)
  | _, _ => None
  end.

(* output node -> box (for the wf predicate; only what wf reads is meaningful) *)
Fixpoint box_of_output (n : node) : option box :=
  let 'Nd t el ps bits nums text ch := n in
  match bty_of t, all_some (map box_of_output ch) with
  | Some t, Some ch =>
      let '(gx, cs, rs) := match nums with [gx; cs; rs] => (gx, cs, rs) | _ => (0, 0, 0) end in
      (* out of flow without being running: recorded as "floated" *)
      Some (Box t (mkA el ps (bit bits 0) (bit bits 6 && negb (bit bits 7)) false (bit bits 7) false
                       0 0 1 1 1 text)
                  (mkM gx cs rs (bit bits 2) (bit bits 3) (bit bits 1) (bit bits 4) (bit bits 5)) ch)
  | _, _ => None
  end.

Definition b2n (b : bool) (k : N) : N := if b then N.shiftl 1 k else 0%N.

(* model box -> output node *)
Fixpoint node_of_box (b : box) : node :=
  let 'Box t a m ch := b in
  let bits := (b2n (a_anon a) 0 + b2n (is_wrap m) 1 + b2n (is_hdr m) 2 + b2n (is_ftr m) 3 +
               b2n (is_flexitem m) 4 + b2n (is_griditem m) 5 + b2n (negb (in_flow b)) 6 + b2n (a_run a) 7)%N in
  let nums := if (gridx m =? 0) && (colspan m =? 0) && (rowspan m =? 0) then []
              else [gridx m; colspan m; rowspan m] in
  Nd (bty_code t) (a_el a) (a_pseudo a) bits nums
     (match t with TextT => a_text a | _ => [] end) (map node_of_box ch).

Fixpoint list_eqb {A} (eqb : A -> A -> bool) (l1 l2 : list A) : bool :=
  match l1, l2 with
  | [], [] => true
  | a :: r1, b :: r2 => eqb a b && list_eqb eqb r1 r2
  | _, _ => false
  end.

Fixpoint node_eqb (n1 n2 : node) : bool :=
  let 'Nd t1 e1 p1 b1 u1 x1 c1 := n1 in
  let 'Nd t2 e2 p2 b2 u2 x2 c2 := n2 in
  N.eqb t1 t2 && Z.eqb e1 e2 && N.eqb p1 p2 && N.eqb b1 b2 && list_eqb Z.eqb u1 u2 &&
  list_eqb N.eqb x1 x2 &&
  (fix go (l1 l2 : list node) : bool :=
     match l1, l2 with
     | [], [] => true
     | a :: r1, b :: r2 => node_eqb a b && go r1 r2
     | _, _ => false
     end) c1 c2.

Definition dword_of (n : N) : dword :=
  match n with
  | 0 => DEmpty | 1 => DBlock | 2 => DInline | 3 => DFlow | 4 => DFlowRoot | 5 => DTable | 6 => DFlex
  | 7 => DGrid | 8 => DListItem | 9 => DTableRow | 10 => DTableRowGroup | 11 => DTableHeaderGroup
  | 12 => DTableFooterGroup | 13 => DTableColumn | 14 => DTableColumnGroup | 15 => DTableCell
  | 16 => DTableCaption | 17 => DNone | _ => DOther
  end%N.

Definition class_bits (t : bty) : N :=
  (b2n (parent_t t) 0 + b2n (block_level_t t) 1 + b2n (inline_level_t t) 2 + b2n (block_container_t t) 3 +
   b2n (flex_container_t t) 4 + b2n (grid_container_t t) 5 + b2n (table_t t) 6 + b2n (replaced_t t) 7 +
   b2n (atomic_inline_t t) 8 + b2n (block_box_t t) 9 + b2n (bty_eqb t InlineT) 10 +
   b2n (proper_table_child_t t) 11 + b2n (internal_table_or_caption_t t) 12 + b2n (tabular_container_t t) 13)%N.

Definition model_tree (input : node) : option (res box) :=
  match box_of_input input with
  | Some b => Some (create_anonymous b)
  | None => None
  end.

(* for replays: what the model computes *)
Inductive model_result :=
| MTree (n : node) (hidden footnote_roots : list Z) | MPanic (site : N) | MOutOfFuel | MMalformed | MOpt (t : option bty) | MBits (n : N) | MBool (b : bool).

Definition model_out (c : case) : model_result :=
  match c with
  | CTree input doc _ _ _ _ =>
      match model_tree input with
      | Some (Ok b) => MTree (node_of_box b) (hidden_ids doc) (note_roots (e2b doc))
      | Some (Panic s) => MPanic s
      | Some OutOfFuel => MOutOfFuel
      | None => MMalformed
      end
  | CMakeBox d0 d1 d2 _ => MOpt (make_box_type (dword_of d0) (dword_of d1) (dword_of d2))
  | CClasses t _ => match bty_of t with Some t => MBits (class_bits t) | None => MMalformed end
  | CProperParents p c _ =>
      match bty_of p, bty_of c with Some p, Some c => MBool (in_proper_parents p c) | _, _ => MMalformed end
  end.

(* no box for a display:none pseudo-element *)
Fixpoint no_pseudo_box_for (l : list hps) (b : box) : bool :=
  negb (existsb (fun h => let 'HP e p := h in Z.eqb e (a_el (at_ b)) && N.eqb p (a_pseudo (at_ b))) l) &&
  forallb (no_pseudo_box_for l) (ch b).

(* l1 is a subsequence of l2 *)
Fixpoint subseq (l1 l2 : list Z) : bool :=
  match l2 with
  | [] => match l1 with [] => true | _ => false end
  | b :: r2 => match l1 with
               | [] => true
               | a :: r1 => if Z.eqb a b then subseq r1 r2 else subseq l1 r2
               end
  end.

(* every pair of overlapping cells of every table is colspan-over-rowspan *)
Fixpoint tables_overlaps_explained (b : box) : bool :=
  running b ||
  ((if table_t (ty b) then forallb (fun g => overlaps_explained (group_slots g)) (filter (is RowGroupT) (ch b)) else true)
   && forallb tables_overlaps_explained (ch b)).

Definition check (c : case) : N :=
  match c with
  | CTree input doc status output fnotes hp =>
      let hidden := hidden_ids doc in
      match box_of_input input, model_tree input, all_some (map box_of_input fnotes) with
      | Some bin, Some r, Some fb =>
          if negb (no_box_for hidden bin && forallb (no_box_for hidden) fb) then 4%N
          else if negb (no_pseudo_box_for hp bin && forallb (no_pseudo_box_for hp) fb) then 4%N
          else if negb (subseq (map (fun b => a_el (at_ b)) fb) (note_roots (e2b doc))) then 13%N
          else
          match r, status with
          | Ok b, 0%N =>
              if negb (node_eqb (node_of_box b) output) then 1%N
              else match box_of_output output with
                   | Some bo =>
                       if negb (wf_root bo) then 3%N
                       else if negb (no_box_for hidden bo && no_pseudo_box_for hp bo) then 4%N
                       else if negb (tables_disjoint bo) then
                              (if tables_overlaps_explained bo then 11%N else 12%N)
                       else 0%N
                   | None => 7%N
                   end
          | Ok _, _ => 5%N
          | _, 0%N => 6%N
          | _, _ => 0%N          (* both sides crash *)
          end
      | _, _, _ => 7%N
      end
  | CMakeBox d0 d1 d2 res =>
      let m := match make_box_type (dword_of d0) (dword_of d1) (dword_of d2) with
               | Some t => (1 + bty_code t)%N | None => 0%N end in
      if N.eqb m res then 0%N else 8%N
  | CClasses t bits =>
      match bty_of t with
      | Some t => if N.eqb (class_bits t) bits then 0%N else 9%N
      | None => 7%N
      end
  | CProperParents p c r =>
      match bty_of p, bty_of c with
      | Some p, Some c => if Bool.eqb (in_proper_parents p c) r then 0%N else 10%N
      | _, _ => 7%N
      end
  end.

Fixpoint mismatches (i : N) (cs : list case) : list (N * N) :=
  match cs with
  | [] => []
  | c :: r => let k := check c in
              if N.eqb k 0 then mismatches (N.succ i) r else (i, k) :: mismatches (N.succ i) r
  end.
