(* Check/C03.v -- correspondence between /repo's cascade and Css/Cascade.v.
   The Go harness (go/cmd/c03) materialises a generated document (UA sheet, user
   sheets, <style>/<link>, @import, @media, nested rules, style attributes,
   presentational attributes), runs tree.GetAllComputedStyles and records, for
   every element of the body and every property of the pool, the integer it read
   back from the computed style (0 = no declaration won: initial value).
   `check` recomputes the winner with the model.
   codes: 0 agree, 1 cascaded value differs, 3 precedence table differs,
          4 weight.Less differs, 5 flattened rule list differs,
          6 cascaded value differs from the SPECIFICATION while it agrees with the
            model (CDocSpec: documents outside the domain of the model = spec
            theorem, i.e. with `&` in a top-level rule, are compared with
            CascadeSpec.cascaded directly; a CDocSpec document on which the
            implementation differs from the model gets code 1). *)
From Verif Require Export Css.Cascade Css.CascadeSpec Css.CascadeImport.
From Coq Require Import List NArith Bool.
Import ListNotations.
Open Scope N_scope.

(* element as the harness read it from the parsed DOM *)
Inductive cnode := CN (tag : N) (id : option N) (classes : list N) (style : list decl)
                      (width height size : option N).
Inductive ob := Ob (prop : N) (vid : N).
(* what was observed on the pseudo-element k (1 before, 2 after, 3 marker) of an
   element; present = false: StyleFor.Get returned nil (no rule selected it) *)
Inductive pobs := PO (k : N) (present : bool) (obs : list ob).
(* an element (itself :: ancestors) and what was observed on it *)
Inductive eobs := EO (p : list cnode) (obs : list ob) (pseudos : list pobs).
(* sheets name their imports by URL (Css/CascadeImport.v); `files` = what the
   harness' fetcher serves *)
Inductive usheet := US (device : N) (r : urules).
Inductive ufile := UF (url : N) (r : urules).
Inductive s3 := S3 (a b c : N).
Inductive fdump := FD (specs : list s3) (ds : list decl).

Inductive case :=
| CDoc (device : N) (hints : bool) (ua : urules) (ua_device : N) (ph : urules) (ph_device : N)
       (authors : list uauthor) (users : list usheet) (files : list ufile) (elems : list eobs)
| CDocSpec (device : N) (hints : bool) (ua : urules) (ua_device : N) (ph : urules) (ph_device : N)
       (authors : list uauthor) (users : list usheet) (files : list ufile) (elems : list eobs)
| CPrec (o : origin) (important : bool) (out : N)
| CLess (w1 w2 : weight) (out : bool)
| CFlat (device : N) (files : list ufile) (r : urules) (out : list fdump).

Definition to_env (fs : list ufile) : env := map (fun f => let 'UF u r := f in (u, r)) fs.

Definition to_node (c : cnode) : node :=
  let 'CN tag id cl st w h s := c in mkNode tag id cl st (hints_of tag w h s).

Definition to_doc (c : case) : document :=
  match c with
  | CDoc dev hints ua uad ph phd authors users files _
  | CDocSpec dev hints ua uad ph phd authors users files _ =>
      (* every @import replaced by the sheet its URL serves (cycle guard):
         CascadeImportProofs.flatten_env_expand *)
      expand_doc (mkUDoc dev hints ua uad ph phd authors
                         (map (fun u => let 'US d r := u in (d, r)) users) (to_env files))
  | _ => mkDoc 0 false RNil 0 RNil 0 [] []
  end.

(* properties of the pool: 0 z-index 1 orphans 2 widows 3 order 4 column-count
   5 tab-size 6 width 7 height; 1, 2 and 5 are inherited: when no declaration
   applies the computed style shows the parent's value *)
Definition inherited (p : N) : bool := (p =? 1) || (p =? 2) || (p =? 5).

(* f = the cascade: Cascade.used d (model) or CascadeSpec.cascaded d (specification) *)
Definition cascade_fn := N -> path -> N -> option N.

Fixpoint expected (f : cascade_fn) (p : path) (prop : N) : N :=
  match p with
  | [] => 0
  | _ :: anc =>
      match f 0 p prop with
      | Some v => v
      | None => if inherited prop then expected f anc prop else 0
      end
  end.

(* a pseudo-element inherits from its element *)
Definition expected_pseudo (f : cascade_fn) (k : N) (p : path) (prop : N) : N :=
  match f k p prop with
  | Some v => v
  | None => if inherited prop then expected f p prop else 0
  end.

Definition pseudo_out (f : cascade_fn) (p : path) (po : pobs) : list N :=
  let 'PO k present obs := po in
  map (fun o => let 'Ob prop _ := o in
                if present then expected_pseudo f k p prop
                else match f k p prop with Some v => v | None => 0 end) obs.

Definition elem_out (f : cascade_fn) (e : eobs) : list N :=
  let 'EO p obs ps := e in
  map (fun o => let 'Ob prop _ := o in expected f (map to_node p) prop) obs
  ++ flat_map (pseudo_out f (map to_node p)) ps.

Definition obs_vals (obs : list ob) : list N := map (fun o => let 'Ob _ v := o in v) obs.

Definition elem_impl (e : eobs) : list N :=
  let 'EO _ obs ps := e in
  obs_vals obs ++ flat_map (fun po => let 'PO _ _ o := po in obs_vals o) ps.

Fixpoint nlist_eqb (a b : list N) : bool :=
  match a, b with
  | [], [] => true
  | x :: r, y :: s => (x =? y) && nlist_eqb r s
  | _, _ => false
  end.

Definition dump_flat (l : list frule) : list (list N * list decl) :=
  map (fun r => (flat_map (fun s => let '(a, b, c) := specificity s in [a; b; c]) (fst r), snd r)) l.

Definition decl_eqb (a b : decl) : bool :=
  (d_prop a =? d_prop b) && (d_vid a =? d_vid b) && Bool.eqb (d_imp a) (d_imp b).

Fixpoint dlist_eqb (a b : list decl) : bool :=
  match a, b with
  | [], [] => true
  | x :: r, y :: s => decl_eqb x y && dlist_eqb r s
  | _, _ => false
  end.

Fixpoint flat_eqb (m : list (list N * list decl)) (o : list fdump) : bool :=
  match m, o with
  | [], [] => true
  | (sp, ds) :: r, FD sp' ds' :: s =>
      nlist_eqb sp (flat_map (fun x => let 'S3 a b c := x in [a; b; c]) sp') && dlist_eqb ds ds' && flat_eqb r s
  | _, _ => false
  end.

(* model observable (printed in replays) *)
Definition model_out (c : case) : list (list N) :=
  match c with
  | CDoc _ _ _ _ _ _ _ _ _ elems => map (elem_out (used (to_doc c))) elems
  | CDocSpec _ _ _ _ _ _ _ _ _ elems => map (elem_out (cascaded (to_doc c))) elems
  | CPrec o i _ => [[declaration_precedence o i]]
  | CLess a b _ => [[if w_less a b then 1 else 0]]
  | CFlat dev fs r _ => map (fun x => fst x ++ [999] ++ flat_map (fun d => [d_prop d; d_vid d; if d_imp d then 1 else 0]) (snd x))
                         (dump_flat (flatten_env dev (to_env fs) r))
  end.

Definition check (c : case) : N :=
  match c with
  | CDoc _ _ _ _ _ _ _ _ _ elems =>
      let d := to_doc c in
      if forallb (fun e => nlist_eqb (elem_out (used d) e) (elem_impl e)) elems then 0 else 1
  | CDocSpec _ _ _ _ _ _ _ _ _ elems =>
      let d := to_doc c in
      (* 6 = the documented deviation only: the implementation does what the
         faithful model says (top-level `&` weighs (0,1,0)) and that differs from
         the specification; anything else is an ordinary disagreement *)
      if forallb (fun e => nlist_eqb (elem_out (used d) e) (elem_impl e)) elems
      then if forallb (fun e => nlist_eqb (elem_out (cascaded d) e) (elem_impl e)) elems then 0 else 6
      else 1
  | CPrec o i out => if declaration_precedence o i =? out then 0 else 3
  | CLess a b out => if Bool.eqb (w_less a b) out then 0 else 4
  | CFlat dev fs r out => if flat_eqb (dump_flat (flatten_env dev (to_env fs) r)) out then 0 else 5
  end.

Fixpoint mismatches (i : N) (cs : list case) : list (N * N) :=
  match cs with
  | [] => []
  | c :: r => let k := check c in
              if N.eqb k 0 then mismatches (N.succ i) r else (i, k) :: mismatches (N.succ i) r
  end.
