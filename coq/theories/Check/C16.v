(* Check/C16.v -- correspondence between /repo's stacking-context construction
   and paint sequence (html/document/stacking.go, draw.go) and the model of
   Draw/Stacking.v.  The Go harness (go/cmd/c16) writes one `case` per rendered
   page: the laid-out box tree in abstract form and the sequence of events the
   recording backend received (fills and texts named by their unique colours,
   Push/Pop of clip / opacity group / transform).  `check` runs the model on the
   same tree and compares the observable events.
   codes: 0 agree, 1 the event sequences differ, 2 skipped (a table part with a visible background / border: drawTable's layers are not modelled), 10 tree with a table: text events out of order,
          3 the model panics but the implementation did not, 4 the implementation
          panicked while drawing but the model does not,
          5 implementation = model but both differ from the Appendix E
            specification instantiated with the implementation's notion of
            stacking context (PaintSpec.impl_forms_ctx): the theorem
            C16_paint_order_spec excludes this for well-formed trees,
          6 implementation = model = that specification, but the order of the
            fills and texts differs from Appendix E with CSS's own notion of
            stacking context (overflow != visible does not form one); reported
            as 6 only when the tree contains an overflow != visible box that
            is not a CSS stacking context AND the two orders agree once the
            events of the sub-trees of those boxes are deleted from both,
          9 otherwise (a deviation from Appendix E not confined to overflow boxes),
          8 one of the statements of Properties/C16.v that are proved only in part
            (every event at most once, nothing of a box after its outline and
            content after border, the events of a sub-tree all inside the
            Push/Pop of its root) fails on the model's events of this tree,
          7 everything agrees, but the tree is outside wf_shape, the hypothesis
            of the theorems (informational: counted as skipped).            *)
From Verif Require Export Draw.Stacking Draw.PaintSpec.
From Coq Require Import List ZArith NArith Bool.
Import ListNotations.

(* flags: 1 positioned, 2 z-index auto, 4 floated, 8 opacity<1, 16 transform, 32 overflow != visible,
   64 the transform matrix is not invertible *)
Definition mkb (id : N) (k : kind) (flags : N) (z : Z) (vis : N) : binfo :=
  mkB id k (N.testbit flags 0) (if N.testbit flags 1 then None else Some z)
      (N.testbit flags 2) (N.testbit flags 3) (N.testbit flags 4) (N.testbit flags 5) vis
      (N.testbit flags 6).

(* a backend event whose colour names no box *)
Definition Unknown (n : N) : event := TableLayers (1000000000 + n).

Inductive case :=
| CPage (pi : binfo) (canvas : N) (roots : list box) (crashed noclip : bool) (impl : list event).

Definition effect_eqb (a b : effect) : bool :=
  match a, b with
  | EClip, EClip | EOpacity, EOpacity | ETransform, ETransform => true
  | _, _ => false
  end.

Definition event_eqb (a b : event) : bool :=
  match a, b with
  | Bg x, Bg y | Border x, Border y | Content x, Content y | Outline x, Outline y
  | TableLayers x, TableLayers y | CanvasBg x, CanvasBg y => N.eqb x y
  | Push e x, Push f y | Pop e x, Pop f y => effect_eqb e f && N.eqb x y
  | _, _ => false
  end.

Fixpoint events_eqb (l1 l2 : list event) : bool :=
  match l1, l2 with
  | [], [] => true
  | a :: r1, b :: r2 => event_eqb a b && events_eqb r1 r2
  | _, _ => false
  end.

(* which events can reach the backend: bvis of the box (bit 0 bg, 1 border, 2 content, 3 outline) *)
Fixpoint vis_table (b : box) : list (N * N) :=
  match b with Box i cs => (bid i, bvis i) :: flat_map vis_table cs end.

Definition vis_of (t : list (N * N)) (id : N) : N :=
  match find (fun p => N.eqb (fst p) id) t with Some p => snd p | None => 0%N end.

Definition visible (t : list (N * N)) (noclip : bool) (e : event) : bool :=
  match e with
  | Bg id => N.testbit (vis_of t id) 0
  | Border id => N.testbit (vis_of t id) 1
  | Content id => N.testbit (vis_of t id) 2
  | Outline id => N.testbit (vis_of t id) 3
  | Push EClip _ | Pop EClip _ => negb noclip
  | _ => true
  end.

Fixpoint has_table (b : box) : bool :=
  match b with
  | Box i cs => match bkind i with KTable | KTableCell | KOther => true | _ => false end
                || existsb has_table cs
  end.

Definition model_events (c : case) : res (list event) :=
  match c with
  | CPage pi canvas roots _ noclip _ =>
    let t := (bid pi, bvis pi) :: flat_map vis_table roots in
    res_map (filter (visible t noclip)) (paint_page pi canvas roots)
  end.

(* for replays: the model's observable *)
Definition model_out (c : case) : res (list event) := model_events c.

Definition zsort_by (level : binfo -> Z) : list box -> list box :=
  isort (fun b => level (binfo_of b)).

(* Appendix E with the implementation's stacking contexts *)
Definition spec_events (c : case) : list event :=
  match c with
  | CPage pi canvas roots _ noclip _ =>
    let t := (bid pi, bvis pi) :: flat_map vis_table roots in
    filter (visible t noclip) (spec_page impl_forms_ctx css_level (zsort_by css_level) pi canvas roots)
  end.

(* Appendix E with CSS's stacking contexts; clips are not compared *)
Definition strict_events (c : case) : list event :=
  match c with
  | CPage pi canvas roots _ _ _ =>
    let t := (bid pi, bvis pi) :: flat_map vis_table roots in
    filter (visible t true) (spec_page css_forms_ctx css_level (zsort_by css_level) pi canvas roots)
  end.

Definition no_clip (e : event) : bool :=
  match e with Push EClip _ | Pop EClip _ => false | _ => true end.

(* ---- the statements of Properties/C16.v that are not proved in full, as
   boolean tests evaluated on the model's events of every case whose box ids
   are unique (a failure refutes the statement: code 8) ---- *)
Fixpoint mem_event (e : event) (l : list event) : bool :=
  match l with [] => false | x :: r => event_eqb e x || mem_event e r end.
Fixpoint nodup_events (l : list event) : bool :=
  match l with [] => true | e :: r => negb (mem_event e r) && nodup_events r end.
Fixpoint memN (x : N) (l : list N) : bool :=
  match l with [] => false | y :: r => N.eqb x y || memN x r end.
Fixpoint nodupN (l : list N) : bool :=
  match l with [] => true | x :: r => negb (memN x r) && nodupN r end.
Fixpoint all_ids (b : box) : list N := match b with Box i cs => bid i :: flat_map all_ids cs end.
Fixpoint subtree_of (id : N) (b : box) : list N :=
  match b with Box i cs => if N.eqb (bid i) id then all_ids b else flat_map (subtree_of id) cs end.
Definition event_id (e : event) : N :=
  match e with
  | Bg id | Border id | Content id | Outline id | Push _ id | Pop _ id | TableLayers id | CanvasBg id => id
  end.
(* nothing of a box is painted after its outline; its content not before its border *)
Fixpoint order_ok (l : list event) : bool :=
  match l with
  | [] => true
  | Outline id :: r => negb (mem_event (Bg id) r) && negb (mem_event (Border id) r)
                       && negb (mem_event (Content id) r) && order_ok r
  | Content id :: r => negb (mem_event (Bg id) r) && negb (mem_event (Border id) r) && order_ok r
  | _ :: r => order_ok r
  end.
(* the events of the sub-tree of id all lie between Push e id and its Pop *)
Fixpoint upto_pop (e : effect) (id : N) (l : list event) : list event :=   (* the part after the Pop *)
  match l with
  | [] => []
  | Pop e' id' :: r => if effect_eqb e e' && N.eqb id id' then r else upto_pop e id r
  | _ :: r => upto_pop e id r
  end.
Fixpoint bracket_exact (roots : list box) (before l : list event) : bool :=
  match l with
  | [] => true
  | Push e id :: r =>
    let sub := flat_map (subtree_of id) roots in
    let outside := before ++ upto_pop e id r in
    (* overflow clips the content only: the box's own background / border / opacity group / transform and the
       outlines (step 10) of its sub-tree are painted outside the clip *)
    let allowed := fun x => match x with
                            | Push _ i | Pop _ i => N.eqb i id      (* the other group effects of the same box *)
                            | Bg i | Border i => match e with EClip => N.eqb i id | _ => false end
                            | Outline _ => match e with EClip => true | _ => false end
                            | _ => false
                            end in
    forallb (fun x => negb (memN (event_id x) sub) || allowed x) outside && bracket_exact roots (before ++ [Push e id]) r
  | x :: r => bracket_exact roots (before ++ [x]) r
  end.

(* boxes with overflow != visible that are not stacking contexts for CSS (C16_overflow_only_difference:
   without them Appendix E with the implementation's contexts = Appendix E with CSS's): the ids of their sub-trees *)
Definition noncss_clip (i : binfo) : bool := bclip i && negb (css_forms_ctx i).
Fixpoint clip_ids (b : box) : list N :=
  match b with Box i cs => if noncss_clip i then all_ids b else flat_map clip_ids cs end.

Definition statements_hold (pi : binfo) (canvas : N) (roots : list box) : bool :=
  if negb (nodupN (bid pi :: flat_map all_ids roots)) then true
  else match paint_page pi canvas roots with
       | Ok evs => nodup_events evs && order_ok evs && bracket_exact roots [] evs
       | _ => true
       end.

(* Tables.  The bookkeeping of dispatch for table cells (a cell goes to blocksAndCells only,
   stacking.go:151-154; its line content is painted in step 7 in tree order together with the
   block content) is in the model.  drawTable's layered backgrounds / borders are not: the model
   stands for them by the single event TableLayers, which the trace translation never produces.
   A tree whose table parts (table, row groups, rows, cells, columns) have NO visible background
   or border is compared on everything else (the TableLayers events are dropped on the model side);
   a tree with a decorated table part is skipped (code 2). *)
Definition table_layer (e : event) : bool :=
  match e with TableLayers id => N.ltb id 1000000000 | _ => false end.
Definition drop_layers (l : list event) : list event := filter (fun e => negb (table_layer e)) l.
Fixpoint table_decorated (b : box) : bool :=
  match b with
  | Box i cs => match bkind i with
                | KTable | KTableCell | KOther => negb (N.eqb (N.land (bvis i) 3) 0)
                | _ => false
                end || existsb table_decorated cs
  end.
Definition is_content (e : event) : bool := match e with Content _ => true | _ => false end.

Definition check (c : case) : N :=
  match c with
  | CPage pi canvas roots crashed noclip impl =>
    if existsb table_decorated roots then 2%N
    else match res_map drop_layers (model_events c) with
         | Ok evs => if crashed then 4%N
                     else if negb (events_eqb evs impl) then
                            (* 10: a tree with a table whose TEXT events (step 7) are out of order *)
                            if existsb has_table roots && negb (events_eqb (filter is_content evs) (filter is_content impl))
                            then 10%N else 1%N
                     else if negb (events_eqb (drop_layers (spec_events c)) impl) then 5%N
                     else if negb (statements_hold pi canvas roots) then 8%N
                     else if negb (events_eqb (drop_layers (strict_events c)) (filter no_clip impl)) then
                            (* the deviation from CSS's own stacking contexts is attributed to the overflow boxes
                               only if (a) the tree has an overflow != visible box that CSS does not make a
                               stacking context and (b) outside the sub-trees of those boxes the two orders agree *)
                            let cl := flat_map clip_ids roots in
                            let out := fun e => negb (memN (event_id e) cl) in
                            if match cl with [] => false | _ => true end
                               && events_eqb (filter out (drop_layers (strict_events c))) (filter out (filter no_clip impl))
                            then 6%N else 9%N
                     else if negb (forallb wf_shape roots) then 7%N
                     else 0%N
         | _ => if crashed then 0%N else 3%N
         end
  end.

(* ---- source-level tie (go/cmd/c16/sortscan): the calls of sorting functions
   on the z-index lists of html/document/stacking.go.  The theorems take the
   sort as ANY function meeting sort.SliceStable's contract; the obligation
   generated on every run is `sort_sites_ok sites = true`: every such call is
   a sort whose documented contract includes stability (s_list, informational:
   bit 0 negativeZContexts, bit 1 positiveZContexts; a list that is not sorted
   at all, or sorted by hand-written code, is the runtime stream's business). ---- *)
Record sort_site := mkSite { s_line : N; s_stable : bool; s_list : N }.
Definition sort_sites_ok (l : list sort_site) : bool := forallb s_stable l.

Fixpoint mismatches (i : N) (cs : list case) : list (N * N) :=
  match cs with
  | [] => []
  | c :: r => let k := check c in
              if N.eqb k 0 then mismatches (N.succ i) r else (i, k) :: mismatches (N.succ i) r
  end.
