(* Check/C01.v -- whole-pipeline stream of C01.  The Go harness (go/cmd/c01)
   renders one random document per case through tree.NewHTML -> document.Render
   -> Write(recording backend) in a watchdog-ed worker and records:
     outcome   0 Ok (returned to the caller) | 1 Panic | 2 Fatal (process died) | 3 Hang
     rounds    number of re-pagination rounds (layout.go 147)
     top       kinds of the children of the parsed document node
     root_idx / root_kind   the root tree.NewHTML chose among them
   The model side is the specification "rendering returns": outcome Ok, rounds
   within maxLoops (Layout/PageLoop.v), root = first element child
   (Css/FindRoot.v, repaired version).
   codes: 0 agree | 1 panic | 3 fatal | 4 hang | 5 more than maxLoops rounds |
          6 root differs from the model | (2 is reserved for "skipped") *)
From Verif Require Export Base.GoSem Css.FindRoot Layout.PageLoop.
From Coq Require Import List NArith ZArith.
Import ListNotations.

Inductive case :=
| CRun (outcome : N) (rounds : N) (top : list topnode) (root_idx : Z) (root_kind : N).

Definition kind_code (k : topnode) : N :=
  match k with Doctype => 0 | Comment => 1 | Elem => 2 | Text => 3 | Other => 4 end%N.

(* what the model says the implementation must have observed:
   (outcome, max rounds, root index, root kind) *)
Definition model_out (c : case) : N * N * Z * N :=
  match c with
  | CRun _ _ top _ _ =>
      match find_root top with
      | Ok (Some i) => (0%N, N.of_nat max_loops_default, i, kind_code (kind_at top i))
      | _ => (0%N, N.of_nat max_loops_default, (-1)%Z, 4%N)
      end
  end.

Definition check (c : case) : N :=
  match c with
  | CRun outcome rounds top idx kind =>
      let '(_, maxr, mi, mk) := model_out c in
      match outcome with
      | 0%N =>
          if (maxr <? rounds)%N then 5%N
          else if negb (Z.eqb idx mi) then 6%N
          else if (Z.leb 0 mi && negb (N.eqb kind mk))%bool then 6%N
          else 0%N
      | 1%N => 1%N
      | 2%N => 3%N
      | _ => 4%N
      end
  end.

Fixpoint mismatches (i : N) (cs : list case) : list (N * N) :=
  match cs with
  | [] => []
  | c :: r => let k := check c in
              if N.eqb k 0 then mismatches (N.succ i) r else (i, k) :: mismatches (N.succ i) r
  end.
