(* Check/C01.v -- whole-pipeline stream of C01.  The Go harness (go/cmd/c01)
   renders one random document per case through tree.NewHTML -> document.Render
   -> Write(recording backend) in a watchdog-ed worker and records:
     outcome   0 Ok (returned to the caller) | 1 Panic | 2 Fatal (process died) | 3 Hang
     rounds    number of re-pagination rounds (layout.go 147)
     top       kinds of the children of the parsed document node
     root_idx / root_kind   the root tree.NewHTML chose among them
   The model side is the specification "rendering returns": outcome Ok, rounds
   within maxLoops (Layout/PageLoop.v), root = first element child
   (Css/FindRoot.v, repaired version).
   A second kind of case (CPages) is the first pagination round of a document
   recorded page by page through the hook layout.VerifPageTrace and replayed on
   the model of remakePage / makeAllPages (see [replay]).
   codes: 0 agree | 1 panic | 3 fatal | 4 hang | 5 more than maxLoops rounds |
          6 root differs from the model | 7 page bookkeeping differs from the model |
          8 a reported footnote was not placed | 9 a page made no progress |
          (2 is reserved for "skipped") *)
From Verif Require Export Base.GoSem Css.FindRoot Layout.PageLoop.
From Coq Require Import List NArith ZArith.
Import ListNotations.

(* One call of remakePage during the first pagination round, as recorded by the
   hook layout.VerifPageTrace (html/layout/verif_export_c01.go):
     blank              the page was made as a blank page
     right, brk_in, res_in    pageMaker[index] read by the page (break: 0 any, 1 left, 2 right;
                        resume points: 0 = nil, k > 0 = k-th distinct resume point, numbered
                        by the harness in order of first appearance)
     res_out, brk_out   resume point returned / break stored for the next page
     fn_in, fn_out      len(context.reportedFootnotes) before / after the page
     broken             broken out-of-flow boxes handed to the next page
     un_in, un_out      footnotes not placed on any page yet (waiting list + reported)
                        before / after the page *)
Inductive pstep :=
| PStep (blank rgt : bool) (brk_in res_in res_out brk_out fn_in fn_out broken un_in un_out : N).

Inductive case :=
| CRun (outcome : N) (rounds : N) (top : list topnode) (root_idx : Z) (root_kind : N)
(* the pages of the first round, the number of footnote boxes of the document
   (informative: the bound F of the theorem is existential, and /repo may report
   the same footnote twice), and whether the recording stopped at its page cap
   before the loop ended *)
| CPages (steps : list pstep) (footnotes : N) (truncated : bool).

Definition brk_of (n : N) : brk := match n with 1%N => BLeft | 2%N => BRight | _ => BAny end.
Definition res_of (n : N) : option N := if N.eqb n 0 then None else Some n.
Definition page_eqb (a b : page) : bool :=
  match a, b with PContent, PContent | PBlank, PBlank => true | _, _ => false end.

(* Replay of a recorded first round on the model: every page goes through
   [remake_page] (Layout/PageLoop.v) with the layout of that ONE page instantiated
   by what the implementation recorded; compared: the page-maker item the page
   read, the blank-page decision, the resume point and break handed to the next
   page, the exit test of makeAllPages.  On the recorded pages the hypotheses of
   C01_page_loop_terminates are checked as well:
     8   a blank page (no content: only the loop over the reported footnotes places
         or reports footnotes) that received no footnote reports one, or one that
         received some did not place any: the number of footnotes not placed yet
         (waiting list + reported) must strictly decrease (H_fn_blank /
         report_loop_first_placed; counted on the unplaced footnotes because placing a
         footnote that itself contains footnote calls adds those to the reported list)
     9   a page with content returned a resume point seen before: no measure can
         decrease (H_progress)
     7   the bookkeeping of remakePage / makeAllPages differs from the model *)
Fixpoint replay (steps : list pstep) (F : nat) (truncated : bool)
         (i : nat) (pm : list (item N)) (fn : nat) (maxid : N) : N :=
  match steps with
  | [] => if truncated then 0%N else 7%N
  | PStep blank rgt brk_in res_in res_out brk_out fn_in fn_out broken un_in un_out :: rest =>
      let lc := fun (_ : option N) (_ : nat) =>
                  ((res_of res_out, brk_of brk_out, N.to_nat fn_out), (false, false)) in
      let lb := fun (_ : nat) => (N.to_nat fn_out, (false, false)) in
      match idx 909 pm i, remake_page N N.eqb lc lb (fun _ => false) i pm fn with
      | Ok it, Ok (pg, ra, fn', pm') =>
          if negb (resume_eqb N N.eqb (i_resume it) (res_of res_in) && brk_eqb (i_brk it) (brk_of brk_in)
                   && Bool.eqb (i_right it) rgt && Nat.eqb fn (N.to_nat fn_in)) then 7%N
          else if negb (page_eqb pg (if blank then PBlank else PContent)) then 7%N
          else if negb (resume_eqb N N.eqb ra (res_of res_out)) then 7%N
          else if negb (match nth_error pm' (S i) with
                        | Some nx => brk_eqb (i_brk nx) (brk_of brk_out)
                        | None => false end) then 7%N
          else if (blank && (if Nat.eqb fn 0 then negb (Nat.eqb fn' 0)
                             else negb (N.ltb un_out un_in) || negb (N.leb fn_out un_out)))%bool then 8%N
          else if (negb blank && is_some ra && negb (N.ltb maxid res_out))%bool then 9%N
          else if (is_none ra && Nat.eqb fn' 0)%bool then
            match rest with [] => if truncated then 7%N else 0%N | _ => 7%N end
          else replay rest F truncated (S i) pm' fn' (N.max maxid res_out)
      | _, _ => 7%N
      end
  end.

Definition kind_code (k : topnode) : N :=
  match k with Doctype => 0 | Comment => 1 | Elem => 2 | Text => 3 | Other => 4 end%N.

(* what the model says the implementation must have observed:
   (outcome, max rounds, root index, root kind) *)
Definition model_out (c : case) : N * N * Z * N :=
  match c with
  | CRun _ _ top _ _ =>
      match find_root top with
      | Ok (Some i) => (0%N, N.of_nat max_loops_default, i, kind_code (kind_at top i))
      | _ => (0%N, N.of_nat max_loops_default, (-1)%Z, 4%N)
      end
  | CPages steps F truncated =>
      (* the verdict of the replay (0 = the recorded round is a run of the model on
         which the hypotheses hold); the other components are not used *)
      (match steps with
       | PStep _ rgt brk_in _ _ _ _ _ _ _ _ :: _ =>
           replay steps (N.to_nat F) truncated 0 (initial_page_maker N (brk_of brk_in) rgt) 0 0%N
       | [] => 7%N
       end, 0%N, 0%Z, 0%N)
  end.

Definition check (c : case) : N :=
  match c with
  | CRun outcome rounds top idx kind =>
      let '(_, maxr, mi, mk) := model_out c in
      match outcome with
      | 0%N =>
          if (maxr <? rounds)%N then 5%N
          else if negb (Z.eqb idx mi) then 6%N
          else if (Z.leb 0 mi && negb (N.eqb kind mk))%bool then 6%N
          else 0%N
      | 1%N => 1%N
      | 2%N => 3%N
      | _ => 4%N
      end
  | CPages _ _ _ => let '(v, _, _, _) := model_out c in v
  end.

Fixpoint mismatches (i : N) (cs : list case) : list (N * N) :=
  match cs with
  | [] => []
  | c :: r => let k := check c in
              if N.eqb k 0 then mismatches (N.succ i) r else (i, k) :: mismatches (N.succ i) r
  end.
