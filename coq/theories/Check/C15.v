(* Check/C15.v -- correspondence for C15.  The Go harness (go/cmd/c15) renders
   documents with /repo and writes one `case` per comparison.

   CSame kind ref runs   the digests (one 64-bit hash per section: status/pages,
                         backend events, anchors, bookmarks, metadata) of a
                         reference render and of other renders of the SAME
                         document: repeated in the process (kind 0), in fresh
                         processes (1), concurrently with other documents vs
                         sequentially (2), after other documents vs alone (3);
                         kind 4: ONE document.Document written again (same zoom:
                         writes #2 and #4 vs #1; other zoom: write #3 vs the first
                         write of a fresh Document) -- Write is a function of
                         (Document, zoom), it keeps no state on the Document.
                         The model of a render is a function (Draw/Determinism.v:
                         every site is permutation-invariant, renders do not
                         interfere), so it predicts runs = ref.
   CAnchors pages        the anchors the backend received, per page, in order;
                         the model recomputes them from that content taken as the
                         maps (resolve_anchors is permutation-invariant, so the
                         implementation's own order is as good a representative
                         as any).
   CUnpack keys results  tree.ResumeStack.Unpack called repeatedly on one stack.
   COMap ops values      a history of operations on layout.brokenOutOfFlowMap and
                         the values() it finally lists.
   CRace n               number of reports of the Go race detector.
   codes: 0 agree; 1 repeat differs; 3 fresh process differs; 4 concurrent
   differs from sequential; 5 history dependence; 6 anchors not in model order;
   7 data race reported; 8 Unpack outside the model; 9 ordered map differs;
   10 a second Write of the same Document differs. *)
From Verif Require Export Draw.Determinism.
From Coq Require Import QArith List NArith ZArith Bool.
Import ListNotations.

Inductive case :=
| CSame (kind : N) (ref : list N) (runs : list (list N))
| CAnchors (pages : list (list anchor))
| CUnpack (keys : list Z) (results : list Z)
| COMap (ops : list om_op) (values : list N)
| CRace (reports : N).

Fixpoint nlist_eqb (a b : list N) : bool :=
  match a, b with
  | [], [] => true
  | x :: a', y :: b' => N.eqb x y && nlist_eqb a' b'
  | _, _ => false
  end.

Definition anchor_eqb (a b : anchor) : bool :=
  bytes_eqb (a_name a) (a_name b) && Qeq_bool (a_x a) (a_x b) && Qeq_bool (a_y a) (a_y b).

Fixpoint list_eqb {A} (eqb : A -> A -> bool) (a b : list A) : bool :=
  match a, b with
  | [], [] => true
  | x :: a', y :: b' => eqb x y && list_eqb eqb a' b'
  | _, _ => false
  end.

Definition single_stack (keys : list Z) : list (Z * rstack) := map (fun k => (k, RStack [])) keys.

Definition check (c : case) : N :=
  match c with
  | CSame kind ref runs =>
      if forallb (nlist_eqb ref) runs then 0%N
      else match kind with 0%N => 1%N | 1%N => 3%N | 2%N => 4%N | 4%N => 10%N | _ => 5%N end
  | CAnchors pages =>
      if list_eqb (list_eqb anchor_eqb) (resolve_anchors pages) pages then 0%N else 6%N
  | CUnpack keys results =>
      (* every result is the head of some permutation of the stack = one of its
         keys; on a one-key stack it is that key; an empty stack panics (-1) *)
      let ok := match keys with
                | [] => forallb (Z.eqb (-1)) results
                | [k] => forallb (Z.eqb k) results
                | _ => forallb (fun r => existsb (Z.eqb r) keys) results
                end in
      if ok then 0%N else 8%N
  | COMap ops values => if nlist_eqb (om_run ops) values then 0%N else 9%N
  | CRace n => if N.eqb n 0 then 0%N else 7%N
  end.

(* model observable for replays *)
Definition model_out (c : case) : list (list N) :=
  match c with
  | CSame _ ref _ => [ref]
  | CAnchors pages => map (fun p => concat (map (fun a => a_name a ++ [0%N]) p)) (resolve_anchors pages)
  | CUnpack keys _ => [map Z.to_N keys]
  | COMap ops _ => [om_run ops]
  | CRace _ => [[0%N]]
  end.

Fixpoint mismatches (i : N) (cs : list case) : list (N * N) :=
  match cs with
  | [] => []
  | c :: r => let k := check c in
              if N.eqb k 0 then mismatches (N.succ i) r else (i, k) :: mismatches (N.succ i) r
  end.
